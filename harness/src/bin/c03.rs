//! C03 correspondence harness: secured messages are accepted only if authentic for that
//! session and direction.
//!
//! usage: c03 gen <quick|thorough> <seed> <outdir>   -> cases.txt (+ stats.json)
//!        c03 run <cases-file>                        -> one canonical line per case from the REAL code
//!
//! Case kinds (the same lines are printed by ocaml/c03/driver.ml from the extracted model)
//!
//!   D <id> <world> <sessions> <groups> <from> <oracle> <prelude> <wire> <muts>
//!       the receive pipeline (`TransportRunner::decode_packet`, through the hook
//!       `verif_decode_packet`) on the datagram `wire` and on mutations of it, every one from
//!       the same base state (session table rebuilt when a decode changed it)
//!   R <id> <world> <sender session> <exch|-> <gctr|-> <pid> <opcode> <rel> <payload>
//!          <receiver sessions> <groups> <from> <oracle>
//!       round trip: the real TX path (`write_packet` = payload, `pre_send`, `encode`) on the
//!       sender's session, then the real receive pipeline on the receiver's table
//!
//!   world    `-` or `;`-joined `key:nonce:aad:pt:ct` (hex): the honest sealings, made at
//!            generation time with the raw AES-CCM primitive from nonce / associated data built by
//!            the harness according to the specification (security flags | counter | node id; the
//!            encoded plain header)
//!   sessions `-` or `;`-joined `mode:addr:lnode:pnode:deck:enck:lsid:psid:ctr:win:flags:exchs`
//!            mode P | A<fab> | C<fab> | G<fab>.<gid>; addr kind.v6.ip.port; pnode `-` = none;
//!            win synced.max.bitmap; flags <expired><reserved>; exchs `-` or `,`-joined slots
//!            `_` | id/role/state/retr/ack  (as in c10)
//!   groups   `-` or `;`-joined `fab:node:gid:key:sid` in the order the receiver tries them
//!   oracle   rand.evict  (evict `-` = none)
//!   prelude  `-` or `,`-joined ops run before the base state is taken: `w<hex>` decode that
//!            datagram from `from`, `r<idx>` remove the session in table slot idx
//!   muts     `,`-joined: `-` untouched, `f<bit>` flip, `t<len>` truncate to len, `x<hex>` append,
//!            `w<hex>` other datagram, `a<addr>` untouched datagram from another address,
//!            `F` every single-bit flip, `T` every truncation, `X` the 16 extensions
//!
//! Output: `D <id> <token> <token> ...`, one token per mutation:
//!   <class>[<fields>]<state>   class: k Ok(false) K Ok(true) T TruncatedPacket I Invalid
//!   D InvalidData S InvalidSignature N NoSession U Duplicate E NoExchange X NoSpaceExchanges
//!   Z NoSpaceSessions B BufferTooSmall ? other;  fields (when Ok) = `[plain;proto;payloadhex]`;
//!   state `=` unchanged or `!<sessions>|<group counter store>`.
//!   `F`/`T`/`X` give `<chars>` (one class char per member, `*` for a member that was
//!   delivered or changed state) followed by `@<index>:<token>` for every `*` member.
use core::num::NonZeroU8;
use std::collections::BTreeMap;
use std::fmt::Write as _;
use std::io::Write as _;
use std::net::{Ipv4Addr, Ipv6Addr, SocketAddr, SocketAddrV4, SocketAddrV6};

use rs_matter::crypto::{
    test_only_crypto, Aead, CanonAeadKey, Crypto, AEAD_NONCE_ZEROED,
};
use rs_matter::dm::devices::test::{TEST_DEV_ATT, TEST_DEV_COMM, TEST_DEV_DET};
use rs_matter::error::{Error, ErrorCode};
use rs_matter::fabric::GroupKeyMapping;
use rs_matter::group_keys::{GroupEpochKeyEntry, GroupKeySet, KeySet};
use rs_matter::transport::exchange::MessageMeta;
use rs_matter::transport::network::{Address, BtAddr};
use rs_matter::transport::packet::PacketHdr;
use rs_matter::transport::plain_hdr::PlainHdr;
use rs_matter::transport::proto_hdr::ProtoHdr;
use rs_matter::transport::session::{
    derive_group_session_id, ReservedSession, SessionMode, VerifSessionSnapshot,
};
use rs_matter::transport::verif_hooks::RxCtrState;
use rs_matter::transport::TransportRunner;
use rs_matter::utils::storage::WriteBuf;
use rs_matter::Matter;
use rsm_harness::Rng;

// ------------------------------------------------------------------ specs

#[derive(Clone, Debug, PartialEq)]
struct AddrS {
    kind: u8,
    v6: bool,
    ip: u128,
    port: u16,
}

impl AddrS {
    fn udp4(a: u8, port: u16) -> Self {
        AddrS { kind: 0, v6: false, ip: 0x0a00_0000 + a as u128, port }
    }
    fn to_real(&self) -> Address {
        if self.kind == 2 {
            let b = (self.ip as u64).to_be_bytes();
            return Address::Btp(BtAddr([b[2], b[3], b[4], b[5], b[6], b[7]]));
        }
        let sa = if self.v6 {
            SocketAddr::V6(SocketAddrV6::new(Ipv6Addr::from(self.ip), self.port, 0, 0))
        } else {
            SocketAddr::V4(SocketAddrV4::new(Ipv4Addr::from(self.ip as u32), self.port))
        };
        if self.kind == 1 {
            Address::Tcp(sa)
        } else {
            Address::Udp(sa)
        }
    }
    fn of_real(a: &Address) -> Self {
        let f = |kind: u8, sa: &SocketAddr| match sa {
            SocketAddr::V4(v) => AddrS { kind, v6: false, ip: u32::from(*v.ip()) as u128, port: v.port() },
            SocketAddr::V6(v) => AddrS { kind, v6: true, ip: u128::from(*v.ip()), port: v.port() },
        };
        match a {
            Address::Udp(sa) => f(0, sa),
            Address::Tcp(sa) => f(1, sa),
            Address::Btp(b) => {
                let mut v = 0u128;
                for x in b.0 {
                    v = (v << 8) | x as u128;
                }
                AddrS { kind: 2, v6: false, ip: v, port: 0 }
            }
        }
    }
    fn show(&self) -> String {
        format!("{}.{}.{}.{}", self.kind, self.v6 as u8, self.ip, self.port)
    }
    fn parse(s: &str) -> Self {
        let p: Vec<&str> = s.split('.').collect();
        AddrS { kind: p[0].parse().unwrap(), v6: p[1] == "1", ip: p[2].parse().unwrap(), port: p[3].parse().unwrap() }
    }
}

#[derive(Clone, Debug, PartialEq)]
enum Mode {
    Plain,
    Pase(u8),
    Case(u8),
    Group(u8, u16),
}

impl Mode {
    fn show(&self) -> String {
        match self {
            Mode::Plain => "P".into(),
            Mode::Pase(f) => format!("A{}", f),
            Mode::Case(f) => format!("C{}", f),
            Mode::Group(f, g) => format!("G{}.{}", f, g),
        }
    }
    fn parse(s: &str) -> Self {
        match s.as_bytes()[0] {
            b'P' => Mode::Plain,
            b'A' => Mode::Pase(s[1..].parse().unwrap()),
            b'C' => Mode::Case(s[1..].parse().unwrap()),
            _ => {
                let (f, g) = s[1..].split_once('.').unwrap();
                Mode::Group(f.parse().unwrap(), g.parse().unwrap())
            }
        }
    }
    fn to_real(&self) -> SessionMode {
        match self {
            Mode::Plain => SessionMode::PlainText,
            Mode::Pase(f) => SessionMode::Pase { fab_idx: *f },
            Mode::Case(f) => SessionMode::Case { fab_idx: NonZeroU8::new(*f).unwrap(), cat_ids: Default::default() },
            Mode::Group(f, g) => SessionMode::Group { fab_idx: NonZeroU8::new(*f).unwrap(), group_id: *g },
        }
    }
    fn of_real(m: &SessionMode) -> Self {
        match m {
            SessionMode::PlainText => Mode::Plain,
            SessionMode::Pase { fab_idx } => Mode::Pase(*fab_idx),
            SessionMode::Case { fab_idx, .. } => Mode::Case(fab_idx.get()),
            SessionMode::Group { fab_idx, group_id } => Mode::Group(fab_idx.get(), *group_id),
        }
    }
}

#[derive(Clone, Debug, PartialEq)]
struct ExchS {
    id: u16,
    role: char,
    state: char,
    retr: Option<u32>,
    ack: Option<(u32, bool)>,
}

#[derive(Clone, Debug, PartialEq)]
struct SessS {
    mode: Mode,
    addr: AddrS,
    lnode: u64,
    pnode: Option<u64>,
    deck: u32,
    enck: u32,
    lsid: u16,
    psid: u16,
    /// `None` prints as `?`: the random start of a session created by the receive path
    ctr: Option<u32>,
    win: (bool, u32, u16),
    expired: bool,
    reserved: bool,
    exchs: Vec<Option<ExchS>>,
}

fn opt_show<T: ToString>(o: &Option<T>) -> String {
    o.as_ref().map(|v| v.to_string()).unwrap_or_else(|| "-".into())
}

impl SessS {
    fn show(&self) -> String {
        let ex = if self.exchs.is_empty() {
            "-".to_string()
        } else {
            self.exchs
                .iter()
                .map(|s| match s {
                    None => "_".to_string(),
                    Some(e) => format!(
                        "{}/{}/{}/{}/{}",
                        e.id,
                        e.role,
                        e.state,
                        opt_show(&e.retr),
                        match e.ack {
                            Some((c, false)) => c.to_string(),
                            Some((c, true)) => format!("{}+", c),
                            None => "-".into(),
                        }
                    ),
                })
                .collect::<Vec<_>>()
                .join(",")
        };
        format!(
            "{}:{}:{}:{}:{}:{}:{}:{}:{}:{}.{}.{}:{}{}:{}",
            self.mode.show(),
            self.addr.show(),
            self.lnode,
            opt_show(&self.pnode),
            self.deck,
            self.enck,
            self.lsid,
            self.psid,
            self.ctr.map(|c| c.to_string()).unwrap_or_else(|| "?".into()),
            self.win.0 as u8,
            self.win.1,
            self.win.2,
            self.expired as u8,
            self.reserved as u8,
            ex
        )
    }
    fn parse(s: &str) -> Self {
        let p: Vec<&str> = s.split(':').collect();
        let w: Vec<&str> = p[9].split('.').collect();
        let exchs = if p[11] == "-" {
            vec![]
        } else {
            p[11]
                .split(',')
                .map(|t| {
                    if t == "_" {
                        None
                    } else {
                        let q: Vec<&str> = t.split('/').collect();
                        Some(ExchS {
                            id: q[0].parse().unwrap(),
                            role: q[1].chars().next().unwrap(),
                            state: q[2].chars().next().unwrap(),
                            retr: if q[3] == "-" { None } else { Some(q[3].parse().unwrap()) },
                            ack: if q[4] == "-" {
                                None
                            } else if let Some(c) = q[4].strip_suffix('+') {
                                Some((c.parse().unwrap(), true))
                            } else {
                                Some((q[4].parse().unwrap(), false))
                            },
                        })
                    }
                })
                .collect()
        };
        SessS {
            mode: Mode::parse(p[0]),
            addr: AddrS::parse(p[1]),
            lnode: p[2].parse().unwrap(),
            pnode: if p[3] == "-" { None } else { Some(p[3].parse().unwrap()) },
            deck: p[4].parse().unwrap(),
            enck: p[5].parse().unwrap(),
            lsid: p[6].parse().unwrap(),
            psid: p[7].parse().unwrap(),
            ctr: if p[8] == "?" { None } else { Some(p[8].parse().unwrap()) },
            win: (w[0] == "1", w[1].parse().unwrap(), w[2].parse().unwrap()),
            expired: &p[10][0..1] == "1",
            reserved: &p[10][1..2] == "1",
            exchs,
        }
    }
}

#[derive(Clone, Debug)]
struct GroupS {
    fab: u8,
    node: u64,
    gid: u16,
    key: u32,
    sid: u16,
}

#[derive(Clone, Debug)]
struct Entry {
    key: u32,
    nonce: Vec<u8>,
    aad: Vec<u8>,
    pt: Vec<u8>,
    ct: Vec<u8>,
}

fn hex(b: &[u8]) -> String {
    let mut s = String::with_capacity(b.len() * 2);
    for x in b {
        write!(s, "{:02x}", x).unwrap();
    }
    s
}

fn unhex(s: &str) -> Vec<u8> {
    (0..s.len() / 2).map(|i| u8::from_str_radix(&s[2 * i..2 * i + 2], 16).unwrap()).collect()
}

fn list_show<T>(l: &[T], f: impl Fn(&T) -> String) -> String {
    if l.is_empty() {
        "-".into()
    } else {
        l.iter().map(f).collect::<Vec<_>>().join(";")
    }
}

fn list_parse<T>(s: &str, f: impl Fn(&str) -> T) -> Vec<T> {
    if s == "-" {
        vec![]
    } else {
        s.split(';').map(f).collect()
    }
}

impl Entry {
    fn show(&self) -> String {
        format!("{}:{}:{}:{}:{}", self.key, hex(&self.nonce), hex(&self.aad), hex(&self.pt), hex(&self.ct))
    }
}

impl GroupS {
    fn show(&self) -> String {
        format!("{}:{}:{}:{}:{}", self.fab, self.node, self.gid, self.key, self.sid)
    }
    fn parse(s: &str) -> Self {
        let p: Vec<&str> = s.split(':').collect();
        GroupS {
            fab: p[0].parse().unwrap(),
            node: p[1].parse().unwrap(),
            gid: p[2].parse().unwrap(),
            key: p[3].parse().unwrap(),
            sid: p[4].parse().unwrap(),
        }
    }
}

// ------------------------------------------------------------------ keys

/// Key ids >= GROUP_KEY_BASE name group operational keys: the id selects the epoch key, the
/// operational key is derived from it by the real `KeySet::update` (compressed fabric id 0).
const GROUP_KEY_BASE: u32 = 1000;

fn raw_key_bytes(id: u32) -> [u8; 16] {
    let mut out = [0u8; 16];
    if id == 0 {
        return out;
    }
    let mut r = Rng::new(0xC03_0000 + id as u64);
    for c in out.chunks_mut(8) {
        c.copy_from_slice(&r.next().to_le_bytes());
    }
    out
}

fn canon_key(bytes: &[u8; 16]) -> CanonAeadKey {
    let mut k = CanonAeadKey::new();
    k.load_from_array(bytes);
    k
}

/// the key bytes a session holding key id `id` has
fn key_bytes<C: Crypto>(crypto: &C, id: u32) -> [u8; 16] {
    if id >= GROUP_KEY_BASE {
        let mut ks = KeySet::new();
        ks.update(crypto, canon_key(&raw_key_bytes(id)).reference(), &0u64).unwrap();
        let mut out = [0u8; 16];
        out.copy_from_slice(ks.op_key().access());
        out
    } else {
        raw_key_bytes(id)
    }
}

fn group_sid<C: Crypto>(crypto: &C, id: u32) -> u16 {
    derive_group_session_id(crypto, canon_key(&key_bytes(crypto, id)).reference()).unwrap()
}

fn fingerprint(bytes: &[u8]) -> u64 {
    let mut h = 0xcbf2_9ce4_8422_2325u64;
    for b in bytes {
        h = (h ^ *b as u64).wrapping_mul(0x0000_0100_0000_01b3);
    }
    h
}

struct KeyTable(BTreeMap<u64, u32>);

impl KeyTable {
    fn new<C: Crypto>(crypto: &C, ids: &[u32]) -> Self {
        let mut m = BTreeMap::new();
        m.insert(fingerprint(&[0u8; 16]), 0);
        for id in ids {
            m.insert(fingerprint(&key_bytes(crypto, *id)), *id);
        }
        KeyTable(m)
    }
    fn id_of(&self, fp: u64) -> u32 {
        *self.0.get(&fp).unwrap_or(&999_999)
    }
}

// ------------------------------------------------------------------ reference sealing (specification side)

/// nonce = security flags (1) | message counter (4, LE) | node id (8, LE)
fn spec_nonce(sec_flags: u8, ctr: u32, node: u64) -> Vec<u8> {
    let mut n = vec![sec_flags];
    n.extend_from_slice(&ctr.to_le_bytes());
    n.extend_from_slice(&node.to_le_bytes());
    n
}

/// AES-CCM with the raw primitive: ciphertext and tag
fn raw_seal<C: Crypto>(crypto: &C, key: &[u8; 16], nonce: &[u8], aad: &[u8], pt: &[u8]) -> Vec<u8> {
    let mut iv = AEAD_NONCE_ZEROED;
    iv.access_mut().copy_from_slice(nonce);
    let mut data = pt.to_vec();
    data.extend_from_slice(&[0u8; 16]);
    let n = pt.len();
    let mut aead = crypto.aead().unwrap();
    let out = aead.encrypt_in_place(canon_key(key).reference(), iv.reference(), aad, &mut data, n).unwrap();
    out.to_vec()
}

fn plain_bytes(p: &PlainHdr) -> Vec<u8> {
    let mut buf = [0u8; 64];
    let mut wb = WriteBuf::new(&mut buf);
    p.encode(&mut wb).unwrap();
    wb.as_slice().to_vec()
}

fn proto_bytes(x: &ProtoHdr) -> Vec<u8> {
    let mut buf = [0u8; 64];
    let mut wb = WriteBuf::new(&mut buf);
    x.encode(&mut wb).unwrap();
    wb.as_slice().to_vec()
}

/// the honest sealing of (header, payload) under key id `key` with the sender node id `node`:
/// the world entry and the datagram
fn honest<C: Crypto>(crypto: &C, key: u32, node: u64, hdr: &PacketHdr, payload: &[u8]) -> (Entry, Vec<u8>) {
    let aad = plain_bytes(&hdr.plain);
    let mut pt = proto_bytes(&hdr.proto);
    pt.extend_from_slice(payload);
    let (_, _, sec, ctr, _, _) = hdr.plain.verif_raw();
    let nonce = spec_nonce(sec, ctr, node);
    let ct = raw_seal(crypto, &key_bytes(crypto, key), &nonce, &aad, &pt);
    let mut wire = aad.clone();
    wire.extend_from_slice(&ct);
    (Entry { key, nonce, aad, pt, ct }, wire)
}

/// an unencrypted datagram
fn clear_wire(hdr: &PacketHdr, payload: &[u8]) -> Vec<u8> {
    let mut w = plain_bytes(&hdr.plain);
    w.extend_from_slice(&proto_bytes(&hdr.proto));
    w.extend_from_slice(payload);
    w
}

// ------------------------------------------------------------------ the real node

struct Node {
    matter: &'static Matter<'static>,
    n_fabrics: usize,
    /// unique ids of the sessions installed from the case's specification; every other
    /// session was created by the receive path (its message counter starts at random)
    spec_ids: std::cell::RefCell<Vec<u32>>,
}

impl Node {
    fn new() -> Self {
        let matter: &'static Matter<'static> =
            Box::leak(Box::new(Matter::new(&TEST_DEV_DET, TEST_DEV_COMM, &TEST_DEV_ATT, 5540)));
        Node { matter, n_fabrics: 0, spec_ids: Default::default() }
    }

    /// empty fabrics 1..=n with the group key sets / mappings of `groups` (in order)
    fn install_groups(&mut self, groups: &[GroupS]) {
        assert_eq!(self.n_fabrics, 0);
        let nfab = groups.iter().map(|g| g.fab).max().unwrap_or(0);
        self.matter.with_state(|state| {
            for _ in 0..nfab {
                state.fabrics.add_with_post_init(|_| Ok(())).unwrap();
            }
            for (i, g) in groups.iter().enumerate() {
                let fabric = state.fabrics.fabric_mut(NonZeroU8::new(g.fab).unwrap()).unwrap();
                // groups of one fabric that name the same key share one key set
                let first = groups.iter().position(|h| h.fab == g.fab && h.key == g.key).unwrap();
                let set_id = 100 + first as u16;
                if first == i {
                    let mut epoch_keys = rs_matter::utils::storage::Vec::new();
                    epoch_keys
                        .push(GroupEpochKeyEntry { epoch_key: canon_key(&raw_key_bytes(g.key)), epoch_start_time: 0 })
                        .map_err(|_| ())
                        .unwrap();
                    fabric
                        .groups_mut()
                        .key_set_add(GroupKeySet { group_key_set_id: set_id, group_key_security_policy: 0, epoch_keys })
                        .unwrap();
                }
                fabric
                    .groups_mut()
                    .key_map_add(GroupKeyMapping { group_id: g.gid, group_key_set_id: set_id })
                    .unwrap();
            }
        });
        self.n_fabrics = nfab as usize;
    }

    fn reset_sessions(&self) {
        self.matter.with_state(|state| state.verif_sessions().reset());
        self.spec_ids.borrow_mut().clear();
    }

    fn install_sessions<C: Crypto>(&self, crypto: &C, sessions: &[SessS]) {
        for s in sessions {
            let deck = canon_key(&key_bytes(crypto, s.deck));
            let enck = canon_key(&key_bytes(crypto, s.enck));
            {
                let mut rs = ReservedSession::reserve_now(self.matter, crypto).unwrap();
                rs.update(
                    s.lnode,
                    s.pnode.unwrap_or(0),
                    s.psid,
                    s.lsid,
                    s.addr.to_real(),
                    s.mode.to_real(),
                    Some(deck.reference()),
                    Some(enck.reference()),
                    None,
                    None,
                )
                .unwrap();
                rs.complete();
            }
            self.matter.with_state(|state| {
                let sessions = state.verif_sessions();
                let id = sessions.iter().last().unwrap().id();
                self.spec_ids.borrow_mut().push(id);
                let sess = sessions.get(id).unwrap();
                sess.verif_set_raw(s.ctr.unwrap_or(0), s.expired, s.reserved, s.pnode);
                *sess.verif_rx_ctr_state() = RxCtrState::verif_from_raw(s.win.0, s.win.1, s.win.2);
                for (i, slot) in s.exchs.iter().enumerate() {
                    let idx = sess.verif_add_exch(slot.as_ref().map(|e| e.id).unwrap_or(0), false).unwrap();
                    assert_eq!(idx, i);
                    match slot {
                        Some(e) => {
                            assert!(sess.verif_set_exch(i, e.role, e.state, e.retr, e.ack));
                        }
                        None => sess.verif_clear_exch(i),
                    }
                }
            });
        }
    }

    fn snapshot(&self, keys: &KeyTable) -> (Vec<SessS>, String) {
        self.matter.with_state(|state| {
            let sessions = state.verif_sessions();
            let spec_ids = self.spec_ids.borrow();
            let v: Vec<SessS> = sessions
                .iter()
                .map(|s| {
                    let snap = s.verif_snapshot();
                    let mut t = sess_of_snapshot(&snap, keys);
                    if !spec_ids.contains(&snap.id) {
                        t.ctr = None;
                    }
                    t
                })
                .collect();
            let mut g = Vec::new();
            let clock = sessions.verif_group_ctr_store().verif_for_each(|fab, node, max, bm, last| {
                g.push(format!("{}.{}.{}.{}.{}", fab, node, max, bm, last));
            });
            (v, format!("{}/{}", if g.is_empty() { "-".to_string() } else { g.join(",") }, clock))
        })
    }

    fn remove_slot(&self, idx: usize) {
        self.matter.with_state(|state| {
            let sessions = state.verif_sessions();
            let id = sessions.iter().nth(idx).map(|s| s.id());
            if let Some(id) = id {
                sessions.remove(id);
            }
        });
    }
}

fn sess_of_snapshot(s: &VerifSessionSnapshot, keys: &KeyTable) -> SessS {
    let n = s.exchanges.iter().map(|e| e.index + 1).max().unwrap_or(0);
    let mut exchs = vec![None; n];
    for e in s.exchanges.iter() {
        exchs[e.index] =
            Some(ExchS { id: e.exch_id, role: e.role, state: e.state, retr: e.retrans_ctr, ack: e.ack_ctr });
    }
    SessS {
        mode: Mode::of_real(&s.mode),
        addr: AddrS::of_real(&s.peer_addr),
        lnode: s.local_nodeid,
        pnode: s.peer_nodeid,
        deck: keys.id_of(s.dec_key_fingerprint),
        enck: keys.id_of(s.enc_key_fingerprint),
        lsid: s.local_sess_id,
        psid: s.peer_sess_id,
        ctr: Some(s.msg_ctr),
        win: s.rx_ctr_state,
        expired: s.expired,
        reserved: s.reserved,
        exchs,
    }
}

fn err_class(e: &Error) -> char {
    match e.code() {
        ErrorCode::TruncatedPacket => 'T',
        ErrorCode::Invalid => 'I',
        ErrorCode::InvalidData => 'D',
        ErrorCode::InvalidSignature => 'S',
        ErrorCode::NoSession => 'N',
        ErrorCode::Duplicate => 'U',
        ErrorCode::NoExchange => 'E',
        ErrorCode::NoSpaceExchanges => 'X',
        ErrorCode::NoSpaceSessions => 'Z',
        ErrorCode::BufferTooSmall => 'B',
        ErrorCode::InvalidState => 'V',
        ErrorCode::TxTimeout => 'O',
        _ => '?',
    }
}

fn hdr_show(h: &PacketHdr) -> String {
    let p = h.plain.verif_raw();
    let x = h.proto.verif_raw();
    format!("{}.{}.{}.{}.{}.{};{}.{}.{}.{}.{}.{}", p.0, p.1, p.2, p.3, p.4, p.5, x.0, x.1, x.2, x.3, x.4, x.5)
}

/// the session table and the group counter store (sessions created by the receive path
/// carry `?` as message counter, see `Node::snapshot`)
fn state_show(after: &[SessS], _n_before: usize, gstore: &str) -> String {
    let v: Vec<String> = after.iter().map(|s| s.show()).collect();
    format!("{}|{}", if v.is_empty() { "-".to_string() } else { v.join(";") }, gstore)
}

// ------------------------------------------------------------------ D cases

enum Pre {
    Wire(Vec<u8>),
    Remove(usize),
}

struct DCase {
    world: Vec<Entry>,
    sessions: Vec<SessS>,
    groups: Vec<GroupS>,
    from: AddrS,
    oracle: (u32, Option<usize>),
    prelude: Vec<Pre>,
    wire: Vec<u8>,
    muts: Vec<String>,
}

impl DCase {
    fn line(&self, id: usize) -> String {
        let pre = if self.prelude.is_empty() {
            "-".to_string()
        } else {
            self.prelude
                .iter()
                .map(|p| match p {
                    Pre::Wire(w) => format!("w{}", hex(w)),
                    Pre::Remove(i) => format!("r{}", i),
                })
                .collect::<Vec<_>>()
                .join(",")
        };
        format!(
            "D {} {} {} {} {} {}.{} {} {} {}",
            id,
            list_show(&self.world, Entry::show),
            list_show(&self.sessions, SessS::show),
            list_show(&self.groups, GroupS::show),
            self.from.show(),
            self.oracle.0,
            opt_show(&self.oracle.1),
            pre,
            if self.wire.is_empty() { "-".to_string() } else { hex(&self.wire) },
            self.muts.join(",")
        )
    }
}

fn ext_bytes(n: usize) -> Vec<u8> {
    (0..n).map(|i| 0xA5u8 ^ (i as u8).wrapping_mul(29)).collect()
}

struct Runner<'a, C: Crypto> {
    crypto: &'a C,
    node: Node,
    keys: KeyTable,
    sessions: Vec<SessS>,
    prelude: Vec<Pre>,
    from: AddrS,
    base: (Vec<SessS>, String),
    dirty: bool,
}

impl<'a, C: Crypto> Runner<'a, C> {
    fn rebuild(&mut self) {
        self.node.reset_sessions();
        self.node.install_sessions(self.crypto, &self.sessions);
        let runner = TransportRunner::new(self.node.matter, self.crypto);
        let mut pl = [0u8; 1600];
        for p in &self.prelude {
            match p {
                Pre::Wire(w) => {
                    let _ = runner.verif_decode_packet(self.from.to_real(), w, &mut pl);
                }
                Pre::Remove(i) => self.node.remove_slot(*i),
            }
        }
        self.base = self.node.snapshot(&self.keys);
        self.dirty = false;
    }

    /// one decode from the base state; returns (class char, token)
    fn decode(&mut self, from: &AddrS, wire: &[u8]) -> (char, String) {
        if self.dirty {
            self.rebuild();
        }
        let runner = TransportRunner::new(self.node.matter, self.crypto);
        let mut pl = [0u8; 1600];
        let (res, hdr, n) = runner.verif_decode_packet(from.to_real(), wire, &mut pl);
        let after = self.node.snapshot(&self.keys);
        let (class, fields) = match &res {
            Ok(b) => (if *b { 'K' } else { 'k' }, format!("[{};{}]", hdr_show(&hdr), hex(&pl[..n]))),
            Err(e) => (err_class(e), String::new()),
        };
        let same = after == self.base;
        let st = if same {
            "=".to_string()
        } else {
            self.dirty = true;
            format!("!{}", state_show(&after.0, self.base.0.len(), &after.1))
        };
        let special = res.is_ok() || !same;
        (if special { '*' } else { class }, format!("{}{}{}", class, fields, st))
    }
}

fn flip(wire: &[u8], bit: usize) -> Vec<u8> {
    let mut w = wire.to_vec();
    w[bit / 8] ^= 1 << (bit % 8);
    w
}

fn run_d<C: Crypto>(crypto: &C, f: &[&str]) -> String {
    let sessions = list_parse(f[3], SessS::parse);
    let groups = list_parse(f[4], GroupS::parse);
    let from = AddrS::parse(f[5]);
    let prelude: Vec<Pre> = if f[7] == "-" {
        vec![]
    } else {
        f[7].split(',')
            .map(|t| if let Some(h) = t.strip_prefix('w') { Pre::Wire(unhex(h)) } else { Pre::Remove(t[1..].parse().unwrap()) })
            .collect()
    };
    let wire = if f[8] == "-" { vec![] } else { unhex(f[8]) };
    let mut key_ids: Vec<u32> = sessions.iter().flat_map(|s| [s.deck, s.enck]).collect();
    key_ids.extend(groups.iter().map(|g| g.key));
    let mut node = Node::new();
    if !groups.is_empty() {
        node.install_groups(&groups);
    }
    let mut r = Runner {
        crypto,
        node,
        keys: KeyTable::new(crypto, &key_ids),
        sessions,
        prelude,
        from: from.clone(),
        base: (vec![], String::new()),
        dirty: true,
    };
    let mut out = format!("D {}", f[1]);
    r.rebuild();
    write!(out, " ^{}", state_show(&r.base.0, r.base.0.len(), &r.base.1)).unwrap();
    for m in f[9].split(',') {
        let tok = match m.as_bytes()[0] {
            b'-' => r.decode(&from, &wire).1,
            b'f' => r.decode(&from, &flip(&wire, m[1..].parse().unwrap())).1,
            b't' => r.decode(&from, &wire[..m[1..].parse::<usize>().unwrap()]).1,
            b'x' => {
                let mut w = wire.clone();
                w.extend_from_slice(&unhex(&m[1..]));
                r.decode(&from, &w).1
            }
            b'w' => r.decode(&from, &unhex(&m[1..])).1,
            b'a' => r.decode(&AddrS::parse(&m[1..]), &wire).1,
            b'F' | b'T' | b'X' => {
                let variants: Vec<Vec<u8>> = match m.as_bytes()[0] {
                    b'F' => (0..wire.len() * 8).map(|b| flip(&wire, b)).collect(),
                    b'T' => (0..wire.len()).map(|l| wire[..l].to_vec()).collect(),
                    _ => (1..=16)
                        .map(|n| {
                            let mut w = wire.clone();
                            w.extend_from_slice(&ext_bytes(n));
                            w
                        })
                        .collect(),
                };
                let mut chars = String::with_capacity(variants.len());
                let mut details = String::new();
                for (i, w) in variants.iter().enumerate() {
                    let (c, tok) = r.decode(&from, w);
                    chars.push(c);
                    if c == '*' {
                        write!(details, "@{}:{}", i, tok).unwrap();
                    }
                }
                format!("{}{}", chars, details)
            }
            _ => "?".to_string(),
        };
        out.push(' ');
        out.push_str(&tok);
    }
    out
}

// ------------------------------------------------------------------ R cases

struct RCase {
    world: Vec<Entry>,
    sender: SessS,
    exch: Option<usize>,
    gctr: Option<u32>,
    pid: u16,
    opcode: u8,
    rel: bool,
    payload: Vec<u8>,
    receivers: Vec<SessS>,
    groups: Vec<GroupS>,
    from: AddrS,
    oracle: (u32, Option<usize>),
}

impl RCase {
    fn line(&self, id: usize) -> String {
        format!(
            "R {} {} {} {} {} {} {} {} {} {} {} {} {}.{}",
            id,
            list_show(&self.world, Entry::show),
            self.sender.show(),
            opt_show(&self.exch),
            opt_show(&self.gctr),
            self.pid,
            self.opcode,
            self.rel as u8,
            if self.payload.is_empty() { "-".to_string() } else { hex(&self.payload) },
            list_show(&self.receivers, SessS::show),
            list_show(&self.groups, GroupS::show),
            self.from.show(),
            self.oracle.0,
            opt_show(&self.oracle.1),
        )
    }
}

/// the real TX path on `sender`: (encoded header, datagram, sender session afterwards) or the error class
fn real_send<C: Crypto>(
    crypto: &C,
    sender: &SessS,
    exch: Option<usize>,
    gctr: Option<u32>,
    pid: u16,
    opcode: u8,
    rel: bool,
    payload: &[u8],
) -> Result<(PacketHdr, Vec<u8>, SessS), char> {
    let node = Node::new();
    node.install_sessions(crypto, std::slice::from_ref(sender));
    let keys = KeyTable::new(crypto, &[sender.deck, sender.enck]);
    let id = node.matter.with_state(|state| state.verif_sessions().iter().last().unwrap().id());
    let runner = TransportRunner::new(node.matter, crypto);
    let mut out = [0u8; 1600];
    let r = runner.verif_write_packet(id, exch, gctr, MessageMeta::new(pid, opcode, rel), payload, &mut out);
    let after = node.snapshot(&keys).0;
    match r {
        Ok((hdr, n)) => Ok((hdr, out[..n].to_vec(), after[0].clone())),
        Err(e) => Err(err_class(&e)),
    }
}

fn run_r<C: Crypto>(crypto: &C, f: &[&str]) -> String {
    let sender = SessS::parse(f[3]);
    let exch = if f[4] == "-" { None } else { Some(f[4].parse().unwrap()) };
    let gctr = if f[5] == "-" { None } else { Some(f[5].parse().unwrap()) };
    let (pid, opcode, rel) = (f[6].parse().unwrap(), f[7].parse().unwrap(), f[8] == "1");
    let payload = if f[9] == "-" { vec![] } else { unhex(f[9]) };
    let receivers = list_parse(f[10], SessS::parse);
    let groups = list_parse(f[11], GroupS::parse);
    let from = AddrS::parse(f[12]);
    match real_send(crypto, &sender, exch, gctr, pid, opcode, rel, &payload) {
        Err(c) => format!("R {} err:{}", f[1], c),
        Ok((hdr, wire, after)) => {
            let mut key_ids: Vec<u32> = receivers.iter().flat_map(|s| [s.deck, s.enck]).collect();
            key_ids.extend(groups.iter().map(|g| g.key));
            let mut node = Node::new();
            if !groups.is_empty() {
                node.install_groups(&groups);
            }
            let mut r = Runner {
                crypto,
                node,
                keys: KeyTable::new(crypto, &key_ids),
                sessions: receivers,
                prelude: vec![],
                from: from.clone(),
                base: (vec![], String::new()),
                dirty: true,
            };
            r.rebuild();
            let base = state_show(&r.base.0, r.base.0.len(), &r.base.1);
            let tok = r.decode(&from, &wire).1;
            format!("R {} tx[{}] {} {} ^{} {}", f[1], hdr_show(&hdr), hex(&wire), after.show(), base, tok)
        }
    }
}

/// E <id> <world> <session> <plain;proto> <payload>: the real `Session::encode` of an arbitrary header
fn run_e<C: Crypto>(crypto: &C, f: &[&str]) -> String {
    let sender = SessS::parse(f[3]);
    let (ps, xs) = f[4].split_once(';').unwrap();
    let p: Vec<u64> = ps.split('.').map(|v| v.parse().unwrap()).collect();
    let x: Vec<u64> = xs.split('.').map(|v| v.parse().unwrap()).collect();
    let mut hdr = PacketHdr::new();
    hdr.plain = PlainHdr::verif_from_raw(p[0] as u8, p[1] as u16, p[2] as u8, p[3] as u32, p[4], p[5]).unwrap();
    hdr.proto = ProtoHdr::verif_from_raw(x[0] as u16, x[1] as u8, x[2] as u16, x[3] as u8, x[4] as u16, x[5] as u32).unwrap();
    let payload = if f[5] == "-" { vec![] } else { unhex(f[5]) };
    let node = Node::new();
    node.install_sessions(crypto, std::slice::from_ref(&sender));
    let mut out = [0u8; 1700];
    let r = node.matter.with_state(|state| {
        let sessions = state.verif_sessions();
        let id = sessions.iter().last().unwrap().id();
        sessions.get(id).unwrap().verif_encode(crypto, &hdr, &payload, &mut out)
    });
    match r {
        Ok(n) => format!("E {} {}", f[1], hex(&out[..n])),
        Err(e) => format!("E {} err:{}", f[1], err_class(&e)),
    }
}

fn run_line<C: Crypto>(crypto: &C, line: &str) -> Option<String> {
    let f: Vec<&str> = line.split(' ').collect();
    match f[0] {
        "E" if f.len() == 6 => Some(run_e(crypto, &f)),
        "D" if f.len() == 10 => Some(run_d(crypto, &f)),
        "R" if f.len() == 14 => Some(run_r(crypto, &f)),
        _ => None,
    }
}

// ------------------------------------------------------------------ generation

const NODE_A: u64 = 0x0000_0001_1111_1111;
const NODE_B: u64 = 0x2222_2222_0000_0002;
const NODE_C: u64 = 0x0000_0000_0000_0333;
/// the largest datagram the receive buffer takes
const MAX_RX: usize = 1583;
/// the largest payload the transmit buffer takes (1232 - 38 - 16)
const MAX_TX_PAYLOAD: usize = 1178;

fn payload_of(rng: &mut Rng, len: usize) -> Vec<u8> {
    (0..len).map(|_| rng.below(256) as u8).collect()
}

#[allow(clippy::too_many_arguments)]
fn mk_hdr(
    flags_src: Option<u64>,
    dst_u: Option<u64>,
    dst_g: Option<u16>,
    sess: u16,
    sec: u8,
    ctr: u32,
    exch: u16,
    xflags: u8,
    pid: u16,
    opcode: u8,
    vendor: Option<u16>,
    ack: Option<u32>,
) -> PacketHdr {
    let mut h = PacketHdr::new();
    h.plain = PlainHdr::verif_from_raw(0, sess, sec, ctr, 0, 0).unwrap();
    h.plain.set_src_nodeid(flags_src);
    if dst_u.is_some() {
        h.plain.set_dst_unicast_nodeid(dst_u);
    }
    if dst_g.is_some() {
        h.plain.set_dst_groupcast_nodeid(dst_g);
    }
    h.proto = ProtoHdr::verif_from_raw(exch, xflags, pid, opcode, 0, 0).unwrap();
    h.proto.set_vendor(vendor);
    h.proto.set_ack(ack);
    h
}

fn sess(mode: Mode, addr: AddrS, lnode: u64, pnode: Option<u64>, deck: u32, enck: u32, lsid: u16, psid: u16) -> SessS {
    SessS {
        mode,
        addr,
        lnode,
        pnode,
        deck,
        enck,
        lsid,
        psid,
        ctr: Some(1000),
        win: (false, 0, 0),
        expired: false,
        reserved: false,
        exchs: vec![],
    }
}

fn ex(id: u16, role: char, state: char, retr: Option<u32>, ack: Option<(u32, bool)>) -> Option<ExchS> {
    Some(ExchS { id, role, state, retr, ack })
}

struct Gen<'a, C: Crypto> {
    crypto: &'a C,
    rng: Rng,
    lines: Vec<String>,
    stats: BTreeMap<String, u64>,
}

impl<'a, C: Crypto> Gen<'a, C> {
    fn count(&mut self, k: &str, n: u64) {
        *self.stats.entry(k.to_string()).or_insert(0) += n;
    }
    fn push_d(&mut self, stream: &str, c: DCase) {
        let id = self.lines.len();
        let mut n = 0u64;
        for m in &c.muts {
            n += match m.as_bytes()[0] {
                b'F' => c.wire.len() as u64 * 8,
                b'T' => c.wire.len() as u64,
                b'X' => 16,
                _ => 1,
            };
        }
        self.count("decodes", n);
        self.count(&format!("cases_{}", stream), 1);
        self.lines.push(c.line(id));
    }
    fn push_r(&mut self, stream: &str, c: RCase) {
        let id = self.lines.len();
        self.count("decodes", 1);
        self.count("encodes", 1);
        self.count(&format!("cases_{}", stream), 1);
        self.lines.push(c.line(id));
    }
}

fn addr_a() -> AddrS {
    AddrS::udp4(1, 5541)
}
fn addr_b() -> AddrS {
    AddrS::udp4(2, 5542)
}

/// the usual receiver table: a decoy on another session id, the target, a session with the
/// target's id at another address
fn table_with(target: SessS) -> Vec<SessS> {
    let decoy = sess(Mode::Case(1), addr_a(), NODE_B, Some(NODE_C), 21, 22, target.lsid.wrapping_add(1), 77);
    let mut twin = target.clone();
    twin.addr = AddrS::udp4(9, 5549);
    twin.deck = 23;
    twin.enck = 24;
    vec![decoy, target, twin]
}

fn generate<C: Crypto>(crypto: &C, tier: &str, seed: u64) -> (Vec<String>, BTreeMap<String, u64>) {
    let thorough = tier == "thorough";
    let mut g = Gen { crypto, rng: Rng::new(seed ^ 0xC03), lines: vec![], stats: BTreeMap::new() };
    let tamper = |small: bool| -> Vec<String> {
        let mut m = vec!["-".to_string()];
        if small {
            m.push("F".into());
        }
        m.push("T".into());
        m.push("X".into());
        m
    };

    // ---------------------------------------------------------------- U: secure unicast, header shapes x modes x lengths
    // (mode, sender node id used in the nonce, receiver's peer node, transport kind)
    let modes: Vec<(&str, Mode, u64, Option<u64>, u8)> = vec![
        ("pase", Mode::Pase(0), 0, Some(0), 0),
        ("case", Mode::Case(1), NODE_A, Some(NODE_A), 0),
        ("case-nopeer", Mode::Case(1), 0, None, 0),
        ("case-tcp", Mode::Case(2), NODE_A, Some(NODE_A), 1),
        ("case-btp", Mode::Case(1), NODE_A, Some(NODE_A), 2),
    ];
    // header shapes: (src, dst unicast, dst group, sec flags, exch flags, vendor, ack)
    let shapes: Vec<(Option<u64>, Option<u64>, Option<u16>, u8, u8, Option<u16>, Option<u32>)> = vec![
        (None, None, None, 0x00, 0x05, None, None),
        (None, None, None, 0x00, 0x02, None, Some(0xdead_beef)),
        (None, None, None, 0x00, 0x15, Some(0xfff1), None),
        (None, None, None, 0x00, 0x1f, Some(0x1234), Some(7)),
        (Some(NODE_A), None, None, 0x00, 0x05, None, None),
        (Some(NODE_C), None, None, 0x00, 0x05, None, None),
        (None, Some(NODE_B), None, 0x00, 0x04, None, None),
        (Some(NODE_A), Some(NODE_B), None, 0x00, 0x0d, None, None),
        (None, None, Some(0x0102), 0x00, 0x05, None, None),
        (None, None, None, 0x40, 0x05, None, None),
        (None, None, None, 0x20, 0x01, None, None),
        (None, None, None, 0x80, 0x05, None, None),
        (None, None, None, 0xe0, 0x00, None, None),
    ];
    let lens: Vec<usize> = vec![0, 1, 15, 16, 17];
    let mut ctr = 5000u32;
    for (mi, (mname, mode, snode, rpeer, kind)) in modes.iter().enumerate() {
        for (si, sh) in shapes.iter().enumerate() {
            // quick: every shape on CASE, a diagonal elsewhere
            if !thorough && mi != 1 && (si + mi) % 4 != 0 {
                continue;
            }
            let len = lens[(si + mi) % lens.len()];
            let mut from = addr_a();
            from.kind = *kind;
            if *kind == 2 {
                from = AddrS { kind: 2, v6: false, ip: 0x0000_a1b2_c3d4_e5f6, port: 0 };
            }
            let mut target = sess(mode.clone(), from.clone(), NODE_B, *rpeer, 11, 12, 7, 9);
            target.exchs = vec![ex(3, 'R', 'o', None, None)];
            // a source node id in the header stands for the sender only if it is the peer's
            let src = match (sh.0, *rpeer) {
                (Some(n), Some(p)) if n == NODE_A => Some(p),
                (s, _) => s,
            };
            ctr += 1;
            let hdr = mk_hdr(src, sh.1, sh.2, 7, sh.3, ctr, 40 + si as u16, sh.4, 1, 2, sh.5, sh.6);
            let payload = payload_of(&mut g.rng, len);
            let (e, wire) = honest(crypto, 11, *snode, &hdr, &payload);
            // the sending end's real `Session::encode` must produce exactly this datagram
            {
                let mut to = addr_b();
                to.kind = *kind;
                let sender = sess(mode.clone(), to, *snode, Some(NODE_B), 12, 11, 9, 7);
                let id = g.lines.len();
                g.count("encodes", 1);
                g.count("cases_E", 1);
                g.lines.push(format!(
                    "E {} {} {} {} {}",
                    id,
                    e.show(),
                    sender.show(),
                    hdr_show(&hdr),
                    if payload.is_empty() { "-".to_string() } else { hex(&payload) }
                ));
            }
            let sessions = table_with(target);
            g.push_d(
                &format!("U-{}", mname),
                DCase {
                    world: vec![e],
                    sessions,
                    groups: vec![],
                    from,
                    oracle: (0, None),
                    prelude: vec![],
                    wire,
                    muts: tamper(true),
                },
            );
        }
    }

    // ---------------------------------------------------------------- L: payload lengths up to the maximum
    let big: Vec<(usize, bool)> = if thorough {
        vec![(MAX_TX_PAYLOAD - 1, true), (MAX_TX_PAYLOAD, true), (MAX_RX - 8 - 6 - 16 - 1, true), (MAX_RX - 8 - 6 - 16, true)]
    } else {
        vec![(MAX_TX_PAYLOAD - 1, false), (MAX_TX_PAYLOAD, true), (MAX_RX - 8 - 6 - 16 - 1, false), (MAX_RX - 8 - 6 - 16, false)]
    };
    for (len, flips) in big {
        ctr += 1;
        let target = sess(Mode::Case(1), addr_a(), NODE_B, Some(NODE_A), 11, 12, 7, 9);
        let hdr = mk_hdr(None, None, None, 7, 0, ctr, 50, 0x05, 1, 5, None, None);
        let payload = payload_of(&mut g.rng, len);
        let (e, wire) = honest(crypto, 11, NODE_A, &hdr, &payload);
        let mut muts = tamper(flips);
        // one byte more than the receive buffer holds is never seen by the node; the largest
        // datagram extended stays within the model only when it fits
        if wire.len() + 16 > MAX_RX {
            muts.retain(|m| m != "X");
        }
        g.push_d(
            "L",
            DCase {
                world: vec![e],
                sessions: table_with(target),
                groups: vec![],
                from: addr_a(),
                oracle: (0, None),
                prelude: vec![],
                wire,
                muts,
            },
        );
    }

    // ---------------------------------------------------------------- S: wrong session / direction / node / address, transplants
    {
        // A -> B on the session (A: enc 11 / dec 12, B: dec 11 / enc 12)
        let b_end = sess(Mode::Case(1), addr_a(), NODE_B, Some(NODE_A), 11, 12, 7, 9);
        let mut a_end = sess(Mode::Case(1), addr_b(), NODE_A, Some(NODE_B), 12, 11, 9, 7);
        a_end.ctr = Some(6001);
        let payload = payload_of(&mut g.rng, 24);
        let hdr1 = mk_hdr(None, None, None, 7, 0, 6000, 60, 0x05, 1, 2, None, None);
        let hdr2 = mk_hdr(None, None, None, 7, 0, 6001, 60, 0x05, 1, 2, None, None);
        let (e1, w1) = honest(crypto, 11, NODE_A, &hdr1, &payload);
        let (e2, w2) = honest(crypto, 11, NODE_A, &hdr2, &payload_of(&mut g.rng, 24));
        // another session of B (other keys) with a packet of its own
        let other = sess(Mode::Case(1), addr_a(), NODE_B, Some(NODE_A), 31, 32, 8, 10);
        let hdr3 = mk_hdr(None, None, None, 8, 0, 6000, 60, 0x05, 1, 2, None, None);
        let (e3, w3) = honest(crypto, 31, NODE_A, &hdr3, &payload);
        // sealed by another source node with the right key
        let (e4, w4) = honest(crypto, 11, NODE_C, &hdr1, &payload);
        // sealed for the opposite direction (B -> A) with B's sending key
        let hdr5 = mk_hdr(None, None, None, 9, 0, 6000, 60, 0x05, 1, 2, None, None);
        let (e5, w5) = honest(crypto, 12, NODE_B, &hdr5, &payload);
        // sealed with the right key but with node id 0 in the nonce (as an unauthenticated peer would)
        let (e6, w6) = honest(crypto, 11, 0, &hdr1, &payload);
        let hl = e1.aad.len();
        let transplant = |h: &[u8], b: &[u8]| -> String {
            let mut w = h.to_vec();
            w.extend_from_slice(b);
            format!("w{}", hex(&w))
        };
        let world = vec![e1.clone(), e2.clone(), e3.clone(), e4.clone(), e5.clone(), e6.clone()];
        let mut v4mapped = addr_a();
        v4mapped.v6 = true;
        v4mapped.ip = 0xffff_0000_0000u128 | addr_a().ip;
        let muts = vec![
            "-".to_string(),
            // header of one, body of the other (same session, other counter)
            transplant(&w1[..hl], &w2[hl..]),
            transplant(&w2[..hl], &w1[hl..]),
            // header of this session, body sealed for the other session and vice versa
            transplant(&w1[..hl], &w3[hl..]),
            transplant(&w3[..hl], &w1[hl..]),
            // the other session's packet as it is, the other node's sealing, the reflected packet
            format!("w{}", hex(&w3)),
            format!("w{}", hex(&w4)),
            format!("w{}", hex(&w5)),
            format!("w{}", hex(&w6)),
            // protocol header bytes of one spliced into the ciphertext of the other
            transplant(&w1[..hl + 6], &w2[hl + 6..]),
            // tag transplant
            transplant(&w1[..w1.len() - 16], &w2[w2.len() - 16..]),
            // other addresses: port, host, transport, the IPv4-mapped form of the right one
            format!("a{}", AddrS::udp4(1, 5540).show()),
            format!("a{}", AddrS::udp4(3, 5541).show()),
            format!("a{}", AddrS { kind: 1, ..addr_a() }.show()),
            format!("a{}", v4mapped.show()),
            format!("a{}", AddrS { kind: 0, v6: true, ip: 0xfe80_0000_0000_0000_0000_0000_0a00_0001, port: 5541 }.show()),
        ];
        g.push_d(
            "S",
            DCase {
                world: world.clone(),
                sessions: vec![other.clone(), b_end.clone()],
                groups: vec![],
                from: addr_a(),
                oracle: (0, None),
                prelude: vec![],
                wire: w1.clone(),
                muts,
            },
        );
        // the same datagrams offered to A itself (opposite direction), from B's address
        g.push_d(
            "S",
            DCase {
                world: world.clone(),
                sessions: vec![a_end.clone()],
                groups: vec![],
                from: addr_b(),
                oracle: (0, None),
                prelude: vec![],
                wire: w5.clone(),
                muts: vec!["-".into(), format!("w{}", hex(&w1)), format!("w{}", hex(&w3))],
            },
        );
        // receivers that differ from the right one in one identity each
        let variants: Vec<(&str, SessS)> = vec![
            ("key", SessS { deck: 41, ..b_end.clone() }),
            ("peer", SessS { pnode: Some(NODE_C), ..b_end.clone() }),
            ("nopeer", SessS { pnode: None, ..b_end.clone() }),
            ("lsid", SessS { lsid: 6, ..b_end.clone() }),
            ("reserved", SessS { reserved: true, ..b_end.clone() }),
            ("plain", SessS { mode: Mode::Plain, ..b_end.clone() }),
            ("pase", SessS { mode: Mode::Pase(0), ..b_end.clone() }),
            ("expired", SessS { expired: true, ..b_end.clone() }),
            ("addr", SessS { addr: AddrS::udp4(1, 5543), ..b_end.clone() }),
            ("keys-swapped", SessS { deck: 12, enck: 11, ..b_end.clone() }),
        ];
        for (_, v) in variants {
            g.push_d(
                "S",
                DCase {
                    world: world.clone(),
                    sessions: vec![v, other.clone()],
                    groups: vec![],
                    from: addr_a(),
                    oracle: (0, None),
                    prelude: vec![],
                    wire: w1.clone(),
                    muts: vec!["-".into(), "f0".into(), format!("f{}", w1.len() * 8 - 1)],
                },
            );
        }
        // two sessions match: the first in table order takes it
        g.push_d(
            "S",
            DCase {
                world: world.clone(),
                sessions: vec![SessS { deck: 41, ..b_end.clone() }, b_end.clone()],
                groups: vec![],
                from: addr_a(),
                oracle: (0, None),
                prelude: vec![],
                wire: w1.clone(),
                muts: vec!["-".into()],
            },
        );
    }

    // ---------------------------------------------------------------- X: what happens after authentication (window, exchanges)
    {
        let base = sess(Mode::Case(1), addr_a(), NODE_B, Some(NODE_A), 11, 12, 7, 9);
        // (window, exchanges, expired, message: ctr, exch id, exch flags, proto, opcode, ack)
        #[allow(clippy::type_complexity)]
        let rows: Vec<((bool, u32, u16), Vec<Option<ExchS>>, bool, (u32, u16, u8, u16, u8, Option<u32>))> = vec![
            // first message of a session, initiator, reliable: new exchange
            ((false, 0, 0), vec![], false, (100, 5, 0x05, 1, 2, None)),
            // replay of the newest counter; replay inside the window; fresh inside the window; too old
            ((true, 100, 0b101), vec![], false, (100, 5, 0x05, 1, 2, None)),
            ((true, 100, 0b101), vec![], false, (99, 5, 0x05, 1, 2, None)),
            ((true, 100, 0b101), vec![], false, (98, 5, 0x05, 1, 2, None)),
            ((true, 100, 0b101), vec![], false, (83, 5, 0x05, 1, 2, None)),
            // routed to an existing exchange (we are the initiator there), with a matching / wrong ack
            ((true, 100, 0), vec![ex(5, 'I', 'o', Some(1000), None)], false, (101, 5, 0x06, 1, 3, Some(1000))),
            ((true, 100, 0), vec![ex(5, 'I', 'o', Some(1000), None)], false, (101, 5, 0x06, 1, 3, Some(999))),
            ((true, 100, 0), vec![ex(5, 'I', 'o', None, Some((90, false)))], false, (101, 5, 0x04, 1, 3, None)),
            // responder exchange exists; same id with the wrong direction bit
            ((true, 100, 0), vec![ex(5, 'R', 'o', None, None)], false, (101, 5, 0x01, 1, 2, None)),
            ((true, 100, 0), vec![ex(5, 'R', 'o', None, None)], false, (101, 5, 0x00, 1, 2, None)),
            // not an initiator and no exchange; standalone ack; status report
            ((true, 100, 0), vec![], false, (101, 6, 0x04, 1, 2, None)),
            ((true, 100, 0), vec![], false, (101, 6, 0x03, 0, 0x10, Some(1))),
            ((true, 100, 0), vec![], false, (101, 6, 0x01, 0, 0x40, None)),
            // expired session refuses new exchanges, still serves old ones
            ((true, 100, 0), vec![], true, (101, 6, 0x05, 1, 2, None)),
            ((true, 100, 0), vec![ex(6, 'R', 'o', None, None)], true, (101, 6, 0x05, 1, 2, None)),
            // exchange table full; a freed slot is reused
            (
                (true, 100, 0),
                vec![ex(1, 'R', 'o', None, None), ex(2, 'R', 'o', None, None), ex(3, 'I', 'o', None, None), ex(4, 'R', 'd', None, None), ex(8, 'R', 'p', None, None)],
                false,
                (101, 6, 0x05, 1, 2, None),
            ),
            (
                (true, 100, 0),
                vec![ex(1, 'R', 'o', None, None), None, ex(3, 'I', 'o', None, None), ex(4, 'R', 'd', None, None), ex(8, 'R', 'p', None, None)],
                false,
                (101, 6, 0x05, 1, 2, None),
            ),
            // far ahead: window resets
            ((true, 100, 0xffff), vec![], false, (0x8000_0000, 6, 0x05, 1, 2, None)),
            ((true, 0xffff_fff0, 0xffff), vec![], false, (3, 6, 0x05, 1, 2, None)),
        ];
        for (win, exchs, expired, m) in rows {
            let mut target = base.clone();
            target.win = win;
            target.exchs = exchs;
            target.expired = expired;
            let hdr = mk_hdr(None, None, None, 7, 0, m.0, m.1, m.2, m.3, m.4, None, m.5);
            let payload = payload_of(&mut g.rng, 9);
            let (e, wire) = honest(crypto, 11, NODE_A, &hdr, &payload);
            let n = wire.len();
            g.push_d(
                "X",
                DCase {
                    world: vec![e],
                    sessions: table_with(target),
                    groups: vec![],
                    from: addr_a(),
                    oracle: (0, None),
                    prelude: vec![],
                    wire: wire.clone(),
                    muts: vec!["-".into(), "F".into(), format!("t{}", n - 1), "x00".into()],
                },
            );
        }
        // a sealed plaintext that is not a protocol header: authentic, then refused, nothing moves
        for pt in [vec![0xffu8, 1, 2, 3, 4, 5], vec![0x05u8, 2, 1], vec![], vec![0x12u8, 2, 1, 0, 1, 0, 9]] {
            let hdr = mk_hdr(None, None, None, 7, 0, 200, 0, 0, 0, 0, None, None);
            let aad = plain_bytes(&hdr.plain);
            let nonce = spec_nonce(0, 200, NODE_A);
            let ct = raw_seal(crypto, &key_bytes(crypto, 11), &nonce, &aad, &pt);
            let mut wire = aad.clone();
            wire.extend_from_slice(&ct);
            g.push_d(
                "X",
                DCase {
                    world: vec![Entry { key: 11, nonce, aad, pt, ct }],
                    sessions: table_with(base.clone()),
                    groups: vec![],
                    from: addr_a(),
                    oracle: (0, None),
                    prelude: vec![],
                    wire,
                    muts: vec!["-".into(), "F".into()],
                },
            );
        }
        // sequences: the second datagram meets the state the first one left
        let h1 = mk_hdr(None, None, None, 7, 0, 300, 5, 0x05, 1, 2, None, None);
        let h2 = mk_hdr(None, None, None, 7, 0, 301, 5, 0x05, 1, 2, None, Some(1));
        let (e1, w1) = honest(crypto, 11, NODE_A, &h1, &[1, 2, 3]);
        let (e2, w2) = honest(crypto, 11, NODE_A, &h2, &[4, 5]);
        g.push_d(
            "X",
            DCase {
                world: vec![e1, e2],
                sessions: table_with(base.clone()),
                groups: vec![],
                from: addr_a(),
                oracle: (0, None),
                prelude: vec![Pre::Wire(w1.clone())],
                wire: w2.clone(),
                muts: vec!["-".into(), format!("w{}", hex(&w1)), "F".into()],
            },
        );
    }

    // ---------------------------------------------------------------- P: unsecured messages
    {
        let req = |src: Option<u64>, dst: Option<u64>, opcode: u8, xflags: u8, ctr: u32| {
            mk_hdr(src, dst, None, 0, 0, ctr, 70, xflags, 0, opcode, None, None)
        };
        // no session: PBKDFParamRequest / CASESigma1 create one, anything else does not
        for (src, opcode, xflags) in [
            (Some(NODE_A), 0x20u8, 0x05u8),
            (None, 0x20, 0x05),
            (Some(NODE_A), 0x30, 0x05),
            (Some(NODE_A), 0x30, 0x04),
            (Some(NODE_A), 0x22, 0x05),
            (Some(NODE_A), 0x40, 0x01),
        ] {
            let hdr = req(src, None, opcode, xflags, 400);
            let wire = clear_wire(&hdr, &[9, 9, 9]);
            let secure = sess(Mode::Case(1), addr_a(), NODE_B, Some(NODE_A), 11, 12, 7, 9);
            g.push_d(
                "P",
                DCase {
                    world: vec![],
                    sessions: vec![secure],
                    groups: vec![],
                    from: addr_a(),
                    oracle: (0, None),
                    prelude: vec![],
                    wire: wire.clone(),
                    muts: vec!["-".into(), "F".into(), "T".into()],
                },
            );
        }
        // an unsecured session exists (initiator side: local node id = the ephemeral id we sent)
        let mut un = sess(Mode::Plain, addr_a(), NODE_B, Some(NODE_A), 0, 0, 0, 0);
        un.exchs = vec![ex(70, 'I', 'o', Some(1000), None)];
        for (src, dst) in [(Some(NODE_A), Some(NODE_B)), (Some(NODE_A), Some(NODE_C)), (Some(NODE_C), Some(NODE_B)), (None, None), (Some(NODE_A), None)] {
            let hdr = mk_hdr(src, dst, None, 0, 0, 401, 70, 0x06, 0, 0x21, None, Some(1000));
            let wire = clear_wire(&hdr, &[1]);
            g.push_d(
                "P",
                DCase {
                    world: vec![],
                    sessions: vec![un.clone()],
                    groups: vec![],
                    from: addr_a(),
                    oracle: (0, None),
                    prelude: vec![],
                    wire,
                    muts: vec!["-".into(), "F".into()],
                },
            );
        }
        // session table full: an unsecured session request finds no room
        let mut full = Vec::new();
        for i in 0..16u16 {
            full.push(sess(Mode::Case(1), addr_a(), NODE_B, Some(NODE_A), 11, 12, 100 + i, 9));
        }
        let hdr = req(Some(NODE_A), None, 0x20, 0x05, 402);
        g.push_d(
            "P",
            DCase {
                world: vec![],
                sessions: full,
                groups: vec![],
                from: addr_a(),
                oracle: (0, None),
                prelude: vec![],
                wire: clear_wire(&hdr, &[]),
                muts: vec!["-".into()],
            },
        );
        // a secured-looking datagram for which there is no session at all; an empty one
        let hdr = mk_hdr(None, None, None, 99, 0, 1, 1, 0x05, 1, 2, None, None);
        let (e, wire) = honest(crypto, 11, NODE_A, &hdr, &[1, 2]);
        g.push_d(
            "P",
            DCase {
                world: vec![e],
                sessions: vec![],
                groups: vec![],
                from: addr_a(),
                oracle: (0, None),
                prelude: vec![],
                wire,
                muts: vec!["-".into(), "F".into(), "T".into()],
            },
        );
    }

    // ---------------------------------------------------------------- G: group messages
    {
        let k1 = GROUP_KEY_BASE + 1;
        let k2 = GROUP_KEY_BASE + 2;
        let k3 = GROUP_KEY_BASE + 3;
        let groups = vec![
            GroupS { fab: 1, node: 0, gid: 0x0101, key: k1, sid: group_sid(crypto, k1) },
            GroupS { fab: 1, node: 0, gid: 0x0102, key: k2, sid: group_sid(crypto, k2) },
            GroupS { fab: 2, node: 0, gid: 0x0101, key: k3, sid: group_sid(crypto, k3) },
        ];
        let unicast = sess(Mode::Case(1), addr_a(), NODE_B, Some(NODE_A), 11, 12, 7, 9);
        let ghdr = |gi: usize, sec: u8, ctr: u32, src: Option<u64>, dstu: Option<u64>, gid: Option<u16>| {
            mk_hdr(src, dstu, gid, groups[gi].sid, 0x01 | sec, ctr, 80, 0x01, 1, 8, None, None)
        };
        // data message to group 0x0101 under key 1; the same under the second fabric's key; group 0x0102
        let mut wires = Vec::new();
        let mut world = Vec::new();
        for (gi, ctr) in [(0usize, 700u32), (2, 701), (1, 702)] {
            let hdr = ghdr(gi, 0, ctr, Some(NODE_A), None, Some(groups[gi].gid));
            let (e, w) = honest(crypto, groups[gi].key, NODE_A, &hdr, &payload_of(&mut g.rng, 11));
            world.push(e);
            wires.push(w);
        }
        for (i, w) in wires.iter().enumerate() {
            g.push_d(
                "G",
                DCase {
                    world: world.clone(),
                    sessions: vec![unicast.clone()],
                    groups: groups.clone(),
                    from: addr_a(),
                    oracle: (7, None),
                    prelude: vec![],
                    wire: w.clone(),
                    muts: if i == 0 { tamper(true) } else { vec!["-".into(), "T".into()] },
                },
            );
        }
        // replays: after the first message (and the removal of its ephemeral session) the group
        // counter store knows the sender; with the ephemeral session still there it takes the message
        let hdr_next = ghdr(0, 0, 703, Some(NODE_A), None, Some(0x0101));
        let (e_next, w_next) = honest(crypto, k1, NODE_A, &hdr_next, &[5, 5]);
        let mut world2 = world.clone();
        world2.push(e_next);
        g.push_d(
            "G",
            DCase {
                world: world2.clone(),
                sessions: vec![unicast.clone()],
                groups: groups.clone(),
                from: addr_a(),
                oracle: (7, None),
                prelude: vec![Pre::Wire(wires[0].clone()), Pre::Remove(1)],
                wire: wires[0].clone(),
                muts: vec!["-".into(), format!("w{}", hex(&w_next)), "f0".into(), format!("f{}", wires[0].len() * 8 - 3)],
            },
        );
        g.push_d(
            "G",
            DCase {
                world: world2.clone(),
                sessions: vec![unicast.clone()],
                groups: groups.clone(),
                from: addr_a(),
                oracle: (7, None),
                prelude: vec![Pre::Wire(wires[0].clone())],
                wire: wires[0].clone(),
                muts: vec!["-".into(), format!("w{}", hex(&w_next)), format!("w{}", hex(&wires[1]))],
            },
        );
        // ------------------------------------------------------------ GS: an EXISTING group session in the table
        // (the ephemeral receive-side session of a sender, alive while an exchange of it is): datagrams
        // addressed to it - same address, group flag, group session id, same or no source node id - are
        // looked up to it like to any secure session and must authenticate under ITS receive key.
        {
            let forged_clear = |hdr: &PacketHdr, payload: &[u8], tail: usize| -> String {
                let mut w = clear_wire(hdr, payload);
                w.extend(std::iter::repeat(0xa5u8).take(tail));
                format!("w{}", hex(&w))
            };
            // (a) the session left behind by the real group receive path (prelude), slot 1
            let hdr_nosrc = ghdr(0, 0, 704, None, None, Some(0x0101));
            let hdr_ctl = ghdr(0, 0x40, 705, Some(NODE_A), Some(0), None);
            let hdr_ack = mk_hdr(Some(NODE_A), None, Some(0x0101), groups[0].sid, 0x01, 706, 81, 0x17, 0xfff1, 9, Some(0x1234), Some(77));
            let (e_nosrc, w_nosrc) = honest(crypto, k1, NODE_A, &hdr_nosrc, &[6, 6, 6]);
            let (e_ctl, w_ctl) = honest(crypto, k1, NODE_A, &hdr_ctl, &[7]);
            let (e_ack, w_ack) = honest(crypto, k1, NODE_A, &hdr_ack, &[8, 8]);
            // the right header sealed under another group key, under a unicast key, by another node
            let (e_k2, w_k2) = honest(crypto, k2, NODE_A, &hdr_next, &[5, 5]);
            let (e_k11, w_k11) = honest(crypto, 11, NODE_A, &hdr_next, &[5, 5]);
            let (e_nc, w_nc) = honest(crypto, k1, NODE_C, &hdr_next, &[5, 5]);
            let mut world3 = world2.clone();
            world3.extend([e_nosrc, e_ctl, e_ack, e_k2, e_k11, e_nc]);
            let mut muts = vec!["-".to_string()];
            for (h, pl) in [(&hdr_next, &[5u8, 5][..]), (&hdr_nosrc, &[6, 6, 6][..]), (&hdr_ctl, &[7][..]), (&hdr_ack, &[8, 8][..])] {
                // cleartext protocol header and payload where the sealed body belongs, with and without a fake tag
                muts.push(forged_clear(h, pl, 16));
                muts.push(forged_clear(h, pl, 0));
                muts.push(forged_clear(h, &payload_of(&mut g.rng, 40), 16));
            }
            for w in [&w_nosrc, &w_ctl, &w_ack, &w_k2, &w_k11, &w_nc] {
                muts.push(format!("w{}", hex(w)));
            }
            muts.extend(["F".to_string(), "T".into(), "X".into()]);
            g.push_d(
                "GS",
                DCase {
                    world: world3.clone(),
                    sessions: vec![unicast.clone()],
                    groups: groups.clone(),
                    from: addr_a(),
                    oracle: (7, None),
                    prelude: vec![Pre::Wire(wires[0].clone())],
                    wire: w_next.clone(),
                    muts: muts.clone(),
                },
            );
            // (b) a group session installed directly (no fabric, no group key at all on the node): keys 51 / 52
            const SENDER: u64 = 0x1122_3344_5566_7788;
            let gsid = 0x4d2eu16;
            for (variant, deck, enck, pnode) in [(0usize, 51u32, 51u32, Some(SENDER)), (1, 51, 52, Some(SENDER)), (2, 51, 51, None)] {
                let gs = sess(Mode::Group(1, 0x0102), addr_a(), NODE_B, pnode, deck, enck, gsid, gsid);
                let nonce_node = pnode.unwrap_or(0);
                let h1 = mk_hdr(Some(SENDER), None, Some(0x0102), gsid, 0x01, 1000, 0x55, 0x01, 1, 8, None, None);
                let h2 = mk_hdr(None, None, Some(0x0102), gsid, 0x01, 1001, 0x56, 0x05, 1, 8, None, None);
                let pl = [0x15u8, 0x28, 0x00, 0x28, 0x01, 0x18];
                let (e1, w1) = honest(crypto, 51, nonce_node, &h1, &pl);
                let (e2, w2) = honest(crypto, 51, nonce_node, &h2, &pl);
                let (e3, w3) = honest(crypto, 52, nonce_node, &h1, &pl);
                let (e4, w4) = honest(crypto, 51, NODE_C, &h1, &pl);
                let mut muts = vec!["-".to_string()];
                muts.push(forged_clear(&h1, &pl, 16));
                muts.push(forged_clear(&h1, &pl, 0));
                muts.push(forged_clear(&h2, &pl, 16));
                muts.push(forged_clear(&h1, &payload_of(&mut g.rng, 64), 16));
                for w in [&w2, &w3, &w4] {
                    muts.push(format!("w{}", hex(w)));
                }
                // from elsewhere the same datagram finds no session (and no group key)
                muts.push(format!("a{}", AddrS::udp4(1, 5540).show()));
                muts.extend(["F".to_string(), "T".into(), "X".into()]);
                let _ = variant;
                g.push_d(
                    "GS",
                    DCase {
                        world: vec![e1, e2, e3, e4],
                        sessions: vec![unicast.clone(), gs],
                        groups: vec![],
                        from: addr_a(),
                        oracle: (7, None),
                        prelude: vec![],
                        wire: w1,
                        muts,
                    },
                );
            }
            // the same forgery against a CASE and a PASE session: cleartext where the sealed body belongs
            for mode in [Mode::Case(1), Mode::Pase(0)] {
                let pn = if mode == Mode::Pase(0) { 0 } else { NODE_A };
                let target = sess(mode, addr_a(), NODE_B, Some(pn), 11, 12, 7, 9);
                let h = mk_hdr(None, None, None, 7, 0, 900, 0x57, 0x05, 1, 2, None, None);
                let pl = [1u8, 2, 3, 4];
                let (e, w) = honest(crypto, 11, pn, &h, &pl);
                let junk = payload_of(&mut g.rng, 30);
                g.push_d(
                    "GS",
                    DCase {
                        world: vec![e],
                        sessions: table_with(target),
                        groups: vec![],
                        from: addr_a(),
                        oracle: (0, None),
                        prelude: vec![],
                        wire: w,
                        muts: vec!["-".into(), forged_clear(&h, &pl, 16), forged_clear(&h, &pl, 0), forged_clear(&h, &junk, 16)],
                    },
                );
            }
        }
        // ------------------------------------------------------------ GX: a group datagram must authenticate under a key
        // MAPPED TO THE GROUP IT IS ADDRESSED TO (groups 0x0101 / 0x0102 of fabric 1 are on different key sets)
        {
            let mut ctr = 730u32;
            for (seal_gi, dst_gi) in [(0usize, 1usize), (1, 0), (2, 1), (0, 0)] {
                for sec in [0x40u8, 0x00] {
                    for (pid, opcode) in [(1u16, 8u8), (0, 0)] {
                        for sid_gi in [seal_gi, dst_gi] {
                            if seal_gi == dst_gi && (sid_gi != seal_gi || pid == 0 && sec == 0) {
                                continue;
                            }
                            ctr += 1;
                            let hdr = mk_hdr(Some(NODE_A), None, Some(groups[dst_gi].gid), groups[sid_gi].sid, 0x01 | sec, ctr, 82, 0x01, pid, opcode, None, None);
                            let (e, w) = honest(crypto, groups[seal_gi].key, NODE_A, &hdr, &[3, 1, 4, 1, 5]);
                            let n = w.len();
                            g.push_d(
                                "GX",
                                DCase {
                                    world: vec![e],
                                    sessions: vec![unicast.clone()],
                                    groups: groups.clone(),
                                    from: addr_a(),
                                    oracle: (7, None),
                                    prelude: vec![],
                                    wire: w,
                                    muts: vec!["-".into(), "f30".into(), format!("f{}", n * 8 - 1), format!("t{}", n - 1)],
                                },
                            );
                        }
                    }
                }
            }
            // the source node id is the node's own (fabric node id 0 here): sealed honestly under the group key
            let hdr = mk_hdr(Some(0), None, Some(0x0101), groups[0].sid, 0x01, 760, 82, 0x01, 1, 8, None, None);
            let (e, w) = honest(crypto, k1, 0, &hdr, &[9]);
            g.push_d(
                "GX",
                DCase {
                    world: vec![e],
                    sessions: vec![unicast.clone()],
                    groups: groups.clone(),
                    from: addr_a(),
                    oracle: (7, None),
                    prelude: vec![],
                    wire: w,
                    muts: vec!["-".into(), "F".into()],
                },
            );
            // two groups on the SAME key (0x0101 and 0x0103): while the ephemeral session of a sender exists, its
            // later datagrams go through the existing-session path - whatever group they name, and past the group
            // counter store (the session's own window decides)
            let mut groups_shared = groups.clone();
            groups_shared.push(GroupS { fab: 1, node: 0, gid: 0x0103, key: k1, sid: groups[0].sid });
            let mk = |gid: u16, c: u32, sid: u16| mk_hdr(Some(NODE_A), None, Some(gid), sid, 0x01, c, 83, 0x01, 1, 8, None, None);
            let (e690, w690) = honest(crypto, k1, NODE_A, &mk(0x0101, 690, groups[0].sid), &[1]);
            let (e700, w700) = honest(crypto, k1, NODE_A, &mk(0x0101, 700, groups[0].sid), &[2]);
            let (e701, w701) = honest(crypto, k1, NODE_A, &mk(0x0103, 701, groups[0].sid), &[3]);
            let (e702, w702) = honest(crypto, k1, NODE_A, &mk(0x0102, 702, groups[0].sid), &[4]);
            let (e703, w703) = honest(crypto, k1, NODE_A, &mk(0x0999, 703, groups[0].sid), &[5]);
            let (e695, w695) = honest(crypto, k1, NODE_A, &mk(0x0101, 695, groups[0].sid), &[6]);
            let (e600, w600) = honest(crypto, k1, NODE_A, &mk(0x0101, 600, groups[0].sid), &[7]);
            let worldr = vec![e690, e700, e701, e702, e703, e695, e600];
            let offers = vec![
                "-".to_string(),
                format!("w{}", hex(&w700)),
                format!("w{}", hex(&w701)),
                format!("w{}", hex(&w702)),
                format!("w{}", hex(&w703)),
                format!("w{}", hex(&w695)),
                format!("w{}", hex(&w600)),
                "F".into(),
            ];
            // 690 was delivered and its session is gone; 700 was delivered and its session is still there: 690 again
            g.push_d(
                "GX",
                DCase {
                    world: worldr.clone(),
                    sessions: vec![unicast.clone()],
                    groups: groups_shared.clone(),
                    from: addr_a(),
                    oracle: (7, None),
                    prelude: vec![Pre::Wire(w690.clone()), Pre::Remove(1), Pre::Wire(w700.clone())],
                    wire: w690.clone(),
                    muts: offers.clone(),
                },
            );
            // the same offers when both ephemeral sessions are gone: the group counter store decides
            g.push_d(
                "GX",
                DCase {
                    world: worldr.clone(),
                    sessions: vec![unicast.clone()],
                    groups: groups_shared.clone(),
                    from: addr_a(),
                    oracle: (7, None),
                    prelude: vec![Pre::Wire(w690.clone()), Pre::Remove(1), Pre::Wire(w700.clone()), Pre::Remove(1)],
                    wire: w690.clone(),
                    muts: offers,
                },
            );
        }
        // malformed group headers, sealed honestly: no source id; no destination; unknown group;
        // unknown session id; control message to our node id (0) and to another node id
        let odd: Vec<PacketHdr> = vec![
            ghdr(0, 0, 710, None, None, Some(0x0101)),
            ghdr(0, 0, 711, Some(NODE_A), None, None),
            ghdr(0, 0, 712, Some(NODE_A), None, Some(0x0999)),
            mk_hdr(Some(NODE_A), None, Some(0x0101), groups[0].sid ^ 0x5a5a, 0x01, 713, 80, 0x01, 1, 8, None, None),
            ghdr(0, 0x40, 714, Some(NODE_A), Some(0), None),
            ghdr(0, 0x40, 715, Some(NODE_A), Some(NODE_B), None),
            ghdr(1, 0x40, 716, Some(NODE_A), Some(0), None),
        ];
        for (i, hdr) in odd.iter().enumerate() {
            let key = if i == 6 { k2 } else { k1 };
            let (e, w) = honest(crypto, key, NODE_A, hdr, &[1, 2, 3, 4]);
            g.push_d(
                "G",
                DCase {
                    world: vec![e],
                    sessions: vec![unicast.clone()],
                    groups: groups.clone(),
                    from: addr_a(),
                    oracle: (7, None),
                    prelude: vec![],
                    wire: w,
                    muts: vec!["-".into(), "F".into()],
                },
            );
        }
        // more than 1280 encrypted bytes in a group message
        let hdr = ghdr(0, 0, 720, Some(NODE_A), None, Some(0x0101));
        for len in [1280 - 6 - 16, 1280 - 6 - 16 + 1] {
            let (e, w) = honest(crypto, k1, NODE_A, &hdr, &payload_of(&mut g.rng, len));
            g.push_d(
                "G",
                DCase {
                    world: vec![e],
                    sessions: vec![unicast.clone()],
                    groups: groups.clone(),
                    from: addr_a(),
                    oracle: (7, None),
                    prelude: vec![],
                    wire: w,
                    muts: vec!["-".into()],
                },
            );
        }
        // a full session table in which nothing can be evicted (every session holds an exchange)
        let mut full = Vec::new();
        for i in 0..16u16 {
            let mut s = sess(Mode::Case(1), addr_a(), NODE_B, Some(NODE_A), 11, 12, 100 + i, 9);
            s.exchs = vec![ex(1, 'R', 'o', None, None)];
            full.push(s);
        }
        g.push_d(
            "G",
            DCase {
                world: world.clone(),
                sessions: full,
                groups: groups.clone(),
                from: addr_a(),
                oracle: (7, None),
                prelude: vec![],
                wire: wires[0].clone(),
                muts: vec!["-".into()],
            },
        );
    }

    // ---------------------------------------------------------------- R: round trips through the real TX path
    {
        let tx_lens: Vec<usize> = vec![0, 1, 15, 16, 17, MAX_TX_PAYLOAD - 1, MAX_TX_PAYLOAD];
        // (name, sender, receiver, from)
        let mut pairs: Vec<(&str, SessS, SessS, AddrS)> = Vec::new();
        let a_case = sess(Mode::Case(1), addr_b(), NODE_A, Some(NODE_B), 12, 11, 9, 7);
        let b_case = sess(Mode::Case(1), addr_a(), NODE_B, Some(NODE_A), 11, 12, 7, 9);
        pairs.push(("case", a_case.clone(), b_case.clone(), addr_a()));
        let a_pase = sess(Mode::Pase(0), addr_b(), 0, Some(0), 14, 13, 19, 17);
        let b_pase = sess(Mode::Pase(0), addr_a(), 0, Some(0), 13, 14, 17, 19);
        pairs.push(("pase", a_pase, b_pase, addr_a()));
        let tcp_a = AddrS { kind: 1, ..addr_a() };
        let tcp_b = AddrS { kind: 1, ..addr_b() };
        pairs.push(("case-tcp", SessS { addr: tcp_b, ..a_case.clone() }, SessS { addr: tcp_a.clone(), ..b_case.clone() }, tcp_a));
        // unsecured: the initiator's ephemeral node id travels as source, the responder echoes it
        let a_plain = sess(Mode::Plain, addr_b(), NODE_A, None, 0, 0, 0, 0);
        let b_plain = sess(Mode::Plain, addr_a(), 0, Some(NODE_A), 0, 0, 0, 0);
        pairs.push(("plain", a_plain, b_plain, addr_a()));
        for (name, s, r, from) in pairs {
            for (li, len) in tx_lens.iter().enumerate() {
                for variant in 0..3usize {
                    if !thorough && variant > 0 && li % 3 != variant {
                        continue;
                    }
                    let mut sender = s.clone();
                    let mut receiver = r.clone();
                    let payload = payload_of(&mut g.rng, *len);
                    // variant 0: no exchange; 1: our initiator exchange; 2: our responder exchange with a pending ack
                    let (exch, rel) = match variant {
                        0 => {
                            // without an exchange the message carries exchange id 0 and no initiator flag:
                            // the peer's own initiator exchange 0 takes it
                            receiver.exchs = vec![ex(0, 'I', 'o', None, None)];
                            (None, li % 2 == 0)
                        }
                        1 => {
                            sender.exchs = vec![ex(33, 'I', 'o', None, None)];
                            receiver.exchs = vec![];
                            (Some(0), true)
                        }
                        _ => {
                            sender.exchs = vec![None, ex(34, 'R', 'o', None, Some((555, false)))];
                            receiver.exchs = vec![ex(34, 'I', 'o', Some(555), None)];
                            (Some(1), false)
                        }
                    };
                    sender.ctr = Some(2000 + 10 * li as u32 + variant as u32);
                    let (pid, opcode) = (1u16, 5u8);
                    let Ok((hdr, _wire, _)) = real_send(crypto, &sender, exch, None, pid, opcode, rel, &payload) else {
                        continue;
                    };
                    let world = if sender.mode == Mode::Plain {
                        vec![]
                    } else {
                        vec![honest(crypto, sender.enck, sender.lnode, &hdr, &payload).0]
                    };
                    g.push_r(
                        &format!("R-{}", name),
                        RCase {
                            world,
                            sender,
                            exch,
                            gctr: None,
                            pid,
                            opcode,
                            rel,
                            payload,
                            receivers: table_with(receiver),
                            groups: vec![],
                            from: from.clone(),
                            oracle: (0, None),
                        },
                    );
                }
            }
        }
        // group data and group control messages through the real TX path
        let k1 = GROUP_KEY_BASE + 1;
        let groups = vec![GroupS { fab: 1, node: 0, gid: 0x0101, key: k1, sid: group_sid(crypto, k1) }];
        for (opcode, gctr, exchs, exch) in [
            (8u8, Some(4242u32), vec![ex(35, 'I', 'o', None, None)], Some(0usize)),
            (8u8, None, vec![ex(35, 'I', 'o', None, None)], Some(0usize)),
            (0u8, None, vec![ex(36, 'I', 'o', None, None)], Some(0usize)),
        ] {
            let mut sender = sess(Mode::Group(1, 0x0101), AddrS::udp4(200, 5540), NODE_A, Some(0), k1, k1, groups[0].sid, groups[0].sid);
            sender.exchs = exchs;
            sender.ctr = Some(3000);
            let pid = if opcode == 0 { 0u16 } else { 1u16 };
            let payload = payload_of(&mut g.rng, 20);
            let world = match real_send(crypto, &sender, exch, gctr, pid, opcode, true, &payload) {
                Ok((hdr, _, _)) => vec![honest(crypto, k1, NODE_A, &hdr, &payload).0],
                Err(_) => vec![],
            };
            g.push_r(
                "R-group",
                RCase {
                    world,
                    sender,
                    exch,
                    gctr,
                    pid,
                    opcode,
                    rel: true,
                    payload,
                    receivers: vec![],
                    groups: groups.clone(),
                    from: addr_a(),
                    oracle: (7, None),
                },
            );
        }
    }

    // ---------------------------------------------------------------- Q: random shapes (seed-dependent)
    {
        let n = if thorough { 600 } else { 24 };
        for qi in 0..n {
            let r = &mut g.rng;
            let mode_i = r.below(4);
            let (mode, snode, rpeer) = match mode_i {
                0 => (Mode::Pase(r.below(3) as u8), 0u64, Some(0u64)),
                1 => (Mode::Case(1 + r.below(3) as u8), NODE_A, Some(NODE_A)),
                2 => (Mode::Case(1), r.next() | 1, None),
                _ => (Mode::Case(2), r.next(), Some(0)),
            };
            let snode = if mode_i == 3 { rpeer.unwrap() } else if mode_i == 2 { 0 } else { snode };
            let kind = [0u8, 0, 0, 1][r.below(4) as usize];
            let from = AddrS { kind, ..AddrS::udp4(1 + r.below(3) as u8, 5540 + r.below(3) as u16) };
            let lsid = 1 + r.below(0xfffe) as u16;
            let mut target = sess(mode, from.clone(), r.next(), rpeer, 11, 12, lsid, 1 + r.below(100) as u16);
            let base_ctr = r.below(1 << 32) as u32;
            target.win = match r.below(3) {
                0 => (false, 0, 0),
                1 => (true, base_ctr, r.below(1 << 16) as u16),
                _ => (true, base_ctr.wrapping_sub(5), 0xffff),
            };
            let ctr = base_ctr.wrapping_add(r.below(40) as u32).wrapping_sub(20);
            let nex = r.below(6) as usize;
            target.exchs = (0..nex)
                .map(|i| {
                    if r.chance(1, 5) {
                        None
                    } else {
                        let role = if r.chance(1, 2) { 'I' } else { 'R' };
                        let retr = if r.chance(1, 3) { Some(1000 + i as u32) } else { None };
                        let ack = if r.chance(1, 3) { Some((r.below(1000) as u32, r.chance(1, 2))) } else { None };
                        ex(r.below(4) as u16, role, ['o', 'd', 'p'][r.below(3) as usize], retr, ack)
                    }
                })
                .collect();
            // a trailing free slot cannot be told from a shorter table in a snapshot
            while matches!(target.exchs.last(), Some(None)) {
                target.exchs.pop();
            }
            target.expired = r.chance(1, 8);
            let src = if r.chance(1, 4) { Some(if r.chance(2, 3) { rpeer.unwrap_or(5) } else { NODE_C }) } else { None };
            let dstu = if r.chance(1, 5) { Some(r.next()) } else { None };
            let dstg = if dstu.is_none() && r.chance(1, 6) { Some(r.below(1 << 16) as u16) } else { None };
            let sec = [0u8, 0, 0, 0x20, 0x40, 0x80, 0xe0][r.below(7) as usize];
            let xflags = r.below(32) as u8;
            let (pid, opcode) = [(1u16, 2u8), (1, 5), (0, 0x10), (0, 0x40), (0, 0x30), (0xfff1, 9)][r.below(6) as usize];
            let vendor = if xflags & 0x10 != 0 { Some(r.below(1 << 16) as u16) } else { None };
            let ack = if xflags & 0x02 != 0 { Some(if r.chance(1, 2) { 1000 } else { r.below(1 << 32) as u32 }) } else { None };
            let hdr = mk_hdr(src, dstu, dstg, lsid, sec, ctr, r.below(4) as u16, xflags & !0x12, pid, opcode, vendor, ack);
            let len = if qi % 6 == 5 { 200 + r.below(900) as usize } else { r.below(40) as usize };
            let payload = payload_of(r, len);
            let (e, wire) = honest(crypto, 11, snode, &hdr, &payload);
            let mut muts = vec!["-".to_string()];
            if len < 64 {
                muts.push("F".into());
            } else {
                for _ in 0..24 {
                    muts.push(format!("f{}", g.rng.below(wire.len() as u64 * 8)));
                }
            }
            muts.push("T".into());
            muts.push("X".into());
            g.push_d(
                "Q",
                DCase {
                    world: vec![e],
                    sessions: table_with(target),
                    groups: vec![],
                    from,
                    oracle: (0, None),
                    prelude: vec![],
                    wire,
                    muts,
                },
            );
        }
    }

    let n = g.lines.len() as u64;
    g.count("case_lines", n);
    (g.lines, g.stats)
}

fn main() {
    rsm_harness::silence_panics();
    let args: Vec<String> = std::env::args().collect();
    let crypto = test_only_crypto();
    match args.get(1).map(|s| s.as_str()) {
        Some("gen") => {
            let tier = &args[2];
            let seed: u64 = args[3].parse().unwrap();
            let outdir = std::path::PathBuf::from(&args[4]);
            std::fs::create_dir_all(&outdir).unwrap();
            let (cases, stats) = generate(&crypto, tier, seed);
            let mut cf = std::io::BufWriter::new(std::fs::File::create(outdir.join("cases.txt")).unwrap());
            for c in &cases {
                writeln!(cf, "{}", c).unwrap();
            }
            let mut sj = String::from("{");
            for (i, (k, v)) in stats.iter().enumerate() {
                if i > 0 {
                    sj.push(',');
                }
                write!(sj, "\"{}\":{}", k, v).unwrap();
            }
            sj.push('}');
            std::fs::write(outdir.join("stats.json"), sj).unwrap();
        }
        Some("run") => {
            let text = std::fs::read_to_string(&args[2]).unwrap();
            let stdout = std::io::stdout();
            let mut lock = stdout.lock();
            for line in text.lines() {
                let f: Vec<&str> = line.split(' ').collect();
                if f.len() < 2 {
                    continue;
                }
                let crypto = test_only_crypto();
                let l = line.to_string();
                let r = rsm_harness::catch(std::panic::AssertUnwindSafe(move || run_line(&crypto, &l)));
                match r {
                    Ok(Some(s)) => writeln!(lock, "{}", s).unwrap(),
                    Ok(None) => {}
                    Err(msg) => writeln!(lock, "{} {} PANIC:{}", f[0], f[1], msg.replace(' ', "_")).unwrap(),
                }
            }
        }
        _ => {
            eprintln!("usage: c03 gen <tier> <seed> <outdir> | c03 run <cases>");
            std::process::exit(2);
        }
    }
}
