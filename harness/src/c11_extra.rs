// Part of c11.rs (included): capacity-sized values, round trips, corrupt blobs, key census, generator.

// ------------------------------------------------------------------ capacity-sized values (tokens >= 1000)

const CAP: u64 = 1000;

fn pad(s: String, n: usize) -> String {
    let mut s = s;
    while s.len() < n {
        s.push('_');
    }
    s
}

/// "n<k>" for small tokens, padded to the maximum length for capacity tokens
fn tok_string(prefix: &str, k: u64, maxlen: usize) -> String {
    if k >= CAP {
        pad(format!("{}{}", prefix, k), maxlen)
    } else {
        format!("{}{}", prefix, k)
    }
}

/// inverse of `tok_string`; anything else is printed raw behind a `?`
fn string_tok(s: &str, prefix: &str, maxlen: usize) -> String {
    if s.is_empty() {
        return "0".to_string();
    }
    let raw = || format!("?{}", s);
    let (body, padded) = if s.len() == maxlen && s.ends_with('_') { (s.trim_end_matches('_'), true) } else { (s, false) };
    match body.strip_prefix(prefix).and_then(|n| n.parse::<u64>().ok()) {
        Some(k) if (k >= CAP) == padded && tok_string(prefix, k, maxlen) == s => k.to_string(),
        _ => raw(),
    }
}

/// (privilege on the wire, subjects, targets) of each entry
type AclSpec = Vec<(u8, Vec<u64>, Vec<Target>)>;

fn small_acl_spec(k: u64) -> AclSpec {
    let mut v: AclSpec = vec![(5, vec![ADMIN], vec![])];
    if k != 0 {
        v.push((1, vec![k], vec![]));
    }
    v
}

fn cap_acl_spec(k: u64) -> AclSpec {
    use rs_matter::acl::{MAX_ACL_ENTRIES_PER_FABRIC, MAX_SUBJECTS_PER_ACL_ENTRY, MAX_TARGETS_PER_ACL_ENTRY};
    let mut v: AclSpec = vec![(5, vec![ADMIN], vec![])];
    for i in 1..MAX_ACL_ENTRIES_PER_FABRIC as u64 {
        // AccessControlEntryPrivilegeEnum: View 1, ProxyView 2, Operate 3, Manage 4, Administer 5
        let privilege = match (k + i) % 3 {
            0 => 1,
            1 => 3,
            _ => 4,
        };
        let subjects: Vec<u64> = (0..MAX_SUBJECTS_PER_ACL_ENTRY as u64).map(|j| k * 1000 + i * 100 + j + 1).collect();
        let targets: Vec<Target> = (0..MAX_TARGETS_PER_ACL_ENTRY as u64)
            .map(|j| match j % 3 {
                0 => Target::new(Some((k % 50 + j) as u16), Some((k + j) as u32), None),
                1 => Target::new(None, Some(0xFFF1_0000 + (k + j) as u32 % 0xFC00), None),
                _ => Target::new(None, None, Some((k + j) as u32)),
            })
            .collect();
        v.push((privilege, subjects, targets));
    }
    v
}

fn acl_entries(fab: Option<NonZeroU8>, spec: &AclSpec) -> Vec<AclEntry> {
    spec.iter()
        .map(|(p, subjects, targets)| {
            let privilege = match p {
                5 => Privilege::ADMIN,
                4 => Privilege::MANAGE,
                3 => Privilege::OPERATE,
                _ => Privilege::VIEW,
            };
            let mut e = AclEntry::new(fab, privilege, AuthMode::Case);
            for s in subjects {
                e.add_subject(*s).unwrap();
            }
            for t in targets {
                e.add_target(t.clone()).unwrap();
            }
            e
        })
        .collect()
}

fn cap_acl_entries(fab: Option<NonZeroU8>, k: u64) -> Vec<AclEntry> {
    acl_entries(fab, &cap_acl_spec(k))
}

/// the wire form (AccessControlEntryStruct array) of a list of entries
fn acl_wire(spec: &AclSpec) -> Vec<u8> {
    tlv(|w| {
        w.start_array(&TLVTag::Context(2))?;
        for (p, subjects, targets) in spec {
            w.start_struct(&TLVTag::Anonymous)?;
            w.u8(&TLVTag::Context(1), *p)?;
            w.u8(&TLVTag::Context(2), 2)?;
            w.start_array(&TLVTag::Context(3))?;
            for x in subjects {
                w.u64(&TLVTag::Anonymous, *x)?;
            }
            w.end_container()?;
            if targets.is_empty() {
                w.null(&TLVTag::Context(4))?;
            } else {
                w.start_array(&TLVTag::Context(4))?;
                for t in targets {
                    w.start_struct(&TLVTag::Anonymous)?;
                    match t.cluster {
                        Some(c) => w.u32(&TLVTag::Context(0), c)?,
                        None => w.null(&TLVTag::Context(0))?,
                    }
                    match t.endpoint {
                        Some(c) => w.u16(&TLVTag::Context(1), c)?,
                        None => w.null(&TLVTag::Context(1))?,
                    }
                    match t.device_type {
                        Some(c) => w.u32(&TLVTag::Context(2), c)?,
                        None => w.null(&TLVTag::Context(2))?,
                    }
                    w.end_container()?;
                }
                w.end_container()?;
            }
            w.end_container()?;
        }
        w.end_container()
    })
}

/// the model's token of an access control list
fn acl_token(f: &Fabric) -> String {
    let entries: Vec<AclEntry> = f.acl_iter().cloned().collect();
    let fab = Some(f.fab_idx());
    let raw = || {
        let v: Vec<String> = entries
            .iter()
            .map(|e| match e.subjects().as_opt_ref() {
                Some(s) => s.iter().map(|x| x.to_string()).collect::<Vec<_>>().join("/"),
                None => "*".to_string(),
            })
            .collect();
        format!("?{}", v.join("+"))
    };
    if entries == acl_entries(fab, &small_acl_spec(0)) {
        return "0".to_string();
    }
    if entries.len() < 2 {
        return raw();
    }
    let first = entries[1].subjects().as_opt_ref().and_then(|s| s.first().copied()).unwrap_or(0);
    if first < CAP && entries == acl_entries(fab, &small_acl_spec(first)) {
        return first.to_string();
    }
    let k = first / 1000;
    if k >= CAP && entries == cap_acl_entries(fab, k) {
        return k.to_string();
    }
    raw()
}

fn cap_gkm(k: u64) -> Vec<(u16, u16)> {
    // the GroupKeyMap write handler accepts at most MAX_GROUP_KEYS_PER_FABRIC entries
    let n = rs_matter::fabric::MAX_GROUP_KEYS_PER_FABRIC.min(rs_matter::fabric::MAX_GROUPS_PER_FABRIC) as u64;
    (0..n).map(|i| ((k + i) as u16, 1 + (i % 2) as u16)).collect()
}

fn gkm_token(f: &Fabric) -> String {
    let v: Vec<(u16, u16)> = f.groups().key_map_iter().map(|m| (m.group_id, m.group_key_set_id)).collect();
    if v.is_empty() {
        return "0".to_string();
    }
    let k = v[0].0 as u64;
    if v.len() == 1 && v[0].1 == 1 && k < CAP {
        return k.to_string();
    }
    if k >= CAP && v == cap_gkm(k) {
        return k.to_string();
    }
    format!("?{}", v.iter().map(|x| format!("{}.{}", x.0, x.1)).collect::<Vec<_>>().join("+"))
}

#[derive(Clone, Debug, PartialEq)]
struct Bnd {
    node: Option<u64>,
    group: Option<u16>,
    endpoint: Option<u16>,
    cluster: Option<u32>,
}

fn cap_bindings(k: u64) -> Vec<Bnd> {
    vec![
        Bnd { node: Some(k), group: None, endpoint: Some(1), cluster: None },
        Bnd { node: None, group: Some((k % 60000) as u16 + 1), endpoint: None, cluster: Some(6) },
        Bnd { node: Some(u64::MAX / 2 - k), group: None, endpoint: Some(0xfffe), cluster: Some(0xFFF1_FC00 + (k % 200) as u32) },
    ]
}

fn bindings_wire(v: &[Bnd]) -> Vec<u8> {
    tlv(|w| {
        w.start_array(&TLVTag::Context(2))?;
        for b in v {
            w.start_struct(&TLVTag::Anonymous)?;
            if let Some(n) = b.node {
                w.u64(&TLVTag::Context(1), n)?;
            }
            if let Some(n) = b.group {
                w.u16(&TLVTag::Context(2), n)?;
            }
            if let Some(n) = b.endpoint {
                w.u16(&TLVTag::Context(3), n)?;
            }
            if let Some(n) = b.cluster {
                w.u32(&TLVTag::Context(4), n)?;
            }
            w.end_container()?;
        }
        w.end_container()
    })
}

/// the tokens of the binding registry: one `<endpoint>.<fabric>.<token>` per (endpoint, fabric)
fn bindings_tokens(b: &Binds) -> String {
    let mut groups: BTreeMap<(u16, u8), Vec<Bnd>> = BTreeMap::new();
    for i in 0..b.len() {
        if let Some(x) = b.get(i) {
            groups
                .entry((x.local_endpoint, x.fab_idx.get()))
                .or_default()
                .push(Bnd { node: x.node, group: x.group, endpoint: x.endpoint, cluster: x.cluster });
        }
    }
    let mut v: Vec<String> = Vec::new();
    for ((ep, fab), list) in groups {
        let k = list[0].node.unwrap_or(0);
        let tok = if list.len() == 1 && k < CAP && list[0] == (Bnd { node: Some(k), group: None, endpoint: Some(1), cluster: None }) {
            k.to_string()
        } else if k >= CAP && list == cap_bindings(k) {
            k.to_string()
        } else {
            format!("?{:?}", list).replace(' ', "")
        };
        v.push(format!("{}.{}.{}", ep, fab, tok));
    }
    if v.is_empty() {
        "-".to_string()
    } else {
        v.join("+")
    }
}

fn cap_labels(k: u64) -> Vec<(String, String)> {
    (0..LABELS_PER_EP as u64).map(|i| (pad(format!("k{}.{}", k, i), 16), pad(format!("v{}.{}", k, i), 16))).collect()
}

fn labels_wire(v: &[(String, String)]) -> Vec<u8> {
    tlv(|w| {
        w.start_array(&TLVTag::Context(2))?;
        for (a, b) in v {
            w.start_struct(&TLVTag::Anonymous)?;
            w.utf8(&TLVTag::Context(0), a)?;
            w.utf8(&TLVTag::Context(1), b)?;
            w.end_container()?;
        }
        w.end_container()
    })
}

fn labels_tokens(l: &Labels) -> String {
    let mut v: Vec<String> = Vec::new();
    l.verif_for_each(|ep, entries| {
        if entries.is_empty() {
            return;
        }
        let list: Vec<(String, String)> = entries.iter().map(|x| (x.label.to_string(), x.value.to_string())).collect();
        let k: u64 = list[0].0.trim_end_matches('_').trim_start_matches('k').split('.').next().and_then(|s| s.parse().ok()).unwrap_or(0);
        let tok = if list.len() == 1 && k < CAP && list[0] == (format!("k{}", k), format!("v{}", k)) {
            k.to_string()
        } else if k >= CAP && list == cap_labels(k) {
            k.to_string()
        } else {
            format!("?{:?}", list).replace(' ', "")
        };
        v.push(format!("{}.{}", ep, tok));
    });
    v.sort();
    if v.is_empty() {
        "-".to_string()
    } else {
        v.join("+")
    }
}

/// (offset, valid at, name) of each time zone entry
fn tz_spec(k: u64) -> Vec<(i32, u64, String)> {
    if k >= CAP {
        // both slots, extreme offsets, a name of the maximum length
        vec![(-12 * 3600, 0, pad(format!("z{}", k), 64)), (14 * 3600, k, pad(format!("y{}", k), 64))]
    } else {
        vec![((k as i32 % 12) * 3600, 0, format!("z{}", k))]
    }
}

fn tz_token(tz: &time_sync::TimeZoneStore) -> String {
    let mut got: Vec<(i32, u64, String)> = Vec::new();
    let _ = tz.time_zone(&mut |e| {
        got.push((e.offset, e.valid_at, e.name.unwrap_or("").to_string()));
        Ok(())
    });
    // nothing set: the list reads as the spec default, one entry {0, 0, no name}
    if got.is_empty() || got == vec![(0, 0, String::new())] {
        return "0".to_string();
    }
    let k: u64 = got[0].2.trim_end_matches('_').trim_start_matches('z').parse().unwrap_or(0);
    if k != 0 && got == tz_spec(k) {
        k.to_string()
    } else {
        format!("?{:?}", got).replace(' ', "")
    }
}

fn icd_key(k: u64) -> [u8; 16] {
    let mut b = [0u8; 16];
    b[..8].copy_from_slice(&k.to_le_bytes());
    b[8..].copy_from_slice(&(!k).to_le_bytes());
    b
}

fn icd_tokens(icd: &icd_mgmt::Icd) -> String {
    let mut v: Vec<(u8, String)> = icd.with_registrations(|regs| {
        regs.iter()
            .map(|r| {
                let k = r.monitored_subject;
                let ok = r.check_in_node_id == ICD_CLIENT && r.key.access() == &icd_key(k)[..] && (r.client_type as u8) == (k % 2) as u8;
                (r.fab_idx.get(), format!("{}.{}{}", r.fab_idx.get(), k, if ok { "" } else { "?" }))
            })
            .collect()
    });
    v.sort();
    if v.is_empty() {
        "-".to_string()
    } else {
        v.into_iter().map(|x| x.1).collect::<Vec<_>>().join("+")
    }
}

fn ota_value(k: u64) -> Vec<u8> {
    tlv(|w| {
        w.start_array(&TLVTag::Context(2))?;
        if k != 0 {
            w.start_struct(&TLVTag::Anonymous)?;
            w.u64(&TLVTag::Context(1), k)?;
            w.u16(&TLVTag::Context(2), (k % 7) as u16)?;
            w.end_container()?;
        }
        w.end_container()
    })
}

fn ota_tokens(p: &ota_req::Providers) -> String {
    let mut v: Vec<(u8, String)> = Vec::new();
    for i in 0..p.len() {
        if let Some(x) = p.get(i) {
            let ok = x.endpoint == (x.node_id % 7) as u16;
            v.push((x.fab_idx.get(), format!("{}.{}{}", x.fab_idx.get(), x.node_id, if ok { "" } else { "?" })));
        }
    }
    v.sort();
    if v.is_empty() {
        "-".to_string()
    } else {
        v.into_iter().map(|x| x.1).collect::<Vec<_>>().join("+")
    }
}

fn scenes_tokens(sc: &scenes::ScenesState<MAX_SCENES>) -> String {
    let mut v: Vec<(u8, String)> = Vec::new();
    let current = sc.verif_for_each(|fab, ep, group, scene, transition, ext| {
        let ok = ep == APP_EP && group == 0 && scene == 1 && ext == 1; // an empty extension field list is its end-of-container byte
        v.push((fab, format!("{}.{}{}", fab, transition, if ok { String::new() } else { format!("?{}/{}/{}/{}", ep, group, scene, ext) })));
    });
    v.sort();
    let mut s = if v.is_empty() { "-".to_string() } else { v.into_iter().map(|x| x.1).collect::<Vec<_>>().join("+") };
    if current != 0 {
        s.push_str(&format!("?current{}", current));
    }
    s
}

// ------------------------------------------------------------------ R: round trips of each persisted structure up to capacity

fn rand_string(rng: &mut Rng, n: usize) -> String {
    (0..n).map(|_| (b'a' + rng.below(26) as u8) as char).collect()
}

fn rt_fabric(base: &Base, rng: &mut Rng, full: bool) -> String {
    use rs_matter::fabric::{GroupKeyMapping, MAX_GROUPS_PER_FABRIC, MAX_GROUP_KEYS_PER_FABRIC, MAX_GROUP_NAME_LEN};
    use rs_matter::group_keys::{GroupEpochKeyEntry, GroupKeySet, GROUP_MAX_EPOCH_KEYS};
    let which = rng.below(2) as usize;
    let idx = 1 + which as u16;
    let mut src = BTreeMap::new();
    src.insert(idx, base.fab_blobs[which].clone());
    let mut buf = vec![0u8; 8192];
    let mut fabrics = Fabrics::new();
    fabrics.load_persist(MemKv::from_blobs(src), &mut buf).unwrap();
    let fi = NonZeroU8::new(idx as u8).unwrap();
    let n = if full { 32 } else { rng.below(33) as usize };
    let label = rand_string(rng, n);
    fabrics.update_label(fi, &label).unwrap();
    {
        let f = fabrics.get_mut(fi).unwrap();
        f.acl_remove_all();
        let k = CAP + rng.below(100000);
        let entries = cap_acl_entries(Some(fi), k);
        let n = if full { entries.len() } else { 1 + rng.below(entries.len() as u64) as usize };
        for e in entries.into_iter().take(n) {
            f.acl_add(e).unwrap();
        }
        let nk = if full { MAX_GROUP_KEYS_PER_FABRIC } else { rng.below(MAX_GROUP_KEYS_PER_FABRIC as u64 + 1) as usize };
        for i in 0..nk {
            let mut ks = GroupKeySet { group_key_set_id: 1 + i as u16, group_key_security_policy: (i % 2) as u8, ..Default::default() };
            let ne = if full { GROUP_MAX_EPOCH_KEYS } else { 1 + rng.below(GROUP_MAX_EPOCH_KEYS as u64) as usize };
            for j in 0..ne {
                let mut e = GroupEpochKeyEntry::default();
                let mut kb = [0u8; 16];
                for b in kb.iter_mut() {
                    *b = rng.below(256) as u8;
                }
                e.epoch_key.access_mut().copy_from_slice(&kb);
                e.epoch_start_time = if full && j == 0 { u64::MAX } else { rng.next() };
                ks.epoch_keys.push(e).map_err(|_| ()).unwrap();
            }
            f.groups_mut().key_set_add(ks).unwrap();
        }
        let ng = if full { MAX_GROUPS_PER_FABRIC } else { rng.below(MAX_GROUPS_PER_FABRIC as u64 + 1) as usize };
        for i in 0..ng {
            f.groups_mut().key_map_add(GroupKeyMapping { group_id: 100 + i as u16, group_key_set_id: 1 + (i % 2) as u16 }).unwrap();
            let n = if full { MAX_GROUP_NAME_LEN } else { rng.below(MAX_GROUP_NAME_LEN as u64 + 1) as usize };
            let name = rand_string(rng, n);
            f.groups_mut().add(1 + (i % 2) as u16, 100 + i as u16, &name).unwrap();
            if full {
                let _ = f.groups_mut().add(3, 100 + i as u16, &name);
            }
        }
        let vvs: Vec<u8> = (0..85).map(|_| rng.below(256) as u8).collect();
        let vvsc: Vec<u8> = (0..if full { 400 } else { rng.below(401) as usize }).map(|_| rng.below(256) as u8).collect();
        f.set_vid_verification(Some(1 + rng.below(0xFFF3) as u16), Some(&vvs), Some(&vvsc)).unwrap();
    }
    // store with the real persistence path, load with the real load path, store again
    let matter = e2e::new_matter(e2e::dev_det(None, None), false);
    let kv = MemKv::new();
    let access = matter.kv(kv.clone());
    {
        let mut p = FabricPersist::new(&access);
        if let Err(e) = p.store(fabrics.get(fi).unwrap()) {
            return format!("store-failed:{:?}", e.code());
        }
    }
    let b1 = kv.blobs();
    let mut re = Fabrics::new();
    if let Err(e) = re.load_persist(MemKv::from_blobs(b1.clone()), &mut buf) {
        return format!("load-failed:{:?}", e.code());
    }
    let kv2 = MemKv::new();
    let access2 = matter.kv(kv2.clone());
    let a = fabrics.get(fi).unwrap();
    let b = match re.get(fi) {
        Some(b) => b,
        None => return "lost".to_string(),
    };
    {
        let mut p = FabricPersist::new(&access2);
        p.store(b).unwrap();
    }
    let mut diffs: Vec<&str> = Vec::new();
    if kv2.blobs() != b1 {
        diffs.push("reencode");
    }
    if a.node_id() != b.node_id() || a.fabric_id() != b.fabric_id() || a.compressed_fabric_id() != b.compressed_fabric_id() {
        diffs.push("ids");
    }
    if a.vendor_id() != b.vendor_id() {
        diffs.push("vendor");
    }
    if a.label() != b.label() {
        diffs.push("label");
    }
    if a.root_ca() != b.root_ca() || a.noc() != b.noc() || a.icac() != b.icac() || a.vvsc() != b.vvsc() {
        diffs.push("certs");
    }
    if a.vid_verification_statement() != b.vid_verification_statement() {
        diffs.push("vvs");
    }
    if a.secret_key().access() != b.secret_key().access() {
        diffs.push("key");
    }
    if a.ipk().epoch_key.access() != b.ipk().epoch_key.access() || a.ipk().op_key.access() != b.ipk().op_key.access() {
        diffs.push("ipk");
    }
    if a.acl_iter().cloned().collect::<Vec<_>>() != b.acl_iter().cloned().collect::<Vec<_>>() {
        diffs.push("acl");
    }
    let ks = |f: &Fabric| -> Vec<String> {
        f.groups()
            .key_set_iter()
            .map(|k| {
                format!(
                    "{}/{}/{}",
                    k.group_key_set_id,
                    k.group_key_security_policy,
                    k.epoch_keys.iter().map(|e| format!("{:?}@{}", e.epoch_key.access(), e.epoch_start_time)).collect::<Vec<_>>().join(",")
                )
            })
            .collect()
    };
    if ks(a) != ks(b) {
        diffs.push("keysets");
    }
    let km = |f: &Fabric| -> Vec<(u16, u16)> { f.groups().key_map_iter().map(|m| (m.group_id, m.group_key_set_id)).collect() };
    if km(a) != km(b) {
        diffs.push("keymap");
    }
    let gt = |f: &Fabric| -> Vec<String> {
        f.groups().iter().map(|g| format!("{}/{:?}/{}/{:?}/{:?}", g.group_id, g.endpoints.as_slice(), g.group_name, g.has_aux_acl, g.mcast_policy.map(|p| p as u8))).collect()
    };
    if gt(a) != gt(b) {
        diffs.push("grouptable");
    }
    if diffs.is_empty() {
        "ok".to_string()
    } else {
        format!("diff:{}", diffs.join("+"))
    }
}

fn rt_basic(rng: &mut Rng, full: bool) -> String {
    let mut a = BasicInfoSettings::new();
    let n = if full { 32 } else { rng.below(33) as usize };
    a.node_label.push_str(&rand_string(rng, n)).unwrap();
    if full || rng.chance(1, 2) {
        a.set_location(&two_letters(rng.below(676)));
    }
    if full || rng.chance(1, 2) {
        use rs_matter::dm::clusters::decl::general_commissioning::RegulatoryLocationTypeEnum as R;
        a.location_type = Some(*rng.pick(&[R::Indoor, R::Outdoor, R::IndoorOutdoor]));
    }
    a.local_config_disabled = rng.chance(1, 2);
    a.configuration_version = if full { u32::MAX } else { rng.next() as u32 };
    if full || rng.chance(1, 2) {
        a.recovery_identifier = Some(if full { u64::MAX } else { rng.next() });
    }
    let matter = e2e::new_matter(e2e::dev_det(None, None), false);
    let kv = MemKv::new();
    let access = matter.kv(kv.clone());
    {
        let mut p = rs_matter::persist::Persist::new(&access);
        if let Err(e) = a.store_persist(&mut p) {
            return format!("store-failed:{:?}", e.code());
        }
    }
    let mut b = BasicInfoSettings::new();
    let mut buf = vec![0u8; 4096];
    if let Err(e) = b.load_persist(kv.clone(), &mut buf) {
        return format!("load-failed:{:?}", e.code());
    }
    if a == b {
        "ok".to_string()
    } else {
        format!("diff:{:?}!={:?}", a, b).replace(' ', "")
    }
}

fn rt_resumption(rng: &mut Rng, full: bool) -> String {
    let mut a = ResumableSessions::new();
    let n = if full { MAX_RESUMPTION_RECORDS } else { rng.below(MAX_RESUMPTION_RECORDS as u64 + 1) as usize };
    for i in 0..n {
        a.insert_or_update(resumption_record(1 + (i % 5) as u8, if full && i == 0 { u64::MAX } else { rng.next() }));
    }
    let kv = MemKv::new();
    let mut buf = vec![0u8; rs_matter::persist::KV_BUF_SIZE];
    if let Err(e) = a.store_persist(kv.clone(), &mut buf) {
        return format!("store-failed:{:?}", e.code());
    }
    let mut b = ResumableSessions::new();
    if let Err(e) = b.load_persist(kv.clone(), &mut buf) {
        return format!("load-failed:{:?}", e.code());
    }
    let show = |r: &ResumableSessions| -> Vec<String> {
        r.iter()
            .map(|x| {
                let mut b = [0u8; 256];
                let mut wb = WriteBuf::new(&mut b);
                x.to_tlv(&TLVTag::Anonymous, &mut wb).unwrap();
                let n = wb.get_tail();
                format!("{}.{}.{:?}.{:?}", x.fab_idx, x.peer_nodeid, x.peer_cat_ids, &b[..n])
            })
            .collect()
    };
    if kv.blobs().contains_key(&CASE_RESUMPTION_KEY) && show(&a) == show(&b) && a.len() == n {
        "ok".to_string()
    } else {
        format!("diff:{}!={}", a.len(), b.len())
    }
}

fn rt_nets(rng: &mut Rng, full: bool) -> String {
    let mut a = Nets::new();
    let n = if full { MAX_NETS } else { rng.below(MAX_NETS as u64 + 1) as usize };
    for i in 0..n {
        let id: Vec<u8> = (0..if full { 32 } else { 1 + rng.below(32) as usize }).map(|j| if j == 0 { b'a' + i as u8 } else { rng.below(256) as u8 }).collect();
        let pass: Vec<u8> = (0..if full { 64 } else { rng.below(65) as usize }).map(|_| rng.below(256) as u8).collect();
        if Networks::add_or_update(&mut a, &WirelessCreds::Wifi { ssid: &id, pass: &pass }).is_err() {
            return "add-failed".to_string();
        }
    }
    a.set_managed(rng.chance(1, 2));
    let mut b1 = vec![0u8; 2048];
    let n1 = match a.store(&mut b1) {
        Ok(n) => n,
        Err(e) => return format!("store-failed:{:?}", e.code()),
    };
    let mut b = Nets::new();
    if let Err(e) = b.load(&b1[..n1]) {
        return format!("load-failed:{:?}", e.code());
    }
    let mut b2 = vec![0u8; 2048];
    let n2 = b.store(&mut b2).unwrap();
    let ids = |x: &Nets| -> Vec<Vec<u8>> {
        let mut v = Vec::new();
        use rs_matter::dm::networks::wireless::WirelessNetwork;
        x.networks(|w| {
            v.push(w.id().to_vec());
            Ok(())
        })
        .unwrap();
        v
    };
    if b1[..n1] == b2[..n2] && ids(&a) == ids(&b) && a.managed() == b.managed() && ids(&a).len() == n {
        "ok".to_string()
    } else {
        "diff".to_string()
    }
}

fn run_roundtrip(base: &Base, f: &[&str]) -> String {
    // R <id> <structure> <seed> <count>
    let mut rng = Rng::new(f[3].parse().unwrap());
    let count: usize = f[4].parse().unwrap();
    let mut bad: Vec<String> = Vec::new();
    for i in 0..count {
        let full = i % 4 == 0;
        let r = match f[2] {
            "fabric" => rt_fabric(base, &mut rng, full),
            "basic" => rt_basic(&mut rng, full),
            "resumption" => rt_resumption(&mut rng, full),
            "nets" => rt_nets(&mut rng, full),
            other => format!("unknown:{}", other),
        };
        if r != "ok" && bad.len() < 3 {
            bad.push(format!("{}:{}", i, r));
        }
    }
    format!("{} {} {}", f[2], count, if bad.is_empty() { "ok".to_string() } else { bad.join(",") })
}

// ------------------------------------------------------------------ C: corrupt resumption blobs

fn valid_resumption_blob(n: usize, seed: u64) -> Vec<u8> {
    let mut a = ResumableSessions::new();
    for i in 0..n.min(MAX_RESUMPTION_RECORDS) {
        a.insert_or_update(resumption_record(1 + (i % 2) as u8, seed.wrapping_mul(31).wrapping_add(i as u64 + 1)));
    }
    let kv = MemKv::new();
    let mut buf = vec![0u8; rs_matter::persist::KV_BUF_SIZE];
    a.store_persist(kv.clone(), &mut buf).unwrap();
    kv.blobs()[&CASE_RESUMPTION_KEY].clone()
}

/// a well-formed blob with more records than the cache can hold
fn oversized_resumption_blob() -> Vec<u8> {
    tlv(|w| {
        w.start_array(&TLVTag::Anonymous)?;
        for i in 0..(MAX_RESUMPTION_RECORDS as u64 + 1) {
            resumption_record(1, 500 + i).to_tlv(&TLVTag::Anonymous, &mut *w)?;
        }
        w.end_container()
    })
}

fn corrupt_blob(kind: &str, rng: &mut Rng, i: usize) -> Vec<u8> {
    match kind {
        "random" => {
            let n = match rng.below(4) {
                0 => rng.below(8),
                1 => rng.below(64),
                _ => rng.below(600),
            } as usize;
            (0..n).map(|_| rng.below(256) as u8).collect()
        }
        "trunc" => {
            let b = valid_resumption_blob(1 + rng.below(4) as usize, rng.next());
            let cut = if i < b.len() { i } else { rng.below(b.len() as u64) as usize };
            b[..cut].to_vec()
        }
        "flip" => {
            let mut b = valid_resumption_blob(1 + rng.below(4) as usize, rng.next());
            let n = 1 + rng.below(3);
            for _ in 0..n {
                let p = rng.below(b.len() as u64) as usize;
                b[p] = if rng.chance(1, 2) { b[p] ^ (1 << rng.below(8)) } else { rng.below(256) as u8 };
            }
            b
        }
        "len" => {
            // a length field (1, 2, 4 or 8 bytes) with a boundary value, at the top or inside a record
            let lens: [u64; 12] = [0, 1, 0x7f, 0x80, 0xff, 0x100, 0xffff, 0x1_0000, 0xffff_ffff, 0x1_0000_0000, u64::MAX - 1, u64::MAX];
            let l = lens[i % lens.len()];
            let width = (i / lens.len()) % 4; // 0: 1 byte, 1: 2, 2: 4, 3: 8
            let utf8 = (i / (lens.len() * 4)) % 2 == 1;
            let ctrl = (if utf8 { 0x0c } else { 0x10 }) + width as u8;
            let mut lenbytes = l.to_le_bytes()[..1 << width].to_vec();
            let mut v: Vec<u8> = Vec::new();
            match (i / (lens.len() * 8)) % 3 {
                0 => {
                    // the blob itself is a string with that length
                    v.push(ctrl);
                    v.append(&mut lenbytes);
                    v.extend((0..rng.below(40)).map(|_| rng.below(256) as u8));
                }
                1 => {
                    // array of one struct whose resumption id has that length
                    v.extend([0x16, 0x15, 0x24, 0x00, 0x01, 0x24, 0x01, 0x09, 0x36, 0x02, 0x18]);
                    v.push(0x20 | ctrl);
                    v.push(0x03);
                    v.append(&mut lenbytes);
                    v.extend((0..rng.below(40)).map(|_| rng.below(256) as u8));
                    if rng.chance(1, 2) {
                        v.extend([0x18, 0x18]);
                    }
                }
                _ => {
                    // a valid blob whose first octet-string length byte is replaced
                    let mut b = valid_resumption_blob(2, rng.next());
                    if let Some(p) = b.iter().position(|x| *x == 0x30) {
                        if p + 2 < b.len() {
                            b[p + 2] = l as u8;
                        }
                    }
                    v = b;
                }
            }
            v
        }
        "type" => {
            // every control byte as the top-level element, with a tail
            let mut v = vec![(i % 256) as u8];
            v.extend((0..rng.below(20)).map(|_| rng.below(256) as u8));
            v
        }
        "many" => {
            let mut b = oversized_resumption_blob();
            if i % 2 == 1 {
                let p = rng.below(b.len() as u64) as usize;
                b[p] ^= 1 << rng.below(8);
            }
            b
        }
        "valid" => valid_resumption_blob(rng.below(MAX_RESUMPTION_RECORDS as u64 + 1) as usize, rng.next()),
        _ => vec![],
    }
}

fn run_corrupt(base: &Base, f: &[&str]) -> String {
    // C <id> <kind> <seed> <count>  ->  <kind> <count> <per-blob records>
    // per blob: <boot ok><parses on its own><key present after><records after>.<records parsed>
    let mut rng = Rng::new(f[3].parse().unwrap());
    let count: usize = f[4].parse().unwrap();
    let mut out: Vec<String> = Vec::with_capacity(count);
    for i in 0..count {
        let blob = corrupt_blob(f[2], &mut rng, i);
        let parsed = rs_matter::utils::storage::Vec::<ResumableSession, MAX_RESUMPTION_RECORDS>::from_tlv(&TLVElement::new(&blob));
        let (parse_ok, nparsed) = match rsm_harness::catch(std::panic::AssertUnwindSafe(|| parsed.map(|v| v.len()))) {
            Ok(Ok(n)) => (1, n),
            _ => (0, 0),
        };
        let mut blobs = BTreeMap::new();
        blobs.insert(1u16, base.fab_blobs[0].clone());
        blobs.insert(2u16, base.fab_blobs[1].clone());
        blobs.insert(CASE_RESUMPTION_KEY, blob.clone());
        let kv = MemKv::from_blobs(blobs);
        let (boot, cells) = boot_and_snapshot(&kv);
        let present = kv.blobs().contains_key(&CASE_RESUMPTION_KEY) as u8;
        let after = cells
            .split(' ')
            .find_map(|c| c.strip_prefix("R="))
            .map(|r| if r == "-" { 0 } else { r.split('+').count() })
            .unwrap_or(999);
        let mut rec = format!("{}{}{}{}.{}", (boot == "ok") as u8, parse_ok, present, after, nparsed);
        if boot != "ok" {
            let hex: String = blob.iter().take(64).map(|b| format!("{:02x}", b)).collect();
            rec.push_str(&format!("!{}!{}", boot.replace(' ', ""), hex));
        }
        out.push(rec);
    }
    format!("{} {} {}", f[2], count, out.join(","))
}

// ------------------------------------------------------------------ K: key census after a factory reset

fn ranges(keys: &[u16]) -> String {
    let mut v: Vec<String> = Vec::new();
    let mut i = 0;
    while i < keys.len() {
        let mut j = i;
        while j + 1 < keys.len() && keys[j + 1] == keys[j] + 1 {
            j += 1;
        }
        v.push(if j == i { keys[i].to_string() } else { format!("{}-{}", keys[i], keys[j]) });
        i = j + 1;
    }
    if v.is_empty() {
        "-".to_string()
    } else {
        v.join("+")
    }
}

fn run_census(_base: &Base, f: &[&str]) -> String {
    // K <id> seeded <hi>: every key 0..=hi holds a blob; both factory resets; which keys are left?
    let hi: u16 = f[3].parse().unwrap();
    let mut blobs = BTreeMap::new();
    for k in 0..=hi {
        blobs.insert(k, vec![0x18u8]);
    }
    let kv = MemKv::from_blobs(blobs);
    let det = e2e::dev_det(None, None);
    let dev = e2e::new_matter(det, false);
    let buffers: MatterBuffers = MatterBuffers::new();
    let st = DevState::new(Nets::new());
    let app = App::new();
    let crypto = test_only_crypto();
    let access = dev.kv(kv.clone());
    let handler = data_model!(app, crypto);
    let dm = InteractionModel::new(&dev, &crypto, &buffers, handler, &access, &st);
    let r1 = dev.factory_reset(&access);
    let r2 = e2e::block_on(dm.factory_reset());
    let left: Vec<u16> = kv.blobs().keys().copied().collect();
    let stores = kv.log().iter().filter(|o| !matches!(o, KvOp::Remove(_))).count();
    format!(
        "seeded {} {}{} left={} stores={} subs={} subs_start={}",
        hi,
        if r1.is_ok() { "ok" } else { "err" },
        if r2.is_ok() { "ok" } else { "err" },
        ranges(&left),
        stores,
        rs_matter::im::subscriptions::DEFAULT_MAX_SUBSCRIPTIONS,
        PERSISTENT_SUBSCRIPTIONS_START
    )
}

// ------------------------------------------------------------------ I: corrupt blobs of the other structures (informative)

fn run_other_corrupt(base: &Base, f: &[&str]) -> String {
    // I <id> <key> <seed> <count>: random / truncated blobs under another key: startup may fail but must not panic
    let key: u16 = f[2].parse().unwrap();
    let mut rng = Rng::new(f[3].parse().unwrap());
    let count: usize = f[4].parse().unwrap();
    let (mut ok, mut err, mut panic) = (0, 0, 0);
    let mut first_panic = String::new();
    for _ in 0..count {
        let mut blobs = BTreeMap::new();
        blobs.insert(1u16, base.fab_blobs[0].clone());
        let blob: Vec<u8> = if key == 1 && rng.chance(1, 2) {
            let b = &base.fab_blobs[0];
            let mut b = b[..rng.below(b.len() as u64) as usize].to_vec();
            if rng.chance(1, 2) && !b.is_empty() {
                let p = rng.below(b.len() as u64) as usize;
                b[p] ^= 1 << rng.below(8);
            }
            b
        } else {
            (0..rng.below(80)).map(|_| rng.below(256) as u8).collect()
        };
        blobs.insert(key, blob.clone());
        let (boot, _) = boot_and_snapshot(&MemKv::from_blobs(blobs));
        if boot == "ok" {
            ok += 1;
        } else if boot.contains("panic") {
            panic += 1;
            if first_panic.is_empty() {
                first_panic = blob.iter().map(|b| format!("{:02x}", b)).collect();
            }
        } else {
            err += 1;
        }
    }
    format!("key={} ok={} err={} panic={} {}", key, ok, err, panic, first_panic)
}

// ------------------------------------------------------------------ generator

fn branch_cases() -> Vec<(&'static str, &'static str)> {
    vec![
        // every immediate write, then a restart
        ("21", "L1:5,G1:7,F1:3,V1:9,B1:4,U1:6,N1:8,O1:30,Y1:4,Q,L2:6"),
        // capacity-sized values
        ("21", "L1:1001,G1:1002,F1:1003,B1:1004,U1:1005,N1:1006,B2:1007,Q"),
        // commissioning committed / rolled back / cut by the crash points
        ("11", "Ap:60,Kp:77,Wp:9,L2:5,B2:4,Z2,L2:6"),
        ("11", "Ap:60,Kp:77,Wp:9,L2:5,B2:4,E,L1:6"),
        ("11", "Ap:60,Kp:77,L2:5,F2:3,G2:4,V2:8,Q,P,Ap:60,Kp:78,Z2"),
        ("21", "A1:60,u1:88,L1:5,F1:2,W1:9,Z1,Q"),
        ("21", "A1:60,u1:88,L1:5,F1:2,W1:9,E,Q"),
        ("21", "A1:60,L1:5,V1:7,E,Q"),
        ("21", "A1:60,u1:88,V1:7,L1:5,E"),
        // the stores of the other handlers: time zone, trusted time source, ICD registration, OTA provider, scenes
        ("21", "T1:3,t1:9,I1:4,o1:5,s1:6,I2:7,o2:8,s2:2,t1:9,Q,I1:0,s1:0,o1:0,t1:0"),
        ("21", "t2:5,I2:7,o2:8,s2:2,B2:3,X1:2,Q"),
        ("21", "I1:0,s1:0,o1:0,t1:0,T1:1005,t2:4,t1:4,Tp:2,tp:4,Ip:4,!,Q"),
        ("11", "Ap:60,Kp:77,I2:5,s2:6,o2:7,t2:8,E,Q"),
        // persisted subscriptions: written after the answer, resumed at start-up, dropped with their fabric
        ("21", "D1:3,D2:4,D1:5,Q,D2:6,X1:2,Q"),
        ("21", "D1:3,D2:4,!,Q"),
        ("11", "D1:3,Ap:60,Kp:77,D2:4,E,Q"),
        ("11", "D1:3,Ap:60,Kp:77,D2:4,Q"),
        // fabric removal with dependants
        ("21", "B1:4,B2:5,H:1:70,H:2:71,J,X1:2,Q"),
        ("21", "B2:5,H:2:71,H:1:70,X2:2,L1:3"),
        ("21", "X1:3,X1:2,X1:1,Q"),
        ("21", "H:2:71,J,X1:2,J,Q,Ap:60"),
        // resumption cache: written only by the flush
        ("21", "H:1:70,H:2:71,Q,H:1:72,J,H:2:73,Q"),
        // factory reset
        ("21", "L1:5,B1:4,U1:6,N1:8,H:1:70,J,!,Q"),
        ("11", "Ap:60,Kp:77,Wp:9,Z2,U2:5,!,P,Ap:60,Kp:78,Z1"),
        ("01", "!,Ap:60,Kp:77,Z1,N1:5"),
        // refusals: label conflict, unknown fabric, no fail-safe, sessions of fabrics that do not exist
        ("21", "F1:3,F2:3,F2:4,F1:4,X2:7,Z1,Kp:5,L3:5,B4:2,u1:5"),
        ("01", "L1:5,N1:5,Np:6,Up:7,Lp:5"),
        // table full
        ("21", "Ap:60,Kp:71,Z3,P,Ap:60,Kp:72,Z4,P,Ap:60,Kp:73,Z5,P,Ap:60,Kp:74,E,X1:4,P,Ap:60,Kp:75,Z6,L6:5,Q,L6:6"),
        // the local index grows past the size of the table: highest index in use + 1
        ("21", "Ap:60,Kp:71,Z3,P,Ap:60,Kp:72,Z4,P,Ap:60,Kp:73,Z5,X1:1,P,Ap:60,Kp:74,Z6,L6:5,F6:3,B6:4,D6:2,Q,L6:7,X6:2,P,Ap:60,Kp:75,Z7,Q"),
        // ... up to 254, then the first unused one
        ("i250:1", "Ap:60,Kp:71,Z251,P,Ap:60,Kp:72,Z252,L252:5,Q,X250:250,P,Ap:60,Kp:73,Z253,P,Ap:60,Kp:74,Z254,Q,P,Ap:60,Kp:75,Z1,L1:6,Q,P,Ap:60,Kp:76"),
        ("i252+253+254:1", "Ap:60,Kp:71,Z1,Q,P,Ap:60,Kp:72,Z2,F2:3,Q,X1:254,P,Ap:60,Kp:73,Z3,Q"),
        ("i254:1", "Ap:60,Kp:71,Z1,X1:254,P,Ap:60,Kp:72,Z2,Q"),
        ("i6+100+200:0", "L6:3,F100:4,B200:5,G6:2,I100:3,Q,X6:100,Q,L200:8"),
        // a power loss INSIDE an operation, and the history goes on: the fabric key is gone, the resumption cache
        // still has the records of that fabric; the index is handed out again, the node restarts once more
        // (before / after the background flush; with the session established anew; at a high index)
        ("21", "H:2:71,J,X1:2~1,P,Ap:60,Kp:77,Z2,Q"),
        ("21", "H:2:71,H:1:70,J,X1:2~1,P,Ap:60,Kp:77,Z2,J,Q,H:2:71,J,Q"),
        ("21", "H:2:71,J,X1:2~0,L2:3,X1:2~2,Q,X1:2~9,P,Ap:60,Kp:77,Z2,H:2:71,Q"),
        ("21", "B2:5,D2:3,s2:4,H:2:71,J,X1:2~2,Q,X1:2~3,P,Ap:60,Kp:77,Z2,B2:6,Q"),
        ("i7:1", "Ap:60,Kp:71,Z8,H:8:70,H:7:71,J,X7:8~1,P,Ap:60,Kp:72,Z8,Q,H:8:70,Q"),
        // ... inside the rollback of a fabric that was never committed, inside CommissioningComplete, inside a factory reset
        ("11", "Ap:60,Kp:77,H:2:71,J,E~1,P,Ap:60,Kp:78,Z2,Q"),
        ("11", "Ap:60,Kp:77,H:2:71,J,Q,P,Ap:60,Kp:78,Z2,Q"),
        ("11", "Ap:60,Kp:77,Wp:9,H:2:71,Z2~1,L2:4,J,Q"),
        ("21", "H:2:71,H:1:70,J,L1:4,!~1,Q"),
        ("21", "L1:5~0,L1:6~1,B1:4~1,Q"),
        // subscriptions persisted in one boot, resumed in the next, and THERE their fabric goes away: the slots must
        // follow the table; restart; the index is handed out again; restart (with / without a new subscription)
        ("21", "D1:3,D2:4,Q,X1:2,Q,P,Ap:60,Kp:77,Z2,Q"),
        ("21", "D1:3,D2:4,Q,X1:2,Q,P,Ap:60,Kp:77,Z2,D2:4,Q,D1:6,Q"),
        ("21", "D2:4,D1:3,Q,X2:2,Q,P,Ap:60,Kp:77,Z2,Q"),
        ("21", "D1:3,D2:4,Q,X1:2~3,Q,D1:5,Q"),
        ("21", "D1:3,D2:4,Q,X1:2~6,P,Ap:60,Kp:77,Z2,Q"),
        ("21", "D1:3,D2:4,Q,D1:5,Q,X2:1,Q,X2:2,Q"),
        ("i7:1", "Ap:60,Kp:71,Z8,D7:3,D8:4,Q,X7:8,Q,P,Ap:60,Kp:72,Z8,Q"),
        ("11", "D1:3,Q,Ap:60,Kp:77,D2:4,E,Q,P,Ap:60,Kp:78,Z2,Q"),
    ]
}

fn generate(tier: &str, seed: u64) -> (Vec<String>, String) {
    let thorough = tier == "thorough";
    let mut rng = Rng::new(seed);
    let mut cases: Vec<String> = Vec::new();
    let mut id = 0u64;
    let mut nid = || {
        id += 1;
        id
    };
    for (init, ops) in branch_cases() {
        cases.push(format!("S {} {} {}", nid(), init, ops));
    }
    let n_rand = if thorough { 3000 } else { 150 };
    let mut lens = 0usize;
    for _ in 0..n_rand {
        let nfab = rng.below(3);
        let mut fabs: Vec<u64> = (1..=nfab).collect(); // what the generator believes exists (steers, does not decide)
        let mut armed: Option<u64> = None;
        let len = rng.range(4, 11);
        let mut v: Vec<String> = Vec::new();
        for _ in 0..len {
            let f = if !fabs.is_empty() && rng.chance(9, 10) { *rng.pick(&fabs) } else { 1 + rng.below(4) };
            let k = if rng.chance(1, 12) { CAP + rng.below(500) } else { 1 + rng.below(9) };
            let t = match rng.below(58) {
                56..=57 => format!("D{}:{}", f, 1 + rng.below(9)),
                44..=45 => format!("T{}:{}", f, k),
                46..=47 => format!("t{}:{}", f, if rng.chance(1, 5) { 0 } else { 1 + rng.below(9) }),
                48..=50 => format!("I{}:{}", f, if rng.chance(1, 5) { 0 } else { 1 + rng.below(9) }),
                51..=52 => format!("o{}:{}", f, if rng.chance(1, 5) { 0 } else { 1 + rng.below(9) }),
                53..=55 => format!("s{}:{}", f, if rng.chance(1, 5) { 0 } else { 1 + rng.below(9) }),
                0..=4 => format!("L{}:{}", f, k),
                5..=6 => format!("G{}:{}", f, if rng.chance(1, 6) { 0 } else { k }),
                7..=9 => format!("F{}:{}", f, k),
                10..=11 => format!("V{}:{}", f, 1 + k % 900),
                12..=15 => format!("B{}:{}", f, if rng.chance(1, 6) { 0 } else { k }),
                16..=18 => format!("U{}:{}", f, if rng.chance(1, 8) { 0 } else { k }),
                19..=20 => format!("N{}:{}", f, k),
                21 => format!("O{}:{}", f, k % 600),
                22 => format!("Y{}:{}", f, k % 600),
                23..=25 => {
                    let g = if rng.chance(4, 5) && !fabs.is_empty() { *rng.pick(&fabs) } else { 1 + rng.below(5) };
                    fabs.retain(|x| *x != g);
                    if rng.chance(1, 4) {
                        // cut by a power loss after some of its key-value operations
                        format!("X{}:{}~{}", f, g, rng.below(4))
                    } else {
                        format!("X{}:{}", f, g)
                    }
                }
                26..=28 => format!("H:{}:{}", f, 70 + rng.below(4)),
                29..=30 => "J".to_string(),
                31 => "Q".to_string(),
                32..=34 => {
                    // a commissioning round (possibly cut short)
                    let mut r = vec!["P".to_string(), "Ap:60".to_string(), format!("Kp:{}", 70 + rng.below(9))];
                    let newf = fabs.iter().max().copied().unwrap_or(0) + 1;
                    if rng.chance(1, 2) {
                        r.push(format!("Wp:{}", 1 + rng.below(4)));
                    }
                    if rng.chance(1, 2) {
                        r.push(format!("L{}:{}", newf, k));
                    }
                    if rng.chance(1, 3) {
                        r.push(format!("B{}:{}", newf, k));
                    }
                    match rng.below(6) {
                        0 => r.push("E".to_string()),
                        1 => r.push("Q".to_string()),
                        2 => {
                            armed = Some(newf);
                        }
                        _ => {
                            r.push(format!("Z{}", newf));
                            fabs.push(newf);
                        }
                    }
                    r.join(",")
                }
                35..=36 => {
                    let mut r = vec![format!("A{}:60", f)];
                    if rng.chance(2, 3) {
                        r.push(format!("u{}:{}", f, 80 + rng.below(9)));
                    }
                    if rng.chance(1, 2) {
                        r.push(format!("L{}:{}", f, k));
                    }
                    if rng.chance(1, 3) {
                        r.push(format!("V{}:{}", f, 1 + k % 900));
                    }
                    match rng.below(4) {
                        0 => r.push("E".to_string()),
                        1 => {
                            armed = Some(f);
                        }
                        _ => r.push(format!("Z{}", f)),
                    }
                    r.join(",")
                }
                37 => match armed.take() {
                    Some(a) => format!("Z{}", a),
                    None => "E".to_string(),
                },
                38 => "E".to_string(),
                39 => {
                    fabs.clear();
                    "!".to_string()
                }
                40 => format!("W{}:{}", f, 1 + rng.below(4)),
                41 => format!("Z{}", f),
                42 => format!("A{}:60", if rng.chance(1, 2) { "p".to_string() } else { f.to_string() }),
                _ => "P".to_string(),
            };
            v.push(t);
        }
        lens += v.len();
        cases.push(format!("S {} {}{} {}", nid(), nfab, rng.below(2), v.join(",")));
    }
    // the fabric index past the size of the fabric table: a long remove-the-older / add cycle ...
    let cycles: Vec<usize> = if thorough { vec![40, 256] } else { vec![40] };
    for ncyc in cycles {
        let mut v: Vec<String> = Vec::new();
        let mut idx = 2u32; // the newest fabric so far
        for c in 0..ncyc {
            // Fabrics::add_with_post_init: highest index in use + 1 below 254, else the first unused one
            // (the table is {1, idx}: with idx = 254 the first unused index is 2)
            let next = if idx < 254 { idx + 1 } else { 2 };
            v.push("P".into());
            v.push("Ap:60".into());
            v.push(format!("Kp:{}", 70 + c % 9));
            v.push(format!("Z{}", next));
            if c % 3 == 0 {
                v.push(format!("L{}:{}", next, 1 + c % 9));
            }
            v.push(format!("X1:{}", idx));
            if c % 7 == 6 || c + 1 == ncyc {
                v.push("Q".into());
            }
            idx = next;
        }
        lens += v.len();
        cases.push(format!("S {} 21 {}", nid(), v.join(",")));
    }
    // ... and a sample of the whole index range 6..=253 (thorough: every index): a node whose highest index is j
    // is commissioned once more (index j + 1), written to, restarted, and the older fabric removed
    let sample: Vec<u64> = if thorough {
        (5..=253).collect()
    } else {
        let mut v: Vec<u64> = vec![5, 6, 7, 15, 16, 31, 63, 64, 126, 127, 128, 129, 191, 200, 251, 252, 253];
        for _ in 0..8 {
            v.push(rng.range(8, 250));
        }
        v
    };
    for j in sample {
        let k = 1 + rng.below(9);
        let ops = format!(
            "Ap:60,Kp:{},Z{n},L{n}:{k},{w},Q,F{n}:{k},X{n}:{j},Q",
            70 + j % 9,
            n = j + 1,
            k = k,
            w = format!("{}{}:{}", *rng.pick(&["B", "I", "s", "o", "t", "D"]), j + 1, k),
            j = j
        );
        lens += 9;
        cases.push(format!("S {} i{}:1 {}", nid(), j, ops));
    }
    // churn: random histories that keep commissioning and removing (the generator tracks the table)
    let n_churn = if thorough { 400 } else { 30 };
    for _ in 0..n_churn {
        let start: Vec<u64> = if rng.chance(1, 3) { vec![rng.range(3, 250)] } else { vec![1, 2] };
        let mut table: Vec<u64> = start.clone();
        let mut v: Vec<String> = Vec::new();
        let rounds = rng.range(4, 9);
        for r in 0..rounds {
            if table.len() >= 5 || (table.len() >= 2 && rng.chance(1, 2)) {
                let g = *rng.pick(&table);
                let by = *rng.pick(&table);
                table.retain(|x| *x != g);
                v.push(format!("X{}:{}", by, g));
                if table.is_empty() {
                    break;
                }
            }
            let mx = table.iter().max().copied().unwrap_or(0);
            let next = if mx < 254 { mx + 1 } else { (1..255).find(|i| !table.contains(i)).unwrap() };
            v.push("P".into());
            v.push("Ap:60".into());
            v.push(format!("Kp:{}", 70 + r));
            if rng.chance(1, 3) {
                v.push(format!("L{}:{}", next, 1 + rng.below(9)));
            }
            match rng.below(8) {
                0 => v.push("E".into()),
                1 => v.push("Q".into()),
                _ => {
                    v.push(format!("Z{}", next));
                    table.push(next);
                    let k = 1 + rng.below(9);
                    v.push(format!("{}{}:{}", *rng.pick(&["L", "F", "G", "B", "I", "s", "o", "D", "V"]), next, k));
                }
            }
            if rng.chance(1, 3) {
                v.push("Q".into());
            }
        }
        v.push("Q".into());
        lens += v.len();
        let init = if start.len() == 1 { format!("i{}:1", start[0]) } else { "21".to_string() };
        cases.push(format!("S {} {} {}", nid(), init, v.join(",")));
    }
    // the resumption cache across removals cut by a power loss: records made and flushed, the fabric removed with
    // the power lost after j of the key-value operations of the removal, the index handed out again, a second restart
    let n_cutres = if thorough { 500 } else { 40 };
    for _ in 0..n_cutres {
        let start: Vec<u64> = match rng.below(4) {
            0 => vec![rng.range(3, 250)],
            1 => vec![1, rng.range(3, 250)],
            _ => vec![1, 2],
        };
        let mut table: Vec<u64> = start.clone();
        let mut v: Vec<String> = Vec::new();
        if table.len() < 2 || rng.chance(1, 3) {
            let next = table.iter().max().unwrap() + 1;
            v.extend(["P".to_string(), "Ap:60".to_string(), format!("Kp:{}", 70 + rng.below(9)), format!("Z{}", next)]);
            table.push(next);
        }
        let rounds = rng.range(1, 4);
        for r in 0..rounds {
            for _ in 0..rng.range(1, 4) {
                v.push(format!("H:{}:{}", *rng.pick(&table), 70 + rng.below(3)));
            }
            if rng.chance(1, 3) {
                v.push(format!("{}{}:{}", *rng.pick(&["B", "D", "s", "I"]), *rng.pick(&table), 1 + rng.below(9)));
            }
            if rng.chance(4, 5) {
                v.push("J".into());
            }
            if rng.chance(1, 4) {
                v.push(format!("H:{}:{}", *rng.pick(&table), 73));
            }
            // mostly the newest fabric: its index is the one handed out next
            let g = if rng.chance(3, 4) { *table.iter().max().unwrap() } else { *rng.pick(&table) };
            let by = if table.len() > 1 && rng.chance(3, 4) { *table.iter().find(|x| **x != g).unwrap() } else { g };
            let whole = rng.chance(1, 5);
            if whole {
                v.push(format!("X{}:{}", by, g));
            } else {
                v.push(format!("X{}:{}~{}", by, g, rng.below(4)));
            }
            // a cut before the first operation removed nothing
            let gone = whole || !v.last().unwrap().ends_with("~0");
            if gone {
                table.retain(|x| *x != g);
            }
            if rng.chance(1, 4) {
                v.push("Q".into());
            }
            if table.is_empty() || gone {
                let mx = table.iter().max().copied().unwrap_or(0);
                let next = if mx < 254 { mx + 1 } else { (1..255).find(|i| !table.contains(i)).unwrap() };
                v.extend(["P".to_string(), "Ap:60".to_string(), format!("Kp:{}", 80 + r)]);
                match rng.below(8) {
                    0 => v.push("E".into()),
                    1 => v.push(format!("E~{}", rng.below(3))),
                    2 => {
                        v.push(format!("Z{}~{}", next, rng.below(3)));
                        // whether the fabric made it depends on the cut: the next rounds only steer
                    }
                    _ => {
                        v.push(format!("Z{}", next));
                        table.push(next);
                    }
                }
                if table.is_empty() {
                    break;
                }
            }
            if rng.chance(1, 3) {
                v.push(format!("H:{}:{}", *rng.pick(&table), 70 + rng.below(3)));
            }
            if rng.chance(1, 2) {
                v.push("J".into());
            }
            v.push("Q".into());
        }
        lens += v.len();
        let init = match start.as_slice() {
            [1, 2] => "21".to_string(),
            l => format!("i{}:1", l.iter().map(|x| x.to_string()).collect::<Vec<_>>().join("+")),
        };
        cases.push(format!("S {} {} {}", nid(), init, v.join(",")));
    }
    // the subscription slots across restarts: subscriptions made in one boot, resumed in the next, their fabric removed
    // there (whole, or cut by a power loss), restart, the index commissioned again, restart
    let n_subs = if thorough { 500 } else { 40 };
    for _ in 0..n_subs {
        let start: Vec<u64> = match rng.below(4) {
            0 => vec![1, rng.range(3, 250)],
            _ => vec![1, 2],
        };
        let mut table: Vec<u64> = start.clone();
        let mut v: Vec<String> = Vec::new();
        if rng.chance(1, 2) {
            let next = table.iter().max().unwrap() + 1;
            v.extend(["P".to_string(), "Ap:60".to_string(), format!("Kp:{}", 70 + rng.below(9)), format!("Z{}", next)]);
            table.push(next);
        }
        let rounds = rng.range(1, 4);
        for r in 0..rounds {
            let mut order = table.clone();
            if rng.chance(1, 2) {
                order.reverse();
            }
            for f in order {
                if rng.chance(4, 5) {
                    v.push(format!("D{}:{}", f, 1 + rng.below(9)));
                }
            }
            if rng.chance(4, 5) {
                v.push("Q".into());
            }
            if table.len() < 2 {
                break;
            }
            let g = if rng.chance(2, 3) { *table.iter().max().unwrap() } else { *rng.pick(&table) };
            let by = if rng.chance(3, 4) { *table.iter().find(|x| **x != g).unwrap() } else { g };
            let cut = if rng.chance(1, 3) { Some(1 + rng.below(8)) } else { None };
            v.push(match cut {
                Some(j) => format!("X{}:{}~{}", by, g, j),
                None => format!("X{}:{}", by, g),
            });
            table.retain(|x| *x != g);
            if rng.chance(2, 3) {
                v.push("Q".into());
            }
            if rng.chance(3, 4) {
                let mx = table.iter().max().copied().unwrap_or(0);
                let next = if mx < 254 { mx + 1 } else { (1..255).find(|i| !table.contains(i)).unwrap() };
                v.extend(["P".to_string(), "Ap:60".to_string(), format!("Kp:{}", 80 + r), format!("Z{}", next)]);
                table.push(next);
                if rng.chance(1, 3) {
                    v.push(format!("D{}:{}", next, 1 + rng.below(9)));
                }
            }
            v.push("Q".into());
        }
        lens += v.len();
        let init = match start.as_slice() {
            [1, 2] => "21".to_string(),
            l => format!("i{}:1", l.iter().map(|x| x.to_string()).collect::<Vec<_>>().join("+")),
        };
        cases.push(format!("S {} {} {}", nid(), init, v.join(",")));
    }
    // round trips
    let rt = if thorough { 400 } else { 40 };
    for s in ["fabric", "basic", "resumption", "nets"] {
        for c in 0..4 {
            cases.push(format!("R {} {} {} {}", nid(), s, rng.next() % 1_000_000 + c, rt / 4));
        }
    }
    // 10 000 corrupt resumption blobs (thorough: 100 000)
    let per = if thorough { 1000 } else { 100 };
    for (kind, lines) in [("random", 40), ("trunc", 20), ("flip", 20), ("len", 10), ("type", 6), ("many", 2), ("valid", 2)] {
        for _ in 0..lines {
            cases.push(format!("C {} {} {} {}", nid(), kind, rng.next() % 1_000_000, per));
        }
    }
    cases.push(format!("K {} seeded 4200", nid()));
    for key in [1u16, BASIC_INFO_KEY, NETWORKS_KEY, USER_LABELS_KEY, BINDINGS_KEY, PERSISTENT_SUBSCRIPTIONS_START] {
        cases.push(format!("I {} {} {} {}", nid(), key, rng.next() % 1_000_000, if thorough { 300 } else { 40 }));
    }
    let stats = format!(
        "{{\"histories\": {}, \"history_ops\": {}, \"roundtrip_values\": {}, \"corrupt_blobs\": {}}}\n",
        cases.iter().filter(|c| c.starts_with("S ")).count(),
        lens,
        rt * 4,
        per * 100
    );
    (cases, stats)
}
