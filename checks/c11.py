"""C11 — persisted state survives a crash at any point and reloads to what was committed."""
import os
import re
import subprocess
from .common import Check, read_keyed, ROOT

KNOWN_CLASSES = ("partial-commit", "uncommitted-flushed")


def canon_impl(line):
    """Map the implementation's answer codes to the classes the model distinguishes:
    ok / no (any refusal, no usable session) / - (an event without a peer, e.g. the timer)."""
    f = line.split(" ", 2)
    if f[0] == "C":
        # per-blob records are the implementation's own observations (monitor input)
        return " ".join(line.split(" ")[:4])
    if f[0] != "S" or len(f) < 3:
        return line
    ops, sep, cuts = f[2].partition(" # ")
    out = []
    for r in ops.split(";"):
        p = r.split("|")
        if len(p) < 3:
            out.append(r)
            continue
        st, ack = p[0], p[2]
        if st == "ok" and ack == "-":
            st = "-"
        elif st != "ok":
            st, ack = "no", "-"
        if len(p) > 6 and p[6] == "D" and st == "ok":
            # a subscription is persisted after its answer, by a task that goes on after the controller has
            # its answer: which datagram of the device was the last one of the operation depends on timing
            ack = "*"
        # fields past the kind are the harness's own bookkeeping (which commissioning a fabric index stands
        # for, the session an H established): monitor input, not something the model prints
        out.append("|".join([st, p[1], ack] + p[3:7]))
    return f[0] + " " + f[1] + " " + ";".join(out) + sep + cuts


def main(tier, replay=None):
    c = Check("C11", tier)
    if not c.coq_check():
        c.proof_broken_violation()
    driver = c.build_model()
    hbin = c.build_harness()
    rd = c.rundir
    cases = os.path.join(rd, "cases.txt")
    if replay:
        with open(cases, "w") as f:
            for l in open(replay):
                l = l.strip()
                if l.startswith("case: "):
                    l = l[6:]
                if l[:2] in ("S ", "R ", "C ", "K ", "I "):
                    f.write(l + "\n")
    else:
        with open(cases, "w") as f:
            n = 0
            cdir = os.path.join(ROOT, "corpus", "C11")
            if os.path.isdir(cdir):
                for fn in sorted(os.listdir(cdir)):
                    for l in open(os.path.join(cdir, fn)):
                        l = l.strip()
                        if l[:2] == "S ":
                            n += 1
                            p = l.split(" ")
                            p[1] = "c%d" % n
                            f.write(" ".join(p) + "\n")
        gdir = os.path.join(rd, "gen")
        subprocess.run([hbin, "gen", c.tier, str(c.seed), gdir], check=True)
        with open(cases, "a") as f:
            f.write(open(os.path.join(gdir, "cases.txt")).read())
    impl_out = c.run_sharded([hbin, "run"], cases, os.path.join(rd, "impl.out"))
    model_out = c.run_sharded([driver, "<"], cases, os.path.join(rd, "model.out"))
    impl = read_keyed(impl_out)
    model = read_keyed(model_out)
    case_by_key = {}
    for line in open(cases):
        line = line.rstrip("\n")
        if line:
            f = line.split(" ")
            case_by_key[f[0] + " " + f[1]] = line

    # --- correspondence: per operation the answer class, the key-value operations, the position of the
    #     answer, the fail-safe context and the live state; per prefix of the log the restarted node
    diffs = [k for k in case_by_key if not k.startswith("I ") and canon_impl(impl.get(k, "")) != model.get(k, "")]

    # --- monitor: the extracted executable property on the implementation's own observations
    spec_in = os.path.join(rd, "spec.in")
    with open(spec_in, "w") as f:
        for key in case_by_key:
            if key in impl and not key.startswith("I "):
                f.write(impl[key] + "\n")
    spec_out = c.run_sharded([driver, "<"], spec_in, os.path.join(rd, "spec.out"), argv_suffix=["spec"], shards=1)
    spec = read_keyed(spec_out)
    mon_viol, known_hits, n_mon = 0, {}, 0
    for key, cl in case_by_key.items():
        il = impl.get(key, "")
        names = []
        if key.startswith("I "):
            m = re.search(r"panic=(\d+)", il)
            if not m or int(m.group(1)) > 0:
                names.append("startup-panics-on-damaged-blob")
        else:
            n_mon += 1
            v = spec.get(key, key + " missing").split(" ", 2)
            verdict = v[2] if len(v) > 2 else "missing"
            if key.startswith("S ") and ("hang" in il or "transport-exit" in il):
                names.append("harness-run-incomplete")
            if key.startswith("K ") and "left=" in il:
                # the census itself: which keys of the rs-matter range survive both factory resets
                left = il.split("left=")[1].split(" ")[0]
                keys = []
                for part in left.split("+"):
                    if part and part != "-":
                        a, _, b = part.partition("-")
                        keys += list(range(int(a), int(b or a) + 1))
                # every handler that persists anything is part of the census device's data model: no key of the
                # layout may be left (key 0 is unused; 2063.. are slots beyond this build's subscription table)
                own = [k for k in keys if 1 <= k <= 269 or 2048 <= k < 2048 + 15]
                if own:
                    # the name carries the keys: a key that joins the known ones is a new violation
                    names.append("factory-reset-leftover:" + "+".join(str(k) for k in own))
                    verdict = "ok"
                    il += "   [keys in rs-matter's own layout left behind: %s]" % own
            if verdict != "ok":
                names += sorted(set(x.split("@")[0] for x in verdict.split(",")))
        for name in names:
            if name.split(":")[0] in KNOWN_CLASSES and any(k["match"](name, "") for k in c.known):
                known_hits[name] = known_hits.get(name, 0) + 1
            else:
                mon_viol += 1
            c.violation(name, "\n".join([
                "property C11 fails on the implementation (real Matter node driven through the Interaction Model over a "
                "recording key-value store, restarted from every prefix of the log): " + name,
                "case: " + cl,
                "verdict: " + spec.get(key, ""),
                "implementation: " + il.replace(";", ";\n    ")[:6000],
                "model         : " + model.get(key, "").replace(";", ";\n    ")[:6000],
                "replay: bin/check C11 quick --replay <this file>"]))

    if diffs and not c.violations:
        lines = ["correspondence corr:C11 broke: model and implementation disagree on %d of %d cases;" % (len(diffs), len(case_by_key)),
                 "the monitor found no run on which the implementation violates C11.",
                 "theorems no longer tied to the code: " + ", ".join(c.coq["theorems"]), ""]
        for key in diffs[:8]:
            il = canon_impl(impl.get(key, "")).replace(" # ", ";").split(";")
            ml = model.get(key, "").replace(" # ", ";").split(";")
            step = next((i for i, (a, b) in enumerate(zip(il, ml)) if a != b), min(len(il), len(ml)))
            lines += ["case : " + case_by_key[key][:400], "first difference at record %d (operations first, then restarts)" % step,
                      "impl : " + (il[step] if step < len(il) else "<missing>")[:400],
                      "model: " + (ml[step] if step < len(ml) else "<missing>")[:400], ""]
        c.violation("corr", "\n".join(lines), no_input=True)
    elif diffs:
        c.notes.append("correspondence differences: %d" % len(diffs))

    # --- evidence
    kinds, nt, n_ops, n_cuts, n_blobs, n_rt = {}, set(), 0, 0, 0, 0
    for key, cl in case_by_key.items():
        f = cl.split(" ")
        if f[0] == "S" and len(f) >= 4:
            ops = [o for o in f[3].split(",") if o]
            body = model.get(key, "").split(" ", 2)
            body = body[2] if len(body) > 2 else ""
            recs, _, cuts = body.partition(" # ")
            n_cuts += len([x for x in cuts.split(";") if x])
            hit = False
            for o, out in zip(ops, recs.split(";")):
                n_ops += 1
                kinds[o[0]] = kinds.get(o[0], 0) + 1
                p = out.split("|")
                if len(p) > 1 and p[1] != "-":
                    hit = True
            if hit:
                nt.add(f[2] + " " + f[3])
        elif f[0] == "C":
            n_blobs += int(f[4])
        elif f[0] == "R":
            n_rt += int(f[4])
    samples = []
    for key, cl in list(case_by_key.items())[:3]:
        samples.append({"case": cl[:300], "impl": impl.get(key, "")[:500], "model": model.get(key, "")[:500]})
    informative = [impl[k] for k in case_by_key if k.startswith("I ") and k in impl]
    c.cov.update({
        "evaluations": n_ops + n_cuts + n_blobs + n_rt,
        "case_lines": len(case_by_key),
        "operations_compared": n_ops,
        "restarts_compared": n_cuts,
        "corrupt_resumption_blobs": n_blobs,
        "roundtrip_values": n_rt,
        "distinct_nontrivial": len(nt),
        "rule": "one S case = one administrative history on a real device (Interaction Model invokes/writes over in-process sessions, "
                "recording MemKv); evaluations = operations compared (answer class, key-value operations, position of the answer, "
                "fail-safe context, live state) + restarts compared (a fresh Matter + InteractionModel started from every prefix of the "
                "key-value log) + corrupt resumption blobs booted + structure values round-tripped; non-trivial = distinct "
                "(initial state, history) in which the model issues at least one key-value operation",
        "samples": samples,
        "ops_by_kind": kinds,
        "monitor_cases": n_mon,
        "monitor_violations": mon_viol,
        "known_class_hits": known_hits,
        "damaged_blobs_of_other_structures_informative": informative,
        "disagreements_checked": len(diffs),
        "exhaustive": False,
    })
    c.finish(level="proof",
             trusted_base=["Coq 8.16.1 kernel (coqc; coqchk in thorough tier)", "no axioms (Closed under the global context)",
                           "extraction ExtrOcamlBasic + hand-written OCaml driver ocaml/c11/driver.ml (parses the implementation's records for the monitor)",
                           "Rust harness harness/src/bin/c11.rs + harness/src/c11_extra.rs, harness/src/e2e.rs (in-process network, MemKv) and hooks "
                           "(cfg rs_matter_verif): MatterState::verif_basic_info, UserLabels::verif_for_each, FailSafe::verif_snapshot/verif_make_due, "
                           "InteractionModel::verif_check_timeouts, session table access",
                           "correspondence is differential testing on the generated cases"],
             assumptions=["per-structure codecs are abstract: section hypotheses dec (enc v) = Some v, checked on the real codecs by the harness "
                          "(restart from every prefix compares decoded contents; R cases round-trip generated values up to capacity)",
                          "key-value store: per-key atomic (a power loss during a store is one before or after it), loads never fail (KvBlobStore contract)",
                          "contents of structures are tokens; certificates, keys and sessions as in C08",
                          "known finding partial-commit (C08's for CommissioningComplete; RemoveFabric and the fail-safe rollback of a new fabric "
                          "also issue several stores): a power loss between them leaves a state that is not the state after a whole number of operations",
                          "known finding uncommitted-flushed: SetVIDVerificationStatement while the fail-safe is armed for the fabric (no NOC change pending) "
                          "stores the whole fabric, making its staged changes durable without CommissioningComplete",
                          "the census device's data model contains every handler that persists anything (incl. ICD management, time zone "
                          "store, scenes, OTA requestor); a product that leaves one out keeps nothing under that handler's key either"])
