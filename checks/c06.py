"""C06 - every Interaction Model operation is mediated by the access check."""
import json
import os
import subprocess
from .common import Check, read_keyed, ROOT


def run_one(binargv, line, stdin=False, tag="one"):
    """Run one input line through a binary, return its output line ('' on failure)."""
    try:
        if stdin:
            p = subprocess.run(binargv, input=(line + "\n").encode(), stdout=subprocess.PIPE,
                               stderr=subprocess.PIPE, timeout=120)
        else:
            tmp = os.path.join(ROOT, ".build", "run", "c06", "%s.%d.txt" % (tag, os.getpid()))
            with open(tmp, "w") as f:
                f.write(line + "\n")
            p = subprocess.run(binargv + [tmp], stdout=subprocess.PIPE, stderr=subprocess.PIPE, timeout=120)
            os.unlink(tmp)
        if p.returncode != 0:
            return ""
        return p.stdout.decode().strip()
    except Exception:
        return ""


def split_case(line):
    f = line.split(" ")
    return {"id": f[1], "mp": f[2], "fabs": f[3], "acc": f[4], "nodes": f[5], "reqs": f[6].split(";"),
            "events": f[7] if len(f) > 7 else None}


def join_case(c, reqs, cid="0"):
    line = "Q %s %s %s %s %s %s" % (cid, c["mp"], c["fabs"], c["acc"], c["nodes"], ";".join(reqs))
    if c.get("events") is not None:
        line += " " + c["events"]
    return line


def responses(out_line):
    f = out_line.split(" ")
    return f[2:] if len(f) >= 3 else []


def group_bounds(reqs, k):
    """The write group (W followed by its continuation chunks C) request k belongs to: [start, end)."""
    i = k
    while i > 0 and reqs[i].startswith("C,") and reqs[i - 1][0] in "WC":
        i -= 1
    j = k + 1
    while j < len(reqs) and reqs[j].startswith("C,") and reqs[i][0] in "WC":
        j += 1
    return i, j


def group_verdict(hbin, driver, c, group):
    """(impl tokens, monitor chars, model tokens) of one request group run alone on a fresh device."""
    line = join_case(c, group)
    i = run_one([hbin, "run"], line)
    ir = responses(i)
    if len(ir) != len(group):
        return None
    v = run_one([driver, "spec"], line + "\t" + i, stdin=True)
    m = run_one([driver], line, stdin=True)
    vr = v.split(" ")
    return ir, (vr[2] if len(vr) >= 3 else "." * len(group)), responses(m)


def calls_of_token(t):
    return [x for x in t[t.index("L[") + 2:-1].split(",") if x] if "L[" in t else []


def extra_calls(impl_tokens, model_tokens):
    """The implementation's handler received a call the model does not make for that message."""
    for k, t in enumerate(impl_tokens):
        m = calls_of_token(model_tokens[k]) if k < len(model_tokens) else []
        if any(x not in m for x in calls_of_token(t)):
            return True
    return False


def shrink(hbin, driver, c, group, want="0"):
    """Greedy reduction of one violating request group: fewer items per message, no switches, fewer ACL
    entries, fewer endpoints / clusters - as long as the monitor still says 0 on the implementation's response."""
    budget = [60]
    first = group_verdict(hbin, driver, c, group)
    # a violation in which the handler acted where it must not stays one of that kind while it is reduced
    need_call = first is not None and extra_calls(first[0], first[2])

    def bad(cc, grp):
        if budget[0] <= 0:
            return False
        budget[0] -= 1
        r = group_verdict(hbin, driver, cc, grp)
        return r is not None and want in r[1] and (not need_call or extra_calls(r[0], r[2]))

    c = dict(c)
    group = list(group)
    changed = True
    while changed and budget[0] > 0:
        changed = False
        for gi, rq in enumerate(group):
            f = rq.split(",")
            items = f[6].split("&")
            for k in range(len(items)):
                if len(items) <= 1:
                    break
                cand = items[:k] + items[k + 1:]
                ng = list(group)
                ng[gi] = ",".join(f[:6] + ["&".join(cand)])
                if bad(c, ng):
                    group, changed = ng, True
                    break
            if changed:
                break
            if f[5] != "-":
                ng = list(group)
                ng[gi] = ",".join(f[:5] + ["-", f[6]])
                if bad(c, ng):
                    group, changed = ng, True
                    break
        if changed:
            continue
        # drop queued events
        if c.get("events") not in (None, "-"):
            evs = c["events"].split("&")
            for k in range(len(evs)):
                cand = evs[:k] + evs[k + 1:]
                cc = dict(c)
                cc["events"] = "&".join(cand) or "-"
                if bad(cc, group):
                    c, changed = cc, True
                    break
            if changed:
                continue
        no_switch = all(rq.split(",")[5] == "-" for rq in group)
        # drop ACL entries (in every alternative table)
        tables = c["fabs"].split("!")
        if no_switch and len(tables) > 1:
            tables = tables[:1]
            c = dict(c)
            c["fabs"] = tables[0]
        for ti, tb in enumerate(tables):
            fabs = tb.split("|") if tb != "-" else []
            for fi, fb in enumerate(fabs):
                idx, es, gs = fb.split(":")
                el = [] if es == "-" else es.split("+")
                for k in range(len(el)):
                    cand = el[:k] + el[k + 1:]
                    nf = list(fabs)
                    nf[fi] = "%s:%s:%s" % (idx, "+".join(cand) or "-", gs)
                    cc = dict(c)
                    cc["fabs"] = "!".join(tables[:ti] + ["|".join(nf)] + tables[ti + 1:])
                    if bad(cc, group):
                        c, changed = cc, True
                        break
                if changed:
                    break
            if changed:
                break
        if changed:
            continue
        # drop endpoints / clusters of the (only) node when no switch is left
        if no_switch:
            nodes = c["nodes"].split("#")
            eps = [] if nodes[0] == "-" else nodes[0].split("|")
            for k in range(len(eps)):
                cand = eps[:k] + eps[k + 1:]
                cc = dict(c)
                cc["nodes"] = "|".join(cand) or "-"
                if bad(cc, group):
                    c, changed = cc, True
                    break
            if changed:
                continue
            for k, e in enumerate(eps):
                eid, dts, cls = e.split("~")
                cl = [] if cls == "-" else cls.split("+")
                for j in range(len(cl)):
                    cand = cl[:j] + cl[j + 1:]
                    ne = list(eps)
                    ne[k] = "%s~%s~%s" % (eid, dts, "+".join(cand) or "-")
                    cc = dict(c)
                    cc["nodes"] = "|".join(ne)
                    if bad(cc, group):
                        c, changed = cc, True
                        break
                if changed:
                    break
    return c, group


EXPLAIN = """fields of the case line:
  Q <id> <max paths per invoke> <fabrics> <requester> <nodes> <requests> [<event queue: ep.cluster.event.FabricIndex of the payload (n: none)>]
  fabrics   alternative ACL tables joined by '!'; table = idx:entries:groups joined by '|';
            entry = privilege bits,auth mode,-,subjects,targets (target = endpoint.cluster.devtype)
  requester SC,fabric,peer node id,CASE tags,0,0 (CASE session) | SP,fabric,... (PASE session) | SG,fabric,n,0/0/0,group id,0
            (group session: requests are not answered, the response token is GL[handler calls])
  nodes     joined by '#'; node = endpoints joined by '|'; endpoint = id~device types~clusters;
            cluster = id=attributes=commands[=events]; element = id.access bits.enabled
            (access bits: 1 V,2 O,4 M,8 A levels; 16 readable; 32 writable; 64 fabric-scoped; 128 fabric-sensitive; 256 timed-only)
  request   op(E = read with event paths, S = subscribe with event paths (the priming report), R/W/I; C = continuation chunk of the preceding write, sent on the same exchange after the previous chunk
            was sent with MoreChunkedMessages and answered; its 5th field = ms waited before it),TimedRequest flag of the action,fabricFiltered,timeout of a preceding TimedRequest (n: none),
            ms waited after it,switches (k>j/a: after k handler calls node j and ACL table a are in force),items (endpoint.cluster.element[^command ref], x = wildcard)
response: X<status> (bare StatusResponse) | N (chunk not sent, an earlier one was refused) | I[entries]L[handler calls]; D = served by the handler, S<path>:<status> = refused"""


def main(tier, replay=None):
    c = Check("C06", tier)
    coq_ok = c.coq_check()
    if not coq_ok:
        c.proof_broken_violation()
    driver = c.build_model()
    hbin = c.build_harness()
    rd = c.rundir
    cases = os.path.join(rd, "cases.txt")
    if replay:
        stats = {}
        with open(cases, "w") as f:
            n = 0
            for l in open(replay):
                l = l.strip()
                if l.startswith("case: "):
                    l = l[6:]
                if l.startswith("Q "):
                    f.write("Q r%d %s\n" % (n, l.split(" ", 2)[2]))
                    n += 1
    else:
        subprocess.run([hbin, "gen", c.tier, str(c.seed), rd], check=True)
        stats = json.load(open(os.path.join(rd, "stats.json")))
        corp = os.path.join(ROOT, "corpus", "C06")
        extra = []
        if os.path.isdir(corp):
            for fn in sorted(os.listdir(corp)):
                extra += [l for l in open(os.path.join(corp, fn)).read().split("\n") if l.startswith("Q ")]
        if extra:
            body = open(cases).read()
            with open(cases, "w") as f:
                f.write("\n".join("Q c%d %s" % (i, l.split(" ", 2)[2]) for i, l in enumerate(extra)) + "\n" + body)
    try:
        impl_out = c.run_sharded([hbin, "run"], cases, os.path.join(rd, "impl.out"), timeout=1500)
    except (RuntimeError, subprocess.TimeoutExpired) as e:
        c.violation("harness-run", "the correspondence harness for C06 failed while running the real code "
                    "(panic, hang or API change); no theorem of Props/C06.v is tied to this code.\n%s" % e, no_input=True)
        c.finish_early()
    model_out = c.run_sharded([driver, "<"], cases, os.path.join(rd, "model.out"))
    impl = read_keyed(impl_out)
    model = read_keyed(model_out)
    case_by_key = {}
    for line in open(cases):
        line = line.rstrip("\n")
        if line:
            f = line.split(" ")
            case_by_key[f[0] + " " + f[1]] = line

    # --- monitor: the extracted property [holds] (Model/ImSpec.v) on the implementation's own
    #     responses and handler logs
    mon_in = os.path.join(rd, "monitor.in")
    with open(mon_in, "w") as f:
        for key, cl in case_by_key.items():
            f.write(cl + "\t" + impl.get(key, "") + "\n")
    spec_out = c.run_sharded([driver, "<"], mon_in, os.path.join(rd, "spec.out"), argv_suffix=["spec"])
    spec = read_keyed(spec_out)

    n_req = n_mon = n_unparsed = mon_viol = 0
    harness_errors = []
    reported = 0
    reruns_ok = 0
    known_hits = 0
    seen_groups = set()
    served = refused = bare = calls = 0
    kinds = {}
    status_hist = {}
    for key, cl in case_by_key.items():
        cs = split_case(cl)
        ir = responses(impl.get(key, ""))
        sv = (spec.get(key, "Q x ").split(" ") + [""])[2]
        n_req += len(cs["reqs"])
        for k, rq in enumerate(cs["reqs"]):
            r = ir[k] if k < len(ir) else ""
            v = sv[k] if k < len(sv) else "."
            kinds[rq[0]] = kinds.get(rq[0], 0) + 1
            if r == "N":
                pass
            elif r.startswith("E") or r == "":
                harness_errors.append((key, k, r))
                continue
            if r == "N":
                pass
            elif r.startswith("GL["):
                calls += len([x for x in r[3:-1].split(",") if x])
            elif r.startswith("X"):
                bare += 1
                k2 = "bare_" + r[1:].split("L")[0]
                status_hist[k2] = status_hist.get(k2, 0) + 1
            else:
                body = r[2:r.index("]")] if "]" in r else ""
                ents = [x for x in body.split(",") if x]
                served += sum(1 for x in ents if x.startswith("D"))
                refused += sum(1 for x in ents if x.startswith("S"))
                for x in ents:
                    if x.startswith("S"):
                        k2 = "%s_%s" % (rq[0], x.rsplit(":", 1)[1])
                        status_hist[k2] = status_hist.get(k2, 0) + 1
                lg = r[r.index("L[") + 2:-1] if "L[" in r else ""
                calls += len([x for x in lg.split(",") if x])
            if r == "N":
                n_mon += 1 if v == "1" else 0
                if v != "0":
                    continue
            if v in ".?":
                n_unparsed += 1
                continue
            if r != "N":
                n_mon += 1
            if v == "1":
                continue
            if v == "k":
                # the property is violated in the way of the known finding only (classified by the extracted
                # holds_events_known): reported under its stable name, once, with a minimised replay
                known_hits += 1
                if known_hits == 1:
                    small_c, small_g = shrink(hbin, driver, cs, [rq], want="k")
                    one = group_verdict(hbin, driver, small_c, small_g)
                    if one is None or "k" not in one[1]:
                        small_c, small_g = cs, [rq]
                        one = group_verdict(hbin, driver, cs, [rq]) or ([r], "k", [])
                    c.violation("absent-event-no-status", "\n".join([
                        "property C06 fails on the implementation (known finding absent-event-no-status): a ReadRequest names a "
                        "concrete event path whose cluster exists on the endpoint but whose event id is not among the cluster's "
                        "events; the property demands an EventStatusIB UnsupportedEvent (0xC7 = 199) for that path, the implementation "
                        "answers nothing for it (im.rs report_events skips UnsupportedEvent on purpose). Everything else in the "
                        "answer is as specified (Model/ImEvents.v holds_events_known).",
                        "case: " + join_case(small_c, small_g),
                        "implementation : " + " ".join(one[0]),
                        "specification  : the same with S<path>:199 for every such path",
                        "model of the code (Im.v / ImEvents.v): " + " ".join(one[2]),
                        "original case  : " + cl[:600],
                        EXPLAIN,
                        "replay: bin/check C06 quick --replay <this file>"]))
                continue
            if v not in "0":
                n_unparsed += 1
                continue
            gi, gj = group_bounds(cs["reqs"], k)
            if (key, gi) in seen_groups:
                continue
            seen_groups.add((key, gi))
            group = cs["reqs"][gi:gj]
            # the timed window runs on the real clock: a violating group is run once more, alone, before it counts
            again = group_verdict(hbin, driver, cs, group)
            if again is not None and "0" not in again[1] and "." not in again[1]:
                reruns_ok += 1
                continue
            mon_viol += 1
            if reported >= 3:
                continue
            reported += 1
            small_c, small_g = shrink(hbin, driver, cs, group)
            one = group_verdict(hbin, driver, small_c, small_g)
            if one is None or "0" not in one[1]:
                small_c, small_g = cs, group
                one = group_verdict(hbin, driver, cs, group) or (ir[gi:gj], sv[gi:gj], [])
            line = join_case(small_c, small_g)
            c.violation("mediation", "\n".join([
                "property C06 fails on the implementation: the response / handler log of an Interaction Model request is not "
                "the one the property allows (Model/ImSpec.v holds / holds_chunked = false): an element was served or acted upon "
                "that is not permitted for the requester (for a timed-only element: outside an unexpired timed interaction, "
                "judged for every chunk of a write), a refused path reached the handler, a permitted element is missing, "
                "or a status is wrong.",
                "case: " + line,
                "implementation : " + " ".join(one[0]),
                "model (Im.v)   : " + " ".join(one[2]),
                "original case  : " + cl[:600],
                "original requests #%d..%d: %s" % (gi, gj - 1, ";".join(group)),
                "original impl  : " + " ".join(ir[gi:gj])[:600],
                EXPLAIN,
                "replay: bin/check C06 quick --replay <this file>"]))

    if harness_errors and not c.violations:
        key, k, r = harness_errors[0]
        c.violation("harness-run", "the harness could not complete %d request(s) against the real code (first: %s request #%d -> %r);\n"
                    "case: %s" % (len(harness_errors), key, k, r, case_by_key[key][:1500]), no_input=True)

    # --- correspondence
    diffs = [key for key in case_by_key if impl.get(key) != model.get(key)]
    if diffs and not c.violations:
        # real-clock cases (timed window) are re-run once before they count
        still = []
        for key in diffs[:40]:
            again = run_one([hbin, "run"], case_by_key[key], tag="again")
            if again != model.get(key):
                still.append(key)
        if len(diffs) > 40:
            still += diffs[40:]
        diffs = still
    if diffs and not c.violations:
        lines = ["correspondence corr:C06 broke: model (Model/Im.v) and implementation disagree on %d of %d case lines;" % (
                     len(diffs), len(case_by_key)),
                 "the monitor (extracted property) found no request on which the implementation violates C06.",
                 "theorems no longer tied to the code: " + ", ".join(c.coq["theorems"]), ""]
        for key in diffs[:4]:
            ir, mr = responses(impl.get(key, "")), responses(model.get(key, ""))
            cs = split_case(case_by_key[key])
            for k, rq in enumerate(cs["reqs"]):
                a = ir[k] if k < len(ir) else ""
                b = mr[k] if k < len(mr) else ""
                if a != b:
                    gi, gj = group_bounds(cs["reqs"], k)
                    lines += ["case : " + join_case(cs, cs["reqs"][gi:gj], cs["id"])[:1500],
                              "impl : " + " ".join(ir[gi:gj])[:700], "model: " + " ".join(mr[gi:gj])[:700], ""]
                    break
        c.violation("corr", "\n".join(lines), no_input=True)

    nt = set()
    for key, cl in case_by_key.items():
        cs = split_case(cl)
        mr = responses(model.get(key, ""))
        for k, rq in enumerate(cs["reqs"]):
            r = mr[k] if k < len(mr) else ""
            # non-trivial: the model both serves and refuses / omits something, or answers with a bare status
            if r.startswith("X") or ("D" in r and ("S" in r or "x" in rq)):
                nt.add(" ".join([cs["fabs"], cs["acc"], cs["nodes"], rq]))
    samples = []
    keys = list(case_by_key.keys())
    for key in keys[:1] + keys[-2:]:
        samples.append({"case": case_by_key[key][:500], "impl": impl.get(key, "")[:300], "model": model.get(key, "")[:300],
                        "monitor": spec.get(key, "")})
    c.cov.update({
        "evaluations": n_req,
        "case_lines": len(case_by_key),
        "distinct_nontrivial": len(nt),
        "rule": "one case line = one device configuration (fabrics/ACLs, requester session, 1-3 node compositions) and 1-9 requests, "
                "each on its own exchange; every request is one evaluation (real IM engine vs model, and the monitor on the real response). "
                "non-trivial = distinct (configuration, request) whose model answer is a bare status or serves something while also "
                "refusing / omitting something (a status entry or a wildcard item)",
        "samples": samples,
        "requests_by_operation": kinds,
        "status_histogram_impl": status_hist,
        "arms": "every status the model can produce is counted per operation in status_histogram_impl "
                "(bare_<code>: whole-request StatusResponse; R/W/I_<code>: per-path status); 126 access, 127 endpoint, "
                "128 invalid action, 129 command, 134 attribute, 136 write, 143 read, 148 timeout, 195 cluster, "
                "198 needs timed, 201 timed mismatch",
        "generator_distribution": stats,
        "entries_served": served,
        "entries_refused": refused,
        "bare_status_responses": bare,
        "handler_calls_logged": calls,
        "monitor_checks": n_mon,
        "monitor_unparsed": n_unparsed,
        "monitor_violations": mon_viol,
        "known_finding_absent_event_no_status_requests": known_hits,
        "monitor_violations_not_reproduced_on_rerun": reruns_ok,
        "disagreements_checked": len(diffs),
        "exhaustive": False,
    })
    c.finish(level="proof",
             trusted_base=["Coq 8.16.1 kernel (coqc; coqchk in thorough tier)", "no axioms (Closed under the global context)",
                           "extraction ExtrOcamlBasic + hand-written OCaml driver ocaml/c06/driver.ml, ocaml/common/util.ml",
                           "Rust harness harness/src/bin/c06.rs (synthetic node metadata, instrumented handler, raw IM client, "
                           "shared in-memory network harness/src/e2e.rs); no hook in rs-matter is used",
                           "the access decision is C05's (Model/Acl.v, Model/AclSpec.v, Proofs/AclTheorems.v)",
                           "correspondence is differential testing on the generated cases"],
             assumptions=["well-formed node: endpoints strictly ascending by id (debug-asserted by the code), cluster ids distinct per "
                          "endpoint, element ids distinct per cluster; well-formed ACL tables as in C05",
                          "node replaced during an answer: an endpoint id keeps its shape (the Node invariant of dm/types/node.rs)",
                          "permitted = authorised at the first of consecutive accesses to the same concrete path within a request "
                          "(last_authorized cache), stated in the theorems",
                          "the cluster handlers' own checks (fabric-sensitive field filtering, data-version checks) are outside the model: "
                          "the engine hands the handler the requester's fabric index and the filter flag, which is what is proved and compared",
                          "events are not modelled"])
