"""C03 — secured messages are accepted only if authentic for that session and direction."""
import json
import os
import re
import subprocess
from .common import Check, read_keyed, ROOT

CLASS_TEXT = {
    "k": "delivered to an existing exchange", "K": "delivered, new exchange", "T": "TruncatedPacket", "I": "Invalid (flag bits)",
    "D": "InvalidData (AEAD / malformed group header)", "S": "InvalidSignature (no group key authenticated)", "N": "NoSession",
    "U": "Duplicate", "E": "NoExchange", "X": "NoSpaceExchanges", "Z": "NoSpaceSessions", "B": "BufferTooSmall",
    "*": "delivered or state changed (details follow)",
}


def split_out(line):
    """'<kind> <id> tok tok ...' -> list of tokens"""
    return line.split(" ")[2:] if line else []


def reduce_case(case_line, where):
    """A D case reduced to the one mutation named by the monitor ('F#123', 'T#5', 'X#3', or a literal mutation)."""
    f = case_line.split(" ")
    if f[0] != "D" or not where:
        return case_line
    m = re.match(r"^([FTX])#(\d+)$", where)
    if m:
        fam, i = m.group(1), int(m.group(2))
        if fam == "F":
            mut = "f%d" % i
        elif fam == "T":
            mut = "t%d" % i
        else:
            ext = bytes((0xA5 ^ ((j * 29) & 0xff)) for j in range(i + 1)).hex()
            mut = "x" + ext
    else:
        mut = where
    f[9] = mut
    return " ".join(f)


def first_token_diff(a, b):
    ta, tb = split_out(a), split_out(b)
    for i in range(max(len(ta), len(tb))):
        x = ta[i] if i < len(ta) else "(none)"
        y = tb[i] if i < len(tb) else "(none)"
        if x != y:
            j = next((k for k in range(min(len(x), len(y))) if x[k] != y[k]), min(len(x), len(y)))
            return i, j, x, y
    return None


def main(tier, replay=None):
    c = Check("C03", tier)
    coq_ok = c.coq_check()
    if not coq_ok:
        c.proof_broken_violation()
    driver = c.build_model()
    hbin = c.build_harness()
    rd = c.rundir
    cases = os.path.join(rd, "cases.txt")
    stats = {}
    if replay:
        with open(cases, "w") as f:
            for l in open(replay):
                l = l.strip()
                if l.startswith("case: "):
                    l = l[6:]
                if l.split(" ")[0] in ("D", "R", "E"):
                    f.write(l + "\n")
    else:
        subprocess.run([hbin, "gen", c.tier, str(c.seed), rd], check=True)
        stats = json.load(open(os.path.join(rd, "stats.json")))
        corp = os.path.join(ROOT, "corpus", "C03")
        extra = []
        if os.path.isdir(corp):
            for fn in sorted(os.listdir(corp)):
                extra += [l for l in open(os.path.join(corp, fn)).read().split("\n") if l and not l.startswith("#")]
        if extra:
            body = open(cases).read()
            with open(cases, "w") as f:
                f.write("\n".join(extra) + "\n" + body)
    impl_out = c.run_sharded([hbin, "run"], cases, os.path.join(rd, "impl.out"))
    model_out = c.run_sharded([driver, "<"], cases, os.path.join(rd, "model.out"))
    impl = read_keyed(impl_out)
    model = read_keyed(model_out)
    case_by_key = {}
    for line in open(cases):
        line = line.rstrip("\n")
        if line:
            f = line.split(" ")
            case_by_key[f[0] + " " + f[1]] = line

    # --- monitor: the extracted executable property on the implementation's own outputs
    spec_in = os.path.join(rd, "spec.in")
    n_mon = 0
    with open(spec_in, "w") as f:
        for key, cl in case_by_key.items():
            il = impl.get(key)
            if il is None:
                continue
            f.write(cl + " @ " + " ".join(split_out(il)) + "\n")
            n_mon += 1
    spec_out = c.run_sharded([driver, "<"], spec_in, os.path.join(rd, "spec.out"), argv_suffix=["spec"])
    spec = read_keyed(spec_out)
    mon_viol = {}
    for key, cl in sorted(case_by_key.items(), key=lambda kv: len(kv[1])):
        sl = spec.get(key)
        il = impl.get(key, "(no output)")
        sf = sl.split(" ") if sl else []
        if len(sf) >= 3 and sf[2] == "1":
            continue
        kind = cl.split(" ")[0]
        where = sf[3] if len(sf) > 3 else ("panic" if "PANIC" in il else "no-verdict")
        name = "monitor-%s-%s" % (kind, re.sub(r"#\d+", "", where).split(":")[0][:1] if kind == "D" else where)
        mon_viol[name] = mon_viol.get(name, 0) + 1
        if mon_viol[name] <= 2:
            reduced = reduce_case(cl, where if kind == "D" else None)
            # the implementation's own output on the reduced case
            red_out = ""
            if reduced != cl:
                tmp = os.path.join(rd, "reduced.case")
                open(tmp, "w").write(reduced + "\n")
                try:
                    red_out = subprocess.run([hbin, "run", tmp], stdout=subprocess.PIPE, timeout=120).stdout.decode().strip()
                except Exception:
                    red_out = ""
            text = [
                "property C03 fails on the implementation (%s):" % (
                    "receive pipeline decode_packet" if kind == "D" else "round trip write_packet -> decode_packet"),
                "case: " + (reduced[:200000]),
                "failing mutation: " + where,
                "implementation output: " + (red_out or il)[:4000],
            ]
            if kind == "D":
                text += [
                    "the extracted property (mon_decode, Model/PacketSpec.v) is false on this output: a datagram may be delivered only if "
                    "it is authentic for the session it is looked up to (sealed under that session's receive key, nonce = security flags | "
                    "counter | the session's peer node id, associated data = the whole encoded plain header), with exactly the sealed "
                    "fields; a datagram that is authentic for nobody must leave every session's window, counter, exchange slots, keys and "
                    "identities unchanged; an authentic one may move only its own session's window and exchange slots",
                    "token format: <class>[plain;proto;payload]<= | !sessions|group counter store>; classes: " +
                    ", ".join("%s=%s" % kv for kv in CLASS_TEXT.items()),
                ]
            elif where == "unauthentic":
                text += [
                    "the extracted property (mon_decode) is false on the round trip: the receiver delivered the datagram the sender's "
                    "real TX path produced (second token of the output), but that datagram is not an honest sealing for the receiving "
                    "session / group key: its body is not the AES-CCM sealing of (protocol header ++ payload) under the session key with "
                    "nonce = security flags | counter | sender node id and associated data = the whole encoded plain header (the world "
                    "entry of the case, made with the raw primitive) - sender and receiver agree on something else than the specification",
                ]
            else:
                text += [
                    "the extracted property (mon_roundtrip) is false: what the sender's session encoded was not delivered by the "
                    "mirrored session with identical plain header, protocol header and payload",
                ]
            text += ["model output for comparison: " + str(model.get(key))[:4000],
                     "replay: bin/check C03 quick --replay <this file>"]
            c.violation(name, "\n".join(text))

    # --- correspondence
    diffs = [key for key in case_by_key if impl.get(key) != model.get(key)]
    if diffs and not c.violations:
        lines = ["correspondence corr:C03 broke: model and implementation disagree on %d of %d cases;" % (len(diffs), len(case_by_key)),
                 "the monitor (extracted property) found no datagram on which the implementation violates C03.",
                 "theorems no longer tied to the code: " + ", ".join(c.coq["theorems"]), ""]
        for key in diffs[:8]:
            d = first_token_diff(impl.get(key, ""), model.get(key, ""))
            muts = case_by_key[key].split(" ")[9].split(",") if key.startswith("D ") else []
            lines += ["case : " + case_by_key[key][:3000]]
            if d:
                i, j, x, y = d
                which = "(base state)" if (key.startswith("D ") and i == 0) else (
                    "mutation %s" % muts[i - 1][:60] if key.startswith("D ") and 0 < i <= len(muts) else "token %d" % i)
                lines += ["first difference: %s, position %d" % (which, j),
                          "impl : ..." + x[max(0, j - 200):j + 300],
                          "model: ..." + y[max(0, j - 200):j + 300], ""]
            else:
                lines += ["impl : " + str(impl.get(key))[:600], "model: " + str(model.get(key))[:600], ""]
        c.violation("corr", "\n".join(lines), no_input=True)

    # --- evidence
    hist = {}
    nt = set()
    accepted = 0
    for key, cl in case_by_key.items():
        ml = model.get(key, "")
        toks = split_out(ml)
        saw_ok, saw_rej = False, False
        for t in toks:
            if t.startswith("^") or t.startswith("tx[") or not t:
                continue
            if re.match(r"^[0-9a-f]+$", t) and len(t) > 20:
                continue
            head = t.split("@")[0]
            if len(head) > 1 and re.match(r"^[A-Za-z*?!]+$", head):
                for ch in head:
                    hist[ch] = hist.get(ch, 0) + 1
                    saw_rej = saw_rej or ch not in "kK*"
                for d in t.split("@")[1:]:
                    ch = d.split(":", 1)[1][:1]
                    hist[ch] = hist.get(ch, 0) + 1
                    saw_ok = saw_ok or ch in "kK"
            elif t[0] in CLASS_TEXT or t[0] in "?!":
                hist[t[0]] = hist.get(t[0], 0) + 1
                if t[0] in "kK":
                    saw_ok = True
                    accepted += 1
                else:
                    saw_rej = True
        if saw_ok and (saw_rej or cl.startswith("R ")):
            nt.add(cl.split(" ", 2)[2])
    kinds = {}
    for cl in case_by_key.values():
        kinds[cl[0]] = kinds.get(cl[0], 0) + 1
    samples = []
    seen = {}
    for key, cl in case_by_key.items():
        if seen.get(cl[0], 0) < 2:
            seen[cl[0]] = seen.get(cl[0], 0) + 1
            samples.append({"case": cl[:400], "impl": impl.get(key, "")[:400], "model": model.get(key, "")[:400]})
    c.cov.update({
        "evaluations": int(stats.get("decodes", 0)) + int(stats.get("encodes", 0)) if stats else len(case_by_key),
        "case_lines": len(case_by_key),
        "distinct_nontrivial": len(nt),
        "rule": "evaluations = real decode_packet calls (one per mutation member) + real write_packet calls; non-trivial = distinct case "
                "lines (id removed) on which the model both delivers at least one datagram and rejects at least one mutation of it "
                "(R lines: delivers)",
        "samples": samples,
        "cases_by_kind": kinds,
        "generator_stats": stats,
        "model_outcome_classes": hist,
        "classes": CLASS_TEXT,
        "monitor_cases": n_mon,
        "monitor_violations": mon_viol,
        "disagreements_checked": len(diffs),
        "exhaustive": False,
        "exhaustive_parts": "every single-bit flip (F), every truncation length (T) and extensions by 1..16 bytes (X) of the datagrams "
                            "marked so in the case lines; not exhaustive over datagrams",
    })
    c.finish(level="proof",
             trusted_base=["Coq 8.16.1 kernel (coqc; coqchk in thorough tier)", "no axioms (Closed under the global context)",
                           "extraction ExtrOcamlBasic + hand-written OCaml driver ocaml/c03/driver.ml, ocaml/common/util.ml",
                           "Rust harness harness/src/bin/c03.rs (case generator, reference sealing with the raw AES-CCM primitive from "
                           "harness-built nonce/associated data, snapshot canonicaliser) and hooks (cfg rs_matter_verif) "
                           "TransportRunner::verif_decode_packet / verif_write_packet, Session::verif_encode / verif_set_raw / "
                           "verif_set_exch / verif_clear_exch, Sessions::verif_group_ctr_store, Session::verif_snapshot",
                           "correspondence is differential testing on the generated cases"],
             assumptions=["IDEAL AEAD: opening succeeds exactly on byte strings an honest party sealed under the same key, nonce and "
                          "associated data (the world of the model); that AES-CCM rejects everything else is tested by the exhaustive "
                          "bit-flip / truncation / extension sweeps, not proved",
                          "rejection corollaries assume ct_unique (one byte string is the sealing of at most one term); the round trip "
                          "assumes world_functional (decryption is a function)",
                          "model = Model/Packet.v hand-transcribed from transport.rs decode_packet, session.rs, packet.rs, proto_hdr.rs; "
                          "tied to the code only by the correspondence run",
                          "last_use, received_at, retransmission timing, IPv6 flow label / scope id and buffer capacities are outside the model"])
