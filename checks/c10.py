"""C10 — a message reaches only its own exchange, and the receive path never wedges."""
import os
import re
import subprocess
from .common import Check, read_keyed, ROOT

TIMING = re.compile(r"~\d+")


def cmp_part(line):
    """what model and implementation must agree on: everything except the measured ages (~ms)"""
    return TIMING.sub("", line)


def pred_of(line):
    for f in line.split(" "):
        if f.startswith("pred="):
            return f
    return ""


def e_monitor(line, case=""):
    """end-to-end clauses that need no model: the run ended, every probe was answered, and no
    accept-pending or dropped exchange is left behind after the settling time"""
    names = []
    f = line.split(" ")
    outcome = f[2] if len(f) > 2 else "missing"
    if outcome != "done":
        names.append("hang-or-abort:" + outcome)
    for fld in f[3:]:
        if fld.startswith("probes="):
            for p in [x for x in fld[7:].split(",") if x]:
                # "expired": refused with SessionNotFound because the device had marked that session expired
                if not (p.startswith("ok:") or p.startswith("expired:")):
                    names.append("probe-unanswered")
        elif fld.startswith("unacked="):
            if fld[8:] != "0":
                names.append("message-never-acknowledged")
        elif fld.startswith("tables="):
            if "/p/" in fld or "/d/" in fld:
                names.append("exchange-not-closed")
    # scenario-specific expectation: these tags must have been answered on the wire
    for f in case.split(" "):
        if f.startswith("er="):
            got = []
            for fld in line.split(" "):
                if fld.startswith("replies="):
                    got = [x for x in fld[8:].split(",") if x]
            for t in f[3:].split("."):
                if t and t not in got:
                    names.append("answer-lost-in-tx-buffer")
    return sorted(set(names))


def main(tier, replay=None):
    c = Check("C10", tier)
    if not c.coq_check():
        c.proof_broken_violation()
    driver = c.build_model()
    hbin = c.build_harness()
    rd = c.rundir
    cases = os.path.join(rd, "cases.txt")
    if replay:
        with open(cases, "w") as f:
            for l in open(replay):
                l = l.strip()
                if l.startswith("case: "):
                    l = l[6:]
                if l[:2] in ("P ", "S ", "E "):
                    f.write(l + "\n")
    else:
        subprocess.run([hbin, "gen", c.tier, str(c.seed), rd], check=True)
        # past disagreements first
        cdir = os.path.join(ROOT, "corpus", "C10")
        if os.path.isdir(cdir):
            extra = []
            for fn in sorted(os.listdir(cdir)):
                for l in open(os.path.join(cdir, fn)):
                    l = l.strip()
                    if l[:2] in ("P ", "S ", "E "):
                        extra.append(l)
            if extra:
                body = open(cases).read()
                with open(cases, "w") as f:
                    f.write("\n".join(extra) + "\n" + body)
    # end-to-end cases sleep on the real clock: interleave them so that every shard gets a few
    lines = [l for l in open(cases).read().split("\n") if l]
    slow = [l for l in lines if l[0] == "E" or (l[0] == "S" and ";t" in l)]
    fast = [l for l in lines if l not in set(slow)]
    order, step = [], max(1, len(fast) // max(1, len(slow)))
    si = 0
    for i, l in enumerate(fast):
        if i % step == 0 and si < len(slow):
            order.append(slow[si])
            si += 1
        order.append(l)
    order += slow[si:]
    with open(cases, "w") as f:
        f.write("\n".join(order) + "\n")

    impl_out = c.run_sharded([hbin, "run"], cases, os.path.join(rd, "impl.out"))
    model_out = c.run_sharded([driver, "<"], cases, os.path.join(rd, "model.out"))
    impl = read_keyed(impl_out)
    model = read_keyed(model_out)
    case_by_key = {}
    for line in order:
        f = line.split(" ")
        case_by_key[f[0] + " " + f[1]] = line

    def rerun(key):
        """cases with sleeps run on the real clock: re-run to rule out a scheduling stall"""
        p = os.path.join(rd, "rerun.txt")
        with open(p, "w") as f:
            f.write(case_by_key[key] + "\n")
        out = subprocess.run([hbin, "run", p], stdout=subprocess.PIPE).stdout.decode()
        for l in out.split("\n"):
            if l.startswith(key + " "):
                return l
        return ""

    # --- correspondence (P and S; E lines are observed by the monitor only)
    diffs, flaky = [], 0
    for key, cl in case_by_key.items():
        if key.startswith("E "):
            # end-to-end scenarios marked det=1: the model's prediction of deliveries, probes, tables
            if " det=1 " in cl:
                mp = pred_of(model.get(key, ""))
                if pred_of(impl.get(key, "")) != mp:
                    again = [rerun(key), rerun(key)]
                    good = [a for a in again if pred_of(a) == mp]
                    if good:
                        flaky += 1
                        impl[key] = good[0]
                    else:
                        diffs.append(key)
            continue
        il, ml = impl.get(key, ""), model.get(key, "")
        if cmp_part(il) != ml:
            if key.startswith("S ") and ";t" in cl:
                again = [rerun(key), rerun(key)]
                good = [a for a in again if cmp_part(a) == ml]
                if good:
                    flaky += 1
                    impl[key] = good[0]
                    continue
            diffs.append(key)

    # --- monitor: the extracted clauses on the implementation's own observations
    spec_in = os.path.join(rd, "spec.in")
    with open(spec_in, "w") as f:
        for key, cl in case_by_key.items():
            il = impl.get(key, "")
            body = il.split(" ", 2)[2] if len(il.split(" ", 2)) > 2 else ""
            f.write(cl + " => " + body + "\n")
    spec_out = c.run_sharded([driver, "<"], spec_in, os.path.join(rd, "spec.out"), argv_suffix=["spec"])
    spec = read_keyed(spec_out)
    mon_viol, n_mon = 0, 0
    found = []
    for key, cl in case_by_key.items():
        il = impl.get(key, "")
        n_mon += 1
        verdict = (spec.get(key, key + " missing").split(" ") + ["missing"])[2]
        names = [] if verdict == "ok" else verdict.split(",")
        if key.startswith("E "):
            names += e_monitor(il, cl)
            if names:
                # real clock: a stalled run is re-run once before it counts
                again = rerun(key)
                if again and not e_monitor(again, cl):
                    sp = subprocess.run([driver, "spec"], input=(cl + " => " + again.split(" ", 2)[2] + "\n").encode(),
                                        stdout=subprocess.PIPE).stdout.decode().strip().split(" ")
                    if len(sp) > 2 and sp[2] == "ok":
                        flaky += 1
                        impl[key] = again
                        names = []
        for name in sorted(set(names)):
            mon_viol += 1
            found.append((name, "\n".join([
                "property C10 fails on the implementation: " + name,
                "case: " + cl,
                "implementation: " + il[:6000],
                "model          : " + model.get(key, "")[:6000],
                "replay: bin/check C10 quick --replay <this file>"])))
    # the number of replay files is capped: write one per distinct violation name first
    by_name = {}
    for name, text in found:
        by_name.setdefault(name, []).append(text)
    rank = 0
    while any(by_name.values()):
        for name in sorted(by_name):
            if by_name[name]:
                c.violation(name, by_name[name].pop(0))
        rank += 1
        if rank > 6:
            break
    c.cov["violations_by_name"] = {}
    for name, _ in found:
        c.cov["violations_by_name"][name] = c.cov["violations_by_name"].get(name, 0) + 1

    if diffs and not c.violations:
        lines_ = ["correspondence corr:C10 broke: model and implementation disagree on %d of %d cases;" % (len(diffs), len(case_by_key)),
                  "the monitor found no run on which the implementation violates C10.",
                  "theorems no longer tied to the code: " + ", ".join(c.coq["theorems"]), ""]
        for key in diffs[:10]:
            lines_ += ["case : " + case_by_key[key][:800], "impl : " + str(impl.get(key))[:3000], "model: " + str(model.get(key))[:3000], ""]
        c.violation("corr", "\n".join(lines_), no_input=True)
    elif diffs:
        c.notes.append("correspondence differences: %d" % len(diffs))

    kinds, nt = {}, set()
    arms = {}
    for key, cl in case_by_key.items():
        k = cl[0]
        kinds[k] = kinds.get(k, 0) + 1
        ml = model.get(key, "")
        body = cl.split(" ", 2)[2] if len(cl.split(" ", 2)) > 2 else ""
        if k == "P":
            res = ml.split(" ")[2] if len(ml.split(" ")) > 2 else "?"
            arms["P:" + res] = arms.get("P:" + res, 0) + 1
            if res != "routed":
                nt.add(body)
        elif k == "S":
            hit = False
            for tok in ml.split(" ")[2:]:
                r = tok.split("@")[0]
                base = r.split("+")[0].split(":")[0]
                arms["S:" + base] = arms.get("S:" + base, 0) + 1
                if base in ("fired", "closed", "gone", "busy", "timeout") or "+" in r:
                    hit = True
            if hit:
                nt.add(body)
        else:
            nt.add(body)
    samples, seen = [], {}
    for key, cl in case_by_key.items():
        if seen.get(cl[0], 0) < 2:
            seen[cl[0]] = seen.get(cl[0], 0) + 1
            samples.append({"case": cl[:300], "impl": impl.get(key, "")[:400], "model": model.get(key, "")[:400]})
    s_steps = sum(len(cl.split(" ", 2)[2].split(";")) for cl in case_by_key.values() if cl[0] == "S" and len(cl.split(" ", 2)) > 2)
    c.cov.update({
        "evaluations": kinds.get("P", 0) + s_steps + kinds.get("E", 0),
        "case_lines": len(case_by_key),
        "distinct_nontrivial": len(nt),
        "rule": "P = one Session::post_recv on a constructed exchange table (result class, table and window after compared; exhaustive product "
                "known/unknown id x initiator flag x 5 opcode classes x expired x 4 table shapes x 5 role/states x 4 reliability states x 3 ack forms, plus random tables); "
                "S = the real transport stepped one model label at a time through the hooks (result and full session/exchange tables, RX slot, live Exchange objects "
                "compared after every step; evaluations counts steps); E = two real nodes plus a scripted ghost peer on the real clock, monitor only. "
                "non-trivial = distinct P case whose model answer is not `routed`, S case in which a sweeper/closer fired or a datagram was refused or answered directly, every E case",
        "samples": samples,
        "cases_by_kind": kinds,
        "model_arms": arms,
        "monitor_cases": n_mon,
        "monitor_violations": mon_viol,
        "disagreements_checked": len(diffs),
        "reruns_that_agreed": flaky,
        "exhaustive": False,
        "exhaustive_parts": "P product stream: 5 role/states x known/unknown x initiator flag x 5 opcode classes x expired x 4 table shapes x 4 reliability states x 3 (reliable, ack) forms = 9600 lines",
    })
    c.finish(level="proof",
             trusted_base=["Coq 8.16.1 kernel (coqc; coqchk in thorough tier)", "no axioms (Closed under the global context)",
                           "extraction ExtrOcamlBasic + hand-written OCaml driver ocaml/c10/driver.ml (incl. script-to-label bookkeeping for S lines and the state parser of the monitor)",
                           "Rust harness harness/src/bin/c10.rs, harness/src/c10_steps.rs, harness/src/e2e.rs and hooks (cfg rs_matter_verif): Session::verif_set_exchange / verif_set_expired, "
                           "TransportRunner::verif_rx_step / verif_sweep_* / verif_close_dropped / verif_tx_flush / verif_rx_state",
                           "correspondence is differential testing on the generated cases; S cases with ticks and all E cases run on the real clock"],
             assumptions=["system model Model/Exchange.v: one atomic step per region between two awaits; scheduler, peers and handlers are an adversary choosing the next label",
                          "eventual progress needs executor fairness: the transport future is polled at least every 50 ms (DESIGN section 12) and process_tx drains the TX buffer; proved: safety + enabledness",
                          "session table capacity and session establishment are outside C10 (LAddSession / unbounded table); exchange ids of initiator exchanges are chosen by the adversary",
                          "the IfMutex / Signal implementation is modelled by its contract (lock_if / with evaluate the predicate atomically when unlocked)"])
