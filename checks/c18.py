"""C18 — BTP delivers each message intact, once and in order, or fails cleanly."""
import json
import os
import subprocess

from .common import Check, read_keyed, ROOT

KINDS = ("E ", "P ", "R ")


def tokens_of(line):
    """result tokens of an output line: '<K> <id> r r r | final' -> [r, ...]"""
    body = line.split(" | ")[0]
    return body.split(" ")[2:]


def nontrivial(case_line, model_line):
    """E: at least one refusal and one accepted incoming segment; P: at least one message delivered."""
    f = case_line.split(" ")
    res = tokens_of(model_line)
    if f[0] == "R":
        # ring buffer: it was full at least once and something was popped
        return any(r.split("@")[-1].split("/")[0].endswith("10") for r in res) and any(r.startswith("b") and len(r.split("@")[0]) > 1 for r in res)
    if f[0] == "E":
        ops = f[2:]
        acc = any(o.startswith("i:") and r.startswith("u@") for o, r in zip(ops, res))
        ref = any(o.startswith("i:") and r.startswith("e@") for o, r in zip(ops, res))
        return acc and ref
    ops = f[5:]
    return any(o[0] == "f" and r[0] == "b" and len(r.split("@")[0]) > 1 for o, r in zip(ops, res))


def describe_step(case_line, impl_line, step):
    f = case_line.split(" ")
    ops = f[2:] if f[0] == "E" else [t for t in f[5:] if not t.startswith("w")]
    res = tokens_of(impl_line)
    if f[0] == "P":
        keep = [not t.startswith("w") for t in f[5:]]
        res = [r for k, r in zip(keep + [True] * len(res), res) if k]
    lo = max(0, step - 4)
    lines = []
    for j in range(lo, min(len(ops), step + 1)):
        r = res[j] if j < len(res) else "(no answer: the implementation panicked before)"
        lines.append("  step %d: op %s -> implementation %s" % (j, ops[j][:120], r[:160]))
    if len(res) < len(ops) or (res and res[-1] == "P"):
        lines.append("  the implementation PANICKED at step %d (op %s)" % (len(res) - 1, ops[len(res) - 1][:120] if res else "?"))
    return lines


def main(tier, replay=None):
    c = Check("C18", tier)
    coq_ok = c.coq_check()
    if not coq_ok:
        c.proof_broken_violation()
    driver = c.build_model()
    hbin = c.build_harness()
    rd = c.rundir
    cases = os.path.join(rd, "cases.txt")
    stats = {}
    if replay:
        with open(cases, "w") as f:
            for l in open(replay):
                l = l.strip()
                if l.startswith("case: "):
                    l = l[6:]
                if l[:2] in KINDS:
                    f.write(l + "\n")
    else:
        subprocess.run([hbin, "gen", c.tier, str(c.seed), rd], check=True)
        stats = json.load(open(os.path.join(rd, "stats.json")))
        corp = os.path.join(ROOT, "corpus", "C18")
        extra = []
        if os.path.isdir(corp):
            for fn in sorted(os.listdir(corp)):
                extra += [l for l in open(os.path.join(corp, fn)).read().split("\n") if l[:2] in KINDS]
        if extra:
            body = open(cases).read()
            with open(cases, "w") as f:
                f.write("\n".join(extra) + "\n" + body)
    impl_out = c.run_sharded([hbin, "run"], cases, os.path.join(rd, "impl.out"))
    model_out = c.run_sharded([driver, "<"], cases, os.path.join(rd, "model.out"))
    impl = read_keyed(impl_out)
    model = read_keyed(model_out)
    case_by_key = {}
    for line in open(cases):
        line = line.rstrip("\n")
        if line:
            f = line.split(" ")
            case_by_key[f[0] + " " + f[1]] = line

    # --- monitor: the extracted executable property on the implementation's own outputs
    spec_in = os.path.join(rd, "spec.in")
    with open(spec_in, "w") as f:
        for key, cl in case_by_key.items():
            if key in impl:
                f.write(cl + "\t" + impl[key] + "\n")
    spec_out = c.run_sharded([driver, "<"], spec_in, os.path.join(rd, "spec.out"), argv_suffix=["spec"])
    spec = read_keyed(spec_out)
    mon_viol = []
    for key, sl in spec.items():
        sf = sl.split(" ")
        if len(sf) < 3 or sf[2] != "1":
            step, clause = 0, ""
            for t in sf[3:]:
                if t.startswith("step="):
                    step = int(t[5:])
                if t.startswith("clause="):
                    clause = t[7:]
            mon_viol.append((len(case_by_key[key]), key, step, clause))
    mon_viol.sort()
    for _, key, step, clause in mon_viol[:3]:
        cl, il = case_by_key[key], impl[key]
        panicked = " P" in il.split(" | ")[0]
        if cl.startswith("E "):
            what = ("property C18 fails on the implementation (one end, arbitrary peer input): "
                    + ("the implementation panicked" if panicked else
                       "a fetch failed / a fetched message is not the next message reassembled from the accepted "
                       "segments / a segment no receiver may accept was accepted"))
            name = "hostile-panic" if panicked else "hostile-integrity"
        else:
            why = {"lost-ack": "an end forgot an acknowledgement it owes: its ack_level differs from the number of segments it "
                               "has taken in since the last ACK it put on the wire (the peer's segments stay unacknowledged for good)",
                   "stall": "both send windows are exhausted and no ACK is on its way: neither end can ever send again "
                            "(the session is stuck until the idle time-out)",
                   "window": "the window accounting is broken (in flight + unacknowledged <= outstanding <= window, "
                             "in flight <= free receive window)",
                   "refused-or-misdelivered": "a well-formed segment or step was refused, or a fetched message is not the next submitted one",
                   }.get(clause, "a well-formed segment or step was refused / a fetched message is not the next submitted one / "
                                 "the window accounting is broken / an acknowledgement was lost")
            what = ("property C18 fails on the implementation (two well-behaved ends back to back): "
                    + ("the implementation panicked" if panicked else why))
            name = "pair-panic" if panicked else {"lost-ack": "pair-lost-ack", "stall": "pair-stall"}.get(clause, "pair-delivery-or-window")
        c.violation(name, "\n".join(
            [what, "first offending step: %d" % step] + describe_step(cl, il, step) +
            ["case: " + cl, "implementation output: " + il[:4000],
             "replay: bin/check C18 quick --replay <this file>"]))

    # --- correspondence
    diffs = [key for key in case_by_key if impl.get(key) != model.get(key)]
    if diffs and not c.violations:
        diffs.sort(key=lambda k: len(case_by_key[k]))
        lines = ["correspondence corr:C18 broke: model and implementation disagree on %d of %d cases;" % (len(diffs), len(case_by_key)),
                 "the monitors (extracted property) found no trace on which the implementation violates C18.",
                 "theorems no longer tied to the code: " + ", ".join(c.coq["theorems"]), ""]
        for key in diffs[:6]:
            it, mt = tokens_of(impl.get(key, "")), tokens_of(model.get(key, ""))
            j = next((k for k in range(min(len(it), len(mt))) if it[k] != mt[k]), min(len(it), len(mt)))
            f = case_by_key[key].split(" ")
            ops = f[2:] if f[0] == "E" else (f[3:] if f[0] == "R" else f[5:])
            lines += ["case : " + case_by_key[key][:3000],
                      "first difference at step %d (op %s)" % (j, ops[j][:100] if j < len(ops) else "final state"),
                      "impl : " + (it[j][:200] if j < len(it) else impl.get(key, "")[-200:]),
                      "model: " + (mt[j][:200] if j < len(mt) else model.get(key, "")[-200:]), ""]
        c.violation("corr", "\n".join(lines), no_input=True)

    nt = set()
    kinds = {}
    ops_total = 0
    for key, cl in case_by_key.items():
        stream = key.split(" ")[1].rstrip("0123456789_")
        kinds[stream] = kinds.get(stream, 0) + 1
        ops_total += len(cl.split(" ")) - {"E": 2, "R": 3}.get(cl[0], 5)
        if nontrivial(cl, model.get(key, "")):
            nt.add(cl.split(" ", 2)[2])
    samples = []
    seen = {}
    for key, cl in case_by_key.items():
        stream = key.split(" ")[1].rstrip("0123456789_")
        if seen.get(stream, 0) < 2:
            seen[stream] = seen.get(stream, 0) + 1
            samples.append({"case": cl[:300], "impl": impl.get(key, "")[:200], "model": model.get(key, "")[:200]})
    c.cov.update({
        "evaluations": len(case_by_key),
        "operations": ops_total,
        "distinct_nontrivial": len(nt),
        "rule": "one case = one operation sequence run on the real Btp (or two real Btp back to back) and on the extracted model, "
                "compared after every operation (answer, four window numbers, digest of the whole state) and on the final state. "
                "streams: hf = all 64 flag combinations x seq/ack in {expected,+1,-1,random} x five contexts (before the handshake, "
                "between request and response, responder, initiator, inside an SDU); hs = handshake MTU/window/GATT-MTU sweep, both roles; "
                "hw = window exhaustion, repeated handshakes and > 600 segments across the sequence wrap; hr = long conversations with a "
                "mostly well-behaved, sometimes hostile peer; p0..p3 = two real ends under a seeded scheduler (fair, bursty, undrained, "
                "handshake raced). non-trivial = distinct case whose model answer has both an accepted and a refused incoming segment (E) "
                "or delivers at least one message end to end (P)",
        "samples": samples,
        "cases_by_stream": kinds,
        "generator_stats": stats,
        "monitor_cases": len(spec),
        "monitor_violations": len(mon_viol),
        "disagreements_checked": len(diffs),
        "exhaustive": False,
    })
    c.finish(level="proof",
             trusted_base=["Coq 8.16.1 kernel (coqc; coqchk in thorough tier)", "no axioms (Closed under the global context)",
                           "extraction ExtrOcamlBasic + hand-written OCaml driver ocaml/c18/driver.ml, ocaml/common/util.ml",
                           "Rust harness harness/src/bin/c18.rs and hooks (cfg rs_matter_verif) in transport/network/btp.rs, btp/session.rs",
                           "correspondence is differential testing on the generated cases; the ring buffer is modelled as a byte queue"],
             assumptions=["GATT: one reliable in-order channel per direction (no loss, duplication or reordering)",
                          "timers: the ACK timer is an arbitrary boolean input of every poll; that a due ACK is sent in time needs the "
                          "GATT task to be polled (fairness) and the own send window not to be exhausted",
                          "pair theorems start from the state right after the handshake (sys_established); the handshake itself is "
                          "covered by C18_handshake_request_valid / _response_valid, two vm_compute examples and the correspondence run",
                          "model = Model/Btp.v hand-transcribed from btp.rs / btp/session.rs / btp/session/packet.rs (repaired); "
                          "tied to the code only by the correspondence run"])
