"""C16 — the TLV codec round-trips every value and rejects every malformed input safely."""
import json
import os
import subprocess
from .common import Check, read_keyed, ROOT

KINDS = ("R ", "X ", "T ", "W ", "D ", "Z ", "Y ", "K ", "C ")


def split_case(line):
    f = line.split(" ")
    return f[0] + " " + f[1]


def expand_sweep(case_line):
    """X <id> <prefix> <n> -> the R lines it stands for (ids <id>.<i>)."""
    f = case_line.split(" ")
    prefix = "" if f[2] == "-" else f[2]
    n = int(f[3])
    out = []
    for i in range(256 ** n):
        suffix = "".join("%02x" % ((i >> (8 * (n - 1 - k))) & 255) for k in range(n))
        h = prefix + suffix
        out.append("R %s.%d %s" % (f[1], i, h if h else "-"))
    return out


def main(tier, replay=None):
    c = Check("C16", tier)
    coq_ok = c.coq_check()
    if not coq_ok:
        c.proof_broken_violation()
    driver = c.build_model()
    hbin = c.build_harness()
    rd = c.rundir
    cases = os.path.join(rd, "cases.txt")
    stats = {}
    if replay:
        with open(cases, "w") as f:
            for l in open(replay):
                l = l.rstrip("\n")
                if l.startswith("case: "):
                    l = l[6:]
                if l[:2] in KINDS:
                    f.write(l + "\n")
    else:
        subprocess.run([hbin, "gen", c.tier, str(c.seed), rd], check=True)
        stats = json.load(open(os.path.join(rd, "stats.json")))
        corp = os.path.join(ROOT, "corpus", "C16")
        extra = []
        if os.path.isdir(corp):
            for fn in sorted(os.listdir(corp)):
                extra += [l for l in open(os.path.join(corp, fn)).read().split("\n") if l and l[:2] in KINDS]
        if extra:
            body = open(cases).read()
            with open(cases, "w") as f:
                f.write("\n".join(extra) + "\n" + body)

    def run_both(cases_path, tag):
        try:
            i = c.run_sharded([hbin, "run"], cases_path, os.path.join(rd, "impl%s.out" % tag))
        except RuntimeError as e:
            # the process running the real code died (abort, stack overflow, double panic): that is
            # itself a failure of "never a panic"; no single input is pinned down
            c.violation("reader-abort", "the harness process running the real TLV code on the generated cases died "
                        "(abort / stack overflow / panic outside catch_unwind):\n%s" % str(e)[-3000:], no_input=True)
            c.finish_early()
        m = c.run_sharded([driver, "<"], cases_path, os.path.join(rd, "model%s.out" % tag))
        return read_keyed(i), read_keyed(m)

    impl, model = run_both(cases, "")
    case_by_key = {}
    for line in open(cases):
        line = line.rstrip("\n")
        if line:
            case_by_key[split_case(line)] = line

    # --- sweep blocks in which the implementation panicked / did not terminate, or which differ from
    #     the model, are expanded into their individual inputs so that a concrete input is found
    bad_blocks = []
    for key, cl in case_by_key.items():
        if key.startswith("X "):
            il = impl.get(key, "")
            if not il.endswith(" P=0") or il != model.get(key):
                bad_blocks.append(key)
    if bad_blocks:
        exp = os.path.join(rd, "expanded.txt")
        with open(exp, "w") as f:
            for key in bad_blocks[:8]:
                f.write("\n".join(expand_sweep(case_by_key[key])) + "\n")
        impl2, model2 = run_both(exp, "-exp")
        impl.update(impl2)
        model.update(model2)
        for line in open(exp):
            line = line.rstrip("\n")
            if line:
                case_by_key[split_case(line)] = line

    # --- monitor: the extracted executable property on the implementation's outputs
    spec_in = os.path.join(rd, "spec.in")
    n_mon = 0
    writer_bad = []
    with open(spec_in, "w") as f:
        for key, cl in case_by_key.items():
            il = impl.get(key)
            if il is None:
                continue
            out = il.split(" ", 2)[2] if il.count(" ") >= 2 else ""
            if key.startswith("R "):
                f.write(cl + " " + out + "\n")
                n_mon += 1
            elif key[0] in "TW":
                first = out.split(" ")[0] if out else ""
                if first in ("P", "E") or "!=" in first:
                    writer_bad.append(key)
                    continue
                f.write(cl + " | " + out + "\n")
                n_mon += 1
            elif key[0] in "ZK":
                f.write(cl + " | " + out + "\n")
                n_mon += 1
    spec_out = c.run_sharded([driver, "<"], spec_in, os.path.join(rd, "spec.out"), argv_suffix=["spec"])
    spec = read_keyed(spec_out)
    mon_viol = 0

    def size_of(key):
        return len(case_by_key[key])

    for key in sorted(spec, key=size_of):
        sl = spec[key].split(" ")
        if sl[2] == "1":
            continue
        mon_viol += 1
        if mon_viol > 6:
            continue
        cl, il = case_by_key[key], impl.get(key, "")
        if key.startswith("R "):
            why = sl[3] if len(sl) > 3 else "?"
            fields = il.split(" ")[2:]
            bad = [str(i) for i, x in enumerate(fields) if x in ("P", "F")]
            c.violation("reader-" + why.replace(",", "+"), "\n".join([
                "property C16 fails on the implementation (reader): " + why,
                "case: " + cl,
                "input bytes: " + cl.split(" ")[2],
                "implementation output (one field per accessor; P = panic, F = does not terminate, E = error): ",
                "  " + il,
                "accessor indices with P/F: " + ",".join(bad) if bad else "the value reported does not lie within / equal the input",
                "model output for the same input:",
                "  " + str(model.get(key)),
                "replay: bin/check C16 quick --replay <this file>"]))
        elif key.startswith("Z "):
            c.violation("derived-roundtrip", "\n".join([
                "property C16 fails on the implementation (derived encoders): the value written through the derived "
                "ToTLV (to_tlv and tlv_iter must agree) does not decode back to an equal value through the derived FromTLV",
                "case (zoo type, tag, value): " + cl[:3000],
                "implementation (bytes written, value decoded): " + il[:3000],
                "model                                         : " + str(model.get(key))[:3000],
                "replay: bin/check C16 quick --replay <this file>"]))
        elif key.startswith("K "):
            c.violation("writebuf-" + (sl[3] if len(sl) > 3 else "capacity"), "\n".join([
                "property C16 fails on the implementation (writer with a capacity): a write into a full WriteBuf must fail "
                "with the previously written bytes intact (a derived structure must leave exactly them), and a write that "
                "succeeds must decode back",
                "case (zoo type, capacity, prefix already in the buffer, value): " + cl[:3000],
                "implementation (result 0 = ok / E = error, as_slice afterwards): " + il[:3000],
                "model                                                          : " + str(model.get(key))[:3000],
                "replay: bin/check C16 quick --replay <this file>"]))
        elif key.startswith("T ") and len(sl) > 3 and sl[3] != "written-bytes-do-not-decode":
            c.violation("readback-" + sl[3].replace(":", "-"), "\n".join([
                "property C16 fails on the implementation (round trip through the real reader): a value tree written with the",
                "real writer and read back with the real reader (tag(), value()/tlv()/FromTLV for TLVValue, container()?.iter())",
                "is not the tree that was written, or re-encoding the decoded element through ToTLV::tlv_iter + TLV::bytes_iter",
                "does not reproduce the written bytes: " + sl[3],
                "case (tree written; T<w>/O<w> = string with a <w>-byte length field): " + cl[:3000],
                "implementation (bytes written, tree read back, bytes re-encoded through tlv_iter):",
                "  " + il[:4000],
                "model:",
                "  " + str(model.get(key))[:4000],
                "replay: bin/check C16 quick --replay <this file>"]))
        else:
            c.violation("writer-roundtrip", "\n".join([
                "property C16 fails on the implementation (writer): the bytes written for the value do not decode back to it",
                "case: " + cl,
                "bytes written by the implementation (TLVWrite / TLV::bytes_iter): " + il,
                "bytes the model writes                                          : " + str(model.get(key)),
                "replay: bin/check C16 quick --replay <this file>"]))

    for key in sorted(writer_bad, key=size_of)[:3]:
        il = impl.get(key, "")
        mon_viol += 1
        what = ("the writer panicked" if il.endswith(" P") else "the writer returned an error for a value it must encode"
                if il.endswith(" E") else "TLVWrite and TLV::bytes_iter encode the same value differently (at most one decodes back to it)")
        c.violation("writer-paths", "\n".join([
            "property C16 fails on the implementation (writer): " + what,
            "case: " + case_by_key[key][:3000],
            "implementation (bytes by TLVWrite != iter: bytes by TLV::bytes_iter): " + il[:3000],
            "bytes the model writes: " + str(model.get(key))[:3000],
            "replay: bin/check C16 quick --replay <this file>"]))

    # sweep blocks with panics for which no single input was pinned down (cannot happen unless the
    # expansion above was cut short)
    for key in bad_blocks:
        il = impl.get(key, "")
        if not il.endswith(" P=0") and mon_viol == 0:
            c.violation("reader-panic-sweep", "\n".join([
                "property C16 fails on the implementation: a reader accessor panicked or did not terminate "
                "in the exhaustive block", "case: " + case_by_key[key], "implementation: " + il]))

    # --- derived encoders (implementation only): every D line must be ok
    d_fail = 0
    for key, cl in case_by_key.items():
        if key.startswith("D "):
            il = impl.get(key, "")
            if " ok " not in il:
                d_fail += 1
                if d_fail <= 3:
                    c.violation("derived", "\n".join([
                        "property C16 fails on the implementation (derived ToTLV/FromTLV encoders, tested not modelled):",
                        "case: " + cl, "implementation: " + il[:3000],
                        "replay: bin/check C16 quick --replay <this file>"]))

    # --- correspondence
    diffs = []
    for key, cl in case_by_key.items():
        if key.startswith("D "):
            continue
        if impl.get(key) != model.get(key):
            diffs.append(key)
    if diffs and not c.violations:
        lines = ["correspondence corr:C16 broke: model and implementation disagree on %d of %d cases;" % (len(diffs), len(case_by_key)),
                 "the monitors (no panic / length within input / decode(written) = value / re-encode = bytes) found no input",
                 "on which the implementation violates C16.",
                 "theorems no longer tied to the code: " + ", ".join(c.coq["theorems"]), ""]
        for key in sorted(diffs, key=size_of)[:10]:
            lines += ["case : " + case_by_key[key][:2000], "impl : " + str(impl.get(key))[:3000], "model: " + str(model.get(key))[:3000]]
            a, b = str(impl.get(key)).split(" "), str(model.get(key)).split(" ")
            d = [str(i - 2) for i in range(min(len(a), len(b))) if a[i] != b[i]]
            lines += ["differing accessor indices: " + ",".join(d), ""]
        c.violation("corr", "\n".join(lines), no_input=True)

    # --- evidence
    kinds = {}
    for cl in case_by_key.values():
        kinds[cl[0]] = kinds.get(cl[0], 0) + 1
    swept = 0
    for key, cl in case_by_key.items():
        if key.startswith("X ") and "." not in key:
            swept += 256 ** int(cl.split(" ")[3])
    nt = set()
    for key, cl in case_by_key.items():
        ml = model.get(key, "")
        if key.startswith("R "):
            fields = ml.split(" ")[2:]
            if any(x.startswith("=") for x in fields[1:30]) and "E" in fields:
                nt.add(cl.split(" ", 2)[2])
        elif key[0] in "TWZYKC":
            nt.add(cl.split(" ", 2)[2])
    samples, seen = [], {}
    for key, cl in case_by_key.items():
        if seen.get(cl[0], 0) < 3:
            seen[cl[0]] = seen.get(cl[0], 0) + 1
            samples.append({"case": cl[:300], "impl": impl.get(key, "")[:400], "model": model.get(key, "")[:400]})
    outcome = {"=": 0, "E": 0, "P": 0, "F": 0}
    for key in case_by_key:
        if key.startswith("R "):
            for x in impl.get(key, "").split(" ")[2:]:
                outcome[x[0] if x[0] in outcome else "="] += 1
    c.cov.update({
        "evaluations": len(case_by_key) - kinds.get("X", 0) + swept,
        "case_lines": len(case_by_key),
        "distinct_nontrivial": len(nt),
        "rule": "case lines by kind: R = one byte string through all 51 reader accessors (model vs implementation, field by field), "
                "X = exhaustive block of 256^n byte strings compared by digest (all strings of length <= 2; length 3 in the thorough tier), "
                "T = value tree written by TLVWrite and by TLV::bytes_iter vs model bytes, W = one minimal-width writer call, "
                "D = derived encoders (implementation only), Z = value of a zoo type through the derived encoders vs the generic model "
                "(denc/ddec), Y = derived decoder on hostile bytes vs ddec, K = derived to_tlv into a WriteBuf of a given capacity vs "
                "denc_wb, C = WriteBuf script (writes, anchors, rewinds) vs wb_run. non-trivial = distinct reader input (id removed) on which the model returns "
                "at least one value beyond the control byte and at least one error, or any distinct writer case",
        "samples": samples,
        "cases_by_kind": kinds,
        "generator": stats,
        "reader_accessor_outcomes_impl": outcome,
        "exhaustive": False,
        "exhaustive_parts": ("%d byte strings swept through every accessor: all of length 0..3" % swept) if c.tier == "thorough"
                            else ("%d byte strings swept through every accessor: all of length 0..2, and all of length 3 "
                                  "behind 16 chosen control bytes" % swept),
        "monitor_cases": n_mon,
        "monitor_violations": mon_viol,
        "derived_cases": kinds.get("D", 0),
        "derived_failures": d_fail,
        "disagreements_checked": len(diffs),
    })
    c.finish(level="proof",
             trusted_base=["Coq 8.16.1 kernel (coqc; coqchk in thorough tier)", "no axioms (Closed under the global context)",
                           "extraction ExtrOcamlBasic + hand-written OCaml driver ocaml/c16/driver.ml, ocaml/common/util.ml",
                           "Rust harness harness/src/bin/c16.rs (no hooks needed: public API only)",
                           "correspondence is differential testing on the generated cases + exhaustive short strings"],
             assumptions=["usize is 64 bit; a slice is shorter than 2^63 bytes (Rust guarantee: <= isize::MAX)",
                          "floats are bit patterns; UTF-8 validity is the model's own transcription of the Unicode well-formedness table, "
                          "compared with core::str::from_utf8 by the correspondence run",
                          "derived ToTLV/FromTLV encoders and TLVContainer are tested (round trip + hostile variants), not modelled",
                          "model = Model/Tlv.v hand-transcribed from tlv/read.rs, tlv/write.rs, tlv.rs, tlv/traits.rs; tied to the code only by the correspondence run"])
