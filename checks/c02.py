"""C02 — PASE admits only a peer that knows the passcode, only while a window is open."""
import json
import os
import subprocess
from .common import Check, read_keyed, ROOT

KNOWN_CLASSES = ()


def is_weak(case_line):
    # request bit flips: whether the responder still accepts the request is not known by construction;
    # both model arms end in the same state, so only the final observation is compared
    return ";req:1:flip" in case_line


def main(tier, replay=None):
    c = Check("C02", tier)
    if not c.coq_check():
        c.proof_broken_violation()
    driver = c.build_model()
    hbin = c.build_harness()
    rd = c.rundir
    cases = os.path.join(rd, "cases.txt")
    stats = {}
    if replay:
        with open(cases, "w") as f:
            for l in open(replay):
                l = l.strip()
                if l.startswith("case: "):
                    l = l[6:]
                if l[:2] in ("S ", "E ", "K "):
                    f.write(l + "\n")
    else:
        with open(cases, "w") as f:
            n = 0
            cdir = os.path.join(ROOT, "corpus", "C02")
            if os.path.isdir(cdir):
                for fn in sorted(os.listdir(cdir)):
                    for l in open(os.path.join(cdir, fn)):
                        l = l.strip()
                        if l[:2] in ("S ", "E ", "K "):
                            n += 1
                            p = l.split(" ")
                            p[1] = "c%d" % n
                            f.write(" ".join(p) + "\n")
        gdir = os.path.join(rd, "gen")
        subprocess.run([hbin, "gen", c.tier, str(c.seed), gdir], check=True)
        with open(cases, "a") as f:
            f.write(open(os.path.join(gdir, "cases.txt")).read())
        try:
            stats = json.load(open(os.path.join(gdir, "stats.json")))
        except Exception:
            stats = {}
    impl_out = c.run_sharded([hbin, "run"], cases, os.path.join(rd, "impl.out"))
    model_out = c.run_sharded([driver, "<"], cases, os.path.join(rd, "model.out"))
    impl = read_keyed(impl_out)
    model = read_keyed(model_out)
    case_by_key = {}
    for line in open(cases):
        line = line.rstrip("\n")
        if line:
            f = line.split(" ")
            case_by_key[f[0] + " " + f[1]] = line

    # --- correspondence: answer and observation after every operation (final observation for the weak stream)
    def differs(key):
        il, ml = impl.get(key, ""), model.get(key, "")
        if is_weak(case_by_key[key]):
            return il.split(" ")[-1] != ml.split(" ")[-1] or len(il.split(" ")) != len(ml.split(" "))
        return il != ml

    diffs = [k for k in case_by_key if differs(k)]
    # the device runs on the real clock: re-run a disagreeing case once, alone, before believing it
    if diffs and not replay:
        again = os.path.join(rd, "again.txt")
        with open(again, "w") as f:
            for k in diffs[:64]:
                f.write(case_by_key[k] + "\n")
        r = subprocess.run([hbin, "run", again], stdout=subprocess.PIPE, timeout=3000)
        for line in r.stdout.decode("utf-8", "replace").split("\n"):
            f2 = line.split(" ")
            if len(f2) > 2:
                k = f2[0] + " " + f2[1]
                if k in impl and impl[k] != line:
                    c.notes.append("case %s gave another answer when re-run alone (timing): using the second run" % k)
                    impl[k] = line
        diffs = [k for k in case_by_key if differs(k)]

    # --- monitor: the extracted executable property on the implementation's own answers and observations
    def run_monitor(lines_by_key, tag):
        spec_in = os.path.join(rd, "spec-%s.in" % tag)
        n_mon = 0
        with open(spec_in, "w") as f:
            for key, cl in case_by_key.items():
                if key[0] in "SE" and key in lines_by_key:
                    f.write(cl + "\n" + lines_by_key[key] + "\n")
                    n_mon += 1
        spec_out = c.run_sharded([driver, "<"], spec_in, os.path.join(rd, "spec-%s.out" % tag), argv_suffix=["spec"], shards=1)
        return read_keyed(spec_out), n_mon

    spec, n_mon = run_monitor(impl, "impl")
    # the model's own runs must satisfy the executable property (sanity of the monitor itself)
    spec_model, _ = run_monitor(model, "model")
    mon_on_model_bad = [k for k in case_by_key if k[0] in "SE" and spec_model.get(k, k + " missing").split(" ")[2:] != ["ok"]]

    mon_viol, known_hits = 0, {}
    for key, cl in case_by_key.items():
        if key[0] not in "SE":
            continue
        il = impl.get(key, "")
        v = spec.get(key, key + " missing").split(" ")
        verdict = v[2] if len(v) > 2 else "missing"
        names = []
        if "hang" in il or "transport-exit" in il:
            names.append("harness-run-incomplete")
        if verdict != "ok":
            names += sorted(set(verdict.split(",")))
        for name in names:
            if name in KNOWN_CLASSES:
                known_hits[name] = known_hits.get(name, 0) + 1
            else:
                mon_viol += 1
            c.violation(name, "\n".join([
                "property C02 fails on the implementation (real device: Matter + SecureChannel responder driven message by message "
                "by a scripted initiator / by PaseInitiator through a man in the middle): " + name,
                "case: " + cl,
                "implementation: " + il.replace(" ", "\n    "),
                "model         : " + model.get(key, "").replace(" ", "\n    "),
                "replay: bin/check C02 quick --replay <this file>"]))

    if mon_on_model_bad and not c.violations:
        c.violation("monitor-vs-model", "the executable property rejects the model's own run on %d cases, e.g.\n%s\n%s" % (
            len(mon_on_model_bad), case_by_key[mon_on_model_bad[0]], model.get(mon_on_model_bad[0], "")), no_input=True)

    if diffs and not c.violations:
        lines = ["correspondence corr:C02 broke: model and implementation disagree on %d of %d cases;" % (len(diffs), len(case_by_key)),
                 "the monitor found no run on which the implementation violates C02.",
                 "theorems no longer tied to the code: " + ", ".join(c.coq["theorems"]), ""]
        for key in diffs[:8]:
            il, ml = impl.get(key, "").split(" "), model.get(key, "").split(" ")
            step = next((i for i, (a, b) in enumerate(zip(il, ml)) if a != b), min(len(il), len(ml)))
            lines += ["case : " + case_by_key[key][:600], "first difference at operation %d" % (step - 2),
                      "impl : " + (il[step] if step < len(il) else "<missing>")[:200],
                      "model: " + (ml[step] if step < len(ml) else "<missing>")[:200], ""]
        c.violation("corr", "\n".join(lines), no_input=True)
    elif diffs:
        c.notes.append("correspondence differences: %d" % len(diffs))

    # --- evidence
    kinds, answers, nt, n_ops = {}, {}, set(), 0
    sessions_committed = 0
    for key, cl in case_by_key.items():
        f = cl.split(" ", 2)
        outs = model.get(key, "").split(" ")[2:]
        if f[0] == "S":
            ops = [o for o in f[2].split(";") if o]
            hit = False
            for o, out in zip(ops, outs):
                n_ops += 1
                k = o.split(":")[0]
                a = out.split("/")[0]
                kinds[k] = kinds.get(k, 0) + 1
                answers[k + ":" + a] = answers.get(k + ":" + a, 0) + 1
                if a in ("resp", "respnp", "pake2", "success", "invparam", "busy", "notfound", "closed"):
                    hit = True
                if a == "success":
                    sessions_committed += 1
            if hit:
                nt.add(f[2])
        else:
            n_ops += 1
            kinds[f[0]] = kinds.get(f[0], 0) + 1
            a = outs[0] if outs else ""
            answers[f[0] + ":" + a] = answers.get(f[0] + ":" + a, 0) + 1
            nt.add(f[2])
    samples = []
    for key, cl in list(case_by_key.items())[:3]:
        samples.append({"case": cl[:300], "impl": impl.get(key, "")[:400], "model": model.get(key, "")[:400]})
    c.cov.update({
        "evaluations": n_ops,
        "case_lines": len(case_by_key),
        "distinct_nontrivial": len(nt),
        "rule": "S: one case = one operation sequence against a real device (Matter + SecureChannel responder on an in-memory network) "
                "driven message by message by a scripted wire-level initiator with real SPAKE2+ values, window operations and time "
                "steps interleaved; evaluations = operations whose answer and observation (window + failure counter + expiry, "
                "in-progress marker, committed / usable PASE sessions, fail-safe, advertised services) are compared with the model. "
                "E: two real nodes (PaseInitiator::perform) with a man in the middle rewriting one message / a window operation "
                "before the k-th message; K: the spake2p primitive on one prover share. non-trivial = distinct cases in which the "
                "model answers at least one handshake message (response, Pake2, a status) or closes a window by expiry",
        "samples": samples,
        "streams": stats.get("streams", {}),
        "ops_by_kind": kinds,
        "answers_by_op_and_class": answers,
        "sessions_committed_in_model": sessions_committed,
        "monitor_cases": n_mon,
        "monitor_violations": mon_viol,
        "monitor_rejects_model_runs": len(mon_on_model_bad),
        "known_class_hits": known_hits,
        "disagreements_checked": len(diffs),
        "exhaustive": False,
        "exhaustive_parts": "thorough tier: every single-bit flip of the confirmation cA (256), of the prover share pA (520) and of "
                            "the PBKDFParamRequest payload (360); quick tier samples 32 / 32 / 40 of them",
    })
    c.finish(level="proof",
             trusted_base=["Coq 8.16.1 kernel (coqc; coqchk in thorough tier)", "no axioms (Closed under the global context)",
                           "extraction ExtrOcamlBasic + hand-written OCaml driver ocaml/c02/driver.ml (maps case lines to model operations, "
                           "parses the implementation's observations for the monitor)",
                           "Rust harness harness/src/bin/c02.rs (own in-memory network with a rewriting man in the middle, hand-written wire / TLV "
                           "encoding of the unsecured PASE messages, scripted initiator on the real spake2p prover) and hooks (cfg rs_matter_verif): "
                           "Pase::verif_view / verif_age, sc::pase::verif_spake2p re-export, Spake2P::verif_compute_verifier / verif_ca, session table access",
                           "correspondence is differential testing on the generated cases"],
             assumptions=["SPAKE2+ is symbolic (Dolev-Yao): the confirmation cA is a free constructor of (verifier(passcode, salt, iterations), "
                          "transcript(request bytes, response bytes, pA, pB)); bit-flipped values are values no constructor produces",
                          "ReservedSession::reserve succeeds (session-table exhaustion is C20's subject); a handler whose send or receive fails is the "
                          "explicit operation Abort",
                          "every initiator message carries the piggy-backed acknowledgement of the responder's previous message",
                          "C02_first_handshake_undisturbed excludes another exchange still waiting for the acknowledgement of its final "
                          "StatusReport while the marker belongs to a different exchange (not reachable within the 60 s deadline in real time)",
                          "time: the implementation runs on the real clock, the harness moves the window expiry and the marker deadline into "
                          "the past (verif_age); generated time steps keep at least 1 s distance from every deadline"])
