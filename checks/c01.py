"""C01 — CASE admits only holders of a valid NOC of the addressed fabric."""
import json
import os
import re
import subprocess
from .common import Check, read_keyed, ROOT

ARM_NAMES = {
    1: "R:first-message-not-sigma1", 2: "R:sigma1-parse", 3: "R:resumption-fields-mismatch", 4: "R:no-fabric-for-destination-id",
    5: "R:bad-ephemeral-key", 6: "R:sigma2-sent", 7: "R:resumption-accepted", 8: "R:resumption-fabric-gone",
    9: "R:sigma3-wrong-opcode", 10: "R:sigma3-on-unstarted-context", 11: "R:sigma3-outer-parse", 12: "R:sigma3-decrypt",
    13: "R:sigma3-inner-parse", 14: "R:sigma3-chain-invalid", 15: "R:sigma3-signature", 16: "R:sigma3-too-many-cats",
    17: "R:session-established", 18: "R:resumed-session-established", 19: "R:sigma-finished-bad", 20: "R:ignored", 21: "R:sigma3-no-node-id",
    31: "I:no-such-fabric", 32: "I:sigma1-sent", 33: "I:sigma1-with-resumption-sent", 34: "I:status-instead-of-sigma2",
    35: "I:unrequested-sigma2resume", 36: "I:sigma2resume-parse", 37: "I:resume2mic", 38: "I:resumed", 39: "I:wrong-opcode",
    40: "I:sigma2-parse", 41: "I:sigma2-fields", 42: "I:sigma2-decrypt", 43: "I:sigma2-inner-parse", 44: "I:sigma2-chain-invalid",
    45: "I:sigma2-node-id", 46: "I:sigma2-signature", 47: "I:sigma2-too-many-cats", 48: "I:sigma3-sent", 49: "I:final-wrong-opcode",
    50: "I:final-status-failure", 51: "I:session-established", 52: "I:ignored", 53: "I:resume-fabric-gone",
}
TRIVIAL_ARMS = {1, 2, 4, 31, 32, 33, 34}
WHY = {
    "unauthenticated-session-at-responder": "the responder holds an operational CASE session although the initiator's installed credentials are not valid for the fabric the handshake addressed (C19's case_valid on the certificates of the case / wrong key / no such fabric), or the session is bound to another fabric index, node id or CAT set than that NOC's",
    "unauthenticated-session-at-initiator": "the initiator holds an operational CASE session although the responder's installed credentials are not valid for the initiator's fabric, or bound to another identity",
    "keys-differ": "both ends hold a session out of this handshake and the directional keys do not match crosswise (initiator.enc = responder.dec, initiator.dec = responder.enc)",
    "keys-differ-sigma3-unauthenticated-bytes": "both ends hold a session and the keys differ; the Sigma3 handed to the responder carried the encrypted3 element as sent but other bytes were altered (element appended / repeated, end-of-container cut): known class sigma3_alt",
    "reserved-slot-left-behind": "a reserved session slot is still in a session table after every future of the handshake attempt is gone",
    "tampering-changed-session": "a session exists after the tampered run whose (fabric, peer node, CATs) differs from the untouched run's, or the untouched run yields no session at that end",
    "several-sessions-from-one-handshake": "one handshake attempt left more than one new session at one end",
    "missing-observation": "the implementation printed no observation for a handshake of the case",
}


def strip_arms(line):
    return line.split(" # ")[0] if line else line


def arms_of(line):
    if not line or " # arms=" not in line:
        return set()
    t = line.split(" # arms=")[1].strip()
    return set(int(x) for x in t.split(",") if x)


def local_known(c):
    """finding: lines of design.d/C01.md count as known findings too (until they are in known_findings.txt)"""
    p = os.path.join(ROOT, "design.d", "C01.md")
    if not os.path.exists(p):
        return
    for line in open(p):
        m = re.match(r"^\s*`?finding:\s+property=(\w+)\s+name=(\S+)\s+(.*?)`?\s*$", line)
        if m and m.group(1) == "C01":
            rx = re.compile(m.group(2))
            text = m.group(3)
            if not any(k["text"] == text for k in c.known):
                c.known.append({"text": text, "match": (lambda name, t, rx=rx: bool(rx.fullmatch(name)))})


def main(tier, replay=None):
    c = Check("C01", tier)
    local_known(c)
    coq_ok = c.coq_check()
    if not coq_ok:
        c.proof_broken_violation()
    driver = c.build_model()
    hbin = c.build_harness()
    rd = c.rundir
    cases = os.path.join(rd, "cases.txt")
    stats = {}
    if replay:
        with open(cases, "w") as f:
            for l in open(replay):
                l = l.strip()
                if l.startswith("case: "):
                    l = l[6:]
                if l.startswith("K "):
                    f.write(l + "\n")
    else:
        subprocess.run([hbin, "gen", c.tier, str(c.seed), rd], check=True)
        stats = json.load(open(os.path.join(rd, "stats.json")))
        corp = os.path.join(ROOT, "corpus", "C01")
        extra = []
        if os.path.isdir(corp):
            for fn in sorted(os.listdir(corp)):
                extra += [l for l in open(os.path.join(corp, fn)).read().split("\n") if l.startswith("K ")]
        if extra:
            body = open(cases).read()
            with open(cases, "w") as f:
                f.write("\n".join(extra) + "\n" + body)
    case_by_key = {}
    for line in open(cases):
        line = line.rstrip("\n")
        if line:
            f = line.split(" ")
            case_by_key[f[0] + " " + f[1]] = line

    impl = read_keyed(c.run_sharded([hbin, "run"], cases, os.path.join(rd, "impl.out")))
    model_full = read_keyed(c.run_sharded([driver, "<"], cases, os.path.join(rd, "model.out")))
    model = {k: strip_arms(v) for k, v in model_full.items()}

    def run_spec(keys, tag):
        p = os.path.join(rd, "spec.%s.in" % tag)
        with open(p, "w") as f:
            for k in keys:
                if k in impl:
                    f.write(case_by_key[k] + " @@ " + impl[k] + "\n")
        return read_keyed(c.run_sharded([driver, "<"], p, os.path.join(rd, "spec.%s.out" % tag), argv_suffix=["spec"]))

    spec = run_spec(list(case_by_key), "all")

    # The handshakes run on the real clock (retransmission timers, the harness' own cut-off): a case that
    # disagrees with the model or trips the monitor is run once more, on its own, before it is believed.
    suspicious = [k for k in case_by_key if impl.get(k) != model.get(k) or not spec.get(k, "").endswith(" ok")]
    reruns = 0
    if suspicious:
        p = os.path.join(rd, "rerun.txt")
        with open(p, "w") as f:
            f.write("\n".join(case_by_key[k] for k in suspicious) + "\n")
        again = read_keyed(c.run_sharded([hbin, "run"], p, os.path.join(rd, "rerun.out"), shards=4))
        changed = [k for k in suspicious if again.get(k) is not None and again.get(k) != impl.get(k)]
        reruns = len(changed)
        for k in changed:
            impl[k] = again[k]
        if changed:
            c.notes.append("%d of %d suspicious cases gave another result when run again on their own (real-clock effects); second result used, e.g. %s" % (
                len(changed), len(suspicious), changed[0]))
            spec.update(run_spec(changed, "again"))

    # --- monitor: the extracted property on the implementation's own observations
    mon_viol = 0
    per_name = {}
    flagged = set()
    for key, cl in case_by_key.items():
        il, sl = impl.get(key), spec.get(key)
        if il is None:
            mon_viol += 1
            c.violation("no-output", "the harness printed nothing for\ncase: " + cl)
            continue
        if sl is None or sl.endswith(" ok"):
            continue
        body = sl.split(" ", 3)[3] if sl.count(" ") >= 3 else sl
        flagged.add(key)
        for item in body.split(";"):
            run, _, name = item.partition(":")
            if name.startswith("K_") or "panic" in name or "setup" in name:
                name = "panic-or-setup-failure"
            mon_viol += 1
            per_name[name] = per_name.get(name, 0) + 1
            if per_name[name] <= 2:
                c.violation(name, "\n".join([
                    "property C01 fails on the implementation (handshake number %s of the case, counted from 0): %s" % (run, WHY.get(name, name)),
                    "generator label: " + cl.split(" ")[2],
                    "case: " + cl,
                    "implementation: " + il,
                    "monitor (extracted CaseSpec.monitor_run): " + sl,
                    "model of the code: " + str(model.get(key)),
                    "reading the output: one token per operation; h:i=<initiator result>:st=<status report seen by the initiator>:s3=<Sigma3 as delivered vs as sent>:I=<new sessions at the initiator>:R=<.. at the responder>:cA/cB=<resumption caches>:lv=<reserved slots left>; session = f<fabric index>:p<peer node id>:c<CATs>:e<class of the encryption key>:d<.. decryption key>; after '||' the same operations with the network untouched",
                    "replay: bin/check C01 quick --replay <this file>"]))

    # --- correspondence
    diffs = [k for k in case_by_key if impl.get(k) != model.get(k)]
    # a difference on a case the monitor already reported (violation or known finding) is part of that report
    unexplained = [k for k in diffs if k not in flagged]
    if unexplained and not c.violations:
        diffs_shown = unexplained
        lines = ["correspondence corr:C01 broke: model and implementation disagree on %d of %d cases;" % (len(diffs), len(case_by_key)),
                 "the monitor (extracted property) found no run on which the implementation's sessions violate C01",
                 "(the difference is in an outcome the monitor does not judge: which handshakes fail, status reports, resumption cache contents).",
                 "theorems no longer tied to the code: " + ", ".join(c.coq["theorems"]), ""]
        for key in diffs_shown[:10]:
            lines += ["case : " + case_by_key[key], "impl : " + str(impl.get(key)), "model: " + str(model.get(key)), ""]
        c.violation("corr", "\n".join(lines), no_input=True)
    elif diffs:
        c.notes.append("%d correspondence differences next to monitor violations / known findings, e.g. %s | impl: %s | model: %s" % (
            len(diffs), case_by_key[diffs[0]][:160], str(impl.get(diffs[0]))[:300], str(model.get(diffs[0]))[:300]))

    arms_hit = {}
    nt = set()
    for key, cl in case_by_key.items():
        a = arms_of(model_full.get(key, ""))
        for x in a:
            arms_hit[x] = arms_hit.get(x, 0) + 1
        if a - TRIVIAL_ARMS:
            nt.add(" ".join(cl.split(" ")[3:]))
    streams = {}
    outcomes = {"both": 0, "initiator-only": 0, "responder-only": 0, "none": 0}
    n_hand = 0
    for key, il in impl.items():
        st = key.split(".")[-1]
        streams[st] = streams.get(st, 0) + 1
        for t in il.split(" || ")[0].split(" "):
            if t.startswith("h:"):
                n_hand += 1
                i = ":I=-" not in t
                r = ":R=-" not in t
                outcomes["both" if i and r else "initiator-only" if i else "responder-only" if r else "none"] += 1
        for t in (il.split(" || ")[1].split(" ") if " || " in il else []):
            if t.startswith("h:"):
                n_hand += 1
    samples, seen = [], {}
    for key, cl in case_by_key.items():
        st = key.split(".")[-1]
        if seen.get(st, 0) < 3:
            seen[st] = seen.get(st, 0) + 1
            samples.append({"case": cl[:700], "impl": str(impl.get(key))[:500], "model": str(model_full.get(key))[:500], "monitor": spec.get(key, "")})
    c.cov.update({
        "evaluations": len(case_by_key),
        "real_handshakes_run": n_hand,
        "distinct_nontrivial": len(nt),
        "rule": "one case = a pair of real nodes with real certificates and a sequence of handshake attempts under a scripted man in the middle "
                "(plus the same sequence untouched); non-trivial = distinct case (id and label removed) whose model run reaches an arm beyond "
                "the first responder checks (Sigma2 sent, a resumption attempt accepted, or later)",
        "samples": samples,
        "cases_by_stream": streams,
        "generator_streams": stats,
        "handshake_outcomes_mutated_scenarios": outcomes,
        "arms_hit": {ARM_NAMES.get(k, str(k)): v for k, v in sorted(arms_hit.items())},
        "arms_total": len(ARM_NAMES),
        "arms_never_hit": [v for k, v in sorted(ARM_NAMES.items()) if k not in arms_hit],
        "monitor_cases": len(spec),
        "monitor_violations": mon_viol,
        "monitor_violations_by_name": per_name,
        "disagreements_checked": len(diffs),
        "cases_rerun_with_other_result": reruns,
        "exhaustive": False,
    })
    c.finish(level="proof",
             trusted_base=["Coq 8.16.1 kernel (coqc; coqchk in thorough tier)", "no axioms (Closed under the global context)",
                           "extraction ExtrOcamlBasic + hand-written OCaml driver ocaml/c01/driver.ml (case parser, symbolic image of the man-in-the-middle script, canonical printer), ocaml/common/util.ml",
                           "Rust harness harness/src/bin/c01.rs: abstract certificate -> real TLV certificate builder (as c19.rs), in-memory network with TLV-field-level rewriting of the unsecured handshake messages, canonicaliser (keys / resumption ids / secrets as equality classes); hooks MatterState::verif_sessions, Session::verif_snapshot",
                           "cryptography is symbolic in the model (free term algebra: ideal hash, HKDF, HMAC, AEAD, ECDSA, ECDH); C19's certificate verifier model",
                           "correspondence is differential testing on the generated scripts; handshakes run on the real clock"],
             assumptions=["symbolic (Dolev-Yao) cryptography: collision freeness, INT-CTXT, EUF-CMA, CDH assumed by construction of the model",
                          "C01_transcript_binding_partial takes the unforgeability of the two ciphertexts as visible hypotheses (no attacker-knowledge closure yet)",
                          "histories are sequences of handler runs, one at a time (no interleaving of two handlers on one node); fabric table and clock constant during a history (fabric removal = C07)",
                          "model = Model/Case.v hand-transcribed from sc/case/*.rs, fabric.rs, session.rs; tied to the code only by the correspondence run",
                          "loss / duplication of datagrams is the identity on the model side (retransmission and duplicate suppression = C09)"])
