"""C13 — a subscriber eventually learns every change it subscribed to.

Coq: Props/C13.v (model Model/Subs.v = im/subscriptions.rs + the calls im.rs makes on it).
Correspondence: random / scripted operation sequences on the REAL Subscriptions<4> table (hooks, explicit now)
against the extracted model: every output, and after every operation a digest of the whole table state, of the
live report contexts and of every timing decision (allowed/due/next-report instants, is_reportable, is_expired).
Monitor: the extracted invariant inv_b (no lost change) and the timing clauses begin_ok / due_ok / retry_ok /
expiry_ok evaluated on the implementation's own snapshots (ghost bookkeeping from the ops and the
implementation's emitted/skipped answers only)."""
import json
import os
import subprocess

from .common import Check, read_keyed, ROOT

TOKENS = ("C", "E", "S", "R", "X", "B", "P", "M", "W", "K", "Z")


def split_out(path, rd):
    """harness output -> impl.out (Q lines) + trace.in (T lines)"""
    q = os.path.join(rd, "impl.out")
    t = os.path.join(rd, "trace.in")
    with open(q, "w") as fq, open(t, "w") as ft:
        for line in open(path):
            if line.startswith("Q "):
                fq.write(line)
            elif line.startswith("T ") or line.startswith("U "):
                ft.write(line)
            elif line.startswith("V "):
                # the event queue dumps are both compared with the model and checked by the monitor
                fq.write(line)
                ft.write(line)
    return q, t


def run_one(hbin, driver, rd, line):
    """run harness + monitor on one case line; returns (impl Q line, monitor verdict line)"""
    p = os.path.join(rd, "one.case")
    with open(p, "w") as f:
        f.write(line + "\n")
    out = subprocess.run([hbin, "run", p], stdout=subprocess.PIPE, stderr=subprocess.PIPE, timeout=120).stdout.decode()
    ql = [l for l in out.split("\n") if l.startswith("Q ") or l.startswith("V ") or l.startswith("U ")]
    tl = [l for l in out.split("\n") if l.startswith("T ") or l.startswith("V ") or l.startswith("U ")]
    if not tl:
        return "", "T ? crash"
    sp = subprocess.run([driver, "spec"], input=(tl[0] + "\n").encode(), stdout=subprocess.PIPE, timeout=120).stdout.decode()
    return (ql[0] if ql else ""), sp.strip()


def shrink(hbin, driver, rd, line, clause):
    """greedy removal of operations while the same clause still fails"""
    f = line.split(" ")
    head, ops = f[:2], f[2:]
    i = len(ops) - 1
    budget = 150
    while i >= 0 and budget > 0:
        cand = ops[:i] + ops[i + 1:]
        budget -= 1
        _, v = run_one(hbin, driver, rd, " ".join(head + cand))
        vf = v.split(" ")
        if len(vf) > 3 and vf[2] == "VIOL" and vf[3] == clause:
            ops = cand
        i -= 1
    return " ".join(head + ops)


def main(tier, replay=None):
    c = Check("C13", tier)
    coq_ok = c.coq_check()
    if not coq_ok:
        c.proof_broken_violation()
    driver = c.build_model()
    hbin = c.build_harness()
    rd = c.rundir
    cases = os.path.join(rd, "cases.txt")
    stats = {}
    if replay:
        with open(cases, "w") as f:
            for l in open(replay):
                l = l.strip()
                if l.startswith("case: "):
                    l = l[6:]
                if l.startswith("Q ") or l.startswith("V ") or l.startswith("U "):
                    f.write(l + "\n")
    else:
        subprocess.run([hbin, "gen", c.tier, str(c.seed), rd], check=True)
        stats = json.load(open(os.path.join(rd, "stats.json")))
        corp = os.path.join(ROOT, "corpus", "C13")
        extra = []
        if os.path.isdir(corp):
            for fn in sorted(os.listdir(corp)):
                extra += [l for l in open(os.path.join(corp, fn)).read().split("\n") if l[:2] in ("Q ", "V ", "U ")]
        if extra:
            body = open(cases).read()
            with open(cases, "w") as f:
                f.write("\n".join(extra) + "\n" + body)

    raw = c.run_sharded([hbin, "run"], cases, os.path.join(rd, "impl.all"))
    impl_out, trace_in = split_out(raw, rd)
    os.unlink(raw)
    model_out = c.run_sharded([driver, "<"], cases, os.path.join(rd, "model.out"))
    spec_out = c.run_sharded([driver, "<"], trace_in, os.path.join(rd, "spec.out"), argv_suffix=["spec"])
    impl = read_keyed(impl_out)
    model = read_keyed(model_out)
    spec = {}
    for line in open(spec_out):
        f = line.rstrip("\n").split(" ")
        if len(f) >= 3:
            spec[("Q " if f[0] == "T" else f[0] + " ") + f[1]] = f[2:]
    case_by_key = {}
    for line in open(cases):
        line = line.rstrip("\n")
        if line:
            f = line.split(" ")
            case_by_key[f[0] + " " + f[1]] = line

    # --- monitor verdicts (the extracted property on the implementation's snapshots)
    mon_viol = 0
    by_clause = {}
    e2e_reruns = {}
    e2e_diffs = []
    for key, cl in case_by_key.items():
        v = spec.get(key)
        if v is None:
            mon_viol += 1
            c.violation("no-trace", "the harness produced no trace for this case (crash / panic in the real table?)\ncase: " + cl)
            continue
        if v[0] == "ok":
            continue
        if key.startswith("U "):
            # real-clock end-to-end case: a verdict counts only if it repeats (scheduling stalls do not)
            verdicts = [v]
            for _ in range(2):
                _, again = run_one(hbin, driver, rd, cl)
                verdicts.append(again.split(" ")[2:])
                if verdicts[-1] and verdicts[-1][0] == "ok":
                    break
            e2e_reruns[key] = [" ".join(x) for x in verdicts]
            if any(x and x[0] == "ok" for x in verdicts):
                continue
            kinds = set(x[0] for x in verdicts if x)
            if kinds == {"DIFF"}:
                e2e_diffs.append(key)
                continue
            v = next(x for x in verdicts if x and x[0] != "DIFF")
            spec[key] = v
        clause = v[1] if len(v) > 1 else "unknown"
        by_clause.setdefault(clause, []).append(key)
    for clause, keys in sorted(by_clause.items()):
        keys.sort(key=lambda k: len(case_by_key[k]))
        mon_viol += len(keys)
        key = keys[0]
        small = shrink(hbin, driver, rd, case_by_key[key], clause) if key.startswith("Q ") else case_by_key[key]
        ql, verdict = run_one(hbin, driver, rd, small)
        mline = subprocess.run([driver], input=(small + "\n").encode(), stdout=subprocess.PIPE).stdout.decode().strip()
        where = {"Q": "real Subscriptions<4> table driven through the hooks",
                 "V": "real Events<256> queue driven through the hooks",
                 "U": "two real Matter nodes, real subscribe path and reporter task, scripted subscriber and network"}[key[0]]
        c.violation(clause, "\n".join([
            "property C13 fails on the implementation (%s): clause %s" % (where, clause),
            "%d generated case(s) fail this clause; smallest, shrunk:" % len(keys),
            "case: " + small,
            "monitor verdict (extracted property on the implementation's snapshots): " + verdict,
            "implementation: " + ql,
            "model         : " + mline,
            "original case: " + case_by_key[key],
            "original verdict: " + " ".join(spec[key]),
            "ops: C change, E event, S subscribe(priming ctx), R report reaches a path, X report ends o|f|d, B report(now), P purge, M remove, W expiry sweep, K persist, Z restart",
            "U steps: s subscribe, a/A answer priming chunk(s), c change, e event, r wait for a report, k/K answer report chunk(s), n refuse, m drop datagrams, x go silent, q quiesce (see harness/src/c13_e2e.rs)",
            "re-runs of an end-to-end case: %s" % e2e_reruns.get(key, "-"),
            "replay: bin/check C13 quick --replay <this file>"]))

    # --- correspondence
    diffs = [key for key in case_by_key if not key.startswith("U ") and impl.get(key) != model.get(key)]
    if e2e_diffs and not c.violations:
        lines = ["correspondence corr:C13/e2e: on %d end-to-end case(s) the model's prediction (report contents / table state) "
                 "differs from what was observed, repeatably; the end-to-end property itself (learned every change, subscription kept, "
                 "events) holds on them." % len(e2e_diffs), ""]
        for key in e2e_diffs[:5]:
            lines += ["case : " + case_by_key[key], "verdicts: %s" % e2e_reruns.get(key), ""]
        c.violation("corr-e2e", "\n".join(lines))
    if diffs and not c.violations:
        lines = ["correspondence corr:C13 broke: model and implementation disagree on %d of %d cases;" % (len(diffs), len(case_by_key)),
                 "the monitor (extracted invariant and timing clauses on the implementation's own snapshots) found no failing run.",
                 "theorems no longer tied to the code: " + ", ".join(c.coq["theorems"]), ""]
        diffs.sort(key=lambda k: len(case_by_key[k]))
        for key in diffs[:6]:
            il, ml = impl.get(key, ""), model.get(key, "")
            it, mt = il.split(" "), ml.split(" ")
            pos = next((j for j in range(min(len(it), len(mt))) if it[j] != mt[j]), min(len(it), len(mt)))
            ops = case_by_key[key].split(" ")
            lines += ["case : " + case_by_key[key],
                      "first difference at operation %d (%s): impl %s / model %s" % (
                          pos - 2, ops[pos] if pos < len(ops) else "final state",
                          it[pos] if pos < len(it) else "-", mt[pos] if pos < len(mt) else "-"),
                      "impl final : " + il.split(" | ")[-1], "model final: " + ml.split(" | ")[-1], ""]
        c.violation("corr", "\n".join(lines), no_input=True)

    # --- coverage accounting
    arms = {}

    def hit(a):
        arms[a] = arms.get(a, 0) + 1

    nt = set()
    n_steps = 0
    for key, cl in case_by_key.items():
        if not key.startswith("Q "):
            continue
        ops = cl.split(" ")[2:]
        outs = [t.split("#")[0] for t in impl.get(key, "").split(" | ")[0].split(" ")[2:]]
        n_steps += len(ops)
        sel = chg = False
        wild_op = False
        for o, r in zip(ops, outs):
            k = o[0]
            if k == "C":
                chg = True
                if o.endswith(":4294967295"):
                    wild_op = True
                    hit("change_wildcard")
                else:
                    hit("change_concrete")
            elif k == "S":
                hit("subscribe_full" if r == "s-" else "subscribe_ok")
            elif k == "B":
                if r == "-":
                    hit("report_slot_busy")
                elif r == "s-":
                    hit("report_none_reportable")
                else:
                    hit("report_selected")
                    sel = True
            elif k == "R":
                hit({"t": "read_emitted", "f": "read_skipped"}.get(r, "read_no_ctx"))
            elif k == "X" and o[-1] == "s":
                hit({"t": "skip_report_sent_after_all", "f": "skip_report_not_sent"}.get(r, "end_no_ctx"))
            elif k == "X":
                hit("end_" + o[-1] if r == "t" else "end_no_ctx")
            elif k == "M":
                hit("remove_hit" if r == "t" else "remove_miss")
            elif k == "W":
                hit("sweep_expired" if r == "t" else "sweep_none")
            elif k == "Z":
                hit("restart")
            elif k == "K":
                hit("persist")
            elif k == "P":
                hit("purge")
            elif k == "E":
                hit("event")
        final = impl.get(key, "").split(" | ")[-1]
        if "4294967295" in final.split("/")[1] and not wild_op:
            hit("coalesced_by_overflow")
        if sel and chg:
            nt.add(" ".join(ops))
    for key, cl in case_by_key.items():
        if key.startswith("V "):
            hit("event_queue_case")
            il = impl.get(key, "")
            if " !" in il:
                hit("event_too_large_refused")
            if "]i[" in il and any(("i[" in t and not "i[]" in t) for t in il.split(" ")[2:]):
                hit("event_promoted_to_info_buffer")
            if any(not t.startswith("+c[]") and not t.startswith("!c[]") for t in il.split(" ")[2:]):
                hit("event_promoted_to_critical_buffer")
        elif key.startswith("U "):
            hit("e2e_case")
            steps = cl.split(" ")[3:]
            verdict = spec.get(key, ["?"])
            if verdict[0] == "KNOWN":
                hit("e2e_event_evicted")
            if any(x.startswith("s:") for x in steps[1:]) and "r:100" in steps:
                hit("e2e_subscribe_while_report_in_flight")
            if any(x.startswith("m:") for x in steps):
                hit("e2e_report_retransmitted")
            if "x" in steps:
                hit("e2e_subscriber_silent_retry")
            if "n" in steps:
                hit("e2e_refused_by_subscriber")
            if steps and steps[0].startswith("s:") and steps[0].split(":")[3] == "16777215":
                hit("e2e_chunked_priming")
            if any(x.startswith("s:1:") for x in steps):
                hit("e2e_min_interval_1s")
    n_out = n_canc = 0
    W = "4294967295"

    def table_of(snap):
        t = snap.split("/")[1][1:]
        return [tuple(e.split(".")) for e in t.split(",")] if t else []

    def watermarks(snap):
        """(next change id, watermarks of table subscriptions, of contexts)"""
        parts = snap.split("/")
        nxt = int(parts[0].split(".")[2])
        sw = [int(u.split(".")[9]) for u in parts[2][1:].split(",") if u]
        xw = [int(u.split(".")[9]) for u in parts[3][1:].split(",") if u]
        return nxt, sw, xw

    for line in open(trace_in):
        if not line.startswith("T "):
            continue
        seen_o = seen_c = False
        prev = None
        for tok in line.split(" ")[2:]:
            parts = tok.split("~")
            if len(parts) != 3:
                continue
            snap = parts[1]
            if parts[0] == "P" and not snap.endswith("/X"):
                seen_o = True
            if ".1/T" in snap:
                seen_c = True
            if parts[0][0] == "C" and prev is not None:
                # which arm of record_raw / promote_and_insert did the real table take (from its own snapshots)
                _, ep, cl, at = parts[0].split(":")
                before, after = table_of(prev), table_of(snap)
                if len(before) == 16 and at != W:
                    covered = any((e[0] in ("65535", ep)) and (e[1] in (W, cl)) and (e[2] in (W, at)) for e in before)
                    if not covered:
                        bset = set(e[:3] for e in before)
                        new_wild = [e for e in after if e[2] == W and e[:3] not in bset]
                        if len(after) == 1 and after[0][:3] == ("65535", W, W):
                            hit("overflow_global_wildcard")
                            nxt, sw, xw = watermarks(prev)
                            if any(w == nxt - 1 for w in sw) and any(w < nxt - 1 for w in sw + xw):
                                hit("overflow_global_with_caught_up_and_lagging")
                        elif any(e[1] == W and e[0] != "65535" for e in new_wild):
                            hit("overflow_promote_level2")
                        elif any(e[1] != W for e in new_wild):
                            hit("overflow_promote_level1")
                        if new_wild and (ep, cl, at) not in set(e[:3] for e in after):
                            hit("overflow_new_change_covered_after_promotion")
                elif at != W and (ep, cl, at) in set(e[:3] for e in before):
                    hit("record_refresh_same_entry")
                elif at == W and len(after) < len(before) + 1 and len(before) > 0:
                    hit("record_wildcard_absorbs")
            prev = snap
        n_out += seen_o
        n_canc += seen_c
    arms["purge_with_context_outstanding(cases)"] = n_out
    arms["in_flight_cancelled(cases)"] = n_canc
    samples = []
    seen_kind = {}
    for key, cl in case_by_key.items():
        kind = cl.split(" ")[1][0]
        if seen_kind.get(kind, 0) < 2:
            seen_kind[kind] = seen_kind.get(kind, 0) + 1
            samples.append({"case": cl[:400], "impl": impl.get(key, "")[:300], "model": model.get(key, "")[:300],
                            "monitor": " ".join(spec.get(key, []))})
    expected_arms = ["change_concrete", "change_wildcard", "subscribe_ok", "subscribe_full", "report_selected",
                     "report_none_reportable", "report_slot_busy", "read_emitted", "read_skipped", "end_o", "end_f", "end_d",
                     "remove_hit", "sweep_expired", "restart", "persist", "purge", "event", "coalesced_by_overflow",
                     "purge_with_context_outstanding(cases)", "in_flight_cancelled(cases)",
                     "overflow_promote_level1", "overflow_promote_level2", "overflow_global_wildcard",
                     "overflow_global_with_caught_up_and_lagging", "overflow_new_change_covered_after_promotion",
                     "record_refresh_same_entry", "record_wildcard_absorbs",
                     "skip_report_sent_after_all", "skip_report_not_sent", "event_queue_case", "event_too_large_refused", "event_promoted_to_info_buffer",
                     "event_promoted_to_critical_buffer", "e2e_case", "e2e_event_evicted",
                     "e2e_subscribe_while_report_in_flight", "e2e_report_retransmitted", "e2e_subscriber_silent_retry",
                     "e2e_refused_by_subscriber", "e2e_chunked_priming", "e2e_min_interval_1s"]
    c.cov.update({
        "evaluations": len(case_by_key),
        "operations_run": n_steps,
        "distinct_nontrivial": len(nt),
        "rule": "one case = one operation sequence (<= 60 ops, table of 4 subscriptions, 44 attribute paths of which 20 on endpoints of their own) run on the real table and on "
                "the model; compared: every output and, after every operation, a digest of table + contexts + all timing decisions, plus the "
                "final state in clear; non-trivial = distinct operation sequence in which report() selected a subscription at least once "
                "and at least one change was recorded",
        "samples": samples,
        "arms_hit": {a: arms.get(a, 0) for a in expected_arms},
        "arms_total": len(expected_arms),
        "arms_zero": [a for a in expected_arms if arms.get(a, 0) == 0],
        "generator_stats": stats,
        "monitor_cases": len(spec),
        "monitor_violations": mon_viol,
        "disagreements_checked": len(diffs),
        "e2e_cases": sum(1 for k in case_by_key if k.startswith("U ")),
        "e2e_prediction_differences": len(e2e_diffs),
        "e2e_rerun": e2e_reruns,
        "exhaustive": False,
    })
    c.finish(level="proof",
             trusted_base=["Coq 8.16.1 kernel (coqc; coqchk in thorough tier)", "no axioms (Closed under the global context)",
                           "extraction ExtrOcamlBasic + hand-written OCaml driver ocaml/c13/driver.ml (parsing, digest, snapshot grafting call), ocaml/common/util.ml",
                           "Rust harness harness/src/bin/c13.rs and hooks (cfg rs_matter_verif) in im/subscriptions.rs",
                           "correspondence is differential testing on the generated operation sequences (component level: the table API, not the async reporter)"],
             assumptions=["eventual delivery = invariant + fairness of the reporter task (it wakes at next_report_at and on notifications, and every report attempt terminates) — assumed, not proved",
                          "fewer than 2^64-2 changes between restarts (change ids do not wrap)",
                          "events: the event buffer still holds every event above the subscription's watermark (ring-buffer eviction is outside the model)",
                          "model = Model/Subs.v hand-transcribed from im/subscriptions.rs and the call sites in im.rs; tied to the code only by the correspondence run"])
