"""C07 — nothing bound to a fabric outlives that fabric."""
import os
import subprocess
from .common import Check, read_keyed, ROOT

KNOWN_CLASSES = ()


def main(tier, replay=None):
    c = Check("C07", tier)
    if not c.coq_check():
        c.proof_broken_violation()
    driver = c.build_model()
    hbin = c.build_harness()
    rd = c.rundir
    cases = os.path.join(rd, "cases.txt")
    if replay:
        with open(cases, "w") as f:
            for l in open(replay):
                l = l.strip()
                if l.startswith("case: "):
                    l = l[6:]
                if l[:2] in ("S ", "H ", "W "):
                    f.write(l + "\n")
    else:
        with open(cases, "w") as f:
            n = 0
            cdir = os.path.join(ROOT, "corpus", "C07")
            if os.path.isdir(cdir):
                for fn in sorted(os.listdir(cdir)):
                    for l in open(os.path.join(cdir, fn)):
                        l = l.strip()
                        if l[:2] in ("S ", "W ") and len(l.split(" ")) >= 3:
                            n += 1
                            p = l.split(" ")
                            p[1] = "c%d" % n
                            f.write(" ".join(p) + "\n")
        gdir = os.path.join(rd, "gen")
        subprocess.run([hbin, "gen", c.tier, str(c.seed), gdir], check=True)
        with open(cases, "a") as f:
            f.write(open(os.path.join(gdir, "cases.txt")).read())
    impl_out = c.run_sharded([hbin, "run"], cases, os.path.join(rd, "impl.out"))
    model_out = c.run_sharded([driver, "<"], cases, os.path.join(rd, "model.out"))
    impl = read_keyed(impl_out)
    model = read_keyed(model_out)
    case_by_key = {}
    for line in open(cases):
        line = line.rstrip("\n")
        f = line.split(" ")
        if len(f) >= 2:
            case_by_key[f[0] + " " + f[1]] = line

    # --- correspondence: answer class of every operation and the full snapshot after it
    diffs = [k for k in case_by_key if impl.get(k, "") != model.get(k, "")]

    # --- monitor: the extracted executable property on the implementation's own snapshots
    spec_in = os.path.join(rd, "spec.in")
    n_mon = 0
    with open(spec_in, "w") as f:
        for key, cl in case_by_key.items():
            if key[0] in "SW" and key in impl and "initial-state-unreachable" not in impl[key]:
                f.write(cl + "\n" + impl[key] + "\n")
                n_mon += 1
    spec_out = c.run_sharded([driver, "<"], spec_in, os.path.join(rd, "spec.out"), argv_suffix=["spec"], shards=1)
    spec = read_keyed(spec_out)
    mon_viol, known_hits = 0, {}
    for key, cl in case_by_key.items():
        if key[0] not in "SW":
            continue
        il = impl.get(key, "")
        if "initial-state-unreachable" in il:
            continue    # the harness could not build the initial fabric table: a correspondence difference
        v = spec.get(key, key + " missing").split(" ")
        verdict = v[2] if len(v) > 2 else "missing"
        names = []
        if ("hang" in il or "transport-exit" in il or "err:" in il or il.endswith(" panic") or not il
                or "driver-error" in model.get(key, "")):
            names.append("harness-run-incomplete")
        if verdict != "ok":
            names += sorted(set(verdict.split(",")))
        for name in names:
            if name in KNOWN_CLASSES:
                known_hits[name] = known_hits.get(name, 0) + 1
            else:
                mon_viol += 1
            c.violation(name, "\n".join([
                "property C07 fails on the implementation (real Matter node driven through the Interaction Model, real CASE "
                "handshakes / resumptions, in-memory key-value store; incarnations tracked by the harness): " + name,
                "case: " + cl,
                "implementation: " + il.replace(";", ";\n    "),
                "model         : " + model.get(key, "").replace(";", ";\n    "),
                "replay: bin/check C07 quick --replay <this file>"]))

    if diffs and not c.violations:
        lines = ["correspondence corr:C07 broke: model and implementation disagree on %d of %d cases;" % (len(diffs), len(case_by_key)),
                 "the monitor found no run on which the implementation violates C07.",
                 "theorems no longer tied to the code: " + ", ".join(c.coq["theorems"]), ""]
        for key in diffs[:8]:
            il, ml = impl.get(key, "").split(";"), model.get(key, "").split(";")
            step = next((i for i, (a, b) in enumerate(zip(il, ml)) if a != b), min(len(il), len(ml)))
            lines += ["case : " + case_by_key[key][:400], "first difference at operation %d" % step,
                      "impl : " + (il[step] if step < len(il) else "<missing>")[:500],
                      "model: " + (ml[step] if step < len(ml) else "<missing>")[:500], ""]
        c.violation("corr", "\n".join(lines), no_input=True)
    elif diffs:
        c.notes.append("correspondence differences: %d" % len(diffs))

    # --- evidence
    kinds, statuses, nt, n_ops = {}, {}, set(), 0

    def incs(snap):
        # incarnations in the RAM fabric table of a snapshot: "fs=.. F[idx:inc:root:acl ...] KF[..."
        i = snap.find(" F[")
        if i < 0:
            return set()
        j = snap.find("]", i)
        return set(x.split(":")[1] for x in snap[i + 3:j].split(" ") if x.count(":") >= 1)

    for key, cl in case_by_key.items():
        f = cl.split(" ")
        if f[0] not in ("S", "W") or len(f) < 4:
            continue
        ops = [o for o in f[3].split(",") if o]
        outs = model.get(key, "").split(" ", 2)
        outs = outs[2].split(";") if len(outs) > 2 else []
        gone_fabric = False
        probe = False
        prev = None
        for o, out in zip(ops, outs):
            n_ops += 1
            st = out.split("@")[0]
            kinds[o[0]] = kinds.get(o[0], 0) + 1
            statuses[o[0] + ":" + st] = statuses.get(o[0] + ":" + st, 0) + 1
            cur = incs(out)
            if gone_fabric and o[0] in "QSBEHesDbr":
                probe = True
            if prev is not None and (prev - cur):
                gone_fabric = True       # an incarnation left the fabric table in this step
            prev = cur
        if gone_fabric and probe and len(f) > 3:
            nt.add(f[2] + " " + f[3])
    samples = []
    for key, cl in list(case_by_key.items())[1:5]:
        samples.append({"case": cl[:300], "impl": impl.get(key, "")[:500], "model": model.get(key, "")[:500]})
    c.cov.update({
        "evaluations": n_ops,
        "case_lines": len(case_by_key),
        "distinct_nontrivial": len(nt),
        "rule": "one case = one operation sequence (<= 25 operations) on a real device: Interaction Model invokes / writes / subscribe "
                "requests over in-process sessions, real CASE handshakes and resumptions, MemKv, restart = new Matter from the store; "
                "evaluations = operations whose answer class and full snapshot (fail-safe context, fabric table and persisted fabrics "
                "with incarnations, session table with mode / fabric index / expired / reserved, resumption cache and its persisted copy, "
                "subscription table and its persisted copy) are compared with the model; non-trivial = distinct (initial state, sequence) "
                "in which an incarnation leaves the fabric table (RemoveFabric, fail-safe rollback, restart before CommissioningComplete) "
                "and a request, resumption, subscribe or session establishment is attempted afterwards",
        "samples": samples,
        "ops_by_kind": kinds,
        "answers_by_op_and_class": statuses,
        "monitor_cases": n_mon,
        "monitor_violations": mon_viol,
        "known_class_hits": known_hits,
        "disagreements_checked": len(diffs),
        "exhaustive": False,
    })
    c.finish(level="proof",
             trusted_base=["Coq 8.16.1 kernel (coqc; coqchk in thorough tier)", "no axioms (Closed under the global context)",
                           "extraction ExtrOcamlBasic + hand-written OCaml driver ocaml/c07/driver.ml (parses the implementation's snapshots for the monitor)",
                           "Rust harness harness/src/bin/c07.rs (incl. its incarnation bookkeeping: an incarnation is named by the fabric's operational key), "
                           "harness/src/e2e.rs (in-process network, MemKv) and hooks (cfg rs_matter_verif): FailSafe::verif_snapshot/verif_make_due, "
                           "InteractionModel::verif_check_timeouts/verif_subscriptions/verif_reporter_purge, session table access",
                           "correspondence is differential testing on the generated cases"],
             assumptions=["model Model/Lifecycle.v: certificates are tokens; a handshake, a resumption, a subscribe transaction and a request are single steps "
                          "(a fabric removal is placed between, not inside, such transactions)",
                          "key-value store: per-key atomic, no store failures; the persisted copy of the subscription table is rewritten in the same step as every change of the table",
                          "the reporter, the debounced resumption-cache task and the fail-safe timer run at arbitrary points between operations (explicit operations)"])
