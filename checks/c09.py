"""C09 — reliable messaging delivers each message at most once and reports the truth."""
import os
import subprocess
from .common import Check, read_keyed, ROOT


def cmp_part(line, case=""):
    """the part of an output line that model and implementation must agree on; the number of
    acknowledgements is compared only for scripts without wall-clock delays / hold-backs (with them
    it depends on what still arrives inside the settling window at the end of the run)"""
    part = line.split(" | ")[0]
    if case.startswith("E ") and ("t" in case.split(" ", 2)[2].replace("others", "") or "h" in case.split(" ", 2)[2].replace("others", "")):
        part = " ".join(f for f in part.split(" ") if not f.startswith("acks="))
    return part


def main(tier, replay=None):
    c = Check("C09", tier)
    if not c.coq_check():
        c.proof_broken_violation()
    driver = c.build_model()
    hbin = c.build_harness()
    rd = c.rundir
    cases = os.path.join(rd, "cases.txt")
    if replay:
        with open(cases, "w") as f:
            for l in open(replay):
                l = l.strip()
                if l.startswith("case: "):
                    l = l[6:]
                if l[:2] in ("K ", "L ", "R ", "E ", "W "):
                    f.write(l + "\n")
    else:
        subprocess.run([hbin, "gen", c.tier, str(c.seed), rd], check=True)
    impl_out = c.run_sharded([hbin, "run"], cases, os.path.join(rd, "impl.out"))
    model_out = c.run_sharded([driver, "<"], cases, os.path.join(rd, "model.out"))
    impl = read_keyed(impl_out)
    model = read_keyed(model_out)
    case_by_key = {}
    for line in open(cases):
        line = line.rstrip("\n")
        if line:
            f = line.split(" ")
            case_by_key[f[0] + " " + f[1]] = line

    def rerun(key):
        """end-to-end cases run on the real clock: re-run a disagreeing case to rule out a scheduling stall"""
        p = os.path.join(rd, "rerun.txt")
        with open(p, "w") as f:
            f.write(case_by_key[key] + "\n")
        out = subprocess.run([hbin, "run", p], stdout=subprocess.PIPE).stdout.decode()
        for l in out.split("\n"):
            if l.startswith(key + " "):
                return l
        return ""

    # --- correspondence
    diffs, flaky = [], 0
    for key, cl in case_by_key.items():
        if key.startswith("W "):
            continue    # disturbances outside the model: judged by the monitor only
        il, ml = impl.get(key, ""), model.get(key, "")
        if cmp_part(il, cl) != cmp_part(ml, cl):
            if key.startswith("E "):
                again = [rerun(key), rerun(key)]
                if any(cmp_part(a, cl) == cmp_part(ml, cl) for a in again):
                    flaky += 1
                    impl[key] = next(a for a in again if cmp_part(a, cl) == cmp_part(ml, cl))
                    continue
            diffs.append(key)

    # --- monitor: extracted clauses on the implementation's own observations
    spec_in = os.path.join(rd, "spec.in")
    n_mon = 0
    with open(spec_in, "w") as f:
        for key, il in impl.items():
            if key.startswith("E "):
                f.write(il.replace(" | ", " ") + "\n")
                n_mon += 1
            elif key.startswith("W "):
                f.write("E w" + il[2:].replace(" | ", " ") + "\n")
                n_mon += 1
    spec_out = c.run_sharded([driver, "<"], spec_in, os.path.join(rd, "spec.out"), argv_suffix=["spec"], shards=1)
    spec = read_keyed(spec_out)
    mon_viol = 0
    for key, il in impl.items():
        if not (key.startswith("E ") or key.startswith("W ")):
            continue
        outcome = il.split(" ")[2] if len(il.split(" ")) > 2 else "missing"
        names = []
        if outcome != "done":
            names.append("hang-or-abort:" + outcome)
        skey = key if key.startswith("E ") else "E w" + key[2:]
        verdict = spec.get(skey, skey + " missing").split(" ")[2]
        if key.startswith("W ") and names + [v for v in verdict.split(",") if v != "ok"]:
            # real-clock case: a verdict counts only if it repeats
            again = rerun(key)
            p2 = os.path.join(rd, "respec.in")
            with open(p2, "w") as f2:
                f2.write("E w" + again[2:].replace(" | ", " ") + "\n")
            out2 = subprocess.run([driver, "spec"], stdin=open(p2), stdout=subprocess.PIPE).stdout.decode().strip()
            v2 = out2.split(" ")[2] if len(out2.split(" ")) > 2 else "missing"
            o2 = again.split(" ")[2] if len(again.split(" ")) > 2 else "missing"
            if v2 == "ok" and o2 == "done":
                flaky += 1
                continue
            il = again if again else il
        if verdict != "ok":
            names += verdict.split(",")
        # "if at least one transmission and one acknowledgement get through, the call succeeds"
        # (theorem C09_one_copy_one_ack_suffice): one message, it reached the receiving application,
        # a datagram of the receiver (with one message every one of them acknowledges it) reached the
        # sender's node in time (none is delayed or held back) - and the call still ends with a transmit timeout
        cl = case_by_key.get(key, "")
        fl = dict(f.split("=", 1) for f in il.replace(" | ", " ").split(" ") if "=" in f)
        cfl = dict(f.split("=", 1) for f in cl.split(" ") if "=" in f)
        if cfl.get("m") == "1" and fl.get("res") == "timeout" and fl.get("delivered") == "0" \
                and fl.get("backs", "0") not in ("", "0") \
                and not any(a[:1] in ("t", "h") for a in cfl.get("ba", "").split(".")) and cfl.get("others", "0:0").endswith(":0"):
            names.append("timeout-although-delivered-and-acknowledged")
        for name in names:
            if name == "ok-not-delivered":
                # known class: the message was overtaken by more than 16 newer counters of its session
                others = 0
                for fld in il.split(" "):
                    if fld.startswith("others="):
                        others = int(fld[7:])
                if others >= 17:
                    name = "ok-not-delivered-overtaken"
            mon_viol += 1
            c.violation(name, "\n".join([
                "property C09 fails on the implementation (two real nodes, scripted network): " + name,
                "case: " + case_by_key[key],
                "implementation: " + il,
                "model          : " + model.get(key, ""),
                "replay: bin/check C09 quick --replay <this file>"]))

    if diffs and not c.violations:
        lines = ["correspondence corr:C09 broke: model and implementation disagree on %d of %d cases;" % (len(diffs), len(case_by_key)),
                 "the monitor found no run on which the implementation violates C09.",
                 "theorems no longer tied to the code: " + ", ".join(c.coq["theorems"]), ""]
        for key in diffs[:10]:
            lines += ["case : " + case_by_key[key][:400], "impl : " + str(impl.get(key))[:600], "model: " + str(model.get(key))[:600], ""]
        c.violation("corr", "\n".join(lines), no_input=True)
    elif diffs:
        c.notes.append("correspondence differences: %d" % len(diffs))

    kinds = {}
    nt = set()
    for key, cl in case_by_key.items():
        kinds[cl[0]] = kinds.get(cl[0], 0) + 1
        ml = model.get(key, "")
        k = cl[0]
        if k == "R" and ("timeout" in ml or "dup" in ml or "+" in ml):
            nt.add(cl.split(" ", 2)[2])
        elif k == "E" and ("timeout" in ml or "x" in cl or "u" in cl or "h" in cl):
            nt.add(cl.split(" ", 2)[2])
        elif k == "W":
            nt.add(cl.split(" ", 2)[2])
        elif k in ("K", "L"):
            nt.add(cl.split(" ", 2)[2])
    samples, seen = [], {}
    for key, cl in case_by_key.items():
        if seen.get(cl[0], 0) < 2:
            seen[cl[0]] = seen.get(cl[0], 0) + 1
            samples.append({"case": cl[:300], "impl": impl.get(key, "")[:300], "model": model.get(key, "")[:300]})
    c.cov.update({
        "evaluations": len(case_by_key) + kinds.get("K", 0) * 255,
        "case_lines": len(case_by_key),
        "distinct_nontrivial": len(nt),
        "rule": "K = back-off for one (base, counter) over all 256 jitter values; L = retransmission_timeout_ms; "
                "R = ReliableMessage pre_send/post_recv op sequence (state after every op compared); "
                "W = the same with disturbances outside the model (an unrelated session evicted during a back-off; a slow link on which "
                "another exchange holds the single TX buffer while the acknowledgement arrives), judged by the monitor only; "
                "E = two real Matter nodes over a scripted in-memory network (per-datagram deliver/drop/duplicate/hold), "
                "send results, delivered messages and acknowledgement count compared with the model; "
                "non-trivial = distinct case whose model answer shows a timeout/duplicate/piggy-backed ack (R), or whose script loses, duplicates or holds a datagram (E); every K/L",
        "samples": samples,
        "cases_by_kind": kinds,
        "monitor_cases": n_mon,
        "monitor_violations": mon_viol,
        "disagreements_checked": len(diffs),
        "e2e_reruns_that_agreed": flaky,
        "exhaustive": False,
        "exhaustive_parts": "all 256 jitter values for each back-off case; lost-transmission counts 0..6 and lost-acknowledgement counts 1..6 end to end",
    })
    c.finish(level="proof",
             trusted_base=["Coq 8.16.1 kernel (coqc; coqchk in thorough tier)", "no axioms (Closed under the global context)",
                           "extraction ExtrOcamlBasic + hand-written OCaml driver ocaml/c09/driver.ml (incl. the script-to-operations scheduler for E cases)",
                           "Rust harness harness/src/bin/c09.rs, harness/src/e2e.rs and hooks (cfg rs_matter_verif)",
                           "correspondence is differential testing on the generated cases; e2e cases run on the real clock (MRP base interval 80 ms)"],
             assumptions=["system model Model/Mrp.v: one exchange, secure unicast session, adversarial datagram network; executor fairness and timers are modelled as adversary-chosen ATimer steps",
                          "known finding: a message overtaken by more than 16 newer counters of its session is acknowledged as a duplicate although never delivered (theorem C09_ok_implies_received_unless_overtaken)",
                          "monitor functions Model/MrpSpec.v are direct transcriptions of the property clauses over observable traces"])
