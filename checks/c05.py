"""C05 - access is granted exactly when the Matter access-control algorithm grants it."""
import json
import os
import subprocess
from .common import Check, read_keyed, ROOT


def split_case(line):
    """A <id> <mode> <fabrics> <accessors> <requests>"""
    f = line.split(" ")
    return f[1], f[2], f[3], f[4].split(";"), f[5].split(";")


def results_of(out_line):
    f = out_line.split(" ")
    return (f[2], f[3]) if len(f) >= 4 else ("", "")


def run_one(binargv, line, stdin=False):
    """Run one case line through a binary, return its output line ('' on failure)."""
    try:
        if stdin:
            p = subprocess.run(binargv, input=(line + "\n").encode(), stdout=subprocess.PIPE,
                               stderr=subprocess.PIPE, timeout=60)
        else:
            tmp = os.path.join(ROOT, ".build", "run", "c05", "one.%d.txt" % os.getpid())
            with open(tmp, "w") as f:
                f.write(line + "\n")
            p = subprocess.run(binargv + [tmp], stdout=subprocess.PIPE, stderr=subprocess.PIPE, timeout=60)
            os.unlink(tmp)
        if p.returncode != 0:
            return ""
        return p.stdout.decode().strip()
    except Exception:
        return ""


def shrink(hbin, driver, mode, fabs, acc, req, pos):
    """Greedy reduction of the fabric table while implementation and specification still
    disagree on the single (accessor, request); pos = 0 (allow) or 1 (endpoint)."""
    def disagrees(fabs_s):
        line = "A 0 %s %s %s %s" % (mode, fabs_s, acc, req)
        i = results_of(run_one([hbin, "run"], line))[1]
        s = results_of(run_one([driver, "spec"], line, stdin=True))[1]
        return len(i) == 2 and len(s) == 2 and s[pos] != "." and i[pos] != s[pos]

    def parse(fs):
        out = []
        for f in ([] if fs == "-" else fs.split("|")):
            idx, es, gs = f.split(":")
            out.append([idx, [] if es == "-" else es.split("+"), [] if gs == "-" else gs.split("+")])
        return out

    def show(t):
        if not t:
            return "-"
        return "|".join("%s:%s:%s" % (i, "+".join(e) or "-", "+".join(g) or "-") for i, e, g in t)

    table = parse(fabs)
    budget = 80
    changed = True
    while changed and budget > 0:
        changed = False
        # drop whole fabrics (only from the end in native mode: indices are positional there)
        for k in range(len(table) - 1, -1, -1):
            cand = table[:k] + table[k + 1:]
            budget -= 1
            if budget > 0 and disagrees(show(cand)):
                table, changed = cand, True
                break
        if changed:
            continue
        for k, (idx, es, gs) in enumerate(table):
            for j in range(len(es)):
                cand = [list(x) for x in table]
                cand[k] = [idx, es[:j] + es[j + 1:], gs]
                budget -= 1
                if budget > 0 and disagrees(show(cand)):
                    table, changed = cand, True
                    break
            if changed:
                break
            for j in range(len(gs)):
                cand = [list(x) for x in table]
                cand[k] = [idx, es, gs[:j] + gs[j + 1:]]
                budget -= 1
                if budget > 0 and disagrees(show(cand)):
                    table, changed = cand, True
                    break
            if changed:
                break
    return show(table)


def main(tier, replay=None):
    c = Check("C05", tier)
    coq_ok = c.coq_check()
    if not coq_ok:
        c.proof_broken_violation()
    driver = c.build_model()
    hbin = c.build_harness()
    rd = c.rundir
    cases = os.path.join(rd, "cases.txt")
    if replay:
        stats = {}
        with open(cases, "w") as f:
            for l in open(replay):
                l = l.strip()
                if l.startswith("case: "):
                    l = l[6:]
                if l.startswith("A "):
                    f.write(l + "\n")
    else:
        subprocess.run([hbin, "gen", c.tier, str(c.seed), rd], check=True)
        stats = json.load(open(os.path.join(rd, "stats.json")))
        corp = os.path.join(ROOT, "corpus", "C05")
        extra = []
        if os.path.isdir(corp):
            for fn in sorted(os.listdir(corp)):
                extra += [l for l in open(os.path.join(corp, fn)).read().split("\n") if l.startswith("A ")]
        if extra:
            body = open(cases).read()
            with open(cases, "w") as f:
                f.write("\n".join(extra) + "\n" + body)
    try:
        impl_out = c.run_sharded([hbin, "run"], cases, os.path.join(rd, "impl.out"))
    except RuntimeError as e:
        c.violation("harness-run", "the correspondence harness for C05 failed while running the real code "
                    "(panic or API change); no theorem of Props/C05.v is tied to this code.\n%s" % e, no_input=True)
        c.finish_early()
    model_out = c.run_sharded([driver, "<"], cases, os.path.join(rd, "model.out"))
    spec_out = c.run_sharded([driver, "<"], cases, os.path.join(rd, "spec.out"), argv_suffix=["spec"])
    impl = read_keyed(impl_out)
    model = read_keyed(model_out)
    spec = read_keyed(spec_out)
    case_by_key = {}
    for line in open(cases):
        line = line.rstrip("\n")
        if line:
            f = line.split(" ")
            case_by_key[f[0] + " " + f[1]] = line

    # --- monitor: the extracted specification [acl_granted] / [endpoint_reachable] against
    #     the implementation's own decisions
    n_mon = n_skip = mon_viol = 0
    reported = {"acl-decision": 0, "endpoint-reach": 0}
    n_queries = 0
    allow_true = allow_false = 0
    by_kind = {}
    for key, cl in case_by_key.items():
        il, sl = impl.get(key), spec.get(key)
        if il is None or sl is None:
            continue
        ri, rs = results_of(il)[1], results_of(sl)[1]
        if len(ri) != len(rs):
            continue
        n_queries += len(ri) // 2
        allow_true += ri[0::2].count("1")
        allow_false += ri[0::2].count("0")
        f = cl.split(" ")
        accs_k = f[4].split(";")
        nr = f[5].count(";") + 1
        for ai, ac in enumerate(accs_k):
            row = ri[2 * ai * nr: 2 * (ai + 1) * nr]
            kind = ac[:2].rstrip(",")
            st = by_kind.setdefault(kind, {"granted": 0, "denied": 0, "endpoint_unreachable": 0})
            st["granted"] += row[0::2].count("1")
            st["denied"] += row[0::2].count("0")
            st["endpoint_unreachable"] += row[1::2].count("0")
        if ri == rs:
            n_mon += len(rs) - rs.count(".") - rs.count("-")
            continue
        _, mode, fabs, accs, reqs = split_case(cl)
        for q in range(len(ri) // 2):
            for pos, name in ((0, "acl-decision"), (1, "endpoint-reach")):
                x, y = ri[2 * q + pos], rs[2 * q + pos]
                if y == ".":
                    n_skip += 1
                    continue
                if y == "-":
                    continue
                n_mon += 1
                if x == y:
                    continue
                mon_viol += 1
                if reported[name] >= 2:
                    continue
                reported[name] += 1
                acc, req = accs[q // len(reqs)], reqs[q % len(reqs)]
                small = shrink(hbin, driver, mode, fabs, acc, req, pos)
                line = "A 0 %s %s %s %s" % (mode, small, acc, req)
                i1 = run_one([hbin, "run"], line)
                s1 = run_one([driver, "spec"], line, stdin=True)
                what = ("AccessReq::allow()" if pos == 0 else "Accessor::is_endpoint_accessible()")
                c.violation(name, "\n".join([
                    "property C05 fails on the implementation: %s returned %s, the access-control algorithm "
                    "(Model/AclSpec.v %s) requires %s" % (what, x, "acl_granted" if pos == 0 else "endpoint_reachable", y),
                    "case: " + line,
                    "  fabrics  (idx:entries:groups; entry = privilege bits,auth mode,entry fabric index,subjects,targets;"
                    " group = id,has_aux_acl,endpoints): " + small,
                    "  accessor (S<kind>,fabric,peer node,tags,group,aux | R,fabric,auth,subject 0,tags,aux): " + acc,
                    "  request  (endpoint.cluster,device types,operation bits,element access bits): " + req,
                    "implementation: " + i1,
                    "specification : " + s1,
                    "original case : " + cl[:400],
                    "replay: bin/check C05 quick --replay <this file>"]))

    # --- correspondence
    diffs = [key for key in case_by_key if impl.get(key) != model.get(key)]
    if diffs and not c.violations:
        lines = ["correspondence corr:C05 broke: model (Model/Acl.v) and implementation disagree on %d of %d case lines;" % (
                     len(diffs), len(case_by_key)),
                 "the monitor (extracted specification) found no decision on which the implementation violates C05",
                 "(differences are outside the specification's domain: raw privilege / operation bits, or acl_add results).",
                 "theorems no longer tied to the code: " + ", ".join(c.coq["theorems"]), ""]
        for key in diffs[:6]:
            lines += ["case : " + case_by_key[key][:1500], "impl : " + str(impl.get(key))[:600],
                      "model: " + str(model.get(key))[:600], ""]
        c.violation("corr", "\n".join(lines), no_input=True)

    nt = set()
    kinds = {}
    for key, cl in case_by_key.items():
        f = cl.split(" ")
        kinds[f[2]] = kinds.get(f[2], 0) + 1
        r = results_of(model.get(key, ""))[1]
        # non-PASE decisions only: the first accessors of the product lines are PASE
        a = r[0::2]
        if "1" in a and "0" in a:
            nt.add(" ".join(f[2:]))
    samples = []
    for key, cl in list(case_by_key.items())[:1] + list(case_by_key.items())[-2:]:
        samples.append({"case": cl[:400], "impl": impl.get(key, "")[:160], "model": model.get(key, "")[:160],
                        "spec": spec.get(key, "")[:160]})
    c.cov.update({
        "evaluations": n_queries,
        "case_lines": len(case_by_key),
        "distinct_nontrivial": len(nt),
        "rule": "one case line = one table of fabrics (ACL entries, groups) x a list of accessors x a list of requests; "
                "every (accessor, request) pair is one evaluation of AccessReq::allow and of is_endpoint_accessible; "
                "non-trivial = distinct case line (id removed) whose model answers contain both a grant and a denial",
        "samples": samples,
        "lines_by_build_mode": kinds,
        "generator_distribution": stats,
        "decisions_granted": allow_true,
        "decisions_denied": allow_false,
        "decisions_by_accessor_kind": by_kind,
        "monitor_checks": n_mon,
        "monitor_skipped_outside_spec_domain": n_skip,
        "monitor_violations": mon_viol,
        "disagreements_checked": len(diffs),
        "exhaustive": False,
        "exhaustive_parts": "product stream: every combination of 5 privileges x {CASE, Group} x 9/5 subject shapes "
                            "(null, empty, own/other node, tag lower/equal/higher/other id, mixtures) x 14 target shapes "
                            "(null, empty, endpoint/cluster/device-type combinations) as the entry under test, each against "
                            "18 accessors x 4 paths x 2 operations x 11-12 access declarations",
    })
    c.finish(level="proof",
             trusted_base=["Coq 8.16.1 kernel (coqc; coqchk in thorough tier)", "no axioms (Closed under the global context)",
                           "extraction ExtrOcamlBasic + hand-written OCaml driver ocaml/c05/driver.ml, ocaml/common/util.ml",
                           "Rust harness harness/src/bin/c05.rs; hook Session::verif_set_session_mode (cfg rs_matter_verif)",
                           "Model/AclSpec.v part 2 (reading of raw subjects / privilege bits / access bits into the "
                           "vocabulary of the property) is part of the specification",
                           "correspondence is differential testing on the generated cases"],
             assumptions=["well-formed tables: entry privileges are one of View/Operate/Manage/Administer/ProxyView, group ids < 2^16",
                          "operations are read (Access::READ) or write/invoke (Access::WRITE)",
                          "model = Model/Acl.v hand-transcribed from acl.rs / fabric.rs / privilege.rs with feature `groups`; "
                          "tied to the code only by the correspondence run"])
