"""C15 — a nonce is never used for two different messages; identifiers unique among live entries."""
import os
import subprocess
from .common import Check, read_keyed, ROOT


def fields(line):
    d = {}
    for f in line.split(" "):
        if "=" in f:
            k, v = f.split("=", 1)
            d[k] = v
    return d


def main(tier, replay=None):
    c = Check("C15", tier)
    if not c.coq_check():
        c.proof_broken_violation()
    driver = c.build_model()
    hbin = c.build_harness()
    rd = c.rundir
    cases = os.path.join(rd, "cases.txt")
    if replay:
        with open(cases, "w") as f:
            for l in open(replay):
                l = l.strip()
                if l.startswith("case: "):
                    l = l[6:]
                if l[:2] in ("N ", "M ", "A ", "X ", "P ", "C ", "Q ", "Z ", "V "):
                    f.write(l + "\n")
    else:
        subprocess.run([hbin, "gen", c.tier, str(c.seed), rd], check=True)
    impl_out = c.run_sharded([hbin, "run"], cases, os.path.join(rd, "impl.out"))
    model_out = c.run_sharded([driver, "<"], cases, os.path.join(rd, "model.out"))
    spec_out = c.run_sharded([driver, "<"], cases, os.path.join(rd, "spec.out"), argv_suffix=["spec"])
    impl = read_keyed(impl_out)
    model = read_keyed(model_out)
    spec = read_keyed(spec_out)
    case_by_key = {}
    for line in open(cases):
        line = line.rstrip("\n")
        if line:
            f = line.split(" ")
            case_by_key[f[0] + " " + f[1]] = line

    def report(name, key, why):
        c.violation(name, "\n".join([
            "property C15 fails on the implementation: " + why,
            "case: " + case_by_key[key],
            "implementation: " + impl.get(key, "")[:1500],
            "model          : " + model.get(key, "")[:1500],
            "replay: bin/check C15 quick --replay <this file>"]))

    mon_viol, n_mon, honest_n = 0, 0, 0
    diffs = []
    for key, cl in case_by_key.items():
        il = impl.get(key, "")
        k = cl[0]
        f = cl.split(" ")
        if k in "NMAX":
            if il != model.get(key, ""):
                diffs.append(key)
        if k == "A":
            n_mon += 1
            parts = il.split(" ")
            used = [x.rstrip("e") for x in (f[3].split(",") if len(f) > 3 else []) if x]
            if len(parts) >= 3 and (parts[2] == "0" or parts[2] in used):
                mon_viol += 1
                report("session-id-not-unique", key, "get_next_sess_id returned an identifier that is 0 or held by a live session")
        elif k == "X":
            n_mon += 1
            parts = il.split(" ")
            live_init = [x.split(":")[0] for x in (f[3].split(",") if len(f) > 3 else []) if x.endswith(":i")]
            if len(parts) >= 3 and (parts[2] == "0" or parts[2] in live_init):
                mon_viol += 1
                report("exchange-id-not-unique", key, "get_next_exch_id returned an identifier that is 0 or held by a live exchange this node initiated")
        elif k in "NM":
            n_mon += 1
            opf = 4 if k == "N" else 5
            ops = [o for o in (f[opf].split(",") if len(f) > opf else []) if o]
            outs = il.split(" ")[2].split("|") if len(il.split(" ")) > 2 else []
            sends = []          # (ctr, ack, msg) in wire order
            for o, r in zip(ops, outs):
                if o.startswith("s:") and r.startswith("ok:"):
                    _, ctr, ack = r.split(":")
                    sends.append((int(ctr), ack, o.split(":")[2]))
            is_honest = spec.get(key, "").endswith(" 1")
            if is_honest:
                honest_n += 1
                seen = {}
                for (ctr, ack, m) in sends:
                    if ctr in seen and seen[ctr] != (ack, m):
                        mon_viol += 1
                        report("nonce-reused", key, "counter %d carried two different messages: %s and %s (honest trace)" % (ctr, seen[ctr], (ack, m)))
                        break
                    seen[ctr] = (ack, m)
            # first uses strictly increasing (every trace)
            firsts, seenc = [], set()
            for (ctr, _, _) in sends:
                if ctr not in seenc:
                    seenc.add(ctr)
                    firsts.append(ctr)
            if any(b <= a for a, b in zip(firsts, firsts[1:])):
                mon_viol += 1
                report("fresh-counter-not-increasing", key, "a message that is not a retransmission carried a counter not above all earlier ones")
            # the end of the counter range of a secure session: the send must be refused, not abort the node
            # (the harness is built with overflow checks; in the release profile, overflow-checks = false, the
            # same input makes the counter wrap to 0 and nonces are used again under the same keys)
            elif "panic" in outs:
                mon_viol += 1
                report("counter-exhaustion-not-refused", key, "the session's counter range is used up and the send aborts (overflow-checked build) / wraps to 0 (release profile) instead of being refused")
        else:
            n_mon += 1
            d = fields(il)
            outcome = il.split(" ")[2] if len(il.split(" ")) > 2 else "missing"
            if d.get("identical") != "1":
                mon_viol += 1
                report("retransmission-not-identical", key, "two datagrams with the same (sender, session, counter) differ: " + d.get("bad", "?"))
            # note: first uses of counters may be INVERTED on the wire (two tasks allocate counters in order but
            # hand their datagrams to the network in the other order, e.g. the transport's duplicate-ACK and the
            # application's reply); allocation order is checked exactly on the N stream, so `increasing` is only recorded.
            elif outcome.startswith("hang") or outcome.startswith("transport-exit"):
                mon_viol += 1
                report("e2e-" + outcome.split(":")[0], key, "the run did not finish cleanly")

    if diffs and not c.violations:
        lines = ["correspondence corr:C15 broke: model and implementation disagree on %d of %d cases;" % (len(diffs), len(case_by_key)),
                 "the monitor found no case on which the implementation violates C15.",
                 "theorems no longer tied to the code: " + ", ".join(c.coq["theorems"]), ""]
        for key in diffs[:10]:
            lines += ["case : " + case_by_key[key][:500], "impl : " + impl.get(key, "")[:700], "model: " + model.get(key, "")[:700], ""]
        c.violation("corr", "\n".join(lines), no_input=True)

    kinds, nt = {}, set()
    retrans_groups = 0
    wire_inversions = sum(1 for k, l in impl.items() if k[0] in "PCQZV" and fields(l).get("increasing") == "0")
    for key, cl in case_by_key.items():
        kinds[cl[0]] = kinds.get(cl[0], 0) + 1
        ml, il = model.get(key, ""), impl.get(key, "")
        if cl[0] in "NM" and ("timeout" in ml or "dup" in ml or any(x.count(":") == 2 and not x.endswith(":-") for x in ml.split(" ")[2].split("|") if x.startswith("ok:"))):
            nt.add(cl.split(" ", 2)[2])
        elif cl[0] in "AX" and len(cl.split(" ")) > 3 and cl.split(" ")[3]:
            nt.add(cl.split(" ", 2)[2])
        elif cl[0] in "PCQZV":
            r = int(fields(il).get("retrans", "0") or 0)
            retrans_groups += r
            if r > 0:
                nt.add(cl.split(" ", 2)[2])
    samples, seen = [], {}
    for key, cl in case_by_key.items():
        if seen.get(cl[0], 0) < 2:
            seen[cl[0]] = seen.get(cl[0], 0) + 1
            samples.append({"case": cl[:300], "impl": impl.get(key, "")[:300], "model": model.get(key, "")[:300]})
    c.cov.update({
        "evaluations": len(case_by_key),
        "distinct_nontrivial": len(nt),
        "rule": "N = Session::pre_send/post_recv op sequence on 1..4 exchanges (wire counter + piggy-backed ack per send compared with the model); "
                "A/X = session / exchange identifier allocation with live identifiers placed at and around the cursor incl. the 16-bit wrap; "
                "P/C/Q = PASE handshake, CASE handshake, request/response round trips between two real nodes over the scripted lossy network, judged on the wire tap "
                "(all datagrams with the same sender, session id and counter must be byte-identical; first uses increase). "
                "non-trivial = N with a give-up, duplicate or piggy-backed ack; A/X with live identifiers; P/C/Q in which at least one datagram was retransmitted",
        "samples": samples,
        "cases_by_kind": kinds,
        "honest_traces": honest_n,
        "retransmitted_groups_on_the_wire": retrans_groups,
        "runs_with_wire_order_inversion_of_counters(not a violation)": wire_inversions,
        "monitor_cases": n_mon,
        "monitor_violations": mon_viol,
        "disagreements_checked": len(diffs),
        "exhaustive": False,
    })
    c.finish(level="proof",
             trusted_base=["Coq 8.16.1 kernel (coqc; coqchk in thorough tier)", "no axioms (Closed under the global context)",
                           "extraction ExtrOcamlBasic + hand-written OCaml driver ocaml/c15/driver.ml",
                           "Rust harness harness/src/bin/c15.rs, harness/src/e2e.rs and hooks (cfg rs_matter_verif)",
                           "correspondence is differential testing; wire-tap cases run on the real clock"],
             assumptions=["nonce uniqueness needs the honesty hypothesis of C15_nonce_unique (application re-sends the same message while a retransmission is pending; peer half-duplex on the exchange); message builder idempotence is tested on the wire (byte-identical retransmissions of handshake and application messages), not proved for arbitrary handlers",
                          "counter exhaustion (2^32 - 2^28 messages on one session) is exhibited on the model only",
                          "AEAD nonce = (flags, counter, source node id): its injectivity in the counter is C03's"])
