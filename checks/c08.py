"""C08 — commissioning under the fail-safe is all-or-nothing."""
import os
import subprocess
from .common import Check, read_keyed, ROOT

KNOWN_CLASSES = ("partial-commit", "staged-change-orphaned-by-context-switch", "staged-change-stored-by-vid-statement")


def main(tier, replay=None):
    c = Check("C08", tier)
    if not c.coq_check():
        c.proof_broken_violation()
    driver = c.build_model()
    hbin = c.build_harness()
    rd = c.rundir
    cases = os.path.join(rd, "cases.txt")
    if replay:
        with open(cases, "w") as f:
            for l in open(replay):
                l = l.strip()
                if l.startswith("case: "):
                    l = l[6:]
                if l[:2] in ("S ", "H "):
                    f.write(l + "\n")
    else:
        with open(cases, "w") as f:
            n = 0
            cdir = os.path.join(ROOT, "corpus", "C08")
            if os.path.isdir(cdir):
                for fn in sorted(os.listdir(cdir)):
                    for l in open(os.path.join(cdir, fn)):
                        l = l.strip()
                        if l[:2] == "S ":
                            n += 1
                            p = l.split(" ")
                            p[1] = "c%d" % n
                            f.write(" ".join(p) + "\n")
        gdir = os.path.join(rd, "gen")
        subprocess.run([hbin, "gen", c.tier, str(c.seed), gdir], check=True)
        with open(cases, "a") as f:
            f.write(open(os.path.join(gdir, "cases.txt")).read())
    impl_out = c.run_sharded([hbin, "run"], cases, os.path.join(rd, "impl.out"))
    model_out = c.run_sharded([driver, "<"], cases, os.path.join(rd, "model.out"))
    impl = read_keyed(impl_out)
    model = read_keyed(model_out)
    case_by_key = {}
    for line in open(cases):
        line = line.rstrip("\n")
        if line:
            f = line.split(" ")
            case_by_key[f[0] + " " + f[1]] = line

    # --- correspondence: status of every operation and the full snapshot after it
    diffs = [k for k in case_by_key if not k.startswith("F ") and impl.get(k, "") != model.get(k, "")]
    f3 = [impl[k] for k in case_by_key if k.startswith("F ") and k in impl]

    # --- monitor: the extracted executable property on the implementation's own observations
    spec_in = os.path.join(rd, "spec.in")
    n_mon = 0
    with open(spec_in, "w") as f:
        for key, cl in case_by_key.items():
            if key.startswith("S ") and key in impl:
                f.write(cl + "\n" + impl[key] + "\n")
                n_mon += 1
    spec_out = c.run_sharded([driver, "<"], spec_in, os.path.join(rd, "spec.out"), argv_suffix=["spec"], shards=1)
    spec = read_keyed(spec_out)
    mon_viol, known_hits = 0, {}
    for key, cl in case_by_key.items():
        if not key.startswith("S "):
            continue
        il = impl.get(key, "")
        v = spec.get(key, key + " missing").split(" ")
        verdict = v[2] if len(v) > 2 else "missing"
        names = []
        if "hang" in il or "transport-exit" in il or "err:" in il:
            names.append("harness-run-incomplete")
        if verdict != "ok":
            names += sorted(set(verdict.split(",")))
        for name in names:
            if name in KNOWN_CLASSES:
                known_hits[name] = known_hits.get(name, 0) + 1
            else:
                mon_viol += 1
            c.violation(name, "\n".join([
                "property C08 fails on the implementation (real Matter node driven through the Interaction Model, "
                "fault-injecting key-value store): " + name,
                "case: " + cl,
                "implementation: " + il.replace(";", ";\n    "),
                "model         : " + model.get(key, "").replace(";", ";\n    "),
                "replay: bin/check C08 quick --replay <this file>"]))

    if diffs and not c.violations:
        lines = ["correspondence corr:C08 broke: model and implementation disagree on %d of %d cases;" % (len(diffs), len(case_by_key)),
                 "the monitor found no run on which the implementation violates C08.",
                 "theorems no longer tied to the code: " + ", ".join(c.coq["theorems"]), ""]
        for key in diffs[:8]:
            il, ml = impl.get(key, "").split(";"), model.get(key, "").split(";")
            step = next((i for i, (a, b) in enumerate(zip(il, ml)) if a != b), min(len(il), len(ml)))
            lines += ["case : " + case_by_key[key][:400], "first difference at operation %d" % step,
                      "impl : " + (il[step] if step < len(il) else "<missing>")[:400],
                      "model: " + (ml[step] if step < len(ml) else "<missing>")[:400], ""]
        c.violation("corr", "\n".join(lines), no_input=True)
    elif diffs:
        c.notes.append("correspondence differences: %d" % len(diffs))

    # --- evidence
    kinds, statuses, nt, n_ops = {}, {}, set(), 0
    for key, cl in case_by_key.items():
        f = cl.split(" ")
        if f[0] != "S" or len(f) < 4:
            continue
        ops = [o for o in f[3].split(",") if o]
        outs = model.get(key, "").split(" ", 2)
        outs = outs[2].split(";") if len(outs) > 2 else []
        hit = False
        for o, out in zip(ops, outs):
            n_ops += 1
            st = out.split("@")[0]
            kinds[o[0]] = kinds.get(o[0], 0) + 1
            statuses[o[0] + ":" + st] = statuses.get(o[0] + ":" + st, 0) + 1
            if (st == "ok" and o[0] in "CRNUWDLK") or st in ("cut1", "cut2"):
                hit = True
        if hit:
            nt.add(f[2] + " " + f[3])
    samples = []
    for key, cl in list(case_by_key.items())[:4]:
        samples.append({"case": cl[:300], "impl": impl.get(key, "")[:400], "model": model.get(key, "")[:400]})
    c.cov.update({
        "evaluations": n_ops,
        "case_lines": len(case_by_key),
        "distinct_nontrivial": len(nt),
        "rule": "one case = one operation sequence on a real device (Interaction Model invokes/writes over in-process sessions, "
                "MemKv with fault injection, restart = new Matter from the store or from a prefix of the operation log); "
                "evaluations = operations whose answer and full snapshot (fail-safe context, breadcrumb, window, PASE session, "
                "fabric table with ACLs, networks, decoded store contents) are compared with the model; "
                "non-trivial = distinct (initial state, sequence) in which the model accepts a credential/network/ACL command or a "
                "CommissioningComplete, or a power loss falls after a store of CommissioningComplete",
        "samples": samples,
        "ops_by_kind": kinds,
        "answers_by_op_and_class": statuses,
        "monitor_cases": n_mon,
        "monitor_violations": mon_viol,
        "known_class_hits": known_hits,
        "f3_probe_not_a_C08_clause": f3,
        "disagreements_checked": len(diffs),
        "exhaustive": False,
        "exhaustive_parts": "every sequence of length <= 4 (<= 5 in thorough) for the PASE/AddNOC profile and for the CASE/UpdateNOC profile "
                            "over a 7-command alphabet, each followed by one of 7 ways of ending the commissioning and a probe command",
    })
    c.finish(level="proof",
             trusted_base=["Coq 8.16.1 kernel (coqc; coqchk in thorough tier)", "no axioms (Closed under the global context)",
                           "extraction ExtrOcamlBasic + hand-written OCaml driver ocaml/c08/driver.ml (parses the implementation's snapshots for the monitor)",
                           "Rust harness harness/src/bin/c08.rs, harness/src/e2e.rs (in-process network, MemKv) and hooks (cfg rs_matter_verif): "
                           "FailSafe::verif_snapshot/verif_make_due, InteractionModel::verif_check_timeouts, session table access",
                           "correspondence is differential testing on the generated cases"],
             assumptions=["model Model/Failsafe.v: certificates and keys are tokens; the controller mints NOCs for the last CSR under the last accepted root "
                          "(chain/key checks of AddNOC/UpdateNOC pass whenever the flag checks pass); sessions are installed without handshake",
                          "key-value store: per-key atomic, a store may fail leaving the old value (KvBlobStore contract); loads never fail",
                          "known finding partial-commit: fabric and networks are two stores, a failure or power loss between them commits the fabric without the networks",
                          "known finding staged-change-orphaned-by-context-switch: AddNOC over CASE moves the fail-safe context away from the arming fabric, "
                          "whose staged (unpersisted) changes are then neither committed nor rolled back",
                          "known finding staged-change-stored-by-vid-statement: SetVIDVerificationStatement without a pending AddNOC/UpdateNOC stores the whole fabric, "
                          "staged ACL/label changes included",
                          "theorems exclude failing IMMEDIATE stores (ACL writes outside the fail-safe): persistence of those is C11's subject"])
