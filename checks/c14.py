"""C14 - a chunked answer carries the complete result exactly once."""
import json
import os
import re
import subprocess
from .common import Check, read_keyed, ROOT


def run_lines(binargv, lines, stdin=False, tag="x"):
    """Run case lines through a binary; returns {key: output line}."""
    if not lines:
        return {}
    try:
        if stdin:
            p = subprocess.run(binargv, input=("\n".join(lines) + "\n").encode(), stdout=subprocess.PIPE,
                               stderr=subprocess.PIPE, timeout=120)
        else:
            tmp = os.path.join(ROOT, ".build", "run", "c14", "one.%s.%d.txt" % (tag, os.getpid()))
            with open(tmp, "w") as f:
                f.write("\n".join(lines) + "\n")
            p = subprocess.run(binargv + [tmp], stdout=subprocess.PIPE, stderr=subprocess.PIPE, timeout=120)
            os.unlink(tmp)
        out = {}
        for l in p.stdout.decode("utf-8", "replace").split("\n"):
            f = l.split(" ")
            if len(f) >= 2 and f[0] == "R":
                out[f[0] + " " + f[1]] = l
        return out
    except Exception:
        return {}


def body(line):
    """output line without the 'R <id>' key"""
    return line.split(" ", 2)[2] if line.count(" ") >= 2 else ""


def spec_input(case_line, impl_line):
    return case_line + " || " + body(impl_line)


def fields(case_line):
    d = {}
    for kv in case_line.split(" ")[2:]:
        if "=" in kv:
            k, v = kv.split("=", 1)
            d[k] = v
    return d


def build_case(cid, d):
    order = ["k", "n", "q", "f", "e", "p", "m", "c", "e2", "ab", "lim", "tx", "rs"]
    return "R %s " % cid + " ".join("%s=%s" % (k, d[k]) for k in order if k in d)


def shrink(hbin, driver, case_line, names, budget=70):
    """Greedy reduction of a failing case: drop events, filters, paths, attributes, list elements
    while the extracted property still fails on the implementation's answer with one of `names`."""
    d = fields(case_line)

    def fails(dd):
        line = build_case("s0", dd)
        il = run_lines([hbin, "run"], [line], tag="shrink").get("R s0")
        if not il:
            return False
        sl = run_lines([driver, "spec"], [spec_input(line, il)], stdin=True).get("R s0", "")
        verdict = sl.split(" ")[2] if len(sl.split(" ")) > 2 else ""
        return any(n in verdict.split(",") for n in names)

    def candidates(dd):
        for key, sep in (("e2", ","), ("e", ","), ("f", ","), ("m", ","), ("c", ","), ("p", ","), ("q", ",")):
            if dd.get(key, "-") != "-":
                items = dd[key].split(sep)
                for i in range(len(items)):
                    rest = items[:i] + items[i + 1:]
                    if rest or key in ("e", "e2", "c", "f", "m"):
                        c = dict(dd)
                        c[key] = sep.join(rest) if rest else "-"
                        yield c
        clusters = dd.get("n", "").split(";")
        for ci, cl in enumerate(clusters):
            if len(clusters) > 1:
                c = dict(dd)
                c["n"] = ";".join(clusters[:ci] + clusters[ci + 1:])
                yield c
            head, attrs = cl.split(":", 1)
            al = attrs.split(",")
            for ai in range(len(al)):
                if len(al) > 1:
                    c = dict(dd)
                    c["n"] = ";".join(clusters[:ci] + [head + ":" + ",".join(al[:ai] + al[ai + 1:])] + clusters[ci + 1:])
                    yield c
                aid, sp = al[ai].split("=", 1)
                if sp.startswith("l") and "+" in sp:
                    els = sp[1:].split("+")
                    for ei in range(len(els)):
                        c = dict(dd)
                        na = aid + "=l" + "+".join(els[:ei] + els[ei + 1:])
                        c["n"] = ";".join(clusters[:ci] + [head + ":" + ",".join(al[:ai] + [na] + al[ai + 1:])] + clusters[ci + 1:])
                        yield c

    changed = True
    while changed and budget > 0:
        changed = False
        for cand in candidates(d):
            budget -= 1
            if budget <= 0:
                break
            if fails(cand):
                d, changed = cand, True
                break
    return build_case("s0", d)


SAMPLE = os.path.join(ROOT, "corpus", "C14", "extraction-sample.case")


def coq_tokens(txt):
    return " ".join(re.findall(r"[A-Za-z_]+|\d+|[()\[\];,=]", txt))


def extraction_sample(c, driver):
    """The fixed sample (corpus/C14/extraction-sample.case): every case is evaluated by coqc (Eval vm_compute of the
    model call on the Gallina term of the case) and by the extracted OCaml code; the printed values must be equal."""
    info = {"file": os.path.relpath(SAMPLE, ROOT), "cases": 0, "equal": 0}
    if not os.path.exists(SAMPLE):
        c.violation("extraction-sample", "the extraction sample %s is missing" % SAMPLE, no_input=True)
        return info
    lines = []
    for l in open(SAMPLE):
        l = l.strip()
        if l.startswith("case: "):
            l = l[6:]
        if l.startswith("R ") and " k=" in l:
            f = l.split(" ")
            f[1] = "x%d" % len(lines)
            lines.append(" ".join(f))
    info["cases"] = len(lines)
    inp = ("\n".join(lines) + "\n").encode()
    vfile = os.path.join(c.rundir, "ExtractionSample.v")
    p = subprocess.run([driver, "coq"], input=inp, stdout=subprocess.PIPE, stderr=subprocess.PIPE, timeout=120)
    with open(vfile, "wb") as f:
        f.write(p.stdout)
    q = subprocess.run(["coqc", "-Q", os.path.join(ROOT, "coq", "theories"), "RsM", "-o",
                        os.path.join(c.rundir, "ExtractionSample.vo"), vfile],
                       stdout=subprocess.PIPE, stderr=subprocess.STDOUT, timeout=900)
    out = q.stdout.decode("utf-8", "replace")
    # one "= value : type" block per Eval
    got = [coq_tokens("= " + b.split("\n     : ")[0]) for b in re.split(r"(?m)^\s+= ", out)[1:]]
    e = subprocess.run([driver, "expect"], input=inp, stdout=subprocess.PIPE, stderr=subprocess.PIPE, timeout=120)
    want = [coq_tokens(l.split(" ", 1)[1]) for l in e.stdout.decode().split("\n") if l.strip()]
    bad = []
    if q.returncode != 0 or len(got) != len(lines) or len(want) != len(lines):
        bad.append("coqc rc=%d, %d values from coqc, %d from the extracted code, %d cases\n%s" % (
            q.returncode, len(got), len(want), len(lines), out[-1500:]))
    else:
        for i, (a, b) in enumerate(zip(got, want)):
            if a == b:
                info["equal"] += 1
            elif len(bad) < 3:
                bad.append("case: %s\ncoqc (vm_compute): %s\nextracted OCaml  : %s" % (lines[i], a[:1500], b[:1500]))
    if bad:
        c.violation("extraction", "extraction sanity sample: the extracted OCaml code and Coq's own evaluation of the same model "
                    "calls disagree (or the sample could not be evaluated); the model driver is not the model that was proved.\n"
                    + "\n\n".join(bad), no_input=True)
    return info


def main(tier, replay=None):
    c = Check("C14", tier)
    if not c.coq_check():
        c.proof_broken_violation()
    driver = c.build_model()
    hbin = c.build_harness()
    rd = c.rundir
    extraction = extraction_sample(c, driver)
    cases = os.path.join(rd, "cases.txt")
    stats = {}
    if replay:
        with open(cases, "w") as f:
            for l in open(replay):
                l = l.strip()
                if l.startswith("case: "):
                    l = l[6:]
                if l.startswith("R ") and " || " not in l and " k=" in l:
                    f.write(l + "\n")
    else:
        subprocess.run([hbin, "gen", c.tier, str(c.seed), rd], check=True)
        stats = json.load(open(os.path.join(rd, "stats.json")))
        corp = os.path.join(ROOT, "corpus", "C14")
        extra = []
        if os.path.isdir(corp):
            for fn in sorted(os.listdir(corp)):
                for l in open(os.path.join(corp, fn)).read().split("\n"):
                    l = l.strip()
                    if l.startswith("case: "):
                        l = l[6:]
                    if l.startswith("R ") and " k=" in l:
                        f2 = l.split(" ")
                        f2[1] = "c%d" % len(extra)
                        extra.append(" ".join(f2))
        if extra:
            bodytxt = open(cases).read()
            with open(cases, "w") as f:
                f.write("\n".join(extra) + "\n" + bodytxt)
    try:
        impl_out = c.run_sharded([hbin, "run"], cases, os.path.join(rd, "impl.out"))
    except RuntimeError as e:
        c.violation("harness-run", "the correspondence harness for C14 failed while running the real code "
                    "(panic or API change); no theorem of Props/C14.v is tied to this code.\n%s" % e, no_input=True)
        c.finish_early()
    model_out = c.run_sharded([driver, "<"], cases, os.path.join(rd, "model.out"))
    impl = read_keyed(impl_out)
    model = read_keyed(model_out)
    case_by_key = {}
    for line in open(cases):
        line = line.rstrip("\n")
        if line:
            f = line.split(" ")
            case_by_key[f[0] + " " + f[1]] = line

    # the cases run on the real clock (two nodes, MRP timers): a disagreement is re-run before it counts
    reruns_agreed = 0
    differing = [key for key in case_by_key if impl.get(key) != model.get(key)]
    for key in (differing if len(differing) <= 12 else []):
        cl = case_by_key[key]
        if True:
            for _ in range(2):
                again = run_lines([hbin, "run"], [cl], tag="rerun").get(key)
                if again is not None and again == model.get(key):
                    impl[key] = again
                    reruns_agreed += 1
                    break

    # --- monitor: the extracted property on the implementation's own chunks
    spec_in = os.path.join(rd, "spec.in")
    with open(spec_in, "w") as f:
        for key, cl in case_by_key.items():
            if key in impl:
                f.write(spec_input(cl, impl[key]) + "\n")
    spec_out = c.run_sharded([driver, "<"], spec_in, os.path.join(rd, "spec.out"), argv_suffix=["spec"])
    spec = read_keyed(spec_out)
    mon_viol = 0
    reported = {}
    n_mon = 0
    for key, cl in case_by_key.items():
        il = impl.get(key)
        if il is None:
            continue
        sl = spec.get(key, key + " missing")
        verdict = sl.split(" ")[2] if len(sl.split(" ")) > 2 else "missing"
        n_mon += 1
        if verdict == "ok":
            continue
        mon_viol += 1
        names = verdict.split(",")
        name = names[0]
        base = name.split(":")[0]
        if reported.get(base, 0) >= 2:
            continue
        reported[base] = reported.get(base, 0) + 1
        if sum(reported.values()) > 4:
            continue
        # a case without an answer costs the hang timer each time it is tried: shrink those only a little
        slow = any(n.startswith("no-answer") for n in names) or (" k=u " in cl and " ab=x" in cl)
        small = shrink(hbin, driver, cl, names, budget=(10 if slow else 70))
        i1 = run_lines([hbin, "run"], [small], tag="rep").get("R s0", "")
        m1 = run_lines([driver], [small], stdin=True).get("R s0", "")
        s1 = run_lines([driver, "spec"], [spec_input(small, i1)], stdin=True).get("R s0", "")
        c.violation(name, "\n".join([
            "property C14 fails on the implementation (two real nodes, in-memory network): the extracted property "
            "(Model/ChunkSpec.v c14_holds / c14_partial) is false on the chunks the responder sent: " + verdict,
            "case: " + small,
            "  (k = r read|s subscribe|u subscription report after the changes c and the events e2; n = clusters "
            "ep.cluster.dataver:attr=s<len>|l<len>+<len>..; q = attribute paths; f = data-version filters; "
            "e = events ep.cluster.event.prio.len.timestamp; p = event paths; m = event_min; ab = f<k> the peer answers chunk k "
            "with a failure status | x<k> the peer is silent after chunk k; 'next' = the interaction after an abort; "
            "subs = subscriptions left on the device)",
            "implementation: " + i1,
            "model         : " + m1,
            "property      : " + s1,
            "  (chunk = payload bytes:flags:attribute reports:event reports; v whole value, k empty-list marker, "
            "x appended element, t status, n event; flags i subscription id, a/e arrays, m MoreChunkedMessages, s SuppressResponse)",
            "original case : " + cl[:600],
            "replay: bin/check C14 quick --replay <this file>"]))

    # --- correspondence
    diffs = [key for key in case_by_key if impl.get(key) != model.get(key)]
    if diffs and not c.violations:
        lines = ["correspondence corr:C14 broke: model (Model/Chunk.v) and implementation disagree on %d of %d cases;" % (
                     len(diffs), len(case_by_key)),
                 "the monitor found no answer on which the implementation violates C14 (all values arrive exactly once, "
                 "chunks well-formed and within the buffer, only the last one ends) - chunk boundaries or sizes moved.",
                 "theorems no longer tied to the code: " + ", ".join(c.coq["theorems"]), ""]
        for key in diffs[:6]:
            lines += ["case : " + case_by_key[key][:1200], "impl : " + str(impl.get(key))[:1500],
                      "model: " + str(model.get(key))[:1500], ""]
        c.violation("corr", "\n".join(lines), no_input=True)
    elif diffs:
        c.notes.append("correspondence differences: %d" % len(diffs))

    # --- evidence
    nt = set()
    outcomes, nchunks, kinds, kinds_k, aborts = {}, {}, {}, {}, {}
    atoms = {"v": 0, "k": 0, "x": 0, "t": 0, "n": 0, "u": 0}
    max_chunk = 0
    full_chunks = 0
    tx = int(stats.get("tx", 0) or 0)
    for key, cl in case_by_key.items():
        ml = model.get(key, "")
        f = ml.split(" ")
        o = f[2] if len(f) > 2 else "?"
        outcomes[o] = outcomes.get(o, 0) + 1
        k = f[3] if len(f) > 3 else "n=?"
        nchunks[k] = nchunks.get(k, 0) + 1
        st = cl.split(" ")[1][0]
        kinds[st] = kinds.get(st, 0) + 1
        n = int(k[2:]) if k[2:].isdigit() else 0
        if n >= 2 or o != "done":
            nt.add(" ".join(cl.split(" ")[2:]))
        il = impl.get(key, "")
        kind = fields(cl).get("k", "r")
        kinds_k[kind] = kinds_k.get(kind, 0) + 1
        ab = fields(cl).get("ab", "-")
        if ab != "-":
            what = ("refuses" if ab[0] == "f" else "silent") + (" (took effect)" if o == "aborted" else " (answer was shorter)")
            aborts[what] = aborts.get(what, 0) + 1
            if " next done" in il:
                aborts["next interaction complete"] = aborts.get("next interaction complete", 0) + 1
        # every chunk list on the line: the measured interaction and, if present, the next one
        lists = [seg.strip().split(" ")[0] for seg in il.split(" | ")[1:]]
        for ch in [x for l in lists for x in l.split(";")]:
            parts = ch.strip().split(":")
            if len(parts) == 4 and parts[0].isdigit():
                size = int(parts[0])
                max_chunk = max(max_chunk, size)
                if tx and size >= tx - 24 - 3:
                    full_chunks += 1
                for a in (parts[2] + "," + parts[3]).split(","):
                    if a and a[0] in atoms:
                        atoms[a[0]] += 1
    samples, seen = [], {}
    for key, cl in case_by_key.items():
        st = cl.split(" ")[1][0]
        if seen.get(st, 0) < 1:
            seen[st] = seen.get(st, 0) + 1
            samples.append({"case": cl[:400], "impl": impl.get(key, "")[:400], "model": model.get(key, "")[:400],
                            "property": spec.get(key, "")[:100]})
    c.cov.update({
        "evaluations": len(case_by_key),
        "distinct_nontrivial": len(nt),
        "rule": "one case = one synthetic node (clusters of octet-string attributes and lists, event queue) + one read or "
                "subscribe request (k=r, k=s) or one subscription report (k=u: subscribe, prime, notify changed attributes and "
                "emit events, take the report the device's reporter sends on its own), answered by the crate's InteractionModel "
                "on a real Matter instance and fetched by a second one over the in-memory network, optionally with a peer that "
                "answers chunk k with a failure status or falls silent after it (then also the next interaction: the same request "
                "again, or the reporter's retry once the peer is back); every chunk is re-parsed as stand-alone TLV (independent "
                "walker + the crate's own parser), decoded, and the chunk lists (sizes, flags, reports in order), the number of "
                "subscriptions left and the next interaction are compared with the model's; non-trivial = distinct case (id removed) "
                "whose model answer has at least two chunks or does not end with 'done'",
        "samples": samples,
        "generator_distribution": stats,
        "cases_by_stream": kinds,
        "cases_by_kind": kinds_k,
        "peer_aborts": aborts,
        "extraction_sample": extraction,
        "model_outcomes": outcomes,
        "chunks_per_answer": dict(sorted(nchunks.items(), key=lambda kv: int(kv[0][2:]) if kv[0][2:].isdigit() else -1)),
        "reports_seen_by_kind": atoms,
        "largest_chunk_payload": max_chunk,
        "chunks_within_3_bytes_of_the_limit": full_chunks,
        "monitor_cases": n_mon,
        "monitor_violations": mon_viol,
        "disagreements_checked": len(diffs),
        "e2e_reruns_that_agreed": reruns_agreed,
        "exhaustive": False,
        "exhaustive_parts": "single value swept -8..+4 bytes around 'fits an empty message' (read/subscribe x with/without event request); "
                            "second value ending -6..+6 bytes around the end of the first message for 4 first sizes; whole list "
                            "-4..+4 around 'fits the rest of the message' for 1/2/5 elements; streamed element and event ending -3..+3 / -5..+5 "
                            "around the end of a message",
    })
    c.finish(level="proof",
             trusted_base=["Coq 8.16.1 kernel (coqc; coqchk in thorough tier)", "no axioms (Closed under the global context)",
                           "extraction ExtrOcamlBasic + hand-written OCaml driver ocaml/c14/driver.ml, ocaml/common/util.ml",
                           "Rust harness harness/src/bin/c14.rs (synthetic data model, request encoder, stand-alone TLV walker and "
                           "chunk decoder, scripted peer) and harness/src/e2e.rs; hooks Events::verif_push_at, Subscriptions::"
                           "verif_fabric_view / verif_report_slot_free (cfg rs_matter_verif)",
                           "extraction: the 200-case sample corpus/C14/extraction-sample.case is evaluated by coqc (vm_compute) and by the "
                           "extracted code in every run and must print the same values",
                           "the sizes of the TLV encodings (Model/Chunk.v attr_data_size, event_report_size ...) are part of the model and are "
                           "checked only through the chunk sizes compared on every case",
                           "correspondence is differential testing on the generated cases"],
             assumptions=["the transmit buffer size is a compile-time constant (1178 bytes, reserve 24): the boundary arithmetic is exercised "
                          "by varying value sizes, which is equivalent for it; the theorems hold for every buffer size with reserve >= 10",
                          "a peer either answers a chunk with Success, or with another status, or not at all (no acknowledgement either); "
                          "a peer that acknowledges but never answers is not modelled",
                          "after silence in a report the harness gives both nodes a fresh session (the device marks the old one expired and "
                          "would establish a new CASE session, which the harness cannot do)",
                          "event numbers increase along the queue (what im/events.rs maintains); no event is emitted or evicted during the answer",
                          "attribute handlers follow the crate's convention: ReadReply::with_dataver first, ConstraintError for an index past the end",
                          "model = Model/Chunk.v hand-transcribed from im.rs (repaired), tied to the code only by the correspondence run"])
