"""C20 — unfinished or hostile handshakes cannot leak or exhaust node resources for good."""
import hashlib
import json
import os
import re
import subprocess
from concurrent.futures import ThreadPoolExecutor

from .common import BUILD, HARNESS, TARGET, Check, read_keyed, sh

KINDS = ("D ", "V ", "W ", "E ")


def cmp_part(line):
    """the part model and implementation must agree on (everything before ' | '); for e2e lines the
    marker is compared as live / not live and the probe as ok / not ok"""
    part = line.split(" | ")[0].rstrip()
    if part.startswith("E "):
        f = []
        for t in part.split(" "):
            if t == "marker=expired":
                t = "marker=none"
            if t.startswith("probe=") and t != "probe=ok":
                t = "probe=fail"
            f.append(t)
        part = " ".join(f)
    return part


KNOWN_BUILTIN = [
    # (name regex, text) -- declared here until listed in known_findings.txt
    (r"probe-failed-one-reclaimable-slot",
     "a responder-side handshake needs two session slots (unsecured session + reserved slot): with exactly one "
     "reclaimable slot (free or idle) the first message is answered Busy and the idle session evicted, the retry is "
     "accepted and the handler's reserve fails; the handshake cannot complete (theorem C20_handshake_gets_both_slots "
     "is stated for two reclaimable slots)"),
]


def build_s3(c):
    """Second harness profile: the same harness against rs-matter with the crate feature
    `max-sessions-3` (smallest session table). A derived manifest is generated under .build;
    its own target directory sits next to the main one."""
    tag = hashlib.md5(HARNESS.encode()).hexdigest()[:8]
    d = os.path.join(BUILD, "c20-s3-" + tag)
    os.makedirs(os.path.join(d, ".cargo"), exist_ok=True)
    toml = open(os.path.join(HARNESS, "Cargo.toml")).read()
    toml2 = re.sub(r'(rs-matter = \{[^}]*features = \[)', r'\1"max-sessions-3", ', toml, count=1)
    if toml2 == toml:
        raise RuntimeError("cannot add the max-sessions-3 feature to the harness manifest")
    target = TARGET + "-s3"

    def put(path, text):
        if not os.path.exists(path) or open(path).read() != text:
            with open(path, "w") as f:
                f.write(text)

    put(os.path.join(d, "Cargo.toml"), toml2)
    put(os.path.join(d, "Cargo.lock"), open(os.path.join(HARNESS, "Cargo.lock")).read())
    put(os.path.join(d, ".cargo", "config.toml"),
        '[net]\noffline = true\n\n[build]\nrustflags = ["--cfg", "rs_matter_verif"]\ntarget-dir = "%s"\n' % target)
    src = os.path.join(d, "src")
    real = os.path.realpath(os.path.join(HARNESS, "src"))
    if os.path.islink(src) and os.readlink(src) != real:
        os.unlink(src)
    if not os.path.exists(src):
        os.symlink(real, src)
    rc, out = sh(["cargo", "build", "--offline", "--bin", "c20"], cwd=d, timeout=3000)
    if rc != 0:
        return None, out
    return os.path.join(target, "debug", "c20"), ""


def describe(cl):
    f = cl.split(" ")
    if f[0] == "D":
        return "direct operation sequence on Sessions / ReservedSession / Exchange (table of %s)" % f[2][2:]
    if f[0] in ("V", "W"):
        return "mDNS %s rendezvous, requesters polled by hand against a fake responder" % ("resolve" if f[0] == "V" else "browse")
    return "end to end: real initiators against one real device over the in-memory network, then snapshot and probe handshake (table of %s)" % f[2][2:]


def main(tier, replay=None):
    c = Check("C20", tier)
    for rx, text in KNOWN_BUILTIN:
        if not any(k["match"](rx, "") for k in c.known):
            c.known.append({"text": text, "match": (lambda name, t, rx=re.compile(rx): bool(rx.fullmatch(name)))})
    if not c.coq_check():
        c.proof_broken_violation()
    driver = c.build_model()
    with ThreadPoolExecutor(max_workers=2) as ex:
        f3 = ex.submit(build_s3, c)
        hbin = c.build_harness()
        hbin3, err3 = f3.result()
    if hbin3 is None:
        c.violation("harness-build-s3", "the second harness profile (rs-matter feature max-sessions-3) cannot be built; "
                    "the smallest-table half of the C20 correspondence is not tied to this code.\n" + err3[-4000:], no_input=True)
    rd = c.rundir
    cases = os.path.join(rd, "cases.txt")
    stats = {}
    if replay:
        with open(cases, "w") as f:
            for l in open(replay):
                l = l.strip()
                if l.startswith("case: "):
                    l = l[6:]
                if l[:2] in KINDS:
                    f.write(l + "\n")
    else:
        subprocess.run([hbin, "gen", c.tier, str(c.seed), rd], check=True)
        stats = json.load(open(os.path.join(rd, "stats.json")))
        corp = os.path.join(os.path.dirname(os.path.dirname(os.path.abspath(__file__))), "corpus", "C20")
        extra = []
        if os.path.isdir(corp):
            for fn in sorted(os.listdir(corp)):
                extra += [l for l in open(os.path.join(corp, fn)).read().split("\n") if l[:2] in KINDS]
        if extra:
            body = open(cases).read()
            with open(cases, "w") as f:
                f.write("\n".join(extra) + "\n" + body)

    # the e2e cases are slow (real clock): put them first so the round-robin sharding spreads them
    lines = [l for l in open(cases).read().split("\n") if l]
    lines.sort(key=lambda l: 0 if l.startswith("E ") else 1)
    with open(cases, "w") as f:
        f.write("\n".join(lines) + "\n")

    outs = [c.run_sharded([hbin, "run"], cases, os.path.join(rd, "impl16.out"))]
    if hbin3:
        outs.append(c.run_sharded([hbin3, "run"], cases, os.path.join(rd, "impl3.out")))
    impl_out = os.path.join(rd, "impl.out")
    with open(impl_out, "w") as f:
        for o in outs:
            f.write(open(o).read())
    model_out = c.run_sharded([driver, "<"], cases, os.path.join(rd, "model.out"))
    impl = read_keyed(impl_out)
    model = read_keyed(model_out)
    case_by_key = {}
    for line in lines:
        f = line.split(" ")
        case_by_key[f[0] + " " + f[1]] = line
    expected = {k for k, cl in case_by_key.items() if hbin3 or cl.split(" ")[2] != "n=3"}

    def rerun(key):
        """e2e cases run on the real clock: re-run a suspicious case to rule out a scheduling stall"""
        p = os.path.join(rd, "rerun.txt")
        with open(p, "w") as f:
            f.write(case_by_key[key] + "\n")
        b = hbin3 if case_by_key[key].split(" ")[2] == "n=3" else hbin
        out = subprocess.run([b, "run", p], stdout=subprocess.PIPE).stdout.decode()
        for l in out.split("\n"):
            if l.startswith(key + " "):
                return l
        return ""

    # --- monitor: the extracted clauses on the implementation's own outputs
    def monitor(keys):
        spec_in = os.path.join(rd, "spec.in")
        with open(spec_in, "w") as f:
            for key in keys:
                if key in impl:
                    f.write(impl[key] + "\n")
        spec_out = c.run_sharded([driver, "<"], spec_in, os.path.join(rd, "spec.out"), argv_suffix=["spec"], shards=1)
        return read_keyed(spec_out)

    def verdict_of(spec, key):
        f = spec.get(key, "").split(" ")
        return f[2] if len(f) > 2 and f[2] else "unreadable-output"

    spec = monitor(sorted(expected))
    reruns = 0
    for key in sorted(expected):
        if key.startswith("E ") and (key not in impl or verdict_of(spec, key) not in ("ok", "probe-failed-one-reclaimable-slot")):
            # a real-clock case: believe a failure only if it repeats
            again = rerun(key)
            reruns += 1
            if again:
                impl[key] = again
    spec = monitor(sorted(expected))
    mon_viol = []
    for key in sorted(expected, key=lambda k: len(case_by_key[k])):
        if key not in impl:
            mon_viol.append((key, ["no-output"]))
            continue
        v = verdict_of(spec, key)
        if v != "ok":
            mon_viol.append((key, v.split(",")))
    shown = {}
    for key, names in mon_viol:
        for name in names:
            if any(k["match"](name, "") for k in c.known):
                if shown.get(name, 0) >= 1:
                    continue          # a known finding: reported once, never counted
            elif shown.get(name, 0) >= 2:
                c.violation_count = getattr(c, "violation_count", 0) + 1
                continue
            shown[name] = shown.get(name, 0) + 1
            what = {
                "panic": "the implementation panicked",
                "reserved-without-handle": "a slot stays reserved although no live ReservedSession handle owns it (or a live handle's slot lost its reserved flag)",
                "evicted-busy-session": "get_session_for_eviction chose a session that is reserved or carries an exchange",
                "rendezvous-not-released": "the mDNS rendezvous slot is still occupied after every requester finished, timed out or was cancelled",
                "not-clean-after-quiescence": "after traffic stopped and the time-outs ran, a reserved slot / an exchange slot / a live PASE in-progress marker / an occupied rendezvous slot remains",
                "probe-handshake-failed": "a legitimate handshake after the disturbance does not succeed although two slots were reclaimable",
                "probe-failed-one-reclaimable-slot": "a legitimate handshake does not succeed with exactly one reclaimable session slot",
                "no-output": "the implementation produced no result line (crash or hang of the harness process)",
                "no-result": "the implementation run ended without a snapshot (panic or hang)",
                "rx-buffer-never-freed": "after traffic stopped and the time-outs ran, the single RX buffer still holds a message nobody will fetch: nothing is received any more (no Busy answers, no evictions, no handshakes)",
                "unreadable-output": "the implementation's output line for this case cannot be read (panic, hang or truncated output)",
                "dropped-exchange-never-swept": "after the dropped-exchange sweeper ran until it found nothing to do, an exchange slot is still in the Dropped state: the slot, and with it its session (a session with an exchange is never evicted), is lost for good",
            }.get(name, name)
            c.violation(name, "\n".join([
                "property C20 fails on the implementation: " + what,
                "(" + describe(case_by_key[key]) + ")",
                "case: " + case_by_key[key][:6000],
                "implementation output: " + impl.get(key, "(none)")[:6000],
                "model prediction      : " + model.get(key, "")[:6000],
                "replay: bin/check C20 quick --replay <this file>"]))

    # --- correspondence
    diffs = []
    for key in sorted(expected):
        il, ml = impl.get(key, ""), model.get(key, "")
        if cmp_part(il) != cmp_part(ml):
            diffs.append(key)
    if diffs and not c.violations:
        diffs.sort(key=lambda k: len(case_by_key[k]))
        out = ["correspondence corr:C20 broke: model and implementation disagree on %d of %d cases;" % (len(diffs), len(expected)),
               "the monitors (extracted clauses) found no run on which the implementation violates C20.",
               "theorems no longer tied to the code: " + ", ".join(c.coq["theorems"]), ""]
        for key in diffs[:6]:
            it = cmp_part(impl.get(key, "")).split(" ")[2:]
            mt = cmp_part(model.get(key, "")).split(" ")[2:]
            j = next((k for k in range(min(len(it), len(mt))) if it[k] != mt[k]), min(len(it), len(mt)))
            cl = case_by_key[key]
            ops = (cl.split(" ")[3].split(",") + ["(final sweeps)"]) if cl[0] in "DVW" and len(cl.split(" ")) > 3 else []
            out += ["case : " + cl[:3000],
                    "first difference at step %d (op %s)" % (j, ops[j] if j < len(ops) else "-"),
                    "impl : " + (it[j][:400] if j < len(it) else impl.get(key, "")[-300:]),
                    "model: " + (mt[j][:400] if j < len(mt) else model.get(key, "")[-300:]), ""]
        c.violation("corr", "\n".join(out), no_input=True)
    elif diffs:
        c.notes.append("correspondence differences: %d" % len(diffs))

    # --- evidence
    kinds = {}
    nt = set()
    ops_total = 0
    for key in expected:
        cl = case_by_key[key]
        f = cl.split(" ")
        kinds[f[0] + "/" + f[2]] = kinds.get(f[0] + "/" + f[2], 0) + 1
        ml = model.get(key, "")
        if f[0] == "D":
            ops_total += len(f[3].split(",")) if len(f) > 3 else 0
            if "nospace" in ml or "ev=0" in ml or "R];" in ml or "A];" in ml or "noexch" in ml:
                nt.add(cl.split(" ", 2)[2])
        elif f[0] in ("V", "W"):
            ops_total += len(f[3].split(",")) if len(f) > 3 else 0
            if "nf>" in ml or "ok>" in ml:
                nt.add(cl.split(" ", 2)[2])
        else:
            nt.add(cl.split(" ", 2)[2])
    samples, seen = [], {}
    for key in sorted(expected):
        cl = case_by_key[key]
        k = cl[0]
        if seen.get(k, 0) < 2:
            seen[k] = seen.get(k, 0) + 1
            samples.append({"case": cl[:300], "impl": impl.get(key, "")[:300], "model": model.get(key, "")[:300]})
    c.cov.update({
        "evaluations": len(expected),
        "operations": ops_total,
        "distinct_nontrivial": len(nt),
        "rule": "D = op sequence on the real Sessions / ReservedSession / Exchange objects (table, stamps, flags and exchange slots compared "
                "with the extracted model after every operation, in Vec order), V / W = resolve / browse rendezvous with requesters polled "
                "by hand and dropped, E = real initiators (stop after a handshake message, garbage, junk first messages, concurrent retries) "
                "against a real device on the real clock, then table snapshot and a probe handshake; n=16 cases run on the default build, n=3 on "
                "a second build with the crate feature max-sessions-3. non-trivial = distinct D case whose model run refuses an add/reserve, "
                "evicts, leaves a dropped exchange or runs out of exchange slots; V/W case in which a requester finishes or times out; every E case",
        "samples": samples,
        "cases_by_kind": kinds,
        "generator_stats": stats,
        "second_profile_built": bool(hbin3),
        "monitor_cases": len(spec),
        "monitor_violations": len(mon_viol),
        "disagreements_checked": len(diffs),
        "e2e_reruns": reruns,
        "exhaustive": False,
    })
    c.finish(level="proof",
             trusted_base=["Coq 8.16.1 kernel (coqc; coqchk in thorough tier)", "no axioms (Closed under the global context)",
                           "extraction ExtrOcamlBasic + hand-written OCaml driver ocaml/c20/driver.ml (incl. the translation of an e2e scenario "
                           "into node operations and of the harness's sleep-then-poll into RTimeout/RPoll), ocaml/common/util.ml",
                           "Rust harness harness/src/bin/c20.rs, harness/src/e2e.rs and hooks (cfg rs_matter_verif): PASE marker view/ageing, "
                           "last_use/expired setters, reserved-slot id, rendezvous state + resolve entry, one sweeper round, one datagram through the receive path",
                           "correspondence is differential testing on the generated cases; e2e cases run on the real clock (MRP base 40 ms)"],
             assumptions=["fairness: the transport task is polled (dropped-exchange sweeper, accept time-out) and timers fire; proved are enabledness of the sweeper step and its termination measure",
                          "the unique-id cursor (28 bits) does not wrap within a run: theorems are stated for runs of fewer than 2^27 (layer 1) / 2^25 (node) operations",
                          "cancellation happens at await points only; each region between awaits under Matter::with_state is one atomic step",
                          "Model/Slots.v is hand-transcribed from session.rs / transport.rs / exchange.rs / sc/pase/responder.rs / sc/case/responder.rs (as repaired on verif-c20); "
                          "tied to the code only by the correspondence run",
                          "the application's exchanges on established sessions are a hypothesis of the quiescence theorem (app_closed); which sessions belong to a fabric is outside the model (remove_for_fabric over an arbitrary id set)",
                          "known finding probe-failed-one-reclaimable-slot: a responder-side handshake needs two session slots; C20_handshake_gets_both_slots is stated for two reclaimable slots"])
