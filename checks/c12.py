"""C12 — durable counters never hand out the same value twice, across restarts too."""
import json
import os
import subprocess
from .common import Check, read_keyed, ROOT

KINDS = ("G", "g", "X", "x", "E", "e", "K", "k", "GW", "EW", "KW")
WHAT = {
    "G": "global group data counter (Sessions reserve/unreserve/resume through the hooks; the harness replays initiate_group op by op)",
    "X": "global group data counter through the real Exchange::initiate_group with a scripted KV",
    "E": "event numbers through Events::push with a scripted KV",
    "K": "check-in counter through the Icd API (obedient application)",
}


def events_of(line):
    """events field of an output line"""
    f = line.split(" ")
    i = 4 if f[0] in ("K", "k") else 2
    return f[i].split(",") if len(f) > i and f[i] not in ("", "|") else []


def nontrivial(out_line):
    evs = events_of(out_line)
    has_y = any(e.startswith("y") for e in evs)
    has_other = any(e[0] in "pfb" for e in evs)
    return has_y and has_other


def explain(kind, impl_line):
    """first duplicate / first uncovered yield of a trace, for the replay text"""
    evs = events_of(impl_line)
    seen = {}
    notes = []
    for i, e in enumerate(evs):
        if e.startswith("y"):
            v, kv = e[1:].split("@")
            if v in seen and len(notes) < 3:
                notes.append("value %s handed out at step %d and again at step %d" % (v, seen[v], i))
            seen.setdefault(v, i)
    return notes


def main(tier, replay=None):
    c = Check("C12", tier)
    coq_ok = c.coq_check()
    if not coq_ok:
        c.proof_broken_violation()
    driver = c.build_model()
    hbin = c.build_harness()
    rd = c.rundir
    cases = os.path.join(rd, "cases.txt")
    if replay:
        stats = {}
        # a replay file written by this check marks its inputs with "case: " (the trace lines
        # below them look like cases but are outputs); a plain case file (corpus) has none
        rl = [l.strip() for l in open(replay)]
        marked = [l[6:] for l in rl if l.startswith("case: ")]
        with open(cases, "w") as f:
            for l in (marked if marked else rl):
                if l.split(" ")[0] in KINDS:
                    f.write(l + "\n")
    else:
        subprocess.run([hbin, "gen", c.tier, str(c.seed), rd], check=True)
        stats = json.load(open(os.path.join(rd, "stats.json")))
        corp = os.path.join(ROOT, "corpus", "C12")
        extra = []
        if os.path.isdir(corp):
            for fn in sorted(os.listdir(corp)):
                extra += [l for l in open(os.path.join(corp, fn)).read().split("\n") if l and not l.startswith("#")]
        if extra:
            body = open(cases).read()
            with open(cases, "w") as f:
                f.write("\n".join(extra) + "\n" + body)
    impl_out = c.run_sharded([hbin, "run"], cases, os.path.join(rd, "impl.out"))
    model_out = c.run_sharded([driver, "<"], cases, os.path.join(rd, "model.out"))
    impl = read_keyed(impl_out)
    model = read_keyed(model_out)
    case_by_key = {}
    for line in open(cases):
        line = line.rstrip("\n")
        if line:
            f = line.split(" ")
            case_by_key[f[0] + " " + f[1]] = line

    # --- a case on which the code under test (or the harness around it) panicked / failed an unwrap:
    #     the harness prints "<kind> <id> !panic <message>" for it instead of a trace
    panicked = [key for key in case_by_key if len(impl.get(key, "").split(" ")) > 2 and impl[key].split(" ")[2] == "!panic"]
    for key in sorted(panicked, key=lambda k: len(case_by_key[k]))[:2]:
        c.violation("impl-panic", "\n".join([
            "the implementation (or the harness driving it) panicked on this C12 schedule; the model answers it:",
            "case: " + case_by_key[key][:4000],
            "implementation: " + impl[key],
            "model trace   : " + str(model.get(key))[:4000],
            "replay: bin/check C12 quick --replay <this file>"]))

    # --- monitor: the extracted executable property on the implementation's own traces
    spec_in = os.path.join(rd, "spec.in")
    n_mon = 0
    with open(spec_in, "w") as f:
        for key in case_by_key:
            if key[0] in "GXEK" and key[1] == " " and key in impl and key not in panicked:
                # check-in: the one-lap hypothesis is about the schedule, so the ops go along
                tail = " # " + case_by_key[key].split(" ")[5] if key[0] == "K" else ""
                f.write(impl[key] + tail + "\n")
                n_mon += 1
    spec = {}
    if n_mon:
        spec_out = c.run_sharded([driver, "<"], spec_in, os.path.join(rd, "spec.out"), argv_suffix=["spec"])
        spec = read_keyed(spec_out)
    mon_viol, mon_checked, mon_skipped, mon_lap, mon_unparsed = 0, 0, 0, 0, 0
    by_len = sorted(spec.items(), key=lambda kv: len(case_by_key.get(kv[0], "")))
    reported = {}
    for key, sl in by_len:
        verdict = sl.split(" ")[2]
        if verdict == "-":
            mon_skipped += 1
            continue
        if verdict == "lap":
            mon_lap += 1
            continue
        if verdict == "?":
            mon_unparsed += 1
            continue
        mon_checked += 1
        if verdict != "1":
            mon_viol += 1
            kind = key[0]
            if reported.get(kind, 0) < 2:
                reported[kind] = reported.get(kind, 0) + 1
                il = impl[key]
                lines = ["property C12 fails on the implementation: %s" % WHAT[kind],
                         "a value was handed out twice over the runs of this schedule, or was handed out while no stored boundary lay ahead of it (a restart at that moment would hand it out again)",
                         "case: " + case_by_key[key],
                         "implementation trace (y<value>@<KV content at that moment>, p=boundary pending, f=store failed, b=restart, d=done, n=no-op | final state):",
                         il[:4000]]
                lines += explain(kind, il)
                lines += ["model trace for the same schedule:", str(model.get(key))[:4000],
                          "replay: bin/check C12 quick --replay <this file>"]
                c.violation({"G": "group-hooks", "X": "group-initiate", "E": "event-number", "K": "checkin"}[kind],
                            "\n".join(lines))

    # --- correspondence
    diffs = [key for key in case_by_key if impl.get(key) != model.get(key)]
    if diffs and not c.violations:
        lines = ["correspondence corr:C12 broke: model and implementation disagree on %d of %d cases;" % (len(diffs), len(case_by_key)),
                 "the monitor (extracted property) found no schedule on which the implementation violates C12.",
                 "theorems no longer tied to the code: " + ", ".join(c.coq["theorems"]), ""]
        for key in sorted(diffs, key=lambda k: len(case_by_key[k]))[:10]:
            lines += ["case : " + case_by_key[key][:2000], "impl : " + str(impl.get(key))[:2000],
                      "model: " + str(model.get(key))[:2000], ""]
        c.violation("corr", "\n".join(lines), no_input=True)

    nt = set()
    kinds, yields, ops_hist = {}, 0, {}
    for key, cl in case_by_key.items():
        k = cl.split(" ")[0]
        kinds[k] = kinds.get(k, 0) + 1
        ml = model.get(key, "")
        if k in ("GW", "EW", "KW"):
            nt.add(cl.split(" ", 2)[2])
        elif nontrivial(ml):
            nt.add(k + " " + cl.split(" ", 2)[2])
        il = impl.get(key, "")
        if k not in ("GW", "EW", "KW"):
            for e in events_of(il):
                ops_hist[e[0]] = ops_hist.get(e[0], 0) + 1
    sweep_evals = 0
    for cl in case_by_key.values():
        f = cl.split(" ")
        if f[0] in ("GW", "EW"):
            klo, khi, post = int(f[3]), int(f[4]), int(f[5])
            sweep_evals += sum(k + post + 1 for k in range(klo, khi + 1))
        elif f[0] == "KW":
            klo, khi, post = int(f[4]), int(f[5]), int(f[6])
            sweep_evals += sum(k + post + 3 for k in range(klo, khi + 1))
    samples, seen_kind = [], {}
    for key, cl in case_by_key.items():
        k = cl.split(" ")[0]
        if seen_kind.get(k, 0) < 2:
            seen_kind[k] = seen_kind.get(k, 0) + 1
            samples.append({"case": cl[:300], "impl": impl.get(key, "")[:300], "model": model.get(key, "")[:300]})
    c.cov.update({
        "evaluations": sum(ops_hist.values()) + sweep_evals,
        "case_lines": len(case_by_key),
        "distinct_nontrivial": len(nt),
        "rule": "evaluations = operations executed on the real code and compared (events of all traced cases + operations inside the digest sweeps); "
                "case kinds: G=group counter via hooks, X=group counter via the real Exchange::initiate_group, E=Events::push, K=Icd check-in API, "
                "lower case=foreign KV content (outside the theorems' hypotheses: compared, not monitored), GW/EW/KW=digest sweeps over every restart position; "
                "non-trivial = distinct case (id removed) whose model trace hands out a value and also reaches a store / failed store / restart arm, or any sweep block",
        "samples": samples,
        "cases_by_kind": kinds,
        "cases_by_stream": stats,
        "events_by_kind": {"yield": ops_hist.get("y", 0), "pending": ops_hist.get("p", 0), "store_failed": ops_hist.get("f", 0),
                           "restart": ops_hist.get("b", 0), "done": ops_hist.get("d", 0), "noop": ops_hist.get("n", 0)},
        "monitor_cases": mon_checked,
        "monitor_skipped_not_obedient": mon_skipped,
        "monitor_skipped_beyond_one_lap": mon_lap,
        "monitor_unparsable_impl_lines": mon_unparsed,
        "impl_panics": len(panicked),
        "monitor_violations": mon_viol,
        "disagreements_checked": len(diffs),
        "exhaustive": False,
        "exhaustive_parts": "all op sequences up to length 5 (group hooks, alphabet reserve/store-ok/store-fail/restart), 6 (initiate_group), 7 (events), 4 (check-in, 8 ops) "
                            "from boundaries at and next to every wrap point; every start value within 1100 of the 28-bit wrap point and of 1 for a family of short schedules; "
                            "every restart position 0..2249 (group), 0..1749 across the u64 wrap (events), across the u32 wrap (check-in) in the digest sweeps",
    })
    c.finish(level="proof",
             trusted_base=["Coq 8.16.1 kernel (coqc; coqchk in thorough tier)", "no axioms (Closed under the global context)",
                           "extraction ExtrOcamlBasic + stdlib Mergesort functor; hand-written OCaml driver ocaml/c12/driver.ml",
                           "Rust harness harness/src/bin/c12.rs (scripted KV store and RNG owned by the harness) and hooks (cfg rs_matter_verif) in transport/session.rs, transport/exchange.rs, im/events.rs",
                           "KvBlobStore contract: a store is atomic per key and either happens or returns an error",
                           "correspondence is differential testing on the generated cases"],
             assumptions=["uniqueness theorems: the schedule stays within one lap of the ring (uses + one epoch per restart <= 2^28-1 / 2^64-1 / 2^32)",
                          "initial KV content is empty or a boundary the code itself can have stored",
                          "check-in counter: the application does not send while a store the interface asked for is owed (k_obedient); without it C12_checkin_disobedient_refuted",
                          "single-threaded use of initiate_group (no second reservation between a reservation and its store)",
                          "model = Model/Counters.v hand-transcribed; tied to the code only by the correspondence run"])
