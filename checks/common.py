"""Shared machinery for the per-property checks (see DESIGN.md sections 2, 5, 11).

Every check does, in this order:
  1. Coq: build the property's theorems (make, full .vo), re-run the Props file to
     capture `Print Assumptions`, audit the sources for forbidden vernacular.
  2. Build the extracted model driver (OCaml) and the Rust harness against /repo's
     working tree with --cfg rs_matter_verif.
  3. Run cases on both sides, diff (correspondence), run the extracted executable
     property (monitor) on the implementation's own outputs.
  4. Verdict, evidence JSON, exit code.
"""
import hashlib
import json
import os
import re
import subprocess
import sys
import time
from concurrent.futures import ThreadPoolExecutor

ROOT = os.path.dirname(os.path.dirname(os.path.abspath(__file__)))
COQ = os.path.join(ROOT, "coq")
BUILD = os.path.join(ROOT, ".build")
# A private copy of the harness manifest (other /repo worktree, other target dir) can be
# selected with RSM_HARNESS_DIR / RSM_TARGET_DIR while developing; the registered checks use the defaults.
HARNESS = os.environ.get("RSM_HARNESS_DIR", os.path.join(ROOT, "harness"))
TARGET = os.environ.get("RSM_TARGET_DIR", os.path.join(BUILD, "cargo-target"))
NPROC = os.cpu_count() or 4

FORBIDDEN = re.compile(
    r"\b(Admitted|admit|Axiom|Axioms|Parameter|Parameters|Conjecture|Conjectures|"
    r"Admit Obligations|Unset Guard Checking|Unset Positivity Checking|"
    r"Unset Universe Checking|bypass_check|Hypothesis|Hypotheses|Variable|Variables)\b|"
    r"-type-in-type|-impredicative-set|Local Unset Guard|Typeclasses Unique")
# Variable/Hypothesis are only legal inside a Section; we simply do not use them at all
# outside `Section ... End` blocks; the audit checks that.

STD_AXIOMS_ALLOWED = {
    # name -> why (each must be listed in DESIGN.md section 6 when used)
}


def sh(cmd, cwd=None, timeout=None, env=None, stdin=None):
    e = dict(os.environ)
    e["CARGO_NET_OFFLINE"] = "true"
    if env:
        e.update(env)
    p = subprocess.run(cmd, cwd=cwd, shell=isinstance(cmd, str), stdout=subprocess.PIPE,
                       stderr=subprocess.STDOUT, timeout=timeout, env=e, input=stdin)
    out = p.stdout.decode("utf-8", "replace")
    out = "\n".join(l for l in out.split("\n") if "conda.cli.condarc" not in l)
    return p.returncode, out


class Check:
    def __init__(self, pid, tier, seed=None, keep_replays=False):
        self.pid = pid                      # "C04"
        self.low = pid.lower()
        self.tier = tier if tier in ("quick", "thorough") else "quick"
        if seed is None:
            try:
                seed = int(os.environ.get("VERIF_SEED", "1"))
            except ValueError:
                seed = 1
        self.seed = seed
        self.t0 = time.time()
        self.rundir = os.path.join(BUILD, "run", self.low)
        os.makedirs(self.rundir, exist_ok=True)
        os.makedirs(os.path.join(ROOT, "evidence"), exist_ok=True)
        os.makedirs(os.path.join(ROOT, "replays"), exist_ok=True)
        import glob
        for old in ([] if keep_replays else glob.glob(os.path.join(ROOT, "replays", pid + "-*"))):
            os.unlink(old)
        self.violations = []      # (replay_path, text, no_input_found)
        self.known_seen = []      # strings
        self.notes = []
        self.coq = {"obligations": 0, "discharged": 0, "theorems": [], "axioms": {},
                    "checker_cmd": "", "ok": False, "detail": ""}
        self.cov = {}
        self.known = load_known_findings(pid)

    # ------------------------------------------------------------------ Coq
    def coq_files_closure(self, start):
        """Transitive closure of `From RsM Require ...` starting at theories/<start>.v"""
        seen, todo = [], [start]
        while todo:
            m = todo.pop()
            if m in seen:
                continue
            path = os.path.join(COQ, "theories", m.replace(".", "/") + ".v")
            if not os.path.exists(path):
                continue
            seen.append(m)
            txt = open(path).read()
            for r in re.finditer(r"From\s+RsM\s+Require\s+(?:Import|Export)?\s*([^.]*(?:\.[A-Za-z_][^.\s]*)*)\.", txt):
                pass
            for line in re.findall(r"From\s+RsM\s+Require\s+(?:Import\s+|Export\s+)?((?:[A-Za-z_][\w.]*\s*)+)\.", txt):
                for mod in line.split():
                    todo.append(mod.rstrip("."))
        return seen

    def coq_check(self, extra_props=(), thorough_coqchk=True, make_timeout=1500):
        pid = self.pid
        props = ["Props." + pid] + ["Props." + p for p in extra_props]
        targets = ["theories/Pins/%s.vo" % pid] + ["theories/Props/%s.vo" % p for p in extra_props]
        cmd = [os.path.join(ROOT, "bin", "coqmake")] + targets
        self.coq["checker_cmd"] = "make -C coq -j%d %s ; coqc -Q theories RsM theories/Props/%s.v (Print Assumptions); source audit" % (
            NPROC, " ".join(targets), pid)
        try:
            rc, out = sh(cmd, timeout=make_timeout)
        except subprocess.TimeoutExpired:
            rc, out = 124, "make timed out"
        mods = []
        for p in props + ["Pins." + pid]:
            for m in self.coq_files_closure(p):
                if m not in mods:
                    mods.append(m)
        n_obl, n_dis, broken = 0, 0, []
        for m in mods:
            v = os.path.join(COQ, "theories", m.replace(".", "/") + ".v")
            vo = v + "o"
            txt = open(v).read()
            k = len(re.findall(r"^\s*(?:Theorem|Lemma|Corollary|Fact|Example|Proposition|Remark)\s", txt, re.M))
            n_obl += k
            if os.path.exists(vo) and os.path.getmtime(vo) >= os.path.getmtime(v):
                n_dis += k
            else:
                broken.append(m)
        self.coq["obligations"], self.coq["discharged"] = n_obl, n_dis
        self.coq["modules"] = mods
        if rc != 0:
            self.coq["detail"] = "make failed (broken: %s):\n%s" % (broken, out[-3000:])
            return False
        # source audit
        bad = audit_sources()
        if bad:
            self.coq["detail"] = "source audit failed: " + "; ".join(bad[:10])
            self.coq["discharged"] = 0
            return False
        # Print Assumptions of every property theorem: recompile the (leaf) Props file
        ok = True
        for p in props:
            v = os.path.join(COQ, "theories", p.replace(".", "/") + ".v")
            outvo = os.path.join(BUILD, "coq-props", p.replace(".", "/") + ".vo")
            os.makedirs(os.path.dirname(outvo), exist_ok=True)
            try:
                rc, out = sh(["coqc", "-noglob", "-Q", "theories", "RsM", "-o", outvo, v], cwd=COQ, timeout=600)
            except subprocess.TimeoutExpired:
                rc, out = 124, "coqc timed out"
            if rc != 0:
                self.coq["detail"] = "coqc %s failed:\n%s" % (p, out[-3000:])
                return False
            txt = open(v).read()
            thms = re.findall(r"^\s*Theorem\s+(\w+)", txt, re.M)
            prints = re.findall(r"^\s*Print Assumptions\s+(\w+)\s*\.", txt, re.M)
            missing = [t for t in thms if t not in prints]
            if missing:
                self.coq["detail"] = "theorems without Print Assumptions: %s" % missing
                ok = False
            blocks = parse_assumptions(out)
            if len(blocks) != len(prints):
                self.coq["detail"] = "expected %d Print Assumptions outputs, got %d" % (len(prints), len(blocks))
                ok = False
            for name, axs in zip(prints, blocks):
                self.coq["axioms"][name] = axs
                for a in axs:
                    if a.split(" ")[0] not in STD_AXIOMS_ALLOWED:
                        self.coq["detail"] = "theorem %s depends on non-allow-listed axiom %s" % (name, a)
                        ok = False
            self.coq["theorems"] += thms
        if self.tier == "thorough" and thorough_coqchk and ok:
            try:
                rc, out = sh(["coqchk", "-silent", "-o", "-Q", "theories", "RsM"] +
                             ["RsM." + p for p in props], cwd=COQ, timeout=1500)
            except subprocess.TimeoutExpired:
                rc, out = 124, "coqchk timed out"
            self.coq["coqchk"] = out[-1500:]
            if rc != 0:
                self.coq["detail"] = "coqchk failed:\n" + out[-3000:]
                ok = False
        self.coq["ok"] = ok
        if not ok:
            self.coq["discharged"] = 0
        return ok

    # ------------------------------------------------------------ builders
    def build_model(self):
        rc, out = sh([os.path.join(ROOT, "bin", "build-model"), self.low], timeout=900)
        if rc != 0:
            raise RuntimeError("model build failed:\n" + out[-3000:])
        return os.path.join(BUILD, "ocaml", self.low, "driver")

    def build_harness(self, binname=None, profile="dev", timeout=3000):
        binname = binname or self.low
        cmd = ["cargo", "build", "--offline", "--bin", binname]
        if profile != "dev":
            cmd += ["--profile", profile]
        rc, out = sh(cmd, cwd=HARNESS, timeout=timeout)
        if rc != 0:
            # the tie between model and code cannot be established: report, do not crash
            self.violation("harness-build", "the correspondence check for %s cannot be built against /repo's working tree "
                           "(hooks or API changed); no theorem of Props/%s.v is tied to this code.\n%s" % (self.pid, self.pid, out[-4000:]),
                           no_input=True)
            self.finish_early()
        d = "debug" if profile == "dev" else profile
        return os.path.join(TARGET, d, binname)

    # ------------------------------------------------------------ running
    def run_sharded(self, argv_prefix, cases_path, out_path, shards=None, timeout=3000, argv_suffix=()):
        """Split a cases file round-robin in `shards` parts, run `argv_prefix part` for each
        (stdin = part for drivers when argv_prefix ends with '<'), concatenate outputs."""
        shards = shards or NPROC
        lines = open(cases_path).read().split("\n")
        lines = [l for l in lines if l]
        if len(lines) < 64:
            shards = 1
        parts = []
        for i in range(shards):
            p = "%s.part%d" % (cases_path, i)
            with open(p, "w") as f:
                f.write("\n".join(lines[i::shards]) + "\n")
            parts.append(p)
        use_stdin = argv_prefix and argv_prefix[-1] == "<"
        base = argv_prefix[:-1] if use_stdin else argv_prefix

        def one(p):
            if use_stdin:
                with open(p, "rb") as f:
                    data = f.read()
                pr = subprocess.run(list(base) + list(argv_suffix), input=data, stdout=subprocess.PIPE,
                                    stderr=subprocess.PIPE, timeout=timeout)
            else:
                pr = subprocess.run(list(base) + [p] + list(argv_suffix), stdout=subprocess.PIPE,
                                    stderr=subprocess.PIPE, timeout=timeout)
            if pr.returncode != 0:
                raise RuntimeError("%s failed on %s: %s" % (base, p, pr.stderr.decode("utf-8", "replace")[-2000:]))
            return pr.stdout.decode("utf-8", "replace")

        with ThreadPoolExecutor(max_workers=shards) as ex:
            outs = list(ex.map(one, parts))
        with open(out_path, "w") as f:
            for o in outs:
                f.write(o)
        for p in parts:
            os.unlink(p)
        return out_path

    # ------------------------------------------------------------ verdicts
    def violation(self, name, text, no_input=False):
        """Record a violation; writes the replay file. Known findings are filtered."""
        for k in self.known:
            if k["match"](name, text):
                msg = k["text"]
                if msg not in self.known_seen:
                    self.known_seen.append(msg)
                return
        self.violation_count = getattr(self, "violation_count", 0) + 1
        if len(self.violations) >= 6:
            return  # enough replays written; the count is in the evidence
        path = os.path.join("replays", "%s-%s-%d-%d.txt" % (self.pid, re.sub(r"[^A-Za-z0-9_.-]", "_", name)[:60], self.seed, len(self.violations)))
        with open(os.path.join(ROOT, path), "w") as f:
            f.write(text if text.endswith("\n") else text + "\n")
        self.violations.append((path, name, no_input))

    def finish(self, level="proof", trusted_base=(), assumptions=(), extra_cov=None):
        wall = time.time() - self.t0
        cov = dict(self.cov)
        cov.update({
            "obligations": self.coq["obligations"],
            "discharged": self.coq["discharged"],
            "checker_cmd": self.coq["checker_cmd"] or "n/a",
            "trusted_base": list(trusted_base),
            "theorems": self.coq["theorems"],
            "axioms_per_theorem": self.coq["axioms"],
            "coq_detail": self.coq["detail"],
            "known_findings_seen": self.known_seen,
            "violation_names": [v[1] for v in self.violations],
            "notes": self.notes,
        })
        if extra_cov:
            cov.update(extra_cov)
        cov.setdefault("evaluations", 0)
        cov.setdefault("distinct_nontrivial", 0)
        cov.setdefault("rule", "")
        cov.setdefault("samples", [])
        ev = {
            "property_id": self.pid,
            "tier": self.tier,
            "seed": self.seed,
            "level": level,
            "coverage": cov,
            "assumptions": list(assumptions),
            "wall_s": round(wall, 2),
            "violations": getattr(self, "violation_count", len(self.violations)),
        }
        with open(os.path.join(ROOT, "evidence", self.pid + ".json"), "w") as f:
            json.dump(ev, f, indent=1, sort_keys=True)
            f.write("\n")
        for k in self.known_seen:
            print("KNOWN-FINDING: property=%s %s" % (self.pid, k))
        if self.violations:
            # one VIOLATION line per distinct replay (concrete ones first)
            self.violations.sort(key=lambda v: v[2])
            for path, name, no_input in self.violations[:20]:
                print("VIOLATION property=%s replay=%s%s" % (self.pid, path, " no-failing-input-found" if no_input else ""))
            sys.stdout.flush()
            sys.exit(1)
        print("OK property=%s tier=%s obligations=%d discharged=%d evaluations=%s wall=%.1fs" % (
            self.pid, self.tier, self.coq["obligations"], self.coq["discharged"], cov.get("evaluations"), wall))
        sys.exit(0)

    def finish_early(self):
        self.cov.setdefault("evaluations", 0)
        self.finish(level="proof", trusted_base=["(run aborted before the correspondence could be run)"])

    def proof_broken_violation(self):
        """Called when the Coq side fails: names the obligation in the replay file."""
        self.violation("proof", "proof obligation no longer checks for %s\n%s\n" % (self.pid, self.coq["detail"]), no_input=True)


def parse_assumptions(out):
    """Split coqc output into one list of axioms per `Print Assumptions`."""
    blocks, cur = [], None
    for line in out.split("\n"):
        if line.startswith("Closed under the global context"):
            if cur is not None:
                blocks.append(cur)
                cur = None
            blocks.append([])
        elif line.startswith("Axioms:"):
            if cur is not None:
                blocks.append(cur)
            cur = []
        elif cur is not None:
            if re.match(r"^[A-Za-z_][\w.']*\s*:", line):
                cur.append(line.split(":")[0].strip())
            elif line.strip() == "" or line.startswith(" ") or line.startswith("\t"):
                continue
            else:
                blocks.append(cur)
                cur = None
    if cur is not None:
        blocks.append(cur)
    return blocks


def strip_comments(txt):
    """Remove (nested) Coq comments and string literals."""
    out, depth, i, n = [], 0, 0, len(txt)
    instr = False
    while i < n:
        if instr:
            if txt[i] == '"':
                instr = False
            i += 1
            continue
        if txt.startswith("(*", i):
            depth += 1
            i += 2
            continue
        if depth and txt.startswith("*)", i):
            depth -= 1
            i += 2
            continue
        if depth == 0:
            if txt[i] == '"':
                instr = True
                i += 1
                continue
            out.append(txt[i])
        i += 1
    return "".join(out)


def audit_sources():
    bad = []
    roots = [os.path.join(COQ, "theories"), os.path.join(ROOT, "ocaml")]
    for r in roots:
        for dp, _, fns in os.walk(r):
            for fn in fns:
                if not fn.endswith(".v"):
                    continue
                p = os.path.join(dp, fn)
                txt = strip_comments(open(p).read())
                # Variables / Hypotheses are allowed only inside a Section
                depth = 0
                for ln, line in enumerate(txt.split("\n"), 1):
                    if re.match(r"^\s*Section\s+\w+", line):
                        depth += 1
                    if re.match(r"^\s*End\s+\w+", line) and depth > 0:
                        depth -= 1
                    for m in FORBIDDEN.finditer(line):
                        w = m.group(0)
                        if w in ("Variable", "Variables", "Hypothesis", "Hypotheses") and depth > 0:
                            continue
                        bad.append("%s:%d: %s" % (os.path.relpath(p, ROOT), ln, w))
    proj = os.path.join(COQ, "_CoqProject")
    if os.path.exists(proj):
        t = open(proj).read()
        for w in ("-type-in-type", "-impredicative-set", "-vos", "-vok", "-noinit"):
            if w in t:
                bad.append("_CoqProject: " + w)
    return bad


def load_known_findings(pid):
    """known_findings.txt lines:
         finding: property=Cxx name=<regex on violation name> <description>
         fixed: property=Cxx <commit> <what failed>          (suppresses nothing)
    """
    res = []
    p = os.path.join(ROOT, "known_findings.txt")
    if not os.path.exists(p):
        return res
    for line in open(p):
        line = line.strip()
        m = re.match(r"^finding:\s+property=(\w+)\s+name=(\S+)\s+(.*)$", line)
        if m and m.group(1) == pid:
            rx = re.compile(m.group(2))
            res.append({"text": m.group(3), "match": (lambda name, text, rx=rx: bool(rx.fullmatch(name)))})
    return res


def read_keyed(path, key_fields=2):
    d = {}
    for line in open(path):
        line = line.rstrip("\n")
        if not line:
            continue
        f = line.split(" ")
        d[" ".join(f[:key_fields])] = line
    return d


def distinct_count(lines):
    return len(set(hashlib.md5(l.encode()).hexdigest() for l in lines))
