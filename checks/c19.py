"""C19 — a certificate chain is accepted exactly when it is valid under the Matter rules."""
import json
import os
import re
import subprocess
from .common import Check, read_keyed, ROOT

KINDS = ("V ", "C ", "A ", "U ", "R ", "F ")
RULES = ["Signed", "KeyId", "Name", "NotAfter", "NotBefore", "NoCritical", "LeafType", "LeafNotCa",
         "LeafKeyUsage", "LeafExtKeyUsage", "AuthType", "AuthIsCa", "AuthKeyUsage", "AuthPathLen"]
WHAT = {
    "V": "CertRef::verify_chain_start .. add_cert .. finalise (leaf first, root last)",
    "C": "CASE: CaseP::validate_certs + node-id extraction, as the Sigma2/Sigma3 handlers do",
    "A": "FailSafe::add_trusted_root_cert then FailSafe::add_noc (+ Fabrics::add)",
    "U": "FailSafe::update_noc (+ Fabrics::update) on an existing fabric",
    "R": "FailSafe::add_trusted_root_cert",
    "F": "raw verifier on every single-bit flip of one certificate of a valid chain",
}


def decision(line):
    """impl/model line -> ('accept'|'reject'|'panic', detail)"""
    f = line.split(" ")
    if len(f) < 3:
        return "reject", ""
    if f[2] == "ok":
        return "accept", " ".join(f[3:])
    if f[2].startswith("panic"):
        return "panic", " ".join(f[2:])
    return "reject", " ".join(f[2:])


def label_of(case_line):
    ident = case_line.split(" ")[1]
    return ident.split(".", 1)[1] if "." in ident else ""


def main(tier, replay=None):
    c = Check("C19", tier)
    coq_ok = c.coq_check()
    if not coq_ok:
        c.proof_broken_violation()
    driver = c.build_model()
    hbin = c.build_harness()
    rd = c.rundir
    cases = os.path.join(rd, "cases.txt")
    stats = {}
    if replay:
        with open(cases, "w") as f:
            for l in open(replay):
                l = l.strip()
                if l.startswith("case: "):
                    l = l[6:]
                if l[:2] in KINDS:
                    f.write(l + "\n")
    else:
        subprocess.run([hbin, "gen", c.tier, str(c.seed), rd], check=True)
        stats = json.load(open(os.path.join(rd, "stats.json")))
        corp = os.path.join(ROOT, "corpus", "C19")
        extra = []
        if os.path.isdir(corp):
            for fn in sorted(os.listdir(corp)):
                extra += [l for l in open(os.path.join(corp, fn)).read().split("\n") if l[:2] in KINDS]
        if extra:
            body = open(cases).read()
            with open(cases, "w") as f:
                f.write("\n".join(extra) + "\n" + body)
    impl_out = c.run_sharded([hbin, "run"], cases, os.path.join(rd, "impl.out"))
    model_out = c.run_sharded([driver, "<"], cases, os.path.join(rd, "model.out"))
    spec_out = c.run_sharded([driver, "<"], cases, os.path.join(rd, "spec.out"), argv_suffix=["spec"])
    impl = read_keyed(impl_out)
    model = read_keyed(model_out)
    spec = read_keyed(spec_out)
    case_by_key = {}
    for line in open(cases):
        line = line.rstrip("\n")
        if line:
            f = line.split(" ")
            case_by_key[f[0] + " " + f[1]] = line

    # --- monitor: the extracted property (chain_validb / case_validb / add_noc_validb /
    #     update_noc_validb / root_validb) against the implementation's own decisions
    mon_viol = 0
    per_name = {}
    sole_rule_rejected = {r: 0 for r in RULES}
    impl_classes = {}
    n_accept = 0
    n_flip_lines = 0
    for key, cl in case_by_key.items():
        il, sl = impl.get(key), spec.get(key)
        if il is None or sl is None:
            continue
        kind = key[0]
        if kind == "F":
            m = re.match(r"^F \S+ accepted=(\d+) panics=(\d+)$", il)
            if not m or m.group(1) != "0" or m.group(2) != "0":
                mon_viol += 1
                per_name["bit-flip"] = per_name.get("bit-flip", 0) + 1
                c.violation("bit-flip", "\n".join([
                    "property C19 fails on the implementation: a valid chain with ONE BIT of one certificate flipped was accepted (or made the verifier panic)",
                    "entry point: " + WHAT[kind], "case: " + cl, "implementation: " + il]))
            else:
                n_flip_lines += 1
            continue
        dec, detail = decision(il)
        impl_classes[kind + ":" + (dec if dec != "reject" else detail)] = impl_classes.get(kind + ":" + (dec if dec != "reject" else detail), 0) + 1
        sf = sl.split(" ")
        verdict = sf[2]
        failing = sf[-1] if len(sf) > 3 else "-"
        if dec == "accept":
            n_accept += 1
        name, why = None, None
        if dec == "panic":
            name = "panic"
            why = "the implementation panicked instead of deciding (%s)" % detail
        elif kind == "A" and verdict == "root-invalid":
            if not il.split(" ")[2].startswith("root-err"):
                name = "accepted-invalid-root-" + failing
                why = "AddTrustedRootCertificate accepted a root that is not valid on its own (failing rules: %s)" % failing
        elif kind == "A" and il.split(" ")[2].startswith("root-err"):
            name = "rejected-valid-root"
            why = "AddTrustedRootCertificate rejected a root that is valid on its own"
        elif verdict == "valid" and dec != "accept":
            name = "rejected-valid"
            why = "the implementation rejected (%s) what the property says is valid" % detail
        elif verdict == "invalid" and dec == "accept":
            name = "accepted-invalid-" + failing
            why = "the implementation accepted what the property says is invalid (failing rules: %s)" % failing
        elif kind == "C" and verdict == "valid" and dec == "accept" and sf[3] != detail:
            name = "wrong-node-id"
            why = "admitted as node %s, the leaf names node %s" % (detail, sf[3])
        if name is None:
            if dec == "reject" and failing != "-" and "," not in failing and failing in sole_rule_rejected:
                sole_rule_rejected[failing] += 1
            continue
        mon_viol += 1
        per_name[name] = per_name.get(name, 0) + 1
        if per_name[name] <= 2 and len(per_name) <= 8:
            c.violation(name, "\n".join([
                "property C19 fails on the implementation: " + why,
                "entry point: " + WHAT[kind],
                "generator label: " + label_of(cl),
                "case: " + cl,
                "implementation: " + il,
                "property (extracted chain_valid & co.): " + sl,
                "model of the code: " + str(model.get(key)),
                "certificate token = subject/issuer/skid/akid/key/signature/notBefore/notAfter/basicConstraints/keyUsage/extKeyUsage/futureExt (see ocaml/c19/driver.ml)",
                "replay: bin/check C19 quick --replay <this file>"]))

    # --- correspondence.  The property distinguishes accept / reject (and what gets installed /
    #     who is admitted), not the error code: rejects are compared as "reject" (AddNOC: at which
    #     command), a differing error CLASS alone is recorded, not reported (harmless refactors).
    def canon(line):
        if line is None:
            return None
        f = line.split(" ")
        if len(f) > 2 and f[2] == "err":
            return " ".join(f[:2] + ["reject"])
        if len(f) > 2 and f[2] == "root-err":
            return " ".join(f[:2] + ["root-reject"])
        return line
    diffs = [key for key in case_by_key if canon(impl.get(key)) != canon(model.get(key))]
    class_diffs = [key for key in case_by_key if impl.get(key) != model.get(key) and key not in set(diffs)]
    if class_diffs:
        c.notes.append("%d cases rejected by both sides with a different error class, e.g. %s | impl: %s | model: %s" % (
            len(class_diffs), case_by_key[class_diffs[0]][:200], impl.get(class_diffs[0]), model.get(class_diffs[0])))
    if diffs and not c.violations and not c.known_seen:
        lines = ["correspondence corr:C19 broke: model and implementation disagree on %d of %d cases;" % (len(diffs), len(case_by_key)),
                 "the monitor (extracted property) found no chain on which the implementation's accept/reject decision violates C19",
                 "(the difference is in what gets installed / which node is admitted, or a panic-free reject vs accept the monitor does not cover).",
                 "theorems no longer tied to the code: " + ", ".join(c.coq["theorems"]), ""]
        for key in diffs[:10]:
            lines += ["case : " + case_by_key[key], "impl : " + str(impl.get(key)), "model: " + str(model.get(key)), ""]
        c.violation("corr", "\n".join(lines), no_input=True)
    elif diffs and c.known_seen and not c.violations:
        c.notes.append("%d correspondence differences, all on cases of known findings" % len(diffs))

    nt = set()
    for key, cl in case_by_key.items():
        ml = model.get(key, "")
        # non-trivial: accepted, or rejected later than the very first check (authority key id of the leaf)
        if ml.split(" ")[2:3] == ["ok"] or ml.split(" ")[2:] not in (["err", "2"], ["err", "1"]):
            nt.add(cl.split(" ", 2)[0] + " " + cl.split(" ", 2)[2])
    kinds = {}
    for cl in case_by_key.values():
        kinds[cl[0]] = kinds.get(cl[0], 0) + 1
    samples, seen_kind = [], {}
    for key, cl in case_by_key.items():
        if seen_kind.get(cl[0], 0) < 2:
            seen_kind[cl[0]] = seen_kind.get(cl[0], 0) + 1
            samples.append({"case": cl[:600], "impl": impl.get(key, "")[:200], "model": model.get(key, "")[:200], "property": spec.get(key, "")[:200]})
    missing = [r for r, n in sole_rule_rejected.items() if n == 0]
    if missing and not replay:
        c.notes.append("rules never the only failing rule of a rejected case in this run: %s" % missing)
    c.cov.update({
        "evaluations": len(case_by_key),
        "case_lines": len(case_by_key),
        "distinct_nontrivial": len(nt),
        "rule": "one case = one chain of real, freshly signed Matter-TLV certificates through one entry point "
                "(V raw verifier, C CASE, A AddTrustedRoot+AddNOC, U UpdateNOC, R AddTrustedRoot); "
                "non-trivial = distinct case (id removed) that the model accepts or rejects at any check other than the first "
                "(authority key id) one",
        "samples": samples,
        "cases_by_kind": kinds,
        "accepted_by_impl": n_accept,
        "bit_flip_sweeps_all_rejected": n_flip_lines,
        "impl_decisions": impl_classes,
        "rejected_with_exactly_this_rule_failing": sole_rule_rejected,
        "generator_mutations": stats,
        "monitor_cases": len(case_by_key),
        "monitor_violations": mon_viol,
        "monitor_violations_by_name": per_name,
        "disagreements_checked": len(diffs),
        "error_class_only_differences": len(class_diffs),
        "exhaustive": False,
    })
    c.finish(level="proof",
             trusted_base=["Coq 8.16.1 kernel (coqc; coqchk in thorough tier)", "no axioms (Closed under the global context)",
                           "extraction ExtrOcamlBasic + hand-written OCaml driver ocaml/c19/driver.ml, ocaml/common/util.ml",
                           "Rust harness harness/src/bin/c19.rs: abstract certificate -> real TLV certificate builder (own TLV writer, the crate's DER encoder and ECDSA for signing), hook sc::case::verif_case_validate_certs (cfg rs_matter_verif)",
                           "ECDSA is ideal in the model (a signature verifies under exactly the signer's key); DER re-encoding of the to-be-signed bytes is the crate's own",
                           "correspondence is differential testing on the generated chains"],
             assumptions=["ideal signatures: flipping a signature bit / changing signed bytes makes verification fail under every key (checked on the real ECDSA for the generated cases only)",
                          "model = Model/Cert.v hand-transcribed from cert.rs, casep.rs, failsafe.rs; tied to the code only by the correspondence run",
                          "fail-safe state (armed, CSR and root staged) and a non-full fabric table are set up by the harness; the command-order rules are C08's"])
