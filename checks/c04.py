"""C04 — a message counter is accepted at most once per secure peer; newer ones always."""
import json
import os
from .common import Check, read_keyed, ROOT


def nontrivial(case_line, model_line):
    k = case_line[0]
    if k in ("H", "G", "B", "T", "Y"):
        flags = model_line.split(" ")[2] if len(model_line.split(" ")) > 2 else ""
        return "0" in flags and "1" in flags
    return k == "S"


def main(tier, replay=None):
    c = Check("C04", tier)
    coq_ok = c.coq_check()
    if not coq_ok:
        c.proof_broken_violation()
    driver = c.build_model()
    hbin = c.build_harness()
    rd = c.rundir
    cases = os.path.join(rd, "cases.txt")
    if replay:
        stats = {}
        with open(cases, "w") as f:
            for l in open(replay):
                l = l.strip()
                if l.startswith("case: "):
                    l = l[6:]
                if l[:2] in ("H ", "B ", "G ", "S ", "V ", "T ", "Y "):
                    f.write(l + "\n")
    else:
        import subprocess
        subprocess.run([hbin, "gen", c.tier, str(c.seed), rd], check=True)
        stats = json.load(open(os.path.join(rd, "stats.json")))
        # corpus first
        corp = os.path.join(ROOT, "corpus", "C04")
        extra = []
        if os.path.isdir(corp):
            for fn in sorted(os.listdir(corp)):
                extra += [l for l in open(os.path.join(corp, fn)).read().split("\n") if l and not l.startswith("#")]
        if extra:
            body = open(cases).read()
            with open(cases, "w") as f:
                f.write("\n".join(extra) + "\n" + body)
    impl_out = c.run_sharded([hbin, "run"], cases, os.path.join(rd, "impl.out"))
    model_out = c.run_sharded([driver, "<"], cases, os.path.join(rd, "model.out"))
    impl = read_keyed(impl_out)
    model = read_keyed(model_out)
    case_by_key = {}
    for line in open(cases):
        line = line.rstrip("\n")
        if line:
            f = line.split(" ")
            case_by_key[f[0] + " " + f[1]] = line

    # --- monitor: the extracted executable property on the implementation's outputs
    spec_in = os.path.join(rd, "spec.in")
    n_mon = 0
    ymap = {}
    with open(spec_in, "w") as f:
        for key, cl in case_by_key.items():
            fl = cl.split(" ")
            if fl[0] == "H" and fl[2] == "1" and fl[3] == "0" and fl[4] == "U":
                f.write(cl + "\n")
                n_mon += 1
            elif fl[0] == "T" and fl[2] != "plain":
                f.write(cl + "\n")
                n_mon += 1
            elif fl[0] == "G" and key in impl:
                f.write(cl + " " + impl[key].split(" ")[2] + "\n")
                n_mon += 1
            elif fl[0] == "B" and key in impl:
                f.write(cl + " " + impl[key].split(" ")[2] + "\n")
                n_mon += 1
            elif fl[0] == "Y" and key in impl:
                # the group-table monitor on the authentic messages only (fabric 1)
                ops = fl[2].split(",")
                ifl = impl[key].split(" ")[2] if len(impl[key].split(" ")) > 2 else ""
                auth = [(o, ifl[i:i + 1]) for i, o in enumerate(ops) if o[:2] in ("a:", "A:", "b:", "B:")]
                if auth and all(x in ("0", "1") for _, x in auth):
                    f.write("G y%s %s %s\n" % (fl[1], ",".join("1:" + o[2:] for o, _ in auth), "".join(x for _, x in auth)))
                    ymap["G y" + fl[1]] = key
                n_mon += 1
    spec_out = c.run_sharded([driver, "<"], spec_in, os.path.join(rd, "spec.out"), argv_suffix=["spec"])
    spec = read_keyed(spec_out)
    mon_viol = 0
    # the real group receive path: a message that does not authenticate is refused and leaves no trace
    for key, cl in case_by_key.items():
        if cl[0] != "Y" or key not in impl:
            continue
        ops = cl.split(" ")[2].split(",")
        ifl = impl[key].split(" ")[2] if len(impl[key].split(" ")) > 2 else ""
        bad = [i for i, o in enumerate(ops) if (o[:2] not in ("a:", "A:", "b:", "B:") and ifl[i:i + 1] != "x") or (o[:2] in ("a:", "A:", "b:", "B:") and ifl[i:i + 1] not in ("0", "1"))]
        if bad:
            mon_viol += 1
            if mon_viol <= 3:
                i = bad[0]
                c.violation("group-rx-path", "\n".join([
                    "property C04 fails on the real group receive path (TransportRunner::decode_packet, one fabric, one group key):",
                    "case (a = authentic, A = authentic and the sender's ephemeral session stays, f/t/w = does not authenticate; kind:source node:counter): " + cl,
                    "implementation (1 accepted, 0 duplicate, x refused): " + ifl,
                    "operation %d (%s): %s" % (i, ops[i], "a message that does not authenticate was not refused" if ops[i][:2] not in ("a:", "A:", "b:", "B:") else "an authentic message was refused with an error other than duplicate"),
                    "replay: bin/check C04 quick --replay <file containing the case line>"]))
    def hist_len(key):
        if key in ymap:
            return len(case_by_key[ymap[key]].split(" ")[-1])
        f = case_by_key[key].split(" ")
        return len(f[-1]) if f[0] in ("H", "T", "G") else len(f[3])
    for key, sl in sorted(spec.items(), key=lambda kv: hist_len(kv[0])):
        if key in ymap:
            if sl.split(" ")[2] != "1":
                mon_viol += 1
                if mon_viol <= 3:
                    yk = ymap[key]
                    c.violation("group-rx-path", "\n".join([
                        "property C04 fails on the real group receive path: among the AUTHENTIC messages of a sender a counter was accepted twice, "
                        "or a counter newer than everything accepted from that sender was rejected (e.g. because a forged message had moved the sender's window):",
                        "case (a = authentic, A = authentic and the sender's ephemeral session stays, f/t/w = does not authenticate; kind:source node:counter): " + case_by_key[yk],
                        "implementation (1 accepted, 0 duplicate, x refused): " + impl[yk].split(" ")[2],
                        "replay: bin/check C04 quick --replay <file containing the case line>"]))
            continue
        il = impl.get(key)
        if il is None:
            continue
        if key.startswith("H ") or key.startswith("T "):
            want = sl.split(" ")[2] if len(sl.split(" ")) > 2 else ""
            got = il.split(" ")[2] if len(il.split(" ")) > 2 else ""
            if want != got:
                mon_viol += 1
                if mon_viol <= 3:
                    hist = case_by_key[key].split(" ")[-1].split(",")
                    i = next((j for j in range(min(len(want), len(got))) if want[j] != got[j]), 0)
                    c.violation("unicast-history", "\n".join([
                        "property C04 fails on the implementation (secure unicast, fresh session; H = receive window, T = Session::post_recv):",
                        "case: " + case_by_key[key],
                        "history prefix: " + ",".join(hist[: i + 1]),
                        "implementation accept flags: " + got,
                        "required by the property    : " + want,
                        "first difference at position %d (counter %s): implementation %s, property requires %s" % (
                            i, hist[i] if i < len(hist) else "?", got[i:i + 1], want[i:i + 1]),
                        "replay: bin/check C04 quick --replay <file containing the case line>"]))
        elif key.startswith("G "):
            if sl.split(" ")[2] != "1":
                mon_viol += 1
                if mon_viol <= 3:
                    c.violation("group-table", "\n".join([
                        "property C04 fails on the group sender table (a sender's counter accepted twice without 16 other senders in between, "
                        "or a counter newer than everything accepted from that sender rejected):",
                        "case (fabric:node:counter ...): " + case_by_key[key],
                        "implementation accept flags: " + il.split(" ")[2]]))
        else:
            if sl.split(" ")[2] != "1":
                mon_viol += 1
                if mon_viol <= 3:
                    c.violation("group-sender", "\n".join([
                        "property C04 (group sender clauses: never twice / never older than the window / newer always) fails:",
                        "case (first counter, then true counters of one sender): " + case_by_key[key],
                        "implementation accept flags: " + il.split(" ")[2]]))

    # --- correspondence
    diffs = []
    for key, cl in case_by_key.items():
        if impl.get(key) != model.get(key):
            diffs.append(key)
    if diffs and not c.violations:
        lines = ["correspondence corr:C04 broke: model and implementation disagree on %d of %d cases;" % (len(diffs), len(case_by_key)),
                 "the monitor (extracted property) found no history on which the implementation violates C04.",
                 "theorems no longer tied to the code: " + ", ".join(c.coq["theorems"]), ""]
        for key in diffs[:10]:
            lines += ["case : " + case_by_key[key], "impl : " + str(impl.get(key)), "model: " + str(model.get(key)), ""]
        c.violation("corr", "\n".join(lines), no_input=True)

    nt = set()
    for key, cl in case_by_key.items():
        ml = model.get(key, "")
        if nontrivial(cl, ml):
            nt.add(cl.split(" ", 2)[2])
    kinds = {}
    for cl in case_by_key.values():
        kinds[cl[0]] = kinds.get(cl[0], 0) + 1
    samples = []
    seen_kind = {}
    for key, cl in case_by_key.items():
        if seen_kind.get(cl[0], 0) < 2:
            seen_kind[cl[0]] = seen_kind.get(cl[0], 0) + 1
            samples.append({"case": cl[:300], "impl": impl.get(key, "")[:200], "model": model.get(key, "")[:200]})
    n_sweep = kinds.get("S", 0)
    c.cov.update({
        "evaluations": len(case_by_key) + n_sweep * 65535,
        "case_lines": len(case_by_key),
        "distinct_nontrivial": len(nt),
        "rule": "case lines by kind: H=history on RxCtrState (fresh session / new(first)), B=group sender with true counters across 2^32, "
                "G=GroupCtrStore op sequence, S=one-step sweep over all 2^16 bitmaps for one (max,enc,roll,offset) compared by digest; "
                "non-trivial = distinct case (id removed) whose model answer contains both an accept and a reject, or any sweep block",
        "samples": samples,
        "cases_by_kind": kinds,
        "history_op_distribution": stats,
        "monitor_cases": n_mon,
        "monitor_violations": mon_viol,
        "disagreements_checked": len(diffs),
        "exhaustive": False,
        "exhaustive_parts": "all 2^16 bitmaps per sweep block (%d blocks); all 3-step histories over offsets -18..18 and all 4-step histories over 11 boundary offsets around each base" % n_sweep,
    })
    c.finish(level="proof",
             trusted_base=["Coq 8.16.1 kernel (coqc; coqchk in thorough tier)", "no axioms (Closed under the global context)",
                           "extraction ExtrOcamlBasic + hand-written OCaml driver ocaml/c04/driver.ml, ocaml/common/util.ml",
                           "Rust harness harness/src/bin/c04.rs and hooks (cfg rs_matter_verif) in transport/dedup.rs, session.rs",
                           "correspondence is differential testing on the generated cases"],
             assumptions=["group theorems: true counters of one sender stay within half the ring (2^31) between them",
                          "model = Model/Dedup.v hand-transcribed from transport/dedup.rs; tied to the code only by the correspondence run"])
