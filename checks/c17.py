"""C17 — headers, onboarding payloads and discovery records decode what was encoded."""
import json
import os
import subprocess
from .common import Check, read_keyed, ROOT

KINDS = ("HP", "HX", "HD", "HS", "B", "BD", "M", "MD", "Q", "QD", "S", "SD", "T",
         "CI", "CP", "XI", "XID", "XA", "XAD", "XB", "XBD", "XQ", "XQD", "XS", "XSD",
         "A", "AR", "AD", "MC", "MF", "MTD", "MN", "MI", "CE")
# formats that have a Coq model (their T cases are supplementary tests); the others are tested-not-proved
MODELLED_T = ("checkin", "bdx", "bleadv", "statusreport")
PARTLY_MODELLED_T = ("mdns",)
KIND_TEXT = {
    "HP": "PlainHdr encode/decode round trip", "HX": "ProtoHdr encode/decode round trip",
    "HD": "header decoders on arbitrary bytes", "HS": "PlainHdr built with the public setters",
    "B": "base-38 encode/decode round trip", "BD": "base-38 decoder on an arbitrary string",
    "M": "manual pairing code compute/parse round trip", "MD": "manual pairing code parser on an arbitrary string",
    "Q": "QR payload encode/parse round trip", "QD": "QR parser on an arbitrary string",
    "S": "StatusReport write/read round trip", "SD": "StatusReport reader on arbitrary bytes",
    "CI": "check-in payload generate/parse round trip", "CP": "check-in parser on arbitrary bytes",
    "XI": "BDX TransferInit write/parse", "XID": "BDX TransferInit parser on arbitrary bytes",
    "XA": "BDX TransferAccept write/parse", "XAD": "BDX TransferAccept parser on arbitrary bytes",
    "XB": "BDX Block write/parse", "XBD": "BDX Block parser on arbitrary bytes",
    "XQ": "BDX BlockQuery write/parse", "XQD": "BDX BlockQuery parser on arbitrary bytes",
    "XS": "BDX BlockQueryWithSkip write/parse", "XSD": "BDX BlockQueryWithSkip parser on arbitrary bytes",
    "A": "BLE commissionable advertisement round trip", "AR": "BLE recovery advertisement round trip",
    "AD": "BLE advertisement parsers on arbitrary bytes",
    "MC": "mDNS commissionable TXT record published and read back",
    "MF": "mDNS TXT fields: filter match, session parameters, TCP flag",
    "MTD": "mDNS TXT reader on arbitrary rdata", "MN": "mDNS instance-name label round trip",
    "MI": "mDNS instance-name label matching",
    "CE": "X.509 extension values (key usage, extended key usage, basic constraints) of a converted Matter certificate",
}


def main(tier, replay=None):
    c = Check("C17", tier)
    coq_ok = c.coq_check()
    if not coq_ok:
        c.proof_broken_violation()
    driver = c.build_model()
    hbin = c.build_harness()
    rd = c.rundir
    cases = os.path.join(rd, "cases.txt")
    stats = {}
    if replay:
        with open(cases, "w") as f:
            for l in open(replay):
                l = l.strip()
                if l.startswith("case: "):
                    l = l[6:]
                if l.split(" ")[0] in KINDS:
                    f.write(l + "\n")
    else:
        subprocess.run([hbin, "gen", c.tier, str(c.seed), rd], check=True)
        stats = json.load(open(os.path.join(rd, "stats.json")))
        corp = os.path.join(ROOT, "corpus", "C17")
        extra = []
        if os.path.isdir(corp):
            for fn in sorted(os.listdir(corp)):
                extra += [l for l in open(os.path.join(corp, fn)).read().split("\n") if l and not l.startswith("#")]
        if extra:
            body = open(cases).read()
            with open(cases, "w") as f:
                f.write("\n".join(extra) + "\n" + body)
    impl_out = c.run_sharded([hbin, "run"], cases, os.path.join(rd, "impl.out"))
    model_out = c.run_sharded([driver, "<"], cases, os.path.join(rd, "model.out"))
    impl = read_keyed(impl_out)
    model = read_keyed(model_out)
    case_by_key = {}
    for line in open(cases):
        line = line.rstrip("\n")
        if line:
            f = line.split(" ")
            case_by_key[f[0] + " " + f[1]] = line

    # --- monitor: the extracted executable property on the implementation's own outputs
    spec_in = os.path.join(rd, "spec.in")
    n_mon = 0
    with open(spec_in, "w") as f:
        for key, cl in case_by_key.items():
            if cl.startswith("T "):
                continue
            il = impl.get(key)
            if il is None:
                continue
            n_mon += 1
            if "panic" in il.split(" ")[2:] and "panic" not in (model.get(key) or "").split(" ")[2:]:
                # the implementation aborted where the model does not: judged without the driver
                # (no spec line => reported below as a monitor violation with this input)
                continue
            f.write(cl + " @ " + " ".join(il.split(" ")[2:]) + "\n")
    spec_out = c.run_sharded([driver, "<"], spec_in, os.path.join(rd, "spec.out"), argv_suffix=["spec"])
    spec = read_keyed(spec_out)
    mon_viol = {}
    for key, cl in sorted(case_by_key.items(), key=lambda kv: len(kv[1])):
        if cl.startswith("T "):
            continue
        sl = spec.get(key)
        il = impl.get(key, "(no output)")
        if sl is None or sl.split(" ")[2] != "1":
            k = cl.split(" ")[0]
            mon_viol[k] = mon_viol.get(k, 0) + 1
            if mon_viol[k] <= 2:
                c.violation("monitor-" + k, "\n".join([
                    "property C17 fails on the implementation (%s):" % KIND_TEXT.get(k, k),
                    "case: " + cl,
                    "implementation output: " + il,
                    "the extracted property (Model/CodecsSpec.v) is false on this output: a legal value must decode to "
                    "exactly what was encoded; a decoder must not panic and may only accept well-formed input",
                    "model output for comparison: " + str(model.get(key)),
                    "replay: bin/check C17 quick --replay <this file>"]))
    # formats without a model: the implementation's own round trip and no-panic
    tnp_viol = {}
    tnp_counts = {}
    for key, cl in case_by_key.items():
        if not cl.startswith("T "):
            continue
        f = cl.split(" ")
        il = impl.get(key, "T %s %s %s PANIC (no output)" % (f[1], f[2], f[3]))
        verdict = il.split(" ")[4] if len(il.split(" ")) > 4 else "PANIC"
        tk = f[2] + ":" + f[3]
        tnp_counts[tk] = tnp_counts.get(tk, 0) + 1
        if verdict != "ok":
            name = "tnp-%s-%s" % (f[2], "panic" if verdict == "PANIC" else "roundtrip")
            tnp_viol[name] = tnp_viol.get(name, 0) + 1
            if tnp_viol[name] <= 2:
                c.violation(name, "\n".join([
                    "property C17 fails on the implementation (format %s, tested without a model):" % f[2],
                    "case: " + cl,
                    "implementation output: " + il,
                    ("the decoder panicked on this input" if verdict == "PANIC" else
                     "a legal value did not decode to what was encoded"),
                    "replay: bin/check C17 quick --replay <this file>"]))

    # --- correspondence (modelled formats only)
    diffs = [key for key, cl in case_by_key.items() if not cl.startswith("T ") and impl.get(key) != model.get(key)]
    if diffs and not c.violations:
        lines = ["correspondence corr:C17 broke: model and implementation disagree on %d of %d cases;" % (
                    len(diffs), sum(1 for cl in case_by_key.values() if not cl.startswith("T "))),
                 "the monitors (extracted property) found no input on which the implementation violates C17.",
                 "kinds: " + ", ".join(sorted(set(k.split(" ")[0] for k in diffs))),
                 "theorems no longer tied to the code: " + ", ".join(c.coq["theorems"]), ""]
        for key in diffs[:10]:
            lines += ["case : " + case_by_key[key], "impl : " + str(impl.get(key)), "model: " + str(model.get(key)), ""]
        c.violation("corr", "\n".join(lines), no_input=True)

    nt = set()
    kinds = {}
    accepted = {}
    for key, cl in case_by_key.items():
        k = cl.split(" ")[0]
        kinds[k] = kinds.get(k, 0) + 1
        if k == "T":
            continue
        ml = model.get(key, "")
        if "ok:" in ml:
            nt.add(cl.split(" ", 2)[2] + "|" + k)
            accepted[k] = accepted.get(k, 0) + 1
    samples = []
    seen_kind = {}
    for key, cl in case_by_key.items():
        k = cl.split(" ")[0] + (":" + cl.split(" ")[2] if cl.startswith("T ") else "")
        if seen_kind.get(k, 0) < 1:
            seen_kind[k] = 1
            samples.append({"case": cl[:200], "impl": impl.get(key, "")[:200], "model": model.get(key, "")[:200]})
    c.cov.update({
        "evaluations": len(case_by_key),
        "case_lines": len(case_by_key),
        "distinct_nontrivial": len(nt),
        "rule": "case lines by kind (see harness/src/bin/c17.rs header); non-trivial = distinct case (id removed) of a modelled "
                "format for which the model's decoder reaches its accepting arm (output contains ok:); hostile-input kinds "
                "HD/BD/MD/QD/SD are built from valid encodings with mutations so that both arms are reached",
        "samples": samples,
        "cases_by_kind": kinds,
        "decoder_accepts_by_kind": accepted,
        "generator_stats": stats,
        "monitor_cases": n_mon,
        "monitor_violations": mon_viol,
        "proved_formats": ["PlainHdr", "ProtoHdr", "base-38", "Verhoeff", "manual pairing code", "QR payload (fixed part + raw tail)",
                           "StatusReport", "check-in payload layout (symbolic AEAD)", "BDX message bodies",
                           "BLE advertisement payloads", "mDNS TXT records + instance-name labels",
                           "X.509 key-usage / extended-key-usage / basic-constraints extension values of the certificate conversion"],
        "tested_not_proved": {
            "note": "no Coq model: only the implementation's own encode/decode round trip and absence of panics are TESTED",
            "formats": ["cert (Matter TLV -> X.509 DER): whole TBSCertificate compared byte for byte with an independent "
                        "harness-side conversion (certx: every key purpose id / subset, every key-usage bit, basic-constraints "
                        "variants, all 22 DN attribute types, both time encodings); only the three enumerated extension values are modelled (CE)", "cd (certification declaration)",
                        "mdns DNS message framing (names, SRV/A/AAAA records; the domain crate)"],
            "cases": {k: v for k, v in tnp_counts.items() if k.split(":")[0] not in MODELLED_T},
            "violations": tnp_viol},
        "supplementary_tests_of_modelled_formats": {k: v for k, v in tnp_counts.items() if k.split(":")[0] in MODELLED_T},
        "disagreements_checked": len(diffs),
        "exhaustive": False,
        "exhaustive_parts": "all 8 MsgFlags x 6 SecFlags values, all 32 ExchFlags values (boundary fields), all 256 first header bytes, "
                            "every 7-bit character alone/in a chunk for the base-38 decoder; Verhoeff table facts are proved, not swept",
    })
    c.finish(level="proof",
             trusted_base=["Coq 8.16.1 kernel (coqc; coqchk in thorough tier)", "no axioms (Closed under the global context)",
                           "extraction ExtrOcamlBasic + hand-written OCaml driver ocaml/c17/driver.ml, ocaml/common/util.ml",
                           "Rust harness harness/src/bin/c17.rs, harness/src/c17_deep.rs, harness/src/c17_formats.rs and hooks "
                           "(cfg rs_matter_verif) PlainHdr/ProtoHdr::verif_raw / verif_from_raw, MatterLocalService::verif_service",
                           "the verhoeff crate's tables were transcribed into Model/Codecs.v; tied by the manual-code cases",
                           "correspondence is differential testing on the generated cases"],
             assumptions=["models = Model/Headers.v, Model/Codecs.v hand-transcribed from plain_hdr.rs, proto_hdr.rs, base38.rs, "
                          "pairing/code.rs, pairing/qr.rs, sc.rs; tied to the code only by the correspondence run",
                          "QR: fixed 88-bit part and the raw optional tail; TLV content of the tail (serial number) is C16's",
                          "check-in: HMAC nonce derivation and AES-CCM are symbolic (any functions satisfying aead_ideal); "
                          "the oracle answers fed to the model are computed by the harness with the crypto backend directly",
                          "mDNS: TXT rdata, TXT field parsing, number/hex printing and instance labels are modelled; DNS message "
                          "framing and name compression (domain crate) are not",
                          "PARTIAL: certificate TLV->X.509 conversion, certification declaration and DNS message framing have NO "
                          "model; they are tested-not-proved (round trip + no panic on generated and hostile inputs)"])
