(** The monitor of Model/ImSpec.v is the property: on a node that does not
    change, [holds] is true of a response exactly when the response is the
    specified one. *)
From RsM Require Import Lib.MachInt Model.Acl Model.AclSpec Model.Im Model.ImSpec.
From RsM Require Import Proofs.ImTheorems.
Open Scope N_scope.

Arguments N.eqb : simpl never.

Lemma status_eqb_eq (a b : status) : status_eqb a b = true <-> a = b.
Proof.
  split; [|intros ->; unfold status_eqb; apply N.eqb_refl].
  destruct a, b; try reflexivity; intros H; vm_compute in H; discriminate.
Qed.

Lemma opt_eqb_eq (a b : option N) : opt_eqb a b = true <-> a = b.
Proof.
  destruct a as [x|], b as [y|]; cbn [opt_eqb]; split; intros H; try discriminate; try reflexivity.
  - apply N.eqb_eq in H. subst. reflexivity.
  - injection H as ->. apply N.eqb_refl.
Qed.

Lemma path_eqb_eq (a b : gpath) : path_eqb a b = true <-> a = b.
Proof.
  destruct a as [a1 a2 a3], b as [b1 b2 b3]. unfold path_eqb. cbn [p_ep p_cl p_leaf].
  rewrite !andb_true_iff, !opt_eqb_eq. split.
  - intros [[-> ->] ->]. reflexivity.
  - intros H. injection H as -> -> ->. repeat split.
Qed.

Lemma out_eqb_eq (a b : out) : out_eqb a b = true <-> a = b.
Proof.
  destruct a as [e c l t|p t s], b as [e' c' l' t'|p' t' s']; cbn [out_eqb]; split; intros H; try discriminate.
  - rewrite !andb_true_iff, !N.eqb_eq, opt_eqb_eq in H. destruct H as [[[-> ->] ->] ->]. reflexivity.
  - injection H as -> -> -> ->. rewrite !N.eqb_refl. cbn [andb]. apply opt_eqb_eq. reflexivity.
  - rewrite !andb_true_iff, path_eqb_eq, opt_eqb_eq, status_eqb_eq in H. destruct H as [[-> ->] ->]. reflexivity.
  - injection H as -> -> ->. rewrite !andb_true_iff, path_eqb_eq, opt_eqb_eq, status_eqb_eq. repeat split.
Qed.

Lemma bool_eqb_eq (a b : bool) : Bool.eqb a b = true <-> a = b.
Proof. destruct a, b; cbn; split; intros H; try discriminate; reflexivity. Qed.

Lemma hcall_eqb_eq (a b : hcall) : hcall_eqb a b = true <-> a = b.
Proof.
  destruct a, b; cbn [hcall_eqb]; split; intros H; try discriminate.
  - rewrite !andb_true_iff, !N.eqb_eq, bool_eqb_eq in H. destruct H as [[[[-> ->] ->] ->] ->]. reflexivity.
  - injection H as -> -> -> -> ->. rewrite !N.eqb_refl. cbn [andb]. apply bool_eqb_eq. reflexivity.
  - rewrite !andb_true_iff, !N.eqb_eq in H. destruct H as [[[-> ->] ->] ->]. reflexivity.
  - injection H as -> -> -> ->. rewrite !N.eqb_refl. reflexivity.
  - rewrite !andb_true_iff, !N.eqb_eq in H. destruct H as [[[-> ->] ->] ->]. reflexivity.
  - injection H as -> -> -> ->. rewrite !N.eqb_refl. reflexivity.
Qed.

Lemma list_eqb_eq {A} (eqb : A -> A -> bool) (Heq : forall x y, eqb x y = true <-> x = y) (a b : list A) :
  list_eqb eqb a b = true <-> a = b.
Proof.
  revert b. induction a as [|x a IH]; intros [|y b]; cbn [list_eqb]; split; intros H; try discriminate; try reflexivity.
  - apply andb_true_iff in H. destruct H as [Hx Hr]. apply Heq in Hx. apply IH in Hr. subst. reflexivity.
  - injection H as -> ->. apply andb_true_iff. split; [apply Heq; reflexivity|apply IH; reflexivity].
Qed.

Lemma imresp_eqb_eq (a b : imresp) : imresp_eqb a b = true -> a = b.
Proof.
  destruct a as [s|o l|], b as [s'|o' l'|]; cbn [imresp_eqb]; intros H; try discriminate.
  - apply status_eqb_eq in H. subst. reflexivity.
  - apply andb_true_iff in H. destruct H as [Ho Hl].
    apply (list_eqb_eq out_eqb out_eqb_eq) in Ho. apply (list_eqb_eq hcall_eqb hcall_eqb_eq) in Hl.
    subst. reflexivity.
Qed.

Lemma imresp_eqb_refl (a : imresp) : a <> RespOutOfFuel -> imresp_eqb a a = true.
Proof.
  destruct a as [s|o l|]; cbn [imresp_eqb]; intros H.
  - apply status_eqb_eq. reflexivity.
  - apply andb_true_iff. split; [apply (list_eqb_eq out_eqb out_eqb_eq)|apply (list_eqb_eq hcall_eqb hcall_eqb_eq)]; reflexivity.
  - congruence.
Qed.

(** the monitor accepts a response on a stable, well-formed configuration
    only if it is the specified response *)
Theorem holds_stable_sound (max_paths : nat) (who : accessor) (nd : node) (fabs : list fabric)
  (rq : imreq) (resp : imresp) :
  wf_node nd = true -> wf_fabrics fabs = true ->
  holds max_paths who (mkCfg nd fabs) [] rq resp = true ->
  resp = spec_response max_paths who nd fabs rq.
Proof.
  intros Hn Hf. unfold holds. cbn [cf_node cf_fabs]. rewrite Hn, Hf. cbn [andb]. apply imresp_eqb_eq.
Qed.

Lemma spec_response_not_fuel (max_paths : nat) (who : accessor) (nd : node) (fabs : list fabric) (rq : imreq) :
  spec_response max_paths who nd fabs rq <> RespOutOfFuel.
Proof.
  unfold spec_response.
  destruct (rq_op rq).
  - destruct (existsb (fun it => bad_read_path (it_path it)) (rq_items rq)); discriminate.
  - destruct (gate_spec (rq_win rq) (rq_flag rq) (rq_elapsed rq)); [discriminate|].
    destruct (is_invoke Write && invoke_malformed max_paths (rq_items rq)); discriminate.
  - destruct (gate_spec (rq_win rq) (rq_flag rq) (rq_elapsed rq)); [discriminate|].
    destruct (is_invoke Invoke && invoke_malformed max_paths (rq_items rq)); discriminate.
Qed.

(** the model satisfies the monitor *)
Theorem holds_model (fuel max_paths : nat) (who : accessor) (nd : node) (fabs : list fabric) (rq : imreq) :
  wf_node nd = true -> wf_fabrics fabs = true ->
  (length (spec_outs nd fabs who rq) < fuel)%nat ->
  holds max_paths who (mkCfg nd fabs) [] rq (im_handle fuel max_paths who (mkCfg nd fabs) [] rq) = true.
Proof.
  intros Hn Hf Hfuel. rewrite (im_handle_exact fuel max_paths who nd fabs rq Hn Hf Hfuel).
  unfold holds. cbn [cf_node cf_fabs]. rewrite Hn, Hf. cbn [andb].
  apply imresp_eqb_refl. apply spec_response_not_fuel.
Qed.
