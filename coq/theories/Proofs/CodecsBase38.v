(** Base-38: round trip, canonicity, rejection, totality. *)
From RsM Require Import Lib.MachInt Model.Headers Model.Codecs Proofs.HeadersFacts.
From Coq Require Import ZifyN ZifyBool.
Open Scope N_scope.

Arguments N.add : simpl never.
Arguments N.mul : simpl never.
Arguments N.pow : simpl never.
Arguments N.div : simpl never.
Arguments N.modulo : simpl never.
Arguments N.sub : simpl never.
Arguments N.ltb : simpl never.
Arguments N.leb : simpl never.
Arguments N.eqb : simpl never.

Ltac dm_lia := zify; Z.div_mod_to_equations; lia.

(** * Finite ranges *)

Fixpoint nrange (n : nat) : list N :=
  match n with
  | O => []
  | S k => nrange k ++ [N.of_nat k]
  end.

Lemma nrange_in (n : nat) (x : N) : x < N.of_nat n -> In x (nrange n).
Proof.
  induction n as [|n IH]; intro H; [lia|].
  cbn [nrange]. apply in_or_app.
  destruct (N.eq_dec x (N.of_nat n)) as [->|Hne].
  - right. left. reflexivity.
  - left. apply IH. lia.
Qed.

Lemma forall_lt_by_compute (n : nat) (f : N -> bool) :
  forallb f (nrange n) = true -> forall x, x < N.of_nat n -> f x = true.
Proof.
  intros H x Hx. rewrite forallb_forall in H. apply H. apply nrange_in. exact Hx.
Qed.

(** * Characters *)

Lemma decode_char_of_char (d : N) : d < 38 -> b38_decode_char (b38_char d) = Some d.
Proof.
  intro H.
  assert (Hc : (match b38_decode_char (b38_char d) with Some v => v =? d | None => false end) = true).
  { revert d H. apply (forall_lt_by_compute 38). vm_compute. reflexivity. }
  destruct (b38_decode_char (b38_char d)) as [v|]; [|discriminate].
  apply N.eqb_eq in Hc. subst. reflexivity.
Qed.

(** a decoded character is in the alphabet, at the position of its value *)
Lemma decode_char_inv (c v : N) :
  b38_decode_char c = Some v -> v < 38 /\ b38_char v = c.
Proof.
  unfold b38_decode_char.
  destruct ((45 <=? c) && (c <=? 90)) eqn:Hr; [|discriminate].
  apply andb_prop in Hr as [Hr1 Hr2]. apply N.leb_le in Hr1, Hr2.
  assert (Hc : c - 45 < 46) by lia.
  assert (Hall : forall k, k < N.of_nat 46 ->
    (let v := nth (N.to_nat k) B38_DECODE 255 in
     if v =? 255 then true else (v <? 38) && (b38_char v =? k + 45)) = true).
  { apply (forall_lt_by_compute 46). vm_compute. reflexivity. }
  specialize (Hall (c - 45) Hc). cbv zeta in Hall.
  destruct (nth (N.to_nat (c - 45)) B38_DECODE 255 =? 255); [discriminate|].
  intro H.
  assert (Hv : nth (N.to_nat (c - 45)) B38_DECODE 255 = v) by congruence.
  clear H. rewrite Hv in Hall.
  apply andb_prop in Hall as [H1 H2]. split; [apply N.ltb_lt; exact H1|].
  apply N.eqb_eq in H2. rewrite H2. lia.
Qed.

Lemma decode_char_not_alphabet (c : N) :
  ~ In c B38_CHARS -> b38_decode_char c = None.
Proof.
  intro Hn. destruct (b38_decode_char c) as [v|] eqn:E; [|reflexivity].
  exfalso. apply decode_char_inv in E as [Hv <-]. apply Hn.
  unfold b38_char. apply nth_In. change (length B38_CHARS) with 38%nat. lia.
Qed.

Lemma b38_char_in (d : N) : d < 38 -> In (b38_char d) B38_CHARS.
Proof.
  intro H. unfold b38_char. apply nth_In. change (length B38_CHARS) with 38%nat. lia.
Qed.

(** * Chunks *)

Lemma enc38_length (v : N) (n : nat) : length (enc38 v n) = n.
Proof.
  revert v. induction n as [|n IH]; intro v; cbn [enc38 length]; [reflexivity|].
  rewrite IH. reflexivity.
Qed.

Lemma pow38_succ (n : nat) : 38 ^ N.of_nat (S n) = 38 * 38 ^ N.of_nat n.
Proof. rewrite Nat2N.inj_succ, N.pow_succ_r'. reflexivity. Qed.

Lemma pow38_pos (n : nat) : 0 < 38 ^ N.of_nat n.
Proof. apply N.neq_0_lt_0, N.pow_nonzero. discriminate. Qed.

Lemma dec38_val_enc38 (n : nat) (v : N) :
  v < 38 ^ N.of_nat n -> dec38_val (enc38 v n) = Some v.
Proof.
  revert v. induction n as [|n IH]; intros v Hv.
  - change (38 ^ N.of_nat 0) with 1 in Hv. cbn [enc38 dec38_val].
    f_equal. lia.
  - cbn [enc38 dec38_val]. unfold RADIX in *. rewrite pow38_succ in Hv.
    pose proof (pow38_pos n) as Hp.
    rewrite IH by (apply N.div_lt_upper_bound; [lia|]; dm_lia).
    rewrite decode_char_of_char by (apply N.mod_lt; discriminate).
    f_equal. dm_lia.
Qed.

Lemma enc38_dec38_val (chars : list N) (v : N) :
  dec38_val chars = Some v ->
  enc38 v (length chars) = chars /\ v < 38 ^ N.of_nat (length chars).
Proof.
  revert v. induction chars as [|c t IH]; intros v H.
  - cbn [dec38_val] in H. injection H as <-. split; [reflexivity|].
    change (38 ^ N.of_nat (length (@nil N))) with 1. lia.
  - cbn [dec38_val] in H.
    destruct (dec38_val t) as [r|] eqn:Er; [|discriminate].
    destruct (b38_decode_char c) as [d|] eqn:Ed; [|discriminate].
    injection H as <-. unfold RADIX.
    apply decode_char_inv in Ed as [Hd Hc].
    destruct (IH r eq_refl) as [IH1 IH2].
    cbn [length enc38]. unfold RADIX. rewrite pow38_succ.
    replace ((r * 38 + d) mod 38) with d by dm_lia.
    replace ((r * 38 + d - d) / 38) with r by dm_lia.
    rewrite Hc, IH1. split; [reflexivity|lia].
Qed.

Lemma dec38_val_chars (chars : list N) (v : N) :
  dec38_val chars = Some v -> Forall (fun c => In c B38_CHARS) chars.
Proof.
  revert v. induction chars as [|c t IH]; intros v H; [constructor|].
  cbn [dec38_val] in H.
  destruct (dec38_val t) as [r|] eqn:Er; [|discriminate].
  destruct (b38_decode_char c) as [d|] eqn:Ed; [|discriminate].
  constructor; [|eapply IH; reflexivity].
  apply decode_char_inv in Ed as [Hd <-]. apply b38_char_in. exact Hd.
Qed.

Lemma dec38_val_bad_char (chars : list N) (c : N) :
  In c chars -> b38_decode_char c = None -> dec38_val chars = None.
Proof.
  induction chars as [|x t IH]; intros Hin Hc; [contradiction|].
  cbn [dec38_val]. destruct Hin as [->|Hin].
  - rewrite Hc. destruct (dec38_val t); reflexivity.
  - rewrite (IH Hin Hc). reflexivity.
Qed.

(** one chunk, encode then decode *)
Lemma dec38_chunk_enc38 (chars_n bytes_n : nat) (v : N) :
  b38_chunk_bytes chars_n = Some bytes_n ->
  v < 256 ^ N.of_nat bytes_n -> 256 ^ N.of_nat bytes_n <= 38 ^ N.of_nat chars_n ->
  dec38_chunk (enc38 v chars_n) = Ok (le_bytes bytes_n v).
Proof.
  intros Hb Hv Hle. unfold dec38_chunk. rewrite enc38_length, Hb.
  rewrite dec38_val_enc38 by lia.
  rewrite N.div_small by assumption. reflexivity.
Qed.

Lemma chunk_bytes_cases (n m : nat) :
  b38_chunk_bytes n = Some m ->
  (n = 5 /\ m = 3)%nat \/ (n = 4 /\ m = 2)%nat \/ (n = 2 /\ m = 1)%nat \/ (n = 0 /\ m = 0)%nat.
Proof.
  do 6 (destruct n as [|n]; cbn [b38_chunk_bytes]; try discriminate;
        try (intro H; injection H as <-; lia)).
Qed.

(** one chunk, decode then encode: accepted chunks are canonical *)
Lemma dec38_chunk_inv (chars bs : list N) :
  dec38_chunk chars = Ok bs ->
  exists m v, b38_chunk_bytes (length chars) = Some m /\
    bs = le_bytes m v /\ v < 256 ^ N.of_nat m /\ enc38 v (length chars) = chars.
Proof.
  unfold dec38_chunk. intro H.
  destruct (b38_chunk_bytes (length chars)) as [m|] eqn:Hm; [|discriminate].
  destruct (dec38_val chars) as [v|] eqn:Hv; [|discriminate].
  destruct (v / 256 ^ N.of_nat m =? 0) eqn:Hs; [|discriminate].
  injection H as <-. exists m, v. split; [reflexivity|]. split; [reflexivity|].
  apply enc38_dec38_val in Hv as [Hv _]. split; [|exact Hv].
  apply N.eqb_eq in Hs. apply N.div_small_iff in Hs; [exact Hs|].
  apply N.pow_nonzero. discriminate.
Qed.

(** * Whole strings *)

Lemma list_ind3 {A} (P : list A -> Prop) :
  P [] -> (forall a, P [a]) -> (forall a b, P [a; b]) ->
  (forall a b c t, P t -> P (a :: b :: c :: t)) -> forall l, P l.
Proof.
  intros H0 H1 H2 H3. fix IH 1. intros [|a [|b [|c t]]].
  - exact H0.
  - apply H1.
  - apply H2.
  - apply H3. apply IH.
Qed.

Lemma list_ind5 {A} (P : list A -> Prop) :
  (forall l, (length l < 5)%nat -> P l) ->
  (forall a b c d e t, P t -> P (a :: b :: c :: d :: e :: t)) -> forall l, P l.
Proof.
  intros H0 H5. fix IH 1. intros [|a [|b [|c [|d [|e t]]]]];
    try (apply H0; cbn; lia).
  apply H5. apply IH.
Qed.

Lemma b38_decode_short (s : list N) :
  (length s < 5)%nat -> b38_decode s = dec38_chunk s.
Proof.
  destruct s as [|a [|b [|c [|d [|e t]]]]]; cbn [length]; intro H; try reflexivity. lia.
Qed.

Lemma b38_decode_cons5 (a b c d e : N) (t : list N) :
  b38_decode (a :: b :: c :: d :: e :: t) =
  (let? x := dec38_chunk [a; b; c; d; e] in let? y := b38_decode t in Ok (x ++ y)).
Proof. reflexivity. Qed.

Lemma b38_decode_app5 (x t : list N) :
  length x = 5%nat ->
  b38_decode (x ++ t) =
  (let? bx := dec38_chunk x in let? y := b38_decode t in Ok (bx ++ y)).
Proof.
  destruct x as [|a [|b [|c [|d [|e [|f r]]]]]]; cbn [length]; intro H; try lia.
  reflexivity.
Qed.

Lemma le3 (a b c : N) : a < 256 -> b < 256 -> c < 256 ->
  le_bytes 3 (c * 65536 + b * 256 + a) = [a; b; c].
Proof.
  intros Ha Hb Hc.
  assert (Hbs : bytes [a; b; c]) by (repeat constructor; assumption).
  transitivity (le_bytes (length [a; b; c]) (le_val [a; b; c]));
    [|apply le_bytes_le_val; assumption].
  cbn [length le_val]. f_equal. lia.
Qed.

Lemma le2 (a b : N) : a < 256 -> b < 256 -> le_bytes 2 (b * 256 + a) = [a; b].
Proof.
  intros Ha Hb.
  assert (Hbs : bytes [a; b]) by (repeat constructor; assumption).
  transitivity (le_bytes (length [a; b]) (le_val [a; b]));
    [|apply le_bytes_le_val; assumption].
  cbn [length le_val]. f_equal. lia.
Qed.

Lemma le1 (a : N) : a < 256 -> le_bytes 1 a = [a].
Proof.
  intros Ha.
  assert (Hbs : bytes [a]) by (repeat constructor; assumption).
  transitivity (le_bytes (length [a]) (le_val [a]));
    [|apply le_bytes_le_val; assumption].
  cbn [length le_val]. f_equal. lia.
Qed.

Lemma b38_roundtrip (bs : list N) : bytes bs -> b38_decode (b38_encode bs) = Ok bs.
Proof.
  induction bs as [|a|a b|a b c t IH] using list_ind3; intro Hb.
  - reflexivity.
  - apply Forall_inv in Hb. cbv beta in Hb. cbn [b38_encode].
    rewrite b38_decode_short by (rewrite enc38_length; lia).
    rewrite (dec38_chunk_enc38 2 1);
      [|reflexivity|change (256 ^ N.of_nat 1) with 256; lia|vm_compute; discriminate].
    rewrite le1 by assumption. reflexivity.
  - pose proof (Forall_inv Hb) as Ha. pose proof (Forall_inv (Forall_inv_tail Hb)) as Hb'.
    cbv beta in Ha, Hb'. cbn [b38_encode].
    rewrite b38_decode_short by (rewrite enc38_length; lia).
    rewrite (dec38_chunk_enc38 4 2);
      [|reflexivity|change (256 ^ N.of_nat 2) with 65536; lia|vm_compute; discriminate].
    rewrite le2 by assumption. reflexivity.
  - pose proof (Forall_inv Hb) as Ha.
    pose proof (Forall_inv (Forall_inv_tail Hb)) as Hb'.
    pose proof (Forall_inv (Forall_inv_tail (Forall_inv_tail Hb))) as Hc.
    pose proof (Forall_inv_tail (Forall_inv_tail (Forall_inv_tail Hb))) as Ht.
    cbv beta in Ha, Hb', Hc. cbn [b38_encode].
    rewrite b38_decode_app5 by apply enc38_length.
    rewrite (dec38_chunk_enc38 5 3);
      [|reflexivity|change (256 ^ N.of_nat 3) with 16777216; lia|vm_compute; discriminate].
    cbn [bind]. rewrite IH by assumption. cbn [bind].
    rewrite le3 by assumption. reflexivity.
Qed.

Lemma le_bytes_3_shape (v : N) : exists a b c,
  le_bytes 3 v = [a; b; c] /\ a < 256 /\ b < 256 /\ c < 256.
Proof.
  pose proof (le_bytes_bytes 3 v) as Hb. cbn [le_bytes] in *.
  eexists _, _, _. split; [reflexivity|].
  inversion Hb as [|? ? Ha Hb1]; subst. inversion Hb1 as [|? ? Hb2 Hb3]; subst.
  inversion Hb3 as [|? ? Hc _]; subst. repeat split; assumption.
Qed.

(** every accepted string is the encoding of what it decodes to *)
Lemma b38_decode_canonical (s bs : list N) :
  b38_decode s = Ok bs -> b38_encode bs = s /\ bytes bs.
Proof.
  revert bs. induction s as [s Hs|a b c d e t IH] using list_ind5; intros bs H.
  - rewrite b38_decode_short in H by assumption.
    apply dec38_chunk_inv in H as (m & v & Hm & -> & Hv & He).
    split; [|apply le_bytes_bytes].
    apply chunk_bytes_cases in Hm as [[Hn ->]|[[Hn ->]|[[Hn ->]|[Hn ->]]]]; try lia.
    + (* 4 -> 2 *)
      rewrite Hn in He.
      change (256 ^ N.of_nat 2) with 65536 in Hv.
      cbn [le_bytes b38_encode]. rewrite <- He. f_equal. dm_lia.
    + (* 2 -> 1 *)
      rewrite Hn in He. change (256 ^ N.of_nat 1) with 256 in Hv.
      cbn [le_bytes b38_encode]. rewrite <- He. f_equal. dm_lia.
    + (* 0 -> 0 *)
      destruct s; [reflexivity|discriminate].
  - rewrite b38_decode_cons5 in H.
    destruct (dec38_chunk [a; b; c; d; e]) as [x| |] eqn:Ex; cbn [bind] in H; try discriminate.
    destruct (b38_decode t) as [y| |] eqn:Ey; cbn [bind] in H; try discriminate.
    injection H as <-.
    destruct (IH y eq_refl) as [IH1 IH2].
    apply dec38_chunk_inv in Ex as (m & v & Hm & -> & Hv & He).
    cbn [length b38_chunk_bytes] in Hm. injection Hm as <-.
    change (256 ^ N.of_nat 3) with 16777216 in Hv.
    split; [|apply bytes_app; split; [apply le_bytes_bytes|assumption]].
    cbn [le_bytes app b38_encode]. rewrite IH1.
    cbn [length] in He.
    replace (v / 256 / 256 mod 256 * 65536 + v / 256 mod 256 * 256 + v mod 256) with v by dm_lia.
    rewrite He. reflexivity.
Qed.

Lemma dec38_chunk_total (s : list N) : no_panic (dec38_chunk s).
Proof.
  unfold dec38_chunk. destruct (b38_chunk_bytes (length s)); [|exact I].
  destruct (dec38_val s); [|exact I]. destruct (_ =? 0); exact I.
Qed.

Lemma b38_decode_total (s : list N) : no_panic (b38_decode s).
Proof.
  induction s as [s Hs|a b c d e t IH] using list_ind5.
  - rewrite b38_decode_short by assumption. apply dec38_chunk_total.
  - rewrite b38_decode_cons5.
    pose proof (dec38_chunk_total [a; b; c; d; e]) as Hc.
    destruct (dec38_chunk [a; b; c; d; e]); cbn [bind]; try exact I; [|contradiction].
    destruct (b38_decode t); cbn [bind]; try exact I. contradiction.
Qed.

(** the only error of the decoder is InvalidData *)
Lemma b38_decode_err (s : list N) (e : N) : b38_decode s = Err e -> e = E_INVDATA.
Proof.
  assert (Hc : forall x e, dec38_chunk x = Err e -> e = E_INVDATA).
  { intros x e'. unfold dec38_chunk.
    destruct (b38_chunk_bytes (length x)); [|intro H; injection H as <-; reflexivity].
    destruct (dec38_val x); [|intro H; injection H as <-; reflexivity].
    destruct (_ =? 0); [discriminate|intro H; injection H as <-; reflexivity]. }
  revert e. induction s as [s Hs|a b c d e' t IH] using list_ind5; intros e H.
  - rewrite b38_decode_short in H by assumption. eapply Hc; eassumption.
  - rewrite b38_decode_cons5 in H.
    destruct (dec38_chunk [a; b; c; d; e']) as [x|ec|] eqn:Ex; cbn [bind] in H; try discriminate.
    + destruct (b38_decode t) as [y|et|] eqn:Ey; cbn [bind] in H; try discriminate.
      injection H as <-. apply IH. reflexivity.
    + injection H as <-. eapply Hc; eassumption.
Qed.

(** a character outside the alphabet anywhere in the string is refused *)
Lemma b38_rejects_bad_char (s : list N) (c : N) :
  In c s -> ~ In c B38_CHARS -> b38_decode s = Err E_INVDATA.
Proof.
  intros Hin Hc.
  destruct (b38_decode s) as [bs|e|p] eqn:E.
  - exfalso. apply b38_decode_canonical in E as [E Hb]. subst s.
    (* every character of an encoding is in the alphabet *)
    clear Hb. revert Hin.
    assert (He : forall v n, In c (enc38 v n) -> In c B38_CHARS).
    { intros v n. revert v. induction n as [|n IHn]; intros v; cbn [enc38]; [contradiction|].
      intros [<-|H]; [apply b38_char_in, N.mod_lt; discriminate|eapply IHn; exact H]. }
    induction bs as [|a|a b|a b c' t IH] using list_ind3; cbn [b38_encode]; intro Hin;
      try contradiction; try (apply Hc; eapply He; exact Hin).
    apply in_app_or in Hin as [Hin|Hin]; [apply Hc; eapply He; exact Hin|apply IH; exact Hin].
  - f_equal. eapply b38_decode_err; eassumption.
  - pose proof (b38_decode_total s) as Ht. rewrite E in Ht. contradiction.
Qed.

(** a chunk whose value does not fit its bytes is refused *)
Lemma dec38_chunk_overrange (chars : list N) (m : nat) (v : N) :
  b38_chunk_bytes (length chars) = Some m -> dec38_val chars = Some v ->
  256 ^ N.of_nat m <= v -> dec38_chunk chars = Err E_INVDATA.
Proof.
  intros Hm Hv Hle. unfold dec38_chunk. rewrite Hm, Hv.
  destruct (v / 256 ^ N.of_nat m =? 0) eqn:E; [|reflexivity].
  apply N.eqb_eq in E. apply N.div_small_iff in E; [lia|].
  apply N.pow_nonzero. discriminate.
Qed.

(** a string that is not the encoding of any byte string is refused *)
Lemma b38_rejects_noncanonical (s : list N) :
  (forall bs, bytes bs -> b38_encode bs <> s) -> b38_decode s = Err E_INVDATA.
Proof.
  intro Hn. destruct (b38_decode s) as [bs|e|p] eqn:E.
  - exfalso. apply b38_decode_canonical in E as [E Hb]. exact (Hn bs Hb E).
  - f_equal. eapply b38_decode_err; eassumption.
  - pose proof (b38_decode_total s) as Ht. rewrite E in Ht. contradiction.
Qed.

(** lengths 1 and 3 (mod 5) are refused *)
Lemma b38_encode_length_mod (bs : list N) :
  (length (b38_encode bs) mod 5 = 0 \/ length (b38_encode bs) mod 5 = 2 \/
   length (b38_encode bs) mod 5 = 4)%nat.
Proof.
  induction bs as [|a|a b|a b c t IH] using list_ind3; cbn [b38_encode].
  - left. reflexivity.
  - right. left. rewrite enc38_length. reflexivity.
  - right. right. rewrite enc38_length. reflexivity.
  - rewrite app_length, enc38_length.
    replace (5 + length (b38_encode t))%nat with (length (b38_encode t) + 1 * 5)%nat by lia.
    rewrite Nat.mod_add by discriminate. exact IH.
Qed.

Lemma b38_rejects_bad_length (s : list N) :
  (length s mod 5 = 1 \/ length s mod 5 = 3)%nat -> b38_decode s = Err E_INVDATA.
Proof.
  intro H. apply b38_rejects_noncanonical. intros bs _ He. subst s.
  pose proof (b38_encode_length_mod bs). lia.
Qed.
