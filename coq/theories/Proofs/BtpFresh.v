(** Two well-behaved ends from the very beginning: every schedule, also inside
    the handshake (messages handed in before it completes, polls and fetches at
    any time, the responder sending data while its response is still in flight). *)
From RsM Require Import Lib.MachInt Model.Btp Model.BtpSpec
  Proofs.BtpCodec Proofs.BtpFacts Proofs.BtpHostile Proofs.BtpPair Proofs.BtpHandshake.
From Coq Require Import ZifyN ZifyBool.
Open Scope N_scope.

Ltac Zify.zify_post_hook ::= Z.div_mod_to_equations.

Arguments N.add : simpl never.
Arguments N.sub : simpl never.
Arguments N.mul : simpl never.
Arguments N.div : simpl never.
Arguments N.modulo : simpl never.
Arguments N.leb : simpl never.
Arguments N.ltb : simpl never.
Arguments N.eqb : simpl never.
Arguments N.min : simpl never.
Arguments N.max : simpl never.
Arguments N.of_nat : simpl never.
Arguments N.to_nat : simpl never.
Arguments N.testbit : simpl never.

(** * the outgoing SDU slot before the session is established *)

Definition qof (buf : bytes) : list bytes := if blen buf =? 0 then [] else [buf].

Definition out_ok (peer oa : N) (buf : bytes) : Prop :=
  blen buf <> 0 -> oa = peer /\ 1 <= blen buf <= MAX_TX.

(** [Btp::send] only looks at the outgoing slot *)
Definition send_out (oa : N) (buf : bytes) (off : N) (d : bytes) (a : N) : N * bytes * N * out :=
  if (blen d =? 0) || (MAX_TX <? blen d) then (oa, buf, off, RErr E_INVALID_ARG)
  else if blen buf =? 0 then (a, d, 0, RTrue) else (oa, buf, off, RNone).

Lemma step_send s oa buf off d a :
  step (mkInner s oa buf off) (OSend d a) =
  (mkInner s (fst (fst (fst (send_out oa buf off d a)))) (snd (fst (fst (send_out oa buf off d a))))
           (snd (fst (send_out oa buf off d a))), snd (send_out oa buf off d a)).
Proof.
  unfold step, inner_send, send_out. cbn [sess out_buf].
  destruct ((blen d =? 0) || (MAX_TX <? blen d)); [reflexivity|].
  destruct (blen buf =? 0); reflexivity.
Qed.

Lemma step_recv_idle i cap : rmsgs (recv (sess i)) = 0 -> step i (ORecv cap) = (i, RNone).
Proof. intro H. unfold step, inner_recv. rewrite H. reflexivity. Qed.

(** an end that is not established and has no handshake packet to send stays silent *)
Lemma step_poll_idle s oa buf off g t cap :
  hs_pending s = false -> address s = 0 -> send s = sendw_new -> recv s = recvw_new ->
  step (mkInner s oa buf off) (OOut g t cap) = (mkInner s oa buf off, RBytes []).
Proof.
  intros Hp Ha Hs Hr. unfold step, process_outgoing. cbn [sess out_addr out_buf out_off].
  unfold prep_tx_handshake. rewrite Hp. change (blen (@nil N) =? 0) with true. cbn [negb].
  assert (Hfull : sw_is_full (send s) (recv s) = true) by (rewrite Hs; reflexivity).
  assert (Hdue : is_ack_due s t = false) by (unfold is_ack_due; rewrite Hr; reflexivity).
  destruct (negb (blen buf =? 0)).
  - destruct (oa =? address s).
    + unfold prep_tx_data at 1. rewrite prep_tx_seg_full by assumption. cbn [bind].
      change (blen (@nil N) =? 0) with true. cbv zeta. cbn [negb sess out_addr out_buf out_off].
      rewrite Hdue. reflexivity.
    + unfold is_established. rewrite Ha. change (0 =? 0) with true. cbn [negb].
      change (blen (@nil N) =? 0) with true. cbv zeta. cbn [negb sess out_addr out_buf out_off].
      rewrite Hdue. reflexivity.
  - change (blen (@nil N) =? 0) with true. cbv zeta. cbn [negb sess out_addr out_buf out_off].
    rewrite Hdue. reflexivity.
Qed.

Section Fresh.
Variables (c : cfg) (rel : bool).

Definition fm : N := nego_mtu (gattA c) (gattB c) rel.
Definition fw : N := nego_win (gattA c) (gattB c) rel.

Lemma fm_range : 20 <= fm <= 244.
Proof. apply nego_mtu_range. Qed.

Lemma fw_range : 1 <= fw <= 255 /\ fw * fm + 1234 <= RX_CAP.
Proof.
  assert (Hq3 : 20 <= req_mtu (gattA c) - GATT_HDR <= 244)
    by (pose proof (req_mtu_range (gattA c)); unfold GATT_HDR; lia).
  destruct (win_of_range _ Hq3) as (HwA & _).
  destruct (win_of_range _ fm_range) as (HwB & Hprod).
  unfold fw, nego_win. fold fm. split; [lia|]. unfold RX_CAP.
  assert (N.min (win_of (req_mtu (gattA c) - GATT_HDR)) (win_of fm) * fm <= win_of fm * fm)
    by (apply N.mul_le_mono_r; lia).
  lia.
Qed.

Definition sA0 : session := set_initiator session_new true.
Definition sA1 : session := mkSess true 0 0 0 0 false recvw_new sendw_new false.
Definition sB0 : session := set_relaxed session_new rel.
Definition sB1 : session := setup_state (set_relaxed session_new rel) (addrA c) 4 fm fw.

(** the three stages before the responder has answered *)
Definition pre (sa sb : session) (cab cba : list bytes) : Prop :=
  (sa = sA0 /\ sb = sB0 /\ cab = [] /\ cba = []) \/
  (sa = sA1 /\ sb = sB0 /\ cab = [req_bytes (gattA c)] /\ cba = []) \/
  (sa = sA1 /\ sb = sB1 /\ cab = [] /\ cba = []).

Definition set_oba (p : pstate) (v : N) : pstate :=
  mkPS (w_ab p) (w_ba p) (f_ab p) (f_ba p) (o_ab p) v.

Inductive fresh_inv : sys -> pstate -> Prop :=
| FPre sa sb cab cba oaA bA oaB bB :
    pre sa sb cab cba -> out_ok (addrB c) oaA bA -> out_ok (addrA c) oaB bB ->
    fresh_inv (mkSys (mkInner sa oaA bA 0) (mkInner sb oaB bB 0) cab cba)
              (mkPS (qof bA) (qof bB) 0 0 0 0)
| FResp oaA bA B c' p :
    out_ok (addrB c) oaA bA -> o_ba p = 0 ->
    sysinv fm fw c (mkSys (A2 (addrB c) fm fw oaA bA 0) B [] c') (set_oba p 1) ->
    fresh_inv (mkSys (A1 oaA bA 0) B [] (resp_bytes fm fw :: c')) p
| FEst s p : sysinv fm fw c s p -> fresh_inv s p.

Lemma pre_rmsgs sa sb cab cba : pre sa sb cab cba -> rmsgs (recv sa) = 0 /\ rmsgs (recv sb) = 0.
Proof.
  intros [(-> & -> & _)|[(-> & -> & _)|(-> & -> & _)]]; split; reflexivity.
Qed.

Lemma fpre_ok sa sb cab cba qa qb oa ba offa ob bb offb fly :
  pre sa sb cab cba ->
  ps_ok (mkPS qa qb 0 0 0 0) (snap_of (mkInner sa oa ba offa)) (snap_of (mkInner sb ob bb offb)) fly = true.
Proof.
  pose proof fw_range as (Hw & _).
  intros [(-> & -> & _)|[(-> & -> & _)|(-> & -> & _)]]; unfold ps_ok, win_ok, snap_of;
    cbn [sess recv send sA0 sA1 sB0 sB1 set_initiator set_relaxed session_new setup_state recvw_new sendw_new
         initiator rlevel rack_level slevel swin n_rlevel n_rack n_slevel n_swin f_ab f_ba o_ab o_ba]; lia.
Qed.

(** the state right after the handshake, with whatever the applications queued meanwhile *)
Lemma established_inv_q oaA bA oaB bB :
  out_ok (addrB c) oaA bA -> out_ok (addrA c) oaB bB ->
  sysinv fm fw c (mkSys (A2 (addrB c) fm fw oaA bA 0) (B2 rel (addrA c) fm fw oaB bB 0) [] [])
         (mkPS (qof bA) (qof bB) 0 0 0 1).
Proof.
  intros HA HB. pose proof fm_range as Hm. pose proof fw_range as (Hw & Hc).
  unfold sysinv, sysinv2, A2, B2.
  cbn [epA epB chAB chBA w_ab w_ba f_ab f_ba o_ab o_ba].
  assert (Hcap0 : blen (@nil N) <= RX_CAP) by (rewrite blen_nil; unfold RX_CAP; lia).
  assert (Hdir : forall sw rw buf oa peer, out_ok peer oa buf ->
            slast sw < 256 -> rack_seq rw < 256 -> slevel sw <= fw -> swin sw = fw ->
            wrap8 (rack_seq rw + 0) = slast sw -> rbuf rw = [] -> rmsgs rw = 0 -> rrem rw = 0 ->
            rack_level rw = fw - slevel sw ->
            dirinv fm fw sw buf 0 rw [] [] (qof buf)).
  { intros sw rw buf oa peer Hok H1 H2 H3 H4 H5 H6 H7 H8 H9.
    destruct rw as [rb rm rl ral rs rr]. destruct sw as [swn sl sla].
    cbn [rbuf rmsgs rlevel rack_level rack_seq rrem swin slevel slast] in *. subst rb rm rr ral swn.
    exists [], (qof buf), []. cbn [rbuf rmsgs rlevel rack_level rack_seq rrem swin slevel slast].
    unfold partial, rest_of, rem_of, acks_of, qof, out_ok in *.
    cbn [map concat app flat_map chan_seqs chan_content acks_chain chain_end].
    rewrite ?nlen_nil. change (blen (@nil N)) with 0. replace (0 =? 0) with true by reflexivity. cbn [app].
    destruct (N.eqb_spec (blen buf) 0) as [E0|Hne].
    - repeat split; try lia; try constructor; try reflexivity; try assumption; try apply N.le_0_l.
    - destruct (Hok Hne) as (_ & Hlen). cbn [map concat]. rewrite app_nil_r.
      repeat split; try lia; try constructor; try reflexivity; try assumption; try constructor; try apply N.le_0_l.
      all: try (unfold msg_ok; lia). }
  split; [|repeat split; reflexivity].
  split.
  { unfold epinv, sess_ok, sw_ok, rw_ok.
    cbn [sess send recv mtu hs_pending initiator swin slevel slast rlevel rack_level rmsgs rack_seq rbuf
         address out_buf out_addr].
    rewrite blen_nil. repeat split; try lia; try discriminate. intro Hne. apply (HA Hne). }
  split.
  { unfold epinv, sess_ok, sw_ok, rw_ok.
    cbn [sess send recv mtu hs_pending initiator swin slevel slast rlevel rack_level rmsgs rack_seq rbuf
         address out_buf out_addr].
    rewrite blen_nil. repeat split; try lia; try discriminate. intro Hne. apply (HB Hne). }
  cbn [sess send recv out_buf out_off].
  split; [eapply Hdir; try eassumption; cbn [slast rack_seq slevel swin rbuf rmsgs rrem rack_level]; try reflexivity; lia|].
  split; [eapply Hdir; try eassumption; cbn [slast rack_seq slevel swin rbuf rmsgs rrem rack_level]; try reflexivity; lia|].
  cbn [slevel]. split; [intros; lia|lia].
Qed.

Lemma qof_nonempty d : blen d <> 0 -> qof d = [d].
Proof. intro H. unfold qof. destruct (N.eqb_spec (blen d) 0); [contradiction|reflexivity]. Qed.
Lemma qof_empty d : blen d = 0 -> qof d = [].
Proof. intro H. unfold qof. rewrite H. reflexivity. Qed.

(** what [send] does to an unestablished slot and to the monitor's queue *)
Lemma send_out_cases peer oa buf d :
  out_ok peer oa buf ->
  let r := send_out oa buf 0 d peer in
  snd (fst r) = 0 /\ out_ok peer (fst (fst (fst r))) (snd (fst (fst r))) /\
  ((snd r = RTrue /\ qof (snd (fst (fst r))) = qof buf ++ [d]) \/
   (snd r = RNone /\ snd (fst (fst r)) = buf) \/
   ((exists e, snd r = RErr e) /\ snd (fst (fst r)) = buf /\ ((blen d =? 0) || (MAX_TX <? blen d)) = true)).
Proof.
  intro Hok. cbv zeta. unfold send_out.
  destruct ((blen d =? 0) || (MAX_TX <? blen d)) eqn:Ebad; cbn [fst snd].
  - split; [reflexivity|]. split; [assumption|]. right. right. eauto.
  - apply orb_false_iff in Ebad. destruct Ebad as (E0 & Emax).
    destruct (N.eqb_spec (blen buf) 0) as [Eb|Eb]; cbn [fst snd].
    + split; [reflexivity|]. split; [intros _; split; [reflexivity|lia]|]. left. split; [reflexivity|].
      rewrite (qof_empty buf Eb), qof_nonempty by lia. reflexivity.
    + split; [reflexivity|]. split; [assumption|]. right. left. auto.
Qed.

Lemma ps_ok_devirt pv sa sb fly fly' :
  ps_ok pv sa sb fly = true -> n_slevel sa = n_swin sa -> o_ba pv = 1 ->
  ps_ok (set_oba pv 0) (mkSnap 0 0 0 0) sb fly' = true.
Proof.
  unfold ps_ok, win_ok, set_oba. cbn [f_ab f_ba o_ab o_ba n_rlevel n_rack n_slevel n_swin]. lia.
Qed.

Lemma resp_not_data : is_data_seg (resp_bytes fm fw) = false.
Proof. reflexivity. Qed.
Lemma resp_no_ack : seg_has_ack (resp_bytes fm fw) = false.
Proof. reflexivity. Qed.
Lemma req_not_data : is_data_seg (req_bytes (gattA c)) = false.
Proof. reflexivity. Qed.
Lemma req_no_ack : seg_has_ack (req_bytes (gattA c)) = false.
Proof. reflexivity. Qed.

Definition step_concl (s : sys) (p : pstate) (o : sop) : Prop :=
  let s' := fst (sys_step c s o) in
  let r := snd (sys_step c s o) in
  let hd := match o with
            | SDeliver SB => match chAB s with b :: _ => is_data_seg b | [] => false end
            | SDeliver SA => match chBA s with b :: _ => is_data_seg b | [] => false end
            | _ => false
            end in
  exists p', pmon_step p o r hd = Some p' /\ fresh_inv s' p' /\
    (forall fly, fly = (existsb seg_has_ack (chAB s') || existsb seg_has_ack (chBA s')) ->
       ps_ok p' (snap_of (epA s')) (snap_of (epB s')) fly = true) /\
    chAB s' = match o, r with
              | SPoll SA _, RBytes (x :: l) => chAB s ++ [x :: l]
              | SDeliver SB, _ => tl (chAB s)
              | _, _ => chAB s
              end /\
    chBA s' = match o, r with
              | SPoll SB _, RBytes (x :: l) => chBA s ++ [x :: l]
              | SDeliver SA, _ => tl (chBA s)
              | _, _ => chBA s
              end.

Lemma fresh_step_est s p o : sysinv fm fw c s p -> step_concl s p o.
Proof.
  intro H. pose proof fm_range as Hm. pose proof fw_range as (Hw & Hc).
  destruct (sys_step_inv fm fw Hm Hw Hc c s p o H) as (p' & Hs & Hi & HA & HB).
  exists p'. split; [exact Hs|]. split; [apply FEst; exact Hi|].
  split; [intros fly ->; apply (ps_ok_inv fm fw Hm Hw Hc c); exact Hi|]. split; assumption.
Qed.

Lemma fresh_step_pre sa sb cab cba oaA bA oaB bB o :
  pre sa sb cab cba -> out_ok (addrB c) oaA bA -> out_ok (addrA c) oaB bB ->
  step_concl (mkSys (mkInner sa oaA bA 0) (mkInner sb oaB bB 0) cab cba)
             (mkPS (qof bA) (qof bB) 0 0 0 0) o.
Proof.
  intros Hpre HA HB. pose proof fw_range as (Hw & _).
  destruct (pre_rmsgs _ _ _ _ Hpre) as (HmA & HmB).
  unfold step_concl. cbv zeta.
  destruct o as [x d|x t|x|x].
  - (* submit *)
    destruct x; cbn [sys_step ep set_ep other addr_of epA epB chAB chBA]; rewrite step_send; cbn [fst snd set_ep epA epB chAB chBA].
    + destruct (send_out_cases _ _ _ d HA) as (Eoff & Hok' & Hcases). cbv zeta in *.
      destruct (send_out oaA bA 0 d (addrB c)) as [[[oa' b'] off'] r]. cbn [fst snd] in *. subst off'.
      destruct Hcases as [(-> & Hq)|[(-> & ->)|((e & ->) & -> & Ebad)]].
      * eexists. split; [reflexivity|]. cbn [w_ab w_ba f_ab f_ba o_ab o_ba]. rewrite <- Hq.
        split; [apply FPre; assumption|]. split; [intros fly _; eapply fpre_ok; eassumption|]. split; reflexivity.
      * eexists. split; [reflexivity|].
        split; [apply FPre; assumption|]. split; [intros fly _; eapply fpre_ok; eassumption|]. split; reflexivity.
      * eexists. split; [cbn [pmon_step is_bad]; rewrite Ebad; reflexivity|].
        split; [apply FPre; assumption|]. split; [intros fly _; eapply fpre_ok; eassumption|]. split; reflexivity.
    + destruct (send_out_cases _ _ _ d HB) as (Eoff & Hok' & Hcases). cbv zeta in *.
      destruct (send_out oaB bB 0 d (addrA c)) as [[[oa' b'] off'] r]. cbn [fst snd] in *. subst off'.
      destruct Hcases as [(-> & Hq)|[(-> & ->)|((e & ->) & -> & Ebad)]].
      * eexists. split; [reflexivity|]. cbn [w_ab w_ba f_ab f_ba o_ab o_ba]. rewrite <- Hq.
        split; [apply FPre; assumption|]. split; [intros fly _; eapply fpre_ok; eassumption|]. split; reflexivity.
      * eexists. split; [reflexivity|].
        split; [apply FPre; assumption|]. split; [intros fly _; eapply fpre_ok; eassumption|]. split; reflexivity.
      * eexists. split; [cbn [pmon_step is_bad]; rewrite Ebad; reflexivity|].
        split; [apply FPre; assumption|]. split; [intros fly _; eapply fpre_ok; eassumption|]. split; reflexivity.
  - (* poll *)
    destruct x; cbn [sys_step ep set_ep other gatt_of epA epB chAB chBA].
    + destruct Hpre as [(-> & -> & -> & ->)|[(-> & -> & -> & ->)|(-> & -> & -> & ->)]].
      * fold (A0 oaA bA 0). rewrite hs_step1. unfold req_bytes at 1 2.
        cbn [fst snd set_ep set_ch_to ch_to other epA epB chAB chBA app].
        fold (req_bytes (gattA c)).
        eexists. split; [reflexivity|].
        split; [|split; [|split; reflexivity]].
        -- unfold ps_emit. rewrite req_not_data, req_no_ack. cbn [w_ab w_ba f_ab f_ba o_ab o_ba].
           change (0 + 0) with 0. apply FPre; try assumption. right. left. repeat split.
        -- intros fly _. unfold ps_emit. rewrite req_not_data, req_no_ack. cbn [w_ab w_ba f_ab f_ba o_ab o_ba].
           change (0 + 0) with 0. eapply (fpre_ok sA1 sB0). right. left. repeat split.
      * unfold sA1. rewrite step_poll_idle by reflexivity. cbn [fst snd set_ep epA epB chAB chBA].
        eexists. split; [reflexivity|]. fold sA1.
        split; [apply FPre; try assumption; right; left; repeat split|].
        split; [intros fly _; eapply (fpre_ok sA1 sB0); right; left; repeat split|]. split; reflexivity.
      * unfold sA1. rewrite step_poll_idle by reflexivity. cbn [fst snd set_ep epA epB chAB chBA].
        eexists. split; [reflexivity|]. fold sA1.
        split; [apply FPre; try assumption; right; right; repeat split|].
        split; [intros fly _; eapply (fpre_ok sA1 sB1); right; right; repeat split|]. split; reflexivity.
    + destruct Hpre as [(-> & -> & -> & ->)|[(-> & -> & -> & ->)|(-> & -> & -> & ->)]].
      * unfold sB0, set_relaxed, session_new. rewrite step_poll_idle by reflexivity.
        cbn [fst snd set_ep epA epB chAB chBA].
        eexists. split; [reflexivity|].
        split; [apply (FPre sA0 sB0); try assumption; left; repeat split|].
        split; [intros fly _; eapply (fpre_ok sA0 sB0); left; repeat split|]. split; reflexivity.
      * unfold sB0, set_relaxed, session_new. rewrite step_poll_idle by reflexivity.
        cbn [fst snd set_ep epA epB chAB chBA].
        eexists. split; [reflexivity|].
        split; [apply (FPre sA1 sB0); try assumption; right; left; repeat split|].
        split; [intros fly _; eapply (fpre_ok sA1 sB0); right; left; repeat split|]. split; reflexivity.
      * unfold sB1. fold (B1 rel (addrA c) fm fw oaB bB 0). rewrite hs_step3 by lia.
        unfold resp_bytes.
        cbn [fst snd set_ep set_ch_to ch_to other epA epB chAB chBA app].
        eexists. split; [reflexivity|]. cbv beta iota.
        change [101; 108; 4; fm mod 256; fm / 256; fw] with (resp_bytes fm fw).
        unfold ps_emit. rewrite resp_not_data, resp_no_ack. cbn [w_ab w_ba f_ab f_ba o_ab o_ba].
        change (0 + 0) with 0.
        split; [|split; [|split; reflexivity]].
        -- fold (A1 oaA bA 0). apply FResp; [assumption|reflexivity|].
           unfold set_oba. cbn [w_ab w_ba f_ab f_ba o_ab o_ba]. apply established_inv_q; assumption.
        -- intros fly _. unfold ps_ok, win_ok, snap_of, B2, sA1.
           cbn [epA epB sess recv send recvw_new sendw_new rlevel rack_level slevel swin n_rlevel n_rack n_slevel n_swin
                f_ab f_ba o_ab o_ba]. lia.
  - (* deliver *)
    destruct x; cbn [sys_step ep set_ep other gatt_of addr_of ch_to epA epB chAB chBA].
    + assert (Ecba : cba = []) by (destruct Hpre as [(_ & _ & _ & E)|[(_ & _ & _ & E)|(_ & _ & _ & E)]]; exact E).
      subst cba. cbn [fst snd chAB chBA tl].
      eexists. split; [reflexivity|].
      split; [apply FPre; assumption|]. split; [intros fly _; eapply fpre_ok; eassumption|]. split; reflexivity.
    + destruct Hpre as [(-> & -> & -> & ->)|[(-> & -> & -> & ->)|(-> & -> & -> & ->)]].
      * cbn [fst snd chAB chBA tl]. eexists. split; [reflexivity|].
        split; [apply (FPre sA0 sB0); try assumption; left; repeat split|].
        split; [intros fly _; eapply (fpre_ok sA0 sB0); left; repeat split|]. split; reflexivity.
      * unfold sB0. fold (B0 rel oaB bB 0). rewrite hs_step2.
        cbn [fst snd set_ep set_ch_to epA epB chAB chBA tl].
        eexists. split; [cbn [pmon_step is_bad]; reflexivity|].
        rewrite req_not_data. unfold ps_deliver. cbn [w_ab w_ba f_ab f_ba o_ab o_ba].
        split; [apply (FPre sA1 sB1); try assumption; right; right; repeat split|].
        split; [intros fly _; eapply (fpre_ok sA1 sB1); right; right; repeat split|]. split; reflexivity.
      * cbn [fst snd chAB chBA tl]. eexists. split; [reflexivity|].
        split; [apply (FPre sA1 sB1); try assumption; right; right; repeat split|].
        split; [intros fly _; eapply (fpre_ok sA1 sB1); right; right; repeat split|]. split; reflexivity.
  - (* fetch *)
    destruct x; cbn [sys_step ep set_ep epA epB chAB chBA];
      rewrite step_recv_idle by assumption; cbn [fst snd set_ep epA epB chAB chBA];
      (eexists; split; [reflexivity|]; split; [apply FPre; assumption|];
       split; [intros fly _; eapply fpre_ok; eassumption|]; split; reflexivity).
Qed.

Lemma set_oba_idem p : o_ba p = 0 -> set_oba (set_oba p 1) 0 = p.
Proof. destruct p as [a1 a2 a3 a4 a5 a6]. cbn [o_ba]. intros ->. reflexivity. Qed.

(** the monitor steps that do not concern what A owes commute with [set_oba] *)
Lemma pmon_step_oba p v o r hd :
  o <> SDeliver SA -> (forall t, o = SPoll SA t -> r = RBytes []) ->
  pmon_step (set_oba p v) o r hd =
  match pmon_step p o r hd with Some q => Some (set_oba q v) | None => None end /\
  (forall q, pmon_step p o r hd = Some q -> o_ba q = o_ba p).
Proof.
  intros Hnd Hpa. destruct p as [wab wba fab fba oab oba]. unfold pmon_step, set_oba.
  destruct (is_bad r); [split; [reflexivity|discriminate]|].
  destruct o as [x d|x t|x|x]; destruct r as [|b| | |cc|pp];
    try (split; [reflexivity|intros q Hq; inversion Hq; reflexivity]);
    try (split; [reflexivity|discriminate]).
  - destruct x; split; try reflexivity; intros q Hq; inversion Hq; reflexivity.
  - cbn [w_ab w_ba f_ab f_ba o_ab o_ba].
    destruct ((blen d =? 0) || (MAX_TX <? blen d)); split; try reflexivity; try discriminate.
    intros q Hq; inversion Hq; reflexivity.
  - destruct x.
    + pose proof (Hpa t eq_refl) as Eb. inversion Eb. subst b.
      split; [reflexivity|intros q Hq; inversion Hq; reflexivity].
    + destruct b as [|b0 bl]; [split; [reflexivity|intros q Hq; inversion Hq; reflexivity]|].
      unfold ps_emit. cbn [w_ab w_ba f_ab f_ba o_ab o_ba].
      split; [reflexivity|intros q Hq; inversion Hq; reflexivity].
  - destruct x; [congruence|]. unfold ps_deliver. cbn [w_ab w_ba f_ab f_ba o_ab o_ba].
    destruct hd; (split; [reflexivity|intros q Hq; inversion Hq; reflexivity]).
  - destruct x; cbn [w_ab w_ba f_ab f_ba o_ab o_ba].
    + destruct wba as [|d0 t0]; [split; [reflexivity|discriminate]|].
      destruct (bytes_eqb b d0); split; try reflexivity; try discriminate. intros q Hq; inversion Hq; reflexivity.
    + destruct wab as [|d0 t0]; [split; [reflexivity|discriminate]|].
      destruct (bytes_eqb b d0); split; try reflexivity; try discriminate. intros q Hq; inversion Hq; reflexivity.
Qed.

Lemma fresh_step_resp oaA bA B c' p o :
  out_ok (addrB c) oaA bA -> o_ba p = 0 ->
  sysinv fm fw c (mkSys (A2 (addrB c) fm fw oaA bA 0) B [] c') (set_oba p 1) ->
  step_concl (mkSys (A1 oaA bA 0) B [] (resp_bytes fm fw :: c')) p o.
Proof.
  intros HA Hob Hv. pose proof fm_range as Hm. pose proof fw_range as (Hw & Hc).
  (* what the invariant of the virtual system gives for the real one *)
  assert (Hdevirt : forall oa' b' B' c2 q,
            out_ok (addrB c) oa' b' -> o_ba q = 0 ->
            sysinv fm fw c (mkSys (A2 (addrB c) fm fw oa' b' 0) B' [] c2) (set_oba q 1) ->
            fresh_inv (mkSys (A1 oa' b' 0) B' [] (resp_bytes fm fw :: c2)) q /\
            (forall fly, ps_ok q (snap_of (A1 oa' b' 0)) (snap_of B') fly = true)).
  { intros oa' b' B' c2 q Ho Hq Hs. split; [apply FResp; assumption|]. intro fly.
    pose proof (ps_ok_inv fm fw Hm Hw Hc c _ _ Hs) as Hok. cbn [epA epB] in Hok.
    apply (ps_ok_devirt _ _ _ _ fly) in Hok; [|reflexivity|reflexivity].
    rewrite set_oba_idem in Hok by assumption. exact Hok. }
  unfold step_concl. cbv zeta.
  destruct o as [x d|x t|x|x].
  - (* submit *)
    pose proof (sys_step_inv fm fw Hm Hw Hc c _ _ (SSubmit x d) Hv) as Hs. cbv zeta in Hs.
    destruct (pmon_step_oba p 1 (SSubmit x d)
                (snd (sys_step c (mkSys (A2 (addrB c) fm fw oaA bA 0) B [] c') (SSubmit x d))) false)
      as (Hcomm & Hoba); [discriminate|intros ? Hx; discriminate Hx|].
    destruct x; cbn [sys_step ep set_ep other addr_of epA epB chAB chBA] in *.
    + unfold A1, A2 in *. rewrite step_send in *. cbn [fst snd set_ep epA epB chAB chBA] in *.
      destruct (send_out_cases _ _ _ d HA) as (Eoff & Hok' & _). cbv zeta in *.
      destruct (send_out oaA bA 0 d (addrB c)) as [[[oa' b'] off'] r]. cbn [fst snd] in *. subst off'.
      destruct Hs as (pv' & Hst & Hi & _). rewrite Hcomm in Hst.
      destruct (pmon_step p (SSubmit SA d) r false) as [q|] eqn:Eq; [|discriminate].
      inversion Hst; subst pv'. specialize (Hoba q eq_refl).
      destruct (Hdevirt oa' b' B c' q Hok' ltac:(lia) Hi) as (Hf & Hk).
      exists q. split; [reflexivity|]. split; [exact Hf|]. split; [intros fly _; apply Hk|]. split; reflexivity.
    + destruct (step B (OSend d (addrA c))) as [i r]. cbn [fst snd set_ep epA epB chAB chBA] in *.
      destruct Hs as (pv' & Hst & Hi & _). rewrite Hcomm in Hst.
      destruct (pmon_step p (SSubmit SB d) r false) as [q|] eqn:Eq; [|discriminate].
      inversion Hst; subst pv'. specialize (Hoba q eq_refl).
      destruct (Hdevirt oaA bA i c' q HA ltac:(lia) Hi) as (Hf & Hk).
      exists q. split; [reflexivity|]. split; [exact Hf|]. split; [intros fly _; apply Hk|]. split; reflexivity.
  - (* poll *)
    destruct x; cbn [sys_step ep set_ep other gatt_of epA epB chAB chBA ch_to set_ch_to].
    + unfold A1. rewrite step_poll_idle by reflexivity. cbn [fst snd set_ep epA epB chAB chBA].
      fold (A1 oaA bA 0).
      destruct (Hdevirt oaA bA B c' p HA Hob Hv) as (Hf & Hk).
      exists p. split; [reflexivity|]. split; [exact Hf|]. split; [intros fly _; apply Hk|]. split; reflexivity.
    + pose proof (sys_step_inv fm fw Hm Hw Hc c _ _ (SPoll SB t) Hv) as Hs. cbv zeta in Hs.
      destruct (pmon_step_oba p 1 (SPoll SB t)
                  (snd (sys_step c (mkSys (A2 (addrB c) fm fw oaA bA 0) B [] c') (SPoll SB t))) false)
        as (Hcomm & Hoba); [discriminate|intros ? Hx; discriminate Hx|].
      cbn [sys_step ep set_ep other gatt_of epA epB chAB chBA ch_to set_ch_to] in *.
      destruct (step B (OOut (gattB c) t POLL_CAP)) as [i r].
      destruct r as [|[|b0 bl]| | | |]; cbn [fst snd set_ep set_ch_to ch_to epA epB chAB chBA app] in *;
        destruct Hs as (pv' & Hst & Hi & _); rewrite Hcomm in Hst;
        match type of Hst with match ?e with _ => _ end = _ => destruct e as [q|] eqn:Eq; [|discriminate] end;
        inversion Hst; subst pv'; specialize (Hoba q eq_refl);
        match type of Hi with sysinv _ _ _ (mkSys _ _ _ ?c2) _ =>
          destruct (Hdevirt oaA bA i c2 q HA ltac:(lia) Hi) as (Hf & Hk) end;
        (exists q; split; [reflexivity|]; split; [exact Hf|]; split; [intros fly _; apply Hk|]; split; reflexivity).
  - (* deliver *)
    destruct x; cbn [sys_step ep set_ep other gatt_of addr_of ch_to set_ch_to epA epB chAB chBA].
    + rewrite hs_step4 by assumption. cbn [fst snd set_ep set_ch_to epA epB chAB chBA tl].
      rewrite resp_not_data.
      exists (set_oba p 1). split; [destruct p as [a1 a2 a3 a4 a5 a6]; reflexivity|].
      split; [apply FEst; exact Hv|].
      split; [intros fly ->; apply (ps_ok_inv fm fw Hm Hw Hc c _ _ Hv)|]. split; reflexivity.
    + cbn [fst snd chAB chBA tl].
      destruct (Hdevirt oaA bA B c' p HA Hob Hv) as (Hf & Hk).
      exists p. split; [reflexivity|]. split; [exact Hf|]. split; [intros fly _; apply Hk|]. split; reflexivity.
  - (* fetch *)
    destruct x; cbn [sys_step ep set_ep epA epB chAB chBA].
    + rewrite step_recv_idle by reflexivity. cbn [fst snd set_ep epA epB chAB chBA].
      destruct (Hdevirt oaA bA B c' p HA Hob Hv) as (Hf & Hk).
      exists p. split; [reflexivity|]. split; [exact Hf|]. split; [intros fly _; apply Hk|]. split; reflexivity.
    + pose proof (sys_step_inv fm fw Hm Hw Hc c _ _ (SFetch SB) Hv) as Hs. cbv zeta in Hs.
      destruct (pmon_step_oba p 1 (SFetch SB)
                  (snd (sys_step c (mkSys (A2 (addrB c) fm fw oaA bA 0) B [] c') (SFetch SB))) false)
        as (Hcomm & Hoba); [discriminate|intros ? Hx; discriminate Hx|].
      cbn [sys_step ep set_ep epA epB chAB chBA] in *.
      destruct (step B (ORecv RECV_CAP)) as [i r]. cbn [fst snd set_ep epA epB chAB chBA] in *.
      destruct Hs as (pv' & Hst & Hi & _). rewrite Hcomm in Hst.
      destruct (pmon_step p (SFetch SB) r false) as [q|] eqn:Eq; [|discriminate].
      inversion Hst; subst pv'. specialize (Hoba q eq_refl).
      destruct (Hdevirt oaA bA i c' q HA ltac:(lia) Hi) as (Hf & Hk).
      exists q. split; [reflexivity|]. split; [exact Hf|]. split; [intros fly _; apply Hk|]. split; reflexivity.
Qed.

(** one step from any state of the invariant *)
Lemma fresh_step s p o : fresh_inv s p -> step_concl s p o.
Proof.
  intros [sa sb cab cba oaA bA oaB bB Hpre HA HB|oaA bA B c' p0 HA Hob Hv|s0 p0 Hi].
  - apply fresh_step_pre; assumption.
  - apply fresh_step_resp; assumption.
  - apply fresh_step_est; assumption.
Qed.

Lemma fresh_run ops : forall s p,
  fresh_inv s p ->
  pmon_run p (chAB s) (chBA s) ops (snd (sys_run c s ops)) = true.
Proof.
  induction ops as [|o ops IH]; intros s p Hinv; [reflexivity|].
  rewrite sys_run_cons. cbn [snd pmon_run].
  destruct (fresh_step s p o Hinv) as (p' & Hstep & Hinv' & Hok & HcAB & HcBA).
  set (s' := fst (sys_step c s o)) in *. set (r := snd (sys_step c s o)) in *.
  unfold head_is_data. rewrite Hstep, <- HcAB, <- HcBA.
  rewrite (Hok _ eq_refl). cbn [andb]. apply IH. exact Hinv'.
Qed.

Lemma fresh_init : fresh_inv (sys_fresh rel) ps_init.
Proof.
  unfold sys_fresh, ps_init.
  change (mkPS [] [] 0 0 0 0) with (mkPS (qof []) (qof []) 0 0 0 0).
  apply (FPre sA0 sB0); [left; repeat split| |]; intro Hx; exfalso; apply Hx; reflexivity.
Qed.

(** the whole executable property from two fresh ends, every schedule *)
Theorem fresh_pair_safe ops : mon_pair ops (snd (sys_run c (sys_fresh rel) ops)) = true.
Proof. unfold mon_pair. apply (fresh_run ops (sys_fresh rel) ps_init). apply fresh_init. Qed.

End Fresh.
