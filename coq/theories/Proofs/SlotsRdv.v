(** The single-slot mDNS rendezvous (Model/Slots.v, [rstep]): the slot is
    occupied exactly while one requester holds an armed drop guard; every
    cancellation or time-out of that requester frees it; deposits on a free
    slot change nothing. *)
From RsM Require Import Lib.MachInt Model.Slots Proofs.SlotsInv.
From Coq Require Import ZifyN ZifyBool Arith.
Open Scope N_scope.

Arguments N.add : simpl never.
Arguments N.eqb : simpl never.

Definition owner (s : rdv) : option N :=
  match s with
  | RvIdle => None
  | RvRequested o _ | RvInFlight o _ | RvResolved o => Some o
  end.

Definition rinv (s : rsys) : Prop :=
  NoDup (map rq_id (r_reqs s)) /\
  (forall r, In r (r_reqs s) -> rq_id r < r_next s) /\
  (forall r, In r (r_reqs s) -> rq_phase r = PPlaced -> owner (r_slot s) = Some (rq_id r)) /\
  (forall o, owner (r_slot s) = Some o -> exists r, In r (r_reqs s) /\ rq_id r = o /\ rq_phase r = PPlaced).

Lemma rq_remove_in : forall id l r, In r (rq_remove id l) -> In r l.
Proof.
  intros id l; induction l as [|x l IH]; intros r Hin; cbn in *; auto.
  destruct (rq_has id x); auto. destruct Hin; auto.
Qed.

Lemma rq_remove_ids : forall id l, NoDup (map rq_id l) ->
  forall r, In r (rq_remove id l) -> rq_id r <> id.
Proof.
  intros id l; induction l as [|x l IH]; intros Hnd r Hin; cbn in *; [contradiction|].
  inversion Hnd as [|? ? Hni Hnd']; subst. unfold rq_has in Hin.
  destruct (rq_id x =? id) eqn:He.
  - apply N.eqb_eq in He. subst id. intros Heq. apply Hni. rewrite <- Heq. apply in_map; auto.
  - apply N.eqb_neq in He. destruct Hin as [<-|Hin]; auto.
Qed.

Lemma rq_remove_nodup : forall id l, NoDup (map rq_id l) -> NoDup (map rq_id (rq_remove id l)).
Proof.
  intros id l; induction l as [|x l IH]; intros Hnd; cbn; auto.
  inversion Hnd as [|? ? Hni Hnd']; subst. destruct (rq_has id x); auto.
  cbn. constructor; auto. intros Hin. apply in_map_iff in Hin. destruct Hin as [y [Hy Hin]].
  apply Hni. rewrite <- Hy. apply in_map. eapply rq_remove_in; eauto.
Qed.

Lemma rq_remove_keeps : forall id l r, In r l -> rq_id r <> id -> In r (rq_remove id l).
Proof.
  intros id l; induction l as [|x l IH]; intros r Hin Hne; cbn in *; auto.
  unfold rq_has. destruct (rq_id x =? id) eqn:He.
  - apply N.eqb_eq in He. destruct Hin as [->|]; auto. congruence.
  - destruct Hin as [->|]; [left; auto|right; auto].
Qed.

Lemma find_rq : forall id l r, find (rq_has id) l = Some r -> In r l /\ rq_id r = id.
Proof.
  intros id l r Hf. apply find_some in Hf. destruct Hf as [H1 H2]. unfold rq_has in H2.
  apply N.eqb_eq in H2. auto.
Qed.

Lemma place_map_ids : forall id l,
  map rq_id (map (fun x => if rq_has id x then mkR (rq_id x) (rq_svc x) PPlaced else x) l) = map rq_id l.
Proof. intros id l; induction l as [|x l IH]; cbn; auto. rewrite IH. destruct (rq_has id x); auto. Qed.

Lemma place_map_in : forall id l y,
  In y (map (fun x => if rq_has id x then mkR (rq_id x) (rq_svc x) PPlaced else x) l) ->
  (In y l /\ rq_id y <> id) \/ (exists x, In x l /\ rq_id x = id /\ y = mkR (rq_id x) (rq_svc x) PPlaced).
Proof.
  intros id l y Hin. apply in_map_iff in Hin. destruct Hin as [x [Hy Hin]]. unfold rq_has in Hy.
  destruct (rq_id x =? id) eqn:He.
  - apply N.eqb_eq in He. right. exists x. auto.
  - apply N.eqb_neq in He. subst y. left. auto.
Qed.

Lemma rq_unique : forall l a b,
  NoDup (map rq_id l) -> In a l -> In b l -> rq_id a = rq_id b -> a = b.
Proof.
  induction l as [|x l IH]; intros a b Hn Ha Hb He; [inversion Ha|].
  inversion Hn as [|? ? Hni Hn']; subst. destruct Ha as [->|Ha], Hb as [->|Hb]; auto.
  - exfalso. apply Hni. rewrite He. apply in_map; auto.
  - exfalso. apply Hni. rewrite <- He. apply in_map; auto.
Qed.

Ltac rs := cbn [fst]; unfold rinv; cbn [r_reqs r_slot r_next owner].

Theorem rstep_inv : forall s o, rinv s -> rinv (fst (rstep s o)).
Proof.
  intros s o [Hnd [Hfr [Hpl Hown]]]. destruct o; cbn [rstep].
  - (* RStart *)
    rs. repeat split.
    + rewrite map_app. cbn [map]. apply nodup_snoc; auto. cbn [rq_id].
      intros Hin. apply in_map_iff in Hin. destruct Hin as [x [Hx Hin]]. specialize (Hfr x Hin). lia.
    + intros r Hin. apply in_app_or in Hin. destruct Hin as [Hin|[<-|[]]]; [specialize (Hfr r Hin)|cbn]; lia.
    + intros r Hin Hp. apply in_app_or in Hin. destruct Hin as [Hin|[<-|[]]]; [auto|cbn in Hp; discriminate].
    + intros o Ho. destruct (Hown o Ho) as [r [H1 [H2 H3]]]. exists r. split; auto. apply in_or_app; auto.
  - (* RPoll *)
    destruct (find (rq_has id) (r_reqs s)) as [r|] eqn:Hf; [|rs; repeat split; auto].
    destruct (find_rq _ _ _ Hf) as [Hin Hid].
    destruct (rq_phase r) eqn:Hph.
    + destruct (is_idle (r_slot s)) eqn:Hidle; [|rs; repeat split; auto].
      destruct (r_slot s) eqn:Hs; try discriminate. rs. repeat split.
      * rewrite place_map_ids; auto.
      * intros y Hy. destruct (place_map_in _ _ _ Hy) as [[H1 _]|[x [H1 [H2 ->]]]]; [auto|cbn; auto].
      * intros y Hy Hp. destruct (place_map_in _ _ _ Hy) as [[H1 H2]|[x [H1 [H2 ->]]]].
        -- specialize (Hpl y H1 Hp). cbn in Hpl. discriminate.
        -- cbn. congruence.
      * intros o Ho. cbn in Ho. inversion Ho; subst o.
        exists (mkR (rq_id r) (rq_svc r) PPlaced). cbn. repeat split; auto.
        apply in_map_iff. exists r. unfold rq_has. rewrite Hid, N.eqb_refl. auto.
    + destruct (r_slot s) eqn:Hs; try (rs; repeat split; auto; rewrite Hs; auto).
      rs. repeat split.
      * apply rq_remove_nodup; auto.
      * intros y Hy. apply Hfr. eapply rq_remove_in; eauto.
      * intros y Hy Hp. exfalso.
        pose proof (rq_remove_ids id _ Hnd y Hy) as Hne.
        pose proof (Hpl y (rq_remove_in _ _ _ Hy) Hp) as H1. pose proof (Hpl r Hin Hph) as H2.
        congruence.
      * intros o Ho. discriminate.
  - (* RTimeout *)
    destruct (find (rq_has id) (r_reqs s)) as [r|] eqn:Hf; [|rs; repeat split; auto].
    destruct (find_rq _ _ _ Hf) as [Hin Hid].
    destruct (rq_phase r) eqn:Hph; [cbn; repeat split; auto|].
    rs. repeat split.
    + apply rq_remove_nodup; auto.
    + intros y Hy. apply Hfr. eapply rq_remove_in; eauto.
    + intros y Hy Hp. exfalso.
      pose proof (rq_remove_ids id _ Hnd y Hy) as Hne.
      pose proof (Hpl y (rq_remove_in _ _ _ Hy) Hp) as H1. pose proof (Hpl r Hin Hph) as H2. congruence.
    + intros o Ho. discriminate.
  - (* RCancel *)
    destruct (find (rq_has id) (r_reqs s)) as [r|] eqn:Hf; [|rs; repeat split; auto].
    destruct (find_rq _ _ _ Hf) as [Hin Hid].
    destruct (rq_phase r) eqn:Hph; rs; repeat split.
    + apply rq_remove_nodup; auto.
    + intros y Hy. apply Hfr. eapply rq_remove_in; eauto.
    + intros y Hy Hp. apply Hpl; auto. eapply rq_remove_in; eauto.
    + intros o Ho. destruct (Hown o Ho) as [y [H1 [H2 H3]]]. exists y. repeat split; auto.
      apply rq_remove_keeps; auto. intros Heq.
      assert (y = r) by (apply (rq_unique _ _ _ Hnd H1 Hin); congruence). subst y. congruence.
    + apply rq_remove_nodup; auto.
    + intros y Hy. apply Hfr. eapply rq_remove_in; eauto.
    + intros y Hy Hp. exfalso.
      pose proof (rq_remove_ids id _ Hnd y Hy) as Hne.
      pose proof (Hpl y (rq_remove_in _ _ _ Hy) Hp) as H1. pose proof (Hpl r Hin Hph) as H2. congruence.
    + intros o Ho. discriminate.
  - (* RPick *)
    destruct (r_slot s) eqn:Hs; rs; repeat split; auto; rewrite ?Hs; auto.
  - (* RDeposit *)
    destruct (r_slot s) eqn:Hs; try (rs; repeat split; auto; rewrite ?Hs; auto; fail).
    destruct ((svc0 =? svc) && hasaddr); rs; repeat split; auto; rewrite ?Hs; auto.
Qed.

Lemma rinv_init : rinv rsys_init.
Proof.
  unfold rinv, rsys_init; cbn.
  split; [constructor|split; [intros r []|split; [intros r []|intros o Ho; discriminate]]].
Qed.

Theorem rrun_inv : forall ops s, rinv s -> rinv (rrun s ops).
Proof. induction ops as [|o r IH]; intros s Hi; cbn; auto. apply IH. apply rstep_inv; auto. Qed.

(** when every requester has finished, timed out or been cancelled the slot is free *)
Theorem rdv_quiescent_idle : forall ops,
  let s := rrun rsys_init ops in r_reqs s = [] -> r_slot s = RvIdle.
Proof.
  intros ops s Hq. pose proof (rrun_inv ops _ rinv_init) as [_ [_ [_ Hown]]]. fold s in Hown.
  destruct (r_slot s) eqn:Hs; auto; destruct (Hown owner0 eq_refl) as [r [Hin _]]; rewrite Hq in Hin; inversion Hin.
Qed.

(** an occupied slot has a live requester with an armed guard, whose time-out
    or cancellation frees it *)
Theorem rdv_released : forall ops o,
  let s := rrun rsys_init ops in
  owner (r_slot s) = Some o ->
  (exists r, In r (r_reqs s) /\ rq_id r = o /\ rq_phase r = PPlaced) /\
  r_slot (fst (rstep s (RTimeout o))) = RvIdle /\
  r_slot (fst (rstep s (RCancel o))) = RvIdle.
Proof.
  intros ops o s Ho. pose proof (rrun_inv ops _ rinv_init) as [Hnd [_ [Hpl Hown]]]. fold s in Hnd, Hpl, Hown.
  destruct (Hown o Ho) as [r [Hin [Hid Hph]]]. split; [eauto|].
  assert (Hf : exists r', find (rq_has o) (r_reqs s) = Some r' /\ rq_phase r' = PPlaced).
  { destruct (find (rq_has o) (r_reqs s)) as [r'|] eqn:Hf.
    - exists r'. split; auto. destruct (find_rq _ _ _ Hf) as [Hin' Hid'].
      destruct (rq_phase r') eqn:Hp'; auto. exfalso.
      assert (r' = r) by (apply (rq_unique _ _ _ Hnd Hin' Hin); congruence). subst r'. congruence.
    - exfalso. eapply find_none in Hf; eauto. unfold rq_has in Hf. rewrite Hid, N.eqb_refl in Hf. discriminate. }
  destruct Hf as [r' [Hf Hp']]. cbn [rstep]. rewrite Hf, Hp'. cbn. auto.
Qed.

(** at most one requester holds the slot *)
Theorem rdv_mutex : forall ops r1 r2,
  let s := rrun rsys_init ops in
  In r1 (r_reqs s) -> In r2 (r_reqs s) -> rq_phase r1 = PPlaced -> rq_phase r2 = PPlaced ->
  rq_id r1 = rq_id r2.
Proof.
  intros ops r1 r2 s H1 H2 P1 P2. pose proof (rrun_inv ops _ rinv_init) as [_ [_ [Hpl _]]]. fold s in Hpl.
  pose proof (Hpl r1 H1 P1). pose proof (Hpl r2 H2 P2). congruence.
Qed.

(** cancelling a requester that has not placed its request leaves the slot alone *)
Theorem rdv_cancel_waiting : forall s id r,
  find (rq_has id) (r_reqs s) = Some r -> rq_phase r = PWait ->
  r_slot (fst (rstep s (RCancel id))) = r_slot s /\ r_slot (fst (rstep s (RTimeout id))) = r_slot s.
Proof. intros s id r Hf Hp. cbn [rstep]. rewrite Hf, Hp. cbn. auto. Qed.

(** a deposit on a slot that is free, or requested but not picked up, or in
    flight for another service, or without an address, is a no-op *)
Theorem rdv_late_deposit_noop : forall s svc hasaddr,
  (r_slot s = RvIdle \/ (exists o v, r_slot s = RvRequested o v) \/
   (exists o v, r_slot s = RvInFlight o v /\ (v <> svc \/ hasaddr = false))) ->
  rstep s (RDeposit svc hasaddr) = (s, RNone).
Proof.
  intros s svc hasaddr [H|[[o [v H]]|[o [v [H Hq]]]]]; cbn [rstep]; rewrite H; auto.
  destruct Hq as [Hq|Hq].
  - apply N.eqb_neq in Hq. rewrite Hq. auto.
  - rewrite Hq, andb_false_r. auto.
Qed.
