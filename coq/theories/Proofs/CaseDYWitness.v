(** C01, Dolev-Yao part: the hypotheses of the full theorems are jointly satisfiable (an attacker that merely
    relays), and what forging the unauthenticated final StatusReport achieves.  By computation on closed terms. *)
From RsM Require Import Lib.MachInt Model.Cert Model.CertSpec Model.Case Model.CaseSpec Model.CaseDY
  Proofs.CaseFacts Proofs.CaseResponder Proofs.CaseWitness.
Open Scope N_scope.

Definition d_ipk : N := 1001.
Definition d_fab_a : fabric := mkFabric 1 w_root (w_noc 5 4369 [65537]) None 5 (TNonce d_ipk) 9 4369.
Definition d_fab_b : fabric := mkFabric 1 w_root (w_noc 6 8738 []) None 6 (TNonce d_ipk) 9 8738.
Definition d_a : node := mkNode [d_fab_a] [] [] 0 w_clock.
Definition d_b : node := mkNode [d_fab_b] [] [] 0 w_clock.

Definition first_msg (l : list msg) : msg := nth 0 l (status_msg 1).

(** the attacker relays every message unchanged *)
Definition relay_run : dy_run :=
  let i1 := init_start d_a w_fra 1 8738 in
  let m1 := first_msg (io_msgs i1) in
  let r1 := resp_first d_b w_frb m1 in
  let m2 := first_msg (ro_msgs r1) in
  let i2 := init_step (io_node i1) (io_state i1) m2 in
  let m3 := first_msg (io_msgs i2) in
  let r2 := resp_step (ro_node r1) (ro_state r1) w_frb m3 in
  mkRun d_a d_b w_fra w_frb 1 8738 m1 m2 m3 (first_msg (ro_msgs r2)).

(** its initial knowledge: a nonce of its own *)
Definition relay_K0 : knowledge := fun t => t = TNonce 99.

Example relay_world : dy_world relay_K0 [5; 6] d_ipk d_fab_a relay_run.
Proof.
  constructor.
  - reflexivity.
  - reflexivity.
  - vm_compute. repeat constructor; cbn; intuition discriminate.
  - intros t ->. vm_compute. intuition discriminate.
  - intros t ->. vm_compute. split; discriminate.
  - intros x [].
  - intros x [].
  - intros f [<-|[]]. vm_compute. split; discriminate.
Qed.

Example relay_sends : attacker_sends relay_K0 relay_run.
Proof.
  repeat split; intros v Hv; apply d_known; right; vm_compute in Hv |- *; exact Hv.
Qed.

Example relay_completes :
  initiator_completed relay_run /\
  exists sb, responder_completed relay_run sb.
Proof.
  split; [vm_compute; reflexivity|].
  eexists. unfold responder_completed. vm_compute. repeat split.
Qed.

Example relay_nodes_wf : node_wf d_a /\ node_wf d_b.
Proof.
  split; (split; [split; [repeat constructor; cbn; tauto | intros f [<-|[]]; discriminate] | intros s []]).
Qed.

(** FORGING THE FINAL STATUS.  The man in the middle destroys Sigma3 (so the responder refuses it) and turns
    the responder's failure report into a success report: the initiator sets up its session, the responder has
    none - an initiator-only session, bound to the responder's identity, with keys the attacker does not have
    ([C01_initiator_only]). *)
Definition forge_status : mitm_t :=
  fun d k m =>
    if (d =? 0) && (k =? 1) then Some (mkMsg (m_op m) [mkField 1 KBytes (TJunk 7)] true)
    else if (d =? 1) && (k =? 1) then Some (status_msg SC_SUCCESS)
    else Some m.

Example forged_status_gives_initiator_only_session :
  match outcome (handshake forge_status w_a w_b w_fra w_frb 1 8738) with
  | (true, [sa], []) => negb (s_reserved sa) && (s_peer sa =? 8738) && (s_fab sa =? 1)
  | _ => false
  end = true.
Proof. vm_compute. reflexivity. Qed.
