(** The descriptions of the zoo (the derived types the harness
    instantiates) are well-formed, so the generic theorems apply to them. *)
From Coq Require Import NArith ZArith List Bool Lia ZifyN ZifyBool Sorted.
From RsM Require Import Model.Tlv Model.TlvDerive Proofs.TlvFacts Proofs.TlvDeriveFacts.
Import ListNotations.
Open Scope N_scope.

Ltac nodup := repeat (constructor; [cbn [In]; intuition (try discriminate; try lia)|]); constructor.

Ltac wf_zoo :=
  cbn [zoo wf_dty z_inner z_unit8 z_unit16 u8_ u16_ u32_ u64_ i8_ i16_ i32_ i64_ map fst is_nullable];
  repeat match goal with
         | |- _ /\ _ => split
         | |- True => exact I
         | |- NoDup _ => nodup
         | |- _ = true -> _ => intros _
         | |- StronglySorted _ _ => repeat constructor; lia
         | |- Forall _ _ => repeat constructor; lia
         | |- _ = _ => reflexivity
         | |- _ < _ => lia
         end.

(** every zoo type except 9 (naked enum, covered by [derive_naked_roundtrip]) *)
Example zoo_wf :
  Forall (fun i => match zoo i with Some d => wf_dty d | None => False end)
    [0; 1; 2; 3; 4; 5; 6; 7; 8; 10; 11; 12; 13; 14; 15; 16; 17; 20; 21; 22; 23; 24].
Proof. repeat (apply Forall_cons; [wf_zoo|]). apply Forall_nil. Qed.
