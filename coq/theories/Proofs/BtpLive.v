(** No acknowledgement is ever lost, and a pair of well-behaved ends never
    reaches a state in which nothing can move (deadlock freedom, as enabledness). *)
From RsM Require Import Lib.MachInt Model.Btp Model.BtpSpec
  Proofs.BtpCodec Proofs.BtpFacts Proofs.BtpHostile Proofs.BtpPair.
From Coq Require Import ZifyN ZifyBool.
Open Scope N_scope.

Arguments N.add : simpl never.
Arguments N.sub : simpl never.
Arguments N.mul : simpl never.
Arguments N.leb : simpl never.
Arguments N.ltb : simpl never.
Arguments N.eqb : simpl never.

(** a step that changes something is possible at end [x]: a packet is waiting to
    be delivered to it, a complete message is waiting to be fetched, or a poll
    (ACK timer expired) puts a segment on the wire *)
Definition can_move (c : cfg) (s : sys) (x : side) : Prop :=
  ch_to s x <> [] \/ 0 < rmsgs (recv (sess (ep s x))) \/
  exists b l, snd (step (ep s x) (OOut (gatt_of c x) true POLL_CAP)) = RBytes (b :: l).

Section Live.
Variables (m w : N).
Hypothesis Hm : 20 <= m <= 244.
Hypothesis Hw : 1 <= w <= 255.
Hypothesis Hcapmw : w * m + 1234 <= RX_CAP.

(** the exact account of one direction, read off the invariant *)
Lemma dirinv_exact sw buf off rw cxy cyx q :
  dirinv m w sw buf off rw cxy cyx q ->
  chain_end (slast sw) (w - slevel sw) (acks_of cyx) = nlen cxy + rack_level rw /\
  slevel sw <= w.
Proof.
  intros (? & ? & ? & _ & _ & _ & _ & _ & _ & _ & _ & _ & _ & _ & _ & _ & _ & Hlev & _ & _ & _ & _ & _ & _ & Hex).
  auto.
Qed.

(** an end that owes an ACK, has nothing complete to hand over and has room in
    its send window sends the ACK on the next poll with the timer expired *)
Lemma owing_end_moves me peer co ci qm qp pa ma g :
  sysinv2 m w me peer co ci qm qp pa ma ->
  1 <= rack_level (recv (sess me)) -> rmsgs (recv (sess me)) = 0 -> 1 <= slevel (send (sess me)) ->
  exists b l, snd (step me (OOut g true POLL_CAP)) = RBytes (b :: l).
Proof.
  intros H2 Hr Hm0 Hl.
  assert (Hdue : is_ack_due (sess me) true = true).
  { unfold is_ack_due, rw_pending_ack. rewrite Hm0.
    destruct (N.ltb_spec 0 (rack_level (recv (sess me)))); [|lia].
    rewrite orb_true_r. reflexivity. }
  destruct (ack_enabled_view m w Hm Hw Hcapmw _ _ _ _ _ _ _ _ g true H2 Hdue Hl) as (b & h & p & Er & Hdec & _).
  destruct b as [|x l]; [|eauto].
  unfold hdr_decode in Hdec. discriminate Hdec.
Qed.

Lemma view_moves me peer co ci qm qp pa ma gm gp :
  sysinv2 m w me peer co ci qm qp pa ma -> co = [] -> ci = [] ->
  (0 < rmsgs (recv (sess me)) \/ exists b l, snd (step me (OOut gm true POLL_CAP)) = RBytes (b :: l)) \/
  (0 < rmsgs (recv (sess peer)) \/ exists b l, snd (step peer (OOut gp true POLL_CAP)) = RBytes (b :: l)).
Proof.
  intros H2 -> ->. pose proof (sysinv2_sym m w Hm Hw Hcapmw _ _ _ _ _ _ _ _ H2) as H2'.
  pose proof H2 as H20. destruct H2 as (Hme & Hpeer & Hd1 & Hd2 & HJ & HD).
  destruct (dirinv_exact _ _ _ _ _ _ _ Hd1) as (E1 & L1).
  destruct (dirinv_exact _ _ _ _ _ _ _ Hd2) as (E2 & L2).
  unfold acks_of, nlen in E1, E2. cbn [flat_map chain_end length] in E1, E2.
  unfold acks_of in HJ. cbn [flat_map] in HJ.
  change (N.of_nat 0) with 0 in E1, E2.
  set (sm := slevel (send (sess me))) in *. set (sp := slevel (send (sess peer))) in *.
  set (rm := rack_level (recv (sess me))) in *. set (rp := rack_level (recv (sess peer))) in *.
  (* nothing in flight: what each end has outstanding is what the other one owes *)
  assert (Hme_or : 1 <= rm \/ 1 <= rp) by lia.
  assert (Hcase : forall (X Y : inner) cx cy qx qy ax ay gx,
            sysinv2 m w X Y cx cy qx qy ax ay ->
            1 <= rack_level (recv (sess X)) ->
            (slevel (send (sess X)) = 0 -> 1 <= slevel (send (sess Y)) /\ 1 <= rack_level (recv (sess Y))) ->
            forall gy,
            (0 < rmsgs (recv (sess X)) \/ exists b l, snd (step X (OOut gx true POLL_CAP)) = RBytes (b :: l)) \/
            (0 < rmsgs (recv (sess Y)) \/ exists b l, snd (step Y (OOut gy true POLL_CAP)) = RBytes (b :: l))).
  { intros X Y cx cy qx qy ax ay gx HXY HrX Hz gy.
    destruct (N.eq_dec (rmsgs (recv (sess X))) 0) as [Hm0|]; [|left; left; lia].
    destruct (N.eq_dec (slevel (send (sess X))) 0) as [HsX|].
    - destruct (Hz HsX) as (HsY & HrY). right.
      destruct (N.eq_dec (rmsgs (recv (sess Y))) 0) as [Hm0Y|]; [|left; lia].
      right. eapply owing_end_moves; [apply (sysinv2_sym m w Hm Hw Hcapmw); exact HXY| | |]; assumption.
    - left. right. eapply owing_end_moves; [exact HXY| | |]; try assumption. lia. }
  assert (HJ' : sm = 0 -> sp = 0 -> False) by (intros a b; destruct (HJ a b) as [Hx|Hx]; apply Hx; reflexivity).
  destruct Hme_or as [Hrm|Hrp].
  - eapply (Hcase me peer); [exact H20|exact Hrm|].
    intro Hz. fold sm in Hz. fold sp rp. split; [|lia].
    destruct (N.eq_dec sp 0); [exfalso; auto|lia].
  - destruct (Hcase peer me [] [] qp qm ma pa gp H2' Hrp) with (gy := gm) as [Hx|Hx]; [|right; exact Hx|left; exact Hx].
    intro Hz. fold sp in Hz. fold sm rm. split; [|lia].
    destruct (N.eq_dec sm 0); [exfalso; auto|lia].
Qed.

(** deadlock freedom: in every reachable state some end can move *)
Theorem no_deadlock c ver rel ops :
  let s := fst (sys_run c (sys_established c ver m w rel) ops) in
  can_move c s SA \/ can_move c s SB.
Proof.
  cbv zeta.
  destruct (sys_run_inv m w Hm Hw Hcapmw c ops _ _ (established_inv m w Hm Hw Hcapmw c ver rel)) as (p' & H2 & _).
  set (s := fst (sys_run c (sys_established c ver m w rel) ops)) in *.
  unfold can_move. cbn [ch_to ep gatt_of].
  destruct (chBA s) as [|x l] eqn:Eba; [|left; left; discriminate].
  destruct (chAB s) as [|x l] eqn:Eab; [|right; left; discriminate].
  destruct (view_moves _ _ _ _ _ _ _ _ (gattA c) (gattB c) H2 eq_refl eq_refl) as [Hx|Hx].
  - left. right. exact Hx.
  - right. right. exact Hx.
Qed.

(** no lost ACK, as a statement about every reachable state: what A has
    outstanding, less what the ACKs on their way to A will clear, is exactly the
    segments in flight plus the ones B still remembers owing (and vice versa) *)
Theorem no_lost_ack c ver rel ops :
  let s := fst (sys_run c (sys_established c ver m w rel) ops) in
  chain_end (slast (send (sess (epA s)))) (w - slevel (send (sess (epA s)))) (acks_of (chBA s))
    = nlen (chAB s) + rack_level (recv (sess (epB s))) /\
  chain_end (slast (send (sess (epB s)))) (w - slevel (send (sess (epB s)))) (acks_of (chAB s))
    = nlen (chBA s) + rack_level (recv (sess (epA s))).
Proof.
  cbv zeta.
  destruct (sys_run_inv m w Hm Hw Hcapmw c ops _ _ (established_inv m w Hm Hw Hcapmw c ver rel))
    as (p' & (_ & _ & Hd1 & Hd2 & _) & _).
  split; [apply (dirinv_exact _ _ _ _ _ _ _ Hd1)|apply (dirinv_exact _ _ _ _ _ _ _ Hd2)].
Qed.

End Live.

(** * The window-1 deadlock of the code before fix 8fd327b, as a theorem

    Before the initiator acknowledged the handshake response, the state right
    after a handshake that agreed on window 1 was stuck for good: the responder's
    only send slot is taken by its (never acknowledged) response, the initiator's
    only slot may only be used together with an ACK it does not owe.  Nothing
    handed in is ever delivered, whatever the schedule.  This is a liveness
    defect, outside the safety part of C18; the repaired code is covered by
    [no_deadlock] above (every window >= 1). *)

Definition sys_established_noack (c : cfg) (ver m w : N) (relB : bool) : sys :=
  mkSys (mkInner (mkSess true (addrB c) ver m w false (mkRW [] 0 w 0 0 0) (mkSW w w 255) false) 0 [] 0)
        (mkInner (mkSess false (addrA c) ver m w false (mkRW [] 0 w 0 255 0) (mkSW w (w - 1) 0) relB) 0 [] 0)
        [] [].

(** an end that may not send and owes nothing stays silent *)
Lemma step_poll_stuck s oa buf off g t cap :
  hs_pending s = false -> sw_is_full (send s) (recv s) = true -> rw_pending_ack (recv s) = None ->
  exists oa' buf' off', step (mkInner s oa buf off) (OOut g t cap) = (mkInner s oa' buf' off', RBytes []).
Proof.
  intros Hp Hfull Hpa. unfold step, process_outgoing. cbn [sess out_addr out_buf out_off].
  unfold prep_tx_handshake. rewrite Hp. change (blen (@nil N) =? 0) with true. cbn [negb].
  assert (Hdue : is_ack_due s t = false) by (unfold is_ack_due; rewrite Hpa; reflexivity).
  destruct (negb (blen buf =? 0)).
  - destruct (oa =? address s).
    + unfold prep_tx_data at 1. rewrite prep_tx_seg_full by assumption. cbn [bind].
      change (blen (@nil N) =? 0) with true. cbv zeta. cbn [negb sess out_addr out_buf out_off].
      rewrite Hdue. change (blen (@nil N) =? 0) with true. cbn [negb]. eexists _, _, _. reflexivity.
    + destruct (is_established s); cbv zeta; unfold out_reset;
        change (blen (@nil N) =? 0) with true; cbn [negb sess out_addr out_buf out_off]; rewrite Hdue;
        change (blen (@nil N) =? 0) with true; cbn [negb]; eexists _, _, _; reflexivity.
  - change (blen (@nil N) =? 0) with true. cbv zeta. cbn [negb sess out_addr out_buf out_off].
    rewrite Hdue. change (blen (@nil N) =? 0) with true. cbn [negb]. eexists _, _, _. reflexivity.
Qed.

Section Window1.
Variables (c : cfg) (ver : N) (relB : bool).

Definition sA_w1 : session := mkSess true (addrB c) ver 20 1 false (mkRW [] 0 1 0 0 0) (mkSW 1 1 255) false.
Definition sB_w1 : session := mkSess false (addrA c) ver 20 1 false (mkRW [] 0 1 0 255 0) (mkSW 1 0 0) relB.

Definition stuck (s : sys) : Prop :=
  sess (epA s) = sA_w1 /\ sess (epB s) = sB_w1 /\ chAB s = [] /\ chBA s = [].

Lemma stuck_step s o :
  stuck s -> stuck (fst (sys_step c s o)) /\
  (forall x msg, o = SFetch x -> snd (sys_step c s o) <> RBytes msg).
Proof.
  intros (HA & HB & Hab & Hba). destruct s as [[sa oaA bA offA] [sb oaB bB offB] cab cba].
  cbn [epA epB chAB chBA sess] in *. subst sa sb cab cba.
  destruct o as [x d|x t|x|x]; cbn [sys_step ep set_ep other gatt_of addr_of ch_to epA epB chAB chBA].
  - destruct x; cbn [ep set_ep other addr_of epA epB chAB chBA]; unfold step, inner_send; cbn [sess out_buf];
      (destruct (_ || _); [|destruct (blen _ =? 0)]); cbn [fst snd set_ep epA epB chAB chBA sess];
      (split; [repeat split|intros ? ? Hx; discriminate Hx]).
  - destruct x; cbn [ep set_ep other gatt_of addr_of ch_to set_ch_to epA epB chAB chBA].
    + destruct (step_poll_stuck sA_w1 oaA bA offA (gattA c) t POLL_CAP eq_refl eq_refl eq_refl) as (o1 & b1 & f1 & E).
      rewrite E. cbn [fst snd set_ep epA epB chAB chBA sess]. split; [repeat split|intros ? ? Hx; discriminate Hx].
    + destruct (step_poll_stuck sB_w1 oaB bB offB (gattB c) t POLL_CAP eq_refl eq_refl eq_refl) as (o1 & b1 & f1 & E).
      rewrite E. cbn [fst snd set_ep epA epB chAB chBA sess]. split; [repeat split|intros ? ? Hx; discriminate Hx].
  - destruct x; cbn [ep set_ep other gatt_of addr_of ch_to set_ch_to fst snd epA epB chAB chBA sess]; (split; [repeat split|intros ? ? Hx; discriminate Hx]).
  - destruct x; cbn [ep set_ep epA epB chAB chBA]; unfold step, inner_recv; cbn [sess recv rmsgs sA_w1 sB_w1];
      change (0 <? 0) with false; cbn [fst snd set_ep epA epB chAB chBA sess];
      (split; [repeat split|intros ? ? _ Hx; discriminate Hx]).
Qed.

Lemma stuck_run ops : forall s x, stuck s -> fetched x ops (snd (sys_run c s ops)) = [] /\ stuck (fst (sys_run c s ops)).
Proof.
  induction ops as [|o ops IH]; intros s x Hs; [split; [reflexivity|exact Hs]|].
  rewrite sys_run_cons. cbn [fst snd].
  destruct (stuck_step s o Hs) as (Hs' & Hnf).
  destruct (IH _ x Hs') as (IH1 & IH2). split; [|exact IH2].
  cbn [fetched]. destruct o as [y d|y t|y|y]; try exact IH1.
  destruct (snd (sys_step c s (SFetch y))) eqn:Er; try exact IH1.
  exfalso. exact (Hnf y b eq_refl eq_refl).
Qed.

(** the witness: with window 1 and no ACK owed for the handshake response,
    nothing handed in is ever delivered, and nothing is ever put on the wire *)
Theorem window1_deadlock_before_fix ops :
  let s0 := sys_established_noack c ver 20 1 relB in
  fetched SA ops (snd (sys_run c s0 ops)) = [] /\ fetched SB ops (snd (sys_run c s0 ops)) = [] /\
  chAB (fst (sys_run c s0 ops)) = [] /\ chBA (fst (sys_run c s0 ops)) = [].
Proof.
  cbv zeta.
  assert (H0 : stuck (sys_established_noack c ver 20 1 relB)) by (repeat split).
  destruct (stuck_run ops _ SA H0) as (F1 & (_ & _ & C1 & C2)).
  destruct (stuck_run ops _ SB H0) as (F2 & _). auto.
Qed.

End Window1.

(** ... although data is waiting: a concrete run *)
Example window1_deadlock_witness :
  let c := mkCfg None None 10 11 in
  let ops := [SSubmit SA [1; 2; 3]; SPoll SA true; SPoll SB true; SDeliver SA; SDeliver SB; SFetch SB; SPoll SA true] in
  let s := fst (sys_run c (sys_established_noack c 4 20 1 false) ops) in
  out_buf (epA s) = [1; 2; 3] /\ chAB s = [].
Proof. vm_compute. split; reflexivity. Qed.

