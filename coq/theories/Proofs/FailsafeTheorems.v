(** Theorems of property C08 over the model: rollback, commit, context, order. *)
From Coq Require Import NArith List Bool Lia ZifyN ZifyBool.
From RsM Require Import Model.Failsafe Model.FailsafeSpec Proofs.FailsafeFacts Proofs.FailsafeInv.
Import ListNotations.
Open Scope N_scope.

(** ** A. Every way of ending a commissioning leaves RAM = load(KV) and does not touch the store *)
Theorem rollback_durable : forall st r,
  Inv st -> rollback_op r -> snd (step st r) = StOk ->
  let st' := fst (step st r) in
  s_fs st' = Idle /\ s_bc st' = 0 /\ ram_synced st' /\ s_kv st' = s_kv st.
Proof.
  intros st r HI Hr Hok. destruct Hr as [| |s bc|s]; unfold step in *.
  - cbn [fst]. pose proof (expire_spec st None HI) as (? & ? & ? & ? & _). auto.
  - cbn [fst]. unfold boot, ram_synced, cfg_eq. sp. auto.
  - destruct (sess_ctx st s) as [[sfab p]|]; cbn [fst snd] in *; [|discriminate].
    destruct (negb (allowed st sfab p)); cbn [fst snd] in *; [discriminate|].
    rewrite N.eqb_refl in *. cbn [fst].
    pose proof (expire_spec st (Some s) HI) as (? & ? & ? & ? & _). auto.
  - destruct (sess_ctx st s) as [[sfab p]|]; cbn [fst snd] in *; [|discriminate].
    destruct (negb (allowed st sfab p)); cbn [fst snd] in *; [discriminate|].
    pose proof (expire_spec st (Some s) HI) as (? & ? & ? & Hs & _). unfold ram_synced in *. sp. auto.
Qed.

(** a power loss before the first store of CommissioningComplete is a restart *)
Lemma cut0_is_restart : forall st s,
  fst (step st (OCompleteCut s 0)) = fst (step st ORestart).
Proof.
  intros st s. unfold step. destruct (sess_ctx st s) as [[sfab p]|]; cbn [fst]; auto.
  replace (N.to_nat (N.min 0 _)) with 0%nat by (rewrite N.min_0_l; reflexivity).
  reflexivity.
Qed.

(** ** B. Only CommissioningComplete and ACL writes outside the fail-safe context write the store *)
Lemma expire_kv : forall st c, s_kv (expire st c) = s_kv st.
Proof. intros st c. unfold expire. destruct (s_fs st); reflexivity. Qed.

Ltac frz :=
  unfold step; dm; cbn [fst]; sp; try reflexivity;
  try (rewrite expire_kv; reflexivity).

Theorem store_frozen : forall st o,
  may_store st o = false -> s_kv (fst (step st o)) = s_kv st.
Proof.
  intros st o H. destruct o; cbn [may_store] in H; try discriminate.
  - frz.
  - frz.
  - frz.
  - frz.
  - frz.
  - unfold step. destruct (sess_ctx st s) as [[sfab p]|] eqn:Es; cbn [fst]; auto.
    destruct (s_fs st) as [|f fl] eqn:Ef; [discriminate|].
    apply negb_false_iff in H.
    dm; cbn [fst]; sp; try reflexivity.
    all: congruence.
  - unfold step. destruct (sess_ctx st s) as [[sfab p]|] eqn:Es; cbn [fst]; auto.
    destruct (s_fs st) as [|f fl] eqn:Ef; [discriminate|].
    apply negb_false_iff in H.
    dm; cbn [fst]; sp; try reflexivity.
    all: congruence.
  - unfold step. destruct (sess_ctx st s) as [[sfab p]|] eqn:Es; cbn [fst]; auto.
    destruct (s_fs st) as [|f fl] eqn:Ef; [discriminate|].
    apply negb_false_iff in H.
    dm; cbn [fst]; sp; try reflexivity.
    all: congruence.
  - frz.
  - frz.
  - frz.
  - frz.
  - frz.
  - frz.
  - frz.
Qed.

(** ** C. Rollback is exact *)
Lemma run_kv_frozen : forall ops st,
  nothing_stored st ops -> s_kv (exec st ops) = s_kv st.
Proof.
  induction ops as [|o r IH]; intros st H; unfold exec; cbn [run fst]; auto.
  destruct H as [Hk Hr].
  destruct (step st o) as [st1 r1] eqn:E1. destruct (run st1 r) as [st2 tr] eqn:E2. cbn [fst] in *.
  specialize (IH st1 Hr). unfold exec in IH. rewrite E2 in IH. cbn [fst] in IH. congruence.
Qed.

Lemma exec_cons : forall st o r, exec st (o :: r) = exec (fst (step st o)) r.
Proof.
  intros st o r. unfold exec. cbn [run]. destruct (step st o) as [st1 r1]. cbn [fst].
  destruct (run st1 r) as [st2 tr]. reflexivity.
Qed.

Theorem rollback_exact : forall st0 s t bc ops r,
  Inv st0 -> s_fs st0 = Idle -> t <> 0 ->
  snd (step st0 (OArm s t bc)) = StOk ->
  let st1 := fst (step st0 (OArm s t bc)) in
  safe_run st1 ops -> nothing_stored st1 ops ->
  let st := exec st1 ops in
  rollback_op r -> snd (step st r) = StOk ->
  let st' := fst (step st r) in
  cfg_eq (s_fabs st') (s_fabs st0) /\ s_nets st' = s_nets st0 /\ s_bc st' = s_bc st0 /\
  s_kv st' = s_kv st0 /\ s_fs st' = Idle.
Proof.
  intros st0 s t bc ops r HI0 Hidle Ht Hok st1 Hsafe Hns st Hr Hrok st'.
  assert (HI1 : Inv st1) by (apply step_inv; cbn; auto).
  assert (Hk1 : s_kv st1 = s_kv st0) by (apply store_frozen; reflexivity).
  assert (HI : Inv st) by (apply run_inv; auto).
  assert (Hk : s_kv st = s_kv st0) by (unfold st; rewrite run_kv_frozen; auto).
  pose proof (rollback_durable st r HI Hr Hrok) as (Hfs & Hbc & [Hc Hn] & Hkv).
  fold st' in Hfs, Hbc, Hc, Hn, Hkv.
  destruct HI0 as (_ & _ & _ & Hfs0). rewrite Hidle in Hfs0. destruct Hfs0 as [[Hc0 Hn0] Hb0].
  rewrite Hkv, Hk in *. repeat split; auto; try congruence.
Qed.

(** the same, with the condition on the run stated on the operations: no operation that is
    able to write the store *)
Fixpoint never_may_store (st : state) (ops : list op) : Prop :=
  match ops with
  | [] => True
  | o :: r => may_store st o = false /\ never_may_store (fst (step st o)) r
  end.

Lemma never_may_store_nothing_stored : forall ops st,
  never_may_store st ops -> nothing_stored st ops.
Proof.
  induction ops as [|o r IH]; intros st H; cbn [nothing_stored]; auto.
  destruct H as [H1 H2]. split; [apply store_frozen; exact H1|apply IH; exact H2].
Qed.

(** ** The ways to reach the store, by name; rollback exactness with the classes spelled out *)
Lemma may_store_split : forall st o,
  may_store st o = is_complete o || outside_write st o || vid_leak st o.
Proof.
  intros st o. destruct o; cbn [may_store is_complete outside_write vid_leak orb]; try reflexivity.
  - destruct (sess_ctx st s) as [[g p]|]; [|reflexivity]. destruct (s_fs st); [reflexivity|].
    rewrite orb_false_r. reflexivity.
  - destruct (sess_ctx st s) as [[g p]|]; [|reflexivity]. destruct (s_fs st); [reflexivity|].
    rewrite orb_false_r. reflexivity.
  - destruct (sess_ctx st s) as [[g p]|]; [|reflexivity]. destruct (s_fs st) as [|f fl]; [reflexivity|].
    destruct (f =? g), (fl_add_noc fl || fl_upd_noc fl); reflexivity.
Qed.

Lemma in_scope_safe : forall ops st, in_scope st ops -> safe_run st ops /\ never_may_store st ops.
Proof.
  induction ops as [|o r IH]; intros st H; cbn [safe_run never_may_store]; auto.
  destruct H as (Hg & Ho & Hv & Hc & Hw & Hr). destruct (IH _ Hr) as [H1 H2].
  repeat split; auto. rewrite may_store_split, Hc, Hw, Hv. reflexivity.
Qed.

Theorem rollback_exact_outside_classes : forall st0 s t bc ops r,
  Inv st0 -> s_fs st0 = Idle -> t <> 0 ->
  snd (step st0 (OArm s t bc)) = StOk ->
  let st1 := fst (step st0 (OArm s t bc)) in
  in_scope st1 ops ->
  let st := exec st1 ops in
  rollback_op r -> snd (step st r) = StOk ->
  let st' := fst (step st r) in
  cfg_eq (s_fabs st') (s_fabs st0) /\ s_nets st' = s_nets st0 /\ s_bc st' = s_bc st0 /\
  s_kv st' = s_kv st0 /\ s_fs st' = Idle.
Proof.
  intros st0 s t bc ops r HI Hi Ht Hok st1 Hs st Hr Hrok st'.
  destruct (in_scope_safe _ _ Hs) as [H1 H2].
  apply (rollback_exact st0 s t bc ops r); auto.
  apply never_may_store_nothing_stored. exact H2.
Qed.

(** ** D. Commit is atomic (outside the known class: the second store fails / power is lost
    between the two stores) *)
Theorem commit_atomic : forall st s fault,
  Inv st -> fault <> 2 ->
  let st' := fst (step st (OComplete s fault)) in
  let r := snd (step st (OComplete s fault)) in
  (r = StOk /\ s_fs st' = Idle /\ s_bc st' = 0 /\ ram_synced st' /\
   s_fabs st' = s_fabs st /\ n_ids (s_nets st') = n_ids (s_nets st)) \/
  (r <> StOk /\ st' = st).
Proof.
  intros st s fault HI Hf2. unfold step.
  destruct (sess_ctx st s) as [[sfab p]|]; cbn [fst snd]; [|right; split; [discriminate|reflexivity]].
  destruct (sfab =? 0) eqn:E0; cbn [fst snd]; [right; split; [discriminate|reflexivity]|].
  apply N.eqb_neq in E0.
  destruct (negb (allowed st sfab p)); cbn [fst snd]; [right; split; [discriminate|reflexivity]|].
  destruct (complete_body st sfab p fault) as [[st' r] l] eqn:Ec. cbn [fst snd].
  apply complete_body_cases in Ec.
  destruct Ec as [(-> & Hr & _)|(fl & fb & Hf & -> & Hg & [(Hc & _)|(_ & _ & -> & _ & ->)])].
  - right. auto.
  - congruence.
  - left. pose proof (inv_after_commit st sfab fl fb HI Hf E0 Hg) as [_ Hs]. cbn zeta in Hs.
    repeat split; auto; apply Hs.
Qed.

(** after a commit nothing is left to undo: every later way of "rolling back" changes nothing *)
Theorem committed_is_final : forall st s fault r,
  Inv st -> snd (step st (OComplete s fault)) = StOk ->
  let st' := fst (step st (OComplete s fault)) in
  rollback_op r -> snd (step st' r) = StOk ->
  let st'' := fst (step st' r) in
  cfg_eq (s_fabs st'') (s_fabs st') /\ s_nets st'' = s_nets st' /\ s_kv st'' = s_kv st' /\
  s_fs st'' = Idle.
Proof.
  intros st s fault r HI Hok st' Hr Hrok st''.
  assert (HI' : Inv st') by (apply step_inv; cbn; auto).
  assert (Hsync : ram_synced st').
  { destruct (N.eq_dec fault 2) as [->|Hne].
    - (* the second store failed: the answer is not OK *)
      exfalso. unfold step in Hok.
      destruct (sess_ctx st s) as [[sfab p]|]; cbn [snd] in Hok; try discriminate.
      destruct (sfab =? 0); cbn [snd] in Hok; try discriminate.
      destruct (negb (allowed st sfab p)); cbn [snd] in Hok; try discriminate.
      destruct (complete_body st sfab p 2) as [[x y] l] eqn:Ec. cbn [snd] in Hok. subst y.
      apply complete_body_cases in Ec.
      destruct Ec as [(_ & Hr' & _)|(fl & fb & _ & _ & _ & [(_ & Hr' & _)|(_ & Hn & _)])]; congruence.
    - pose proof (commit_atomic st s fault HI Hne) as [(_ & _ & _ & Hs & _)|(Hr' & _)]; auto.
      congruence. }
  pose proof (rollback_durable st' r HI' Hr Hrok) as (Hfs & _ & [Hc Hn] & Hkv).
  fold st'' in Hfs, Hc, Hn, Hkv. destruct Hsync as [Hc' Hn'].
  repeat split; auto.
  - intro i. rewrite Hc, Hkv, Hc'. reflexivity.
  - rewrite Hn, Hkv, Hn'. reflexivity.
Qed.

(** power loss inside CommissioningComplete: before the first store nothing is committed, after
    the second everything is; only the point between the two stores is the known class *)
Theorem cut_atomic : forall st s j,
  Inv st -> j <> 1 ->
  let st' := fst (step st (OCompleteCut s j)) in
  st' = fst (step st ORestart) \/
  (snd (step st (OComplete s 0)) = StOk /\
   st' = fst (step (fst (step st (OComplete s 0))) ORestart)).
Proof.
  intros st s j HI Hj. unfold step.
  destruct (sess_ctx st s) as [[sfab p]|]; cbn [fst snd]; [|left; reflexivity].
  destruct (sfab =? 0) eqn:E0; cbn [fst snd].
  { left. destruct (N.to_nat _); reflexivity. }
  destruct (negb (allowed st sfab p)); cbn [fst snd].
  { left. destruct (N.to_nat _); reflexivity. }
  destruct (complete_body st sfab p 0) as [[st1 r] l] eqn:Ec. cbn [fst snd].
  apply complete_body_cases in Ec.
  destruct Ec as [(-> & Hr & ->)|(fl & fb & Hf & -> & Hg & [(Hc & _)|(_ & _ & -> & -> & ->)])].
  - left. destruct (N.to_nat _); reflexivity.
  - discriminate.
  - cbn [length]. destruct (N.eq_dec j 0) as [->|Hj0].
    + left. reflexivity.
    + right. split; auto.
      assert (Hm : N.to_nat (N.min j (N.of_nat 2)) = 2%nat) by lia.
      rewrite Hm. reflexivity.
Qed.

(** ** Context: a command that needs the fail-safe is refused, and changes nothing, when it
    comes from a session whose fabric index is not the one of the fail-safe context, or when
    no fail-safe is armed *)
Theorem context_refused : forall st o s sfab p f fl,
  needs_ctx o = true -> sess_of o = Some s ->
  sess_ctx st s = Some (sfab, p) -> s_fs st = Armed f fl -> f <> sfab ->
  snd (step st o) <> StOk /\ fst (step st o) = st.
Proof.
  intros st o s sfab p f fl Hn Hs Hc Hf Hne.
  assert (Hwa : with_armed st sfab = ArAuth).
  { unfold with_armed. rewrite Hf. apply N.eqb_neq in Hne. rewrite Hne. reflexivity. }
  apply N.eqb_neq in Hne.
  destruct o; cbn [needs_ctx] in Hn; try discriminate; cbn [sess_of] in Hs; inversion Hs; subst.
  all: unfold step; rewrite Hc; try rewrite Hwa; try rewrite Hf.
  all: try (apply negb_true_iff in Hn; rewrite Hn).
  all: try unfold complete_body; try rewrite Hwa; try rewrite Hne.
  all: dm; cbn [fst snd]; split; try discriminate; reflexivity.
Qed.

Theorem no_failsafe_refused : forall st o,
  needs_ctx o = true -> s_fs st = Idle ->
  match o with OArm _ _ _ => True | _ => snd (step st o) <> StOk /\ fst (step st o) = st end.
Proof.
  intros st o Hn Hf.
  assert (Hwa : forall x, with_armed st x = ArNoFs) by (intro x; unfold with_armed; rewrite Hf; reflexivity).
  destruct o; cbn [needs_ctx] in Hn; try discriminate; auto.
  all: unfold step; try unfold complete_body.
  all: dm; cbn [fst snd]; try (split; [discriminate|reflexivity]).
  all: rewrite Hwa in *; discriminate.
Qed.

(** ** A rollback that removes the fabric of the context (no stored copy to reload) leaves no
    usable CASE session on its index: the index is handed out again by the next commissioning. *)
Lemma cget_cset : forall f b l, cget f (cset f b l) = Some b.
Proof. intros f b l. unfold cget, cset. cbn [find fst snd]. rewrite N.eqb_refl. reflexivity. Qed.

Theorem rollback_drops_case_session : forall st c f fl,
  s_fs st = Armed f fl -> f <> 0 -> fget f (k_fabs (s_kv st)) = None ->
  sess_ctx (expire st c) (SC f) = None /\ fget f (s_fabs (expire st c)) = None.
Proof.
  intros st c f fl Hf Hnz Hk. unfold expire. rewrite Hf, Hk.
  apply N.eqb_neq in Hnz. rewrite Hnz. cbn [negb andb]. cbn [sess_ctx s_case s_fabs]. split.
  - destruct (cget f (s_case st)) as [[|]|] eqn:E.
    + rewrite cget_cset. reflexivity.
    + rewrite E. reflexivity.
    + rewrite cget_cset. reflexivity.
  - apply fget_fdel_same.
Qed.
