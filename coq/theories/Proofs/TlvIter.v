(** The repaired [TLVSequenceTLVIter] yields, for the children of a
    written container, exactly the flattened stream of their [TLV]s
    (container starts and ends included, to any depth) and stops at the
    end of the container; [TLVSequenceIter] yields the children. *)
From Coq Require Import NArith ZArith List Bool Lia ZifyN ZifyBool.
From RsM Require Import Model.Tlv Proofs.TlvFacts Proofs.TlvWriter Proofs.TlvRoundtrip.
Import ListNotations.
Open Scope N_scope.

Lemma tlv_try_next_control s c nest :
  control s = ROk c ->
  tlv_try_next s nest =
  if is_cend (snd c) then
    let! _ := confirm_end c in
    if nest =? 0 then ROk (None, s, nest)
    else let! nx := next_enter s in ROk (Some (TgAnon, VEnd), nx, nest - 1)
  else
    let! t := el_tag s in
    let! v := el_value s in
    let! nx := next_enter s in
    let! nest' := (if is_cstart (snd c)
                   then (if nest + 1 <? two64 then ROk (nest + 1) else RPanic P_LEVEL)
                   else ROk nest) in
    ROk (Some (t, v), nx, nest').
Proof.
  intros H. destruct s as [|b s]; [cbn in H; discriminate|].
  unfold tlv_try_next. rewrite H. reflexivity.
Qed.

Lemma tlv_iter_collect_S f s nest :
  tlv_iter_collect (S f) s nest =
  match tlv_try_next s nest with
  | ROk (None, _, _) => ROk []
  | ROk (Some x, s', n') => let! r := tlv_iter_collect f s' n' in ROk (inl x :: r)
  | RErr c => let! r := tlv_iter_collect f [] 0 in ROk (inr c :: r)
  | RPanic p => RPanic p
  | RFuel => RFuel
  end.
Proof. reflexivity. Qed.

Lemma tlv_collect_tree x :
  wf_tree x -> forall fuel rest nest r,
  nest + blen (encode x) < two64 -> blen (encode x ++ rest) < two63 ->
  tlv_iter_collect fuel rest nest = ROk r ->
  tlv_iter_collect (items x + fuel) (encode x ++ rest) nest = ROk (map inl (flatten x) ++ r).
Proof.
  induction x as [t v|t k cs IH] using tree_ind2; intros Hw fuel rest nest r Hn Hb Hr.
  - destruct Hw as [Ht Hv]. cbn [items encode Nat.add flatten map app] in *.
    rewrite tlv_iter_collect_S. rewrite (tlv_try_next_control _ _ _ (leaf_control t v rest)).
    cbn [snd].
    pose proof (leaf_not_container v Hv) as Hc. unfold is_container_vt in Hc.
    apply orb_false_iff in Hc as [Hc1 Hc2]. rewrite Hc2, Hc1.
    rewrite leaf_el_tag, leaf_el_value, leaf_next_enter by assumption. cbn [rbind].
    rewrite Hr. reflexivity.
  - pose proof Hw as Hw'. apply wf_node in Hw as [Ht Hcs].
    pose proof (node_el_value t k cs rest Hcs Hb) as Hval.
    rewrite encode_node in *. rewrite blen_encode_node in Hn.
    pose proof (blen_w_start_pos t k) as Hs.
    replace (items (Node t k cs) + fuel)%nat with (S (items_list cs + S fuel))
      by (cbn [items]; unfold items_list; lia).
    rewrite tlv_iter_collect_S.
    rewrite (tlv_try_next_control _ _ _ (start_control t k (encode_list cs ++ w_end ++ rest))).
    cbn [snd is_cend is_cstart].
    rewrite start_el_tag, Hval, start_next_enter by assumption. cbn [rbind].
    destruct (N.ltb_spec (nest + 1) two64) as [_|]; [|lia]. cbn [rbind].
    (* the children, one level deeper *)
    assert (Hlist : forall fuel' rest' nest' r',
      nest' + blen (encode_list cs) < two64 -> blen (encode_list cs ++ rest') < two63 ->
      tlv_iter_collect fuel' rest' nest' = ROk r' ->
      tlv_iter_collect (items_list cs + fuel') (encode_list cs ++ rest') nest'
      = ROk (map inl (flat_map flatten cs) ++ r')).
    { clear Hn Hb Hs Hval Hr Hw'. induction IH as [|c r0 Hc Hr0 IHr];
        intros fuel' rest' nest' r' Hn' Hb' Hr'.
      - exact Hr'.
      - apply Forall_cons_iff in Hcs as [Hwc Hwr].
        rewrite encode_list_cons in *. rewrite blen_encode_list_cons in Hn'.
        unfold items_list. cbn [map nsum flat_map]. rewrite <- Nat.add_assoc.
        rewrite map_app, <- app_assoc.
        apply Hc; [assumption|lia|assumption|].
        apply IHr; [assumption|lia| |assumption].
        rewrite blen_app in Hb'. lia. }
    (* the end marker of this container *)
    assert (Hend : tlv_iter_collect (S fuel) (w_end ++ rest) (nest + 1)
                   = ROk (inl (TgAnon, VEnd) :: r)).
    { rewrite tlv_iter_collect_S. rewrite (tlv_try_next_control _ _ _ (end_control rest)).
      cbn [snd is_cend]. change (confirm_end (GAnon, TEnd)) with (ROk (A:=unit) tt). cbn [rbind].
      destruct (N.eqb_spec (nest + 1) 0); [lia|]. rewrite end_next_enter. cbn [rbind].
      replace (nest + 1 - 1) with nest by lia. rewrite Hr. reflexivity. }
    rewrite (Hlist (S fuel) (w_end ++ rest) (nest + 1) (inl (TgAnon, VEnd) :: r)); [| lia | | exact Hend].
    + cbn [rbind flatten map]. rewrite map_app. cbn [map app]. rewrite <- app_assoc. reflexivity.
    + rewrite !blen_app in *. lia.
Qed.

Lemma tlv_collect_list cs :
  wf_list cs -> forall fuel rest nest r,
  nest + blen (encode_list cs) < two64 -> blen (encode_list cs ++ rest) < two63 ->
  tlv_iter_collect fuel rest nest = ROk r ->
  tlv_iter_collect (items_list cs + fuel) (encode_list cs ++ rest) nest
  = ROk (map inl (flat_map flatten cs) ++ r).
Proof.
  induction 1 as [|c r0 Hc Hr0 IH]; intros fuel rest nest r Hn Hb Hr.
  - exact Hr.
  - rewrite encode_list_cons in *. rewrite blen_encode_list_cons in Hn.
    unfold items_list. cbn [map nsum flat_map]. rewrite <- Nat.add_assoc.
    rewrite map_app, <- app_assoc.
    apply tlv_collect_tree; [assumption|lia|assumption|].
    apply IH; [lia| |assumption]. rewrite blen_app in Hb. lia.
Qed.

(** iterating the content of a written container: all descendants, then stop *)
Theorem tlv_iter_flatten cs rest :
  wf_list cs -> blen (encode_list cs ++ w_end ++ rest) < two63 ->
  tlv_iter_all (encode_list cs ++ w_end ++ rest) = ROk (map inl (flat_map flatten cs)).
Proof.
  intros Hcs Hb. unfold tlv_iter_all.
  pose proof (items_list_le_length cs) as Hit.
  remember (S (S (length (encode_list cs ++ w_end ++ rest)))) as F.
  assert (HF : (items_list cs + 1 <= F)%nat) by (subst F; rewrite app_length; lia).
  replace F with (items_list cs + (F - items_list cs))%nat by lia.
  rewrite (tlv_collect_list cs Hcs _ _ _ []).
  - rewrite app_nil_r. reflexivity.
  - rewrite !blen_app in Hb. unfold two63, two64 in *. lia.
  - exact Hb.
  - destruct (F - items_list cs)%nat as [|f] eqn:E; [lia|].
    rewrite tlv_iter_collect_S. rewrite (tlv_try_next_control _ _ _ (end_control rest)).
    reflexivity.
Qed.

(** [TLVSequenceIter] over the content of a written container yields its children *)
Theorem seq_iter_children cs rest :
  wf_list cs -> blen (encode_list cs ++ w_end ++ rest) < two63 ->
  exists slices, seq_iter_all (encode_list cs ++ w_end ++ rest) = ROk (map inl slices) /\
    length slices = length cs /\
    Forall2 (fun sl c => exists tl, sl = encode c ++ tl) slices cs.
Proof.
  intros Hcs Hb. unfold seq_iter_all.
  assert (Hgen : forall fuel, (length cs + 1 <= fuel)%nat ->
    exists slices, seq_iter_collect fuel (encode_list cs ++ w_end ++ rest) = ROk (map inl slices) /\
      length slices = length cs /\
      Forall2 (fun sl c => exists tl, sl = encode c ++ tl) slices cs).
  { clear -Hcs Hb. induction Hcs as [|c r Hc Hr IH]; intros fuel Hf.
    - exists []. destruct fuel as [|fuel]; [cbn in Hf; lia|].
      cbn [seq_iter_collect]. unfold encode_list. cbn [flat_map app].
      rewrite seq_iter_next_end. repeat split; constructor.
    - destruct fuel as [|fuel]; [cbn in Hf; lia|]. cbn [seq_iter_collect].
      rewrite encode_list_cons in *. rewrite seq_iter_next_tree by assumption.
      destruct (IH) with (fuel := fuel) as (sl & E & L & F2).
      + rewrite blen_app in Hb. lia.
      + cbn [length] in Hf. lia.
      + exists ((encode c ++ encode_list r ++ w_end ++ rest) :: sl).
        rewrite E. cbn [rbind map length]. repeat split; [lia|].
        constructor; [eexists; reflexivity|assumption]. }
  apply Hgen. rewrite app_length.
  assert (length cs <= length (encode_list cs))%nat.
  { clear. unfold encode_list. induction cs as [|c r IH]; cbn [flat_map length]; [lia|].
    rewrite app_length. pose proof (blen_encode_pos c) as H. unfold blen in H. lia. }
  lia.
Qed.
