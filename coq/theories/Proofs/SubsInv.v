(** The no-lost-change invariant of the subscription model is preserved by every
    operation (repaired [purge_reported_changes]); hence it holds after every
    interleaving.  Also: the code before the repair violates it. *)
From Coq Require Import ZifyN ZifyBool.
From RsM Require Import Model.Subs Model.SubsSpec Proofs.SubsFacts.
Open Scope N_scope.

Arguments N.add : simpl never.
Arguments N.mul : simpl never.
Arguments N.sub : simpl never.
Arguments N.max : simpl never.
Arguments N.min : simpl never.
Arguments N.modulo : simpl never.
Arguments N.ltb : simpl never.
Arguments N.leb : simpl never.
Arguments N.eqb : simpl never.
Arguments N.of_nat : simpl never.

(** * The invariant as propositions *)

Definition kept_P (lg tb : list entry) (s : sub) : Prop :=
  forall p, In p (s_paths s) -> stale lg (s_del s) p = true ->
            unprimed s = true \/ contains_since tb p (s_seen s) = true.

Definition ctx_P (lg tb : list entry) (x : ctx) : Prop :=
  let s := x_sub x in
  (unprimed s = true \/
   forall p, In p (s_paths s) -> stale lg (s_del s) p = true -> contains_since tb p (s_seen s) = true) /\
  (forall q, In q (x_pend x) -> mem_path (fst q) (x_vis x) = true) /\
  (forall p, In p (s_paths s) -> mem_path p (x_vis x) = true ->
     match lookup p (x_pend x) with
     | Some w => w <? last_change lg p = true -> contains_since tb p (x_nseen x) = true
     | None => unprimed s = false /\
               (stale lg (s_del s) p = true -> contains_since tb p (x_nseen x) = true)
     end).

Record Inv (st : state) : Prop := mkInv {
  i_next : next_chg st = nchg st + 1;
  i_tab : forall e, In e (tab st) -> e_id e <= nchg st;
  i_log : forall e, In e (log st) -> e_id e <= nchg st;
  i_seen : forall s, In s (subs st) -> s_seen s <= nchg st;
  i_xseen : forall x, In x (ctxs st) -> s_seen (x_sub x) <= x_nseen x /\ x_nseen x <= nchg st;
  i_cnt : count st = N.of_nat (length (subs st) + length (ctxs st));
  i_kept : forall s, In s (subs st) -> kept_P (log st) (tab st) s;
  i_ctx : forall x, In x (ctxs st) -> ctx_P (log st) (tab st) x;
  i_ev : forall s, In s (subs st) -> s_seen_ev s <= s_dev s;
  i_xev : forall x, In x (ctxs st) -> s_seen_ev (x_sub x) <= s_dev (x_sub x)
}.

(** * executable form = propositional form *)

Lemma implb_true : forall a b, implb a b = true <-> (a = true -> b = true).
Proof. intros [] []; cbn; intuition congruence. Qed.

Lemma kept_ok_spec : forall lg tb s, kept_ok lg tb s = true <-> kept_P lg tb s.
Proof.
  intros lg tb s. unfold kept_ok, kept_P. rewrite forallb_forall. split.
  - intros H p Hp Hs. specialize (H p Hp). rewrite implb_true in H. specialize (H Hs).
    apply orb_true_iff in H. exact H.
  - intros H p Hp. rewrite implb_true. intros Hs. apply orb_true_iff. apply H; assumption.
Qed.

Lemma ctx_ok_spec : forall lg tb x, ctx_ok lg tb x = true <-> ctx_P lg tb x.
Proof.
  intros lg tb x. unfold ctx_ok, ctx_P. cbv zeta. split.
  - intros H. apply andb_true_iff in H. destruct H as [H HB].
    apply andb_true_iff in H. destruct H as [HA HC].
    apply orb_true_iff in HA. rewrite forallb_forall in HC. rewrite forallb_forall in HB.
    split; [|split].
    + destruct HA as [HA|HA]; [left; exact HA|right].
      rewrite forallb_forall in HA. intros p Hp Hs. specialize (HA p Hp). rewrite implb_true in HA. auto.
    + exact HC.
    + intros p Hp Hv. specialize (HB p Hp). rewrite implb_true in HB. specialize (HB Hv).
      destruct (lookup p (x_pend x)) as [w|].
      * rewrite implb_true in HB. exact HB.
      * apply andb_true_iff in HB. destruct HB as [H1 H2]. rewrite implb_true in H2.
        split; [destruct (unprimed (x_sub x)); [discriminate|reflexivity]|exact H2].
  - intros [HA [HC HB]]. apply andb_true_iff. split; [apply andb_true_iff; split|].
    + apply orb_true_iff. destruct HA as [HA|HA]; [left; exact HA|right].
      rewrite forallb_forall. intros p Hp. rewrite implb_true. auto.
    + rewrite forallb_forall. exact HC.
    + rewrite forallb_forall. intros p Hp. rewrite implb_true. intros Hv. specialize (HB p Hp Hv).
      destruct (lookup p (x_pend x)) as [w|].
      * rewrite implb_true. exact HB.
      * destruct HB as [H1 H2]. apply andb_true_iff. split; [rewrite H1; reflexivity|].
        rewrite implb_true. exact H2.
Qed.

Lemma inv_b_spec : forall st, inv_b st = true <-> Inv st.
Proof.
  intros st. unfold inv_b, ids_ok, ev_ok. rewrite !andb_true_iff, !forallb_forall. split.
  - intros [[[[[[[[[H1 H2] H3] H4] H5] H6] H7] H8] H9] H10]. constructor.
    + lia.
    + intros e He. specialize (H2 e He). lia.
    + intros e He. specialize (H3 e He). lia.
    + intros s Hs. specialize (H4 s Hs). lia.
    + intros x Hx. specialize (H5 x Hx). lia.
    + lia.
    + intros s Hs. apply kept_ok_spec. apply H7. exact Hs.
    + intros x Hx. apply ctx_ok_spec. apply H8. exact Hx.
    + intros s Hs. specialize (H9 s Hs). lia.
    + intros x Hx. specialize (H10 x Hx). lia.
  - intros [I1 I2 I3 I4 I5 I6 I7 I8 I9 I10]. repeat split.
    + lia.
    + intros e He. specialize (I2 e He). lia.
    + intros e He. specialize (I3 e He). lia.
    + intros s Hs. specialize (I4 s Hs). lia.
    + intros x Hx. specialize (I5 x Hx). lia.
    + lia.
    + intros s Hs. apply kept_ok_spec. apply I7. exact Hs.
    + intros x Hx. apply ctx_ok_spec. apply I8. exact Hx.
    + intros s Hs. specialize (I9 s Hs). lia.
    + intros x Hx. specialize (I10 x Hx). lia.
Qed.

(** * helper facts *)

Lemma watermark_next : forall n, n + 2 < two64 -> watermark (n + 1) = n.
Proof.
  intros n H. unfold watermark, two64 in *.
  replace (n + 1 + 18446744073709551616 - 1) with (n + 1 * 18446744073709551616) by lia.
  rewrite N.mod_add by discriminate. apply N.mod_small. lia.
Qed.

Lemma next_id_next : forall n, n + 2 < two64 -> next_id (n + 1) = n + 1 + 1.
Proof.
  intros n H. unfold next_id, two64 in *. rewrite N.mod_small by lia. lia.
Qed.

Lemma stale_cons : forall e lg del p,
  stale (e :: lg) del p = true ->
  stale lg del p = true \/ matches e p = true.
Proof.
  intros e lg del p. unfold stale. destruct (lookup p del) as [d|]; [|left; reflexivity].
  rewrite last_change_cons. destruct (matches e p); [right; reflexivity|].
  intros H. left. lia.
Qed.

Lemma kept_change : forall lg tb s ep cl at_ n,
  kept_P lg tb s -> s_seen s <= n -> (forall e, In e tb -> e_id e <= n) ->
  kept_P (mkEntry ep cl at_ (n + 1) :: lg) (record_entries tb (mkEntry ep cl at_ (n + 1))) s.
Proof.
  intros lg tb s ep cl at_ n HK Hs Hb p Hp Hst.
  assert (Hb' : forall e, In e tb -> e_id e <= e_id (mkEntry ep cl at_ (n + 1))).
  { intros e He. specialize (Hb e He). cbn. lia. }
  destruct (record_entries_facts (mkEntry ep cl at_ (n + 1)) tb Hb') as [R1 [R2 _]].
  apply stale_cons in Hst. destruct Hst as [Hst|Hm].
  - destruct (HK p Hp Hst) as [Hu|Hc]; [left; exact Hu|right; apply R1; exact Hc].
  - right. apply R2; [exact Hm|cbn; lia].
Qed.

Lemma ctx_change : forall lg tb x ep cl at_ n,
  ctx_P lg tb x -> s_seen (x_sub x) <= n -> x_nseen x <= n -> (forall e, In e tb -> e_id e <= n) ->
  ctx_P (mkEntry ep cl at_ (n + 1) :: lg) (record_entries tb (mkEntry ep cl at_ (n + 1))) x.
Proof.
  intros lg tb x ep cl at_ n [HA [HC HB]] Hs Hn Hb.
  assert (Hb' : forall e, In e tb -> e_id e <= e_id (mkEntry ep cl at_ (n + 1))).
  { intros e He. specialize (Hb e He). cbn. lia. }
  destruct (record_entries_facts (mkEntry ep cl at_ (n + 1)) tb Hb') as [R1 [R2 _]].
  split; [|split].
  - destruct HA as [HA|HA]; [left; exact HA|right].
    intros p Hp Hst. apply stale_cons in Hst. destruct Hst as [Hst|Hm].
    + apply R1. apply HA; assumption.
    + apply R2; [exact Hm|cbn; lia].
  - exact HC.
  - intros p Hp Hv. specialize (HB p Hp Hv). destruct (lookup p (x_pend x)) as [w|].
    + rewrite last_change_cons. destruct (matches (mkEntry ep cl at_ (n + 1)) p) eqn:Hm.
      * intros _. apply R2; [exact Hm|cbn; lia].
      * intros Hw. apply R1. apply HB. lia.
    + destruct HB as [H1 H2]. split; [exact H1|]. intros Hst.
      apply stale_cons in Hst. destruct Hst as [Hst|Hm].
      * apply R1. apply H2. exact Hst.
      * apply R2; [exact Hm|cbn; lia].
Qed.

Lemma kept_purge : forall lg tb s t, kept_P lg tb s -> t <= s_seen s -> kept_P lg (purge_up_to tb t) s.
Proof.
  intros lg tb s t HK Ht p Hp Hst. destruct (HK p Hp Hst) as [Hu|Hc]; [left; exact Hu|right].
  destruct (purge_up_to_facts tb t) as [P1 _]. apply P1; assumption.
Qed.

Lemma min_seen_le : forall l m, min_seen l = Some m -> forall s, In s l -> m <= s_seen s.
Proof.
  intros l m H. destruct l as [|s0 t]; [discriminate|]. cbn [min_seen] in H. injection H as H. subst m.
  assert (G : forall t a, fold_left (fun m s => N.min m (s_seen s)) t a <= a /\
                          forall s, In s t -> fold_left (fun m s => N.min m (s_seen s)) t a <= s_seen s).
  { clear. induction t as [|h t IH]; intros a.
    - cbn. split; [lia|intros s []].
    - cbn [fold_left]. destruct (IH (N.min a (s_seen h))) as [I1 I2]. split; [lia|].
      intros s [Heq|Hin]; [subst; lia|apply I2; exact Hin]. }
  destruct (G t (s_seen s0)) as [G1 G2].
  intros s [Heq|Hin].
  - subst s. exact G1.
  - apply G2. exact Hin.
Qed.

(** contexts: find / remove / replace *)
Lemma find_ctx_In : forall sid l x, find_ctx sid l = Some x -> In x l.
Proof. intros sid l x H. unfold find_ctx in H. apply find_some in H. apply H. Qed.

Lemma remove_ctx_In : forall sid l y, In y (remove_ctx sid l) -> In y l.
Proof.
  intros sid l. induction l as [|x t IH]; intros y H; [exact H|].
  cbn [remove_ctx] in H. destruct (s_id (x_sub x) =? sid); [right; exact H|].
  destruct H as [Heq|H]; [left; exact Heq|right; apply IH; exact H].
Qed.

Lemma remove_ctx_length : forall sid l x, find_ctx sid l = Some x ->
  length l = S (length (remove_ctx sid l)).
Proof.
  intros sid l. induction l as [|h t IH]; intros x H; [discriminate|].
  unfold find_ctx in H. cbn [find remove_ctx] in *. destruct (s_id (x_sub h) =? sid); [reflexivity|].
  cbn [length]. f_equal. apply (IH x). exact H.
Qed.

Lemma replace_ctx_In : forall x' l y, In y (replace_ctx x' l) -> y = x' \/ In y l.
Proof.
  intros x' l. induction l as [|h t IH]; intros y H; [destruct H|].
  cbn [replace_ctx] in H. destruct (s_id (x_sub h) =? s_id (x_sub x')).
  - destruct H as [Heq|H]; [left; auto|right; right; exact H].
  - destruct H as [Heq|H]; [right; left; exact Heq|]. destruct (IH y H) as [E|I]; [left; exact E|right; right; exact I].
Qed.

Lemma replace_ctx_length : forall x' l, length (replace_ctx x' l) = length l.
Proof.
  intros x' l. induction l as [|h t IH]; [reflexivity|].
  cbn [replace_ctx]. destruct (s_id (x_sub h) =? s_id (x_sub x')); cbn [length]; [reflexivity|f_equal; exact IH].
Qed.

(** one attribute passed by a report *)
Lemma visit_sub : forall n x p b, x_sub (visit n x p b) = x_sub x.
Proof. intros. unfold visit. destruct (mem_path p (x_vis x)); reflexivity. Qed.
Lemma visit_nseen : forall n x p b, x_nseen (visit n x p b) = x_nseen x.
Proof. intros. unfold visit. destruct (mem_path p (x_vis x)); reflexivity. Qed.
Lemma visit_vis_mono : forall n x p b q, mem_path q (x_vis x) = true -> mem_path q (x_vis (visit n x p b)) = true.
Proof.
  intros n x p b q H. unfold visit. destruct (mem_path p (x_vis x)); [exact H|].
  cbn [x_vis]. unfold mem_path in *. cbn [existsb]. rewrite H. apply orb_true_r.
Qed.
Lemma visit_vis_self : forall n x p b, mem_path p (x_vis (visit n x p b)) = true.
Proof.
  intros n x p b. unfold visit. destruct (mem_path p (x_vis x)) eqn:H; [exact H|].
  cbn [x_vis]. unfold mem_path. cbn [existsb]. rewrite path_eqb_refl. reflexivity.
Qed.

Lemma visit_ctx_P : forall lg tb n x p,
  ctx_P lg tb x -> (forall e, In e lg -> e_id e <= n) ->
  ctx_P lg tb (visit n x p (should_report tb x p)).
Proof.
  intros lg tb n x p [HA [HC HB]] Hlg. unfold visit.
  destruct (mem_path p (x_vis x)) eqn:Hvis; [split; [exact HA|split; [exact HC|exact HB]]|].
  unfold ctx_P. cbn [x_sub x_pend x_vis x_nseen].
  assert (Hnone : lookup p (x_pend x) = None).
  { destruct (lookup p (x_pend x)) as [w|] eqn:Hl; [|reflexivity].
    apply lookup_Some_In in Hl. apply HC in Hl. cbn in Hl. congruence. }
  split; [exact HA|]. split.
  - intros q Hq. unfold mem_path. cbn [existsb].
    destruct (should_report tb x p).
    + destruct Hq as [Heq|Hq].
      * subst q. cbn [fst]. rewrite path_eqb_refl. reflexivity.
      * apply HC in Hq. unfold mem_path in Hq. rewrite Hq. apply orb_true_r.
    + apply HC in Hq. unfold mem_path in Hq. rewrite Hq. apply orb_true_r.
  - intros q Hq Hv. unfold mem_path in Hv. cbn [existsb] in Hv.
    destruct (path_eqb q p) eqn:Hqp.
    + apply path_eqb_eq in Hqp. subst q.
      destruct (should_report tb x p) eqn:Hsr.
      * rewrite lookup_cons_eq. intros Hw. pose proof (last_change_le lg p n Hlg). lia.
      * rewrite Hnone. unfold should_report in Hsr.
        destruct (unprimed (x_sub x)) eqn:Hu; [discriminate|]. split; [reflexivity|].
        intros Hst. destruct HA as [HA|HA]; [congruence|].
        specialize (HA p Hq Hst). congruence.
    + cbn [orb] in Hv. specialize (HB q Hq Hv).
      destruct (should_report tb x p).
      * rewrite lookup_cons_neq; [exact HB|]. rewrite path_eqb_sym. exact Hqp.
      * exact HB.
Qed.

Lemma visit_fold_facts : forall lg tb n,
  (forall e, In e lg -> e_id e <= n) ->
  forall ps x, ctx_P lg tb x ->
  ctx_P lg tb (fold_left (fun x0 p0 => visit n x0 p0 (should_report tb x0 p0)) ps x) /\
  x_sub (fold_left (fun x0 p0 => visit n x0 p0 (should_report tb x0 p0)) ps x) = x_sub x /\
  x_nseen (fold_left (fun x0 p0 => visit n x0 p0 (should_report tb x0 p0)) ps x) = x_nseen x /\
  (forall q, mem_path q (x_vis x) = true ->
             mem_path q (x_vis (fold_left (fun x0 p0 => visit n x0 p0 (should_report tb x0 p0)) ps x)) = true) /\
  (forall p, In p ps ->
             mem_path p (x_vis (fold_left (fun x0 p0 => visit n x0 p0 (should_report tb x0 p0)) ps x)) = true).
Proof.
  intros lg tb n Hlg ps. induction ps as [|p ps IH]; intros x HP.
  - cbn [fold_left]. split; [exact HP|]. split; [reflexivity|]. split; [reflexivity|].
    split; [intros q Hq; exact Hq|intros p0 Hin; destruct Hin].
  - cbn [fold_left].
    assert (HP1 : ctx_P lg tb (visit n x p (should_report tb x p))) by (apply visit_ctx_P; assumption).
    destruct (IH _ HP1) as [I1 [I2 [I3 [I4 I5]]]].
    split; [exact I1|]. split; [rewrite I2; apply visit_sub|]. split; [rewrite I3; apply visit_nseen|].
    split.
    + intros q Hq. apply I4. apply visit_vis_mono. exact Hq.
    + intros q Hin. destruct Hin as [Heq|Hin].
      * subst q. apply I4. apply visit_vis_self.
      * apply I5. exact Hin.
Qed.

Lemma visit_rest_facts : forall lg tb n x,
  ctx_P lg tb x -> (forall e, In e lg -> e_id e <= n) ->
  ctx_P lg tb (visit_rest tb n x) /\ x_sub (visit_rest tb n x) = x_sub x /\
  x_nseen (visit_rest tb n x) = x_nseen x /\
  forall p, In p (s_paths (x_sub x)) -> mem_path p (x_vis (visit_rest tb n x)) = true.
Proof.
  intros lg tb n x HP Hlg. unfold visit_rest.
  destruct (visit_fold_facts lg tb n Hlg (s_paths (x_sub x)) x HP) as [I1 [I2 [I3 [_ I5]]]].
  split; [exact I1|]. split; [exact I2|]. split; [exact I3|exact I5].
Qed.

(** the subscription put back after a delivered report *)
Lemma sub_after_ok_kept : forall lg tb x,
  ctx_P lg tb x -> (forall p, In p (s_paths (x_sub x)) -> mem_path p (x_vis x) = true) ->
  kept_P lg tb (sub_after_ok x).
Proof.
  intros lg tb x [HA [HC HB]] Hall p Hp Hst. right.
  unfold sub_after_ok, with_core in *. cbn [s_paths s_del s_seen] in *.
  specialize (HB p Hp (Hall p Hp)). unfold stale in Hst. rewrite lookup_app in Hst.
  destruct (lookup p (x_pend x)) as [w|].
  - apply HB. exact Hst.
  - destruct HB as [_ H2]. apply H2. exact Hst.
Qed.

Lemma sub_after_skip_kept : forall lg tb x unsent,
  ctx_P lg tb x -> (forall p, In p (s_paths (x_sub x)) -> mem_path p (x_vis x) = true) ->
  kept_P lg tb (sub_after_skip unsent x).
Proof.
  intros lg tb x unsent [HA [HC HB]] Hall p Hp Hst. right.
  unfold sub_after_skip, with_core in *. cbn [s_paths s_del s_seen] in *.
  specialize (HB p Hp (Hall p Hp)). unfold stale in Hst. rewrite lookup_app in Hst.
  destruct (lookup p (x_pend x)) as [w|].
  - apply HB. exact Hst.
  - destruct HB as [_ H2]. apply H2. exact Hst.
Qed.

Lemma sub_after_fail_kept : forall lg tb x, ctx_P lg tb x -> kept_P lg tb (sub_after_fail x).
Proof.
  intros lg tb x [HA _] p Hp Hst.
  unfold sub_after_fail, with_core, unprimed in *. cbn [s_paths s_del s_seen s_rep_at] in *.
  destruct HA as [HA|HA]; [left; exact HA|right; apply HA; assumption].
Qed.

(** * every operation preserves the invariant *)

Lemma report_complete_inv : forall st sid x s',
  Inv st -> find_ctx sid (ctxs st) = Some x ->
  kept_P (log st) (tab st) s' -> s_seen s' <= nchg st -> s_seen_ev s' <= s_dev s' ->
  forall slot keep, Inv (report_complete slot st sid s' keep).
Proof.
  intros st sid x s' I Hf HK Hs He slot keep.
  pose proof (remove_ctx_length sid (ctxs st) x Hf) as Hlen.
  pose proof (i_cnt st I) as Hc.
  assert (Hdrop : forall rep canc, Inv (mkSt (next_sid st) (count st - 1) (subs st) (tab st) (next_chg st) rep canc
                            (remove_ctx sid (ctxs st)) (kv st) (log st) (nchg st) (evn st))).
  { intros rep canc. constructor; cbn [next_chg nchg tab log subs ctxs count].
    - apply (i_next st I).
    - apply (i_tab st I).
    - apply (i_log st I).
    - apply (i_seen st I).
    - intros y Hy. apply (i_xseen st I). eapply remove_ctx_In. exact Hy.
    - lia.
    - apply (i_kept st I).
    - intros y Hy. apply (i_ctx st I). eapply remove_ctx_In. exact Hy.
    - apply (i_ev st I).
    - intros y Hy. apply (i_xev st I). eapply remove_ctx_In. exact Hy. }
  unfold report_complete. destruct (owns_slot slot st sid && cancelled st); [apply Hdrop|]. destruct keep; [|apply Hdrop].
  constructor; cbn [next_chg nchg tab log subs ctxs count].
  - apply (i_next st I).
  - apply (i_tab st I).
  - apply (i_log st I).
  - intros s Hin. apply in_app_or in Hin. destruct Hin as [Hin|[Heq|[]]]; [apply (i_seen st I); exact Hin|subst; exact Hs].
  - intros y Hy. apply (i_xseen st I). eapply remove_ctx_In. exact Hy.
  - rewrite app_length. cbn [length]. lia.
  - intros s Hin. apply in_app_or in Hin. destruct Hin as [Hin|[Heq|[]]]; [apply (i_kept st I); exact Hin|subst; exact HK].
  - intros y Hy. apply (i_ctx st I). eapply remove_ctx_In. exact Hy.
  - intros s Hin. apply in_app_or in Hin. destruct Hin as [Hin|[Heq|[]]]; [apply (i_ev st I); exact Hin|subst; exact He].
  - intros y Hy. apply (i_xev st I). eapply remove_ctx_In. exact Hy.
Qed.

Lemma remove_where_inv : forall f st, Inv st -> Inv (fst (remove_where f st)).
Proof.
  intros f st I. unfold remove_where. cbn [fst].
  pose proof (swap_filter_length f (subs st)) as Hl.
  assert (Hsub : forall s, In s (swap_filter f (subs st)) -> In s (subs st)) by (intros s; apply swap_filter_In).
  constructor; cbn [next_chg nchg tab log subs ctxs count].
  - apply (i_next st I).
  - apply (i_tab st I).
  - apply (i_log st I).
  - intros s Hs. apply (i_seen st I). auto.
  - apply (i_xseen st I).
  - pose proof (i_cnt st I). lia.
  - intros s Hs. apply (i_kept st I). auto.
  - apply (i_ctx st I).
  - intros s Hs. apply (i_ev st I). auto.
  - apply (i_xev st I).
Qed.

Lemma swap_remove_sub : forall {A} i (l : list A) y, In y (swap_remove i l) -> In y l.
Proof. intros. eapply swap_remove_In. eassumption. Qed.

Lemma swap_remove_length_nth : forall {A} i (l : list A) x,
  nth_error l i = Some x -> length l = S (length (swap_remove i l)).
Proof.
  intros A i l. revert i. induction l as [|h t IH]; intros i x H.
  - destruct i; discriminate.
  - destruct i as [|k]; cbn [swap_remove].
    + destruct t as [|z t']; [reflexivity|]. cbn [length]. f_equal.
      assert (G : forall (l : list A), l <> [] -> length l = S (length (removelast l))).
      { clear. induction l as [|a l IHl]; [congruence|]. intros _. destruct l as [|b l]; [reflexivity|].
        cbn [removelast length] in *. f_equal. apply IHl. discriminate. }
      apply (G (z :: t')). discriminate.
    + cbn [length]. f_equal. apply (IH k x). exact H.
Qed.

Lemma resume_inv : forall recs st now evw,
  Inv st -> tab st = [] -> log st = [] -> nchg st = 0 -> Inv (resume recs st now evw).
Proof.
  intros recs. induction recs as [|r t IH]; intros st now evw I Ht Hl Hn; [exact I|].
  cbn [resume]. destruct (MAX_SUBS <=? count st); [apply IH; assumption|].
  apply IH; cbn [tab log nchg]; try assumption.
  pose proof (i_next st I) as Hnx.
  constructor; cbn [next_chg nchg tab log subs ctxs count].
  - exact Hnx.
  - apply (i_tab st I).
  - apply (i_log st I).
  - intros s Hin. apply in_app_or in Hin. destruct Hin as [Hin|[Heq|[]]]; [apply (i_seen st I); exact Hin|].
    subst s. unfold with_core, fresh_sub. cbn [s_seen]. rewrite Hnx, Hn. vm_compute. discriminate.
  - apply (i_xseen st I).
  - pose proof (i_cnt st I). rewrite app_length. cbn [length]. lia.
  - intros s Hin. apply in_app_or in Hin. destruct Hin as [Hin|[Heq|[]]]; [apply (i_kept st I); exact Hin|].
    subst s. intros p Hp Hst. left. reflexivity.
  - apply (i_ctx st I).
  - intros s Hin. apply in_app_or in Hin. destruct Hin as [Hin|[Heq|[]]]; [apply (i_ev st I); exact Hin|].
    subst s. unfold with_core. cbn [s_seen_ev s_dev]. lia.
  - apply (i_xev st I).
Qed.

Theorem step_inv : forall st o,
  Inv st -> nchg st + 2 < two64 ->
  Inv (fst (step st o)) /\ nchg (fst (step st o)) <= nchg st + 1.
Proof.
  intros st o I Hb. unfold step.
  pose proof (i_next st I) as Hnx.
  destruct o as [ep cl at_| |fab peer mn mx paths now lag|sid p|sid r|now lag| |fab peer|now| |now lag];
    cbn [step_gen].
  - (* OChange *)
    cbn [fst nchg]. split; [|lia].
    rewrite Hnx.
    constructor; cbn [next_chg nchg tab log subs ctxs count].
    + apply next_id_next. exact Hb.
    + intros e He.
      assert (Hb' : forall e', In e' (tab st) -> e_id e' <= e_id (mkEntry ep cl at_ (nchg st + 1))).
      { intros e' He'. pose proof (i_tab st I e' He'). cbn. lia. }
      destruct (record_entries_facts (mkEntry ep cl at_ (nchg st + 1)) (tab st) Hb') as [_ [_ R3]].
      apply (R3 (nchg st + 1)); [intros e' He'; pose proof (i_tab st I e' He'); lia|cbn; lia|exact He].
    + intros e [Heq|He]; [subst e; cbn; lia|pose proof (i_log st I e He); lia].
    + intros s Hs. pose proof (i_seen st I s Hs). lia.
    + intros x Hx. pose proof (i_xseen st I x Hx). lia.
    + apply (i_cnt st I).
    + intros s Hs. apply kept_change; [apply (i_kept st I); exact Hs|apply (i_seen st I); exact Hs|apply (i_tab st I)].
    + intros x Hx. pose proof (i_xseen st I x Hx).
      apply ctx_change; [apply (i_ctx st I); exact Hx|lia|lia|apply (i_tab st I)].
    + apply (i_ev st I).
    + apply (i_xev st I).
  - (* OEvent *)
    cbn [fst nchg]. split; [|lia]. destruct I. constructor; assumption.
  - (* OSubBegin *)
    destruct (MAX_SUBS <=? count st); cbn [fst]; [split; [exact I|lia]|].
    cbn [nchg]. split; [|lia].
    assert (Hw : watermark (next_chg st) = nchg st) by (rewrite Hnx; apply watermark_next; exact Hb).
    constructor; cbn [next_chg nchg tab log subs ctxs count].
    + exact Hnx.
    + apply (i_tab st I).
    + apply (i_log st I).
    + apply (i_seen st I).
    + intros x Hin. apply in_app_or in Hin. destruct Hin as [Hin|[Heq|[]]]; [apply (i_xseen st I); exact Hin|].
      subst x. cbn [x_sub x_nseen fresh_sub s_seen]. rewrite Hw. lia.
    + pose proof (i_cnt st I). rewrite app_length. cbn [length]. lia.
    + apply (i_kept st I).
    + intros x Hin. apply in_app_or in Hin. destruct Hin as [Hin|[Heq|[]]]; [apply (i_ctx st I); exact Hin|].
      subst x. unfold ctx_P. cbn [x_sub x_pend x_vis x_nseen]. split; [left; reflexivity|].
      split; [intros q []|]. intros p _ Hv. discriminate.
    + apply (i_ev st I).
    + intros x Hin. apply in_app_or in Hin. destruct Hin as [Hin|[Heq|[]]]; [apply (i_xev st I); exact Hin|].
      subst x. cbn. lia.
  - (* OCtxRead *)
    destruct (find_ctx sid (ctxs st)) as [x|] eqn:Hf; cbn [fst]; [|split; [exact I|lia]].
    cbn [nchg]. split; [|lia].
    pose proof (find_ctx_In _ _ _ Hf) as Hx.
    constructor; cbn [next_chg nchg tab log subs ctxs count].
    + exact Hnx.
    + apply (i_tab st I).
    + apply (i_log st I).
    + apply (i_seen st I).
    + intros y Hy. apply replace_ctx_In in Hy. destruct Hy as [Heq|Hy]; [|apply (i_xseen st I); exact Hy].
      subst y. rewrite visit_sub, visit_nseen. apply (i_xseen st I). exact Hx.
    + rewrite replace_ctx_length. apply (i_cnt st I).
    + apply (i_kept st I).
    + intros y Hy. apply replace_ctx_In in Hy. destruct Hy as [Heq|Hy]; [|apply (i_ctx st I); exact Hy].
      subst y. apply visit_ctx_P; [apply (i_ctx st I); exact Hx|apply (i_log st I)].
    + apply (i_ev st I).
    + intros y Hy. apply replace_ctx_In in Hy. destruct Hy as [Heq|Hy]; [|apply (i_xev st I); exact Hy].
      subst y. rewrite visit_sub. apply (i_xev st I). exact Hx.
  - (* OCtxEnd *)
    destruct (find_ctx sid (ctxs st)) as [x|] eqn:Hf; cbn [fst]; [|split; [exact I|lia]].
    pose proof (find_ctx_In _ _ _ Hf) as Hx.
    pose proof (i_xseen st I x Hx) as [Hxs1 Hxs2].
    pose proof (i_xev st I x Hx) as Hxe.
    assert (Hn : forall s' keep, nchg (report_complete true st sid s' keep) = nchg st).
    { intros. unfold report_complete. destruct (owns_slot true st sid && cancelled st); [reflexivity|]. destruct keep; reflexivity. }
    assert (Hd : forall s1 s2, report_complete true st sid s1 false = report_complete true st sid s2 false).
    { intros. unfold report_complete. destruct (owns_slot true st sid && cancelled st); reflexivity. }
    destruct r; cbn [fst]; rewrite Hn; (split; [|lia]).
    + (* delivered *)
      destruct (visit_rest_facts (log st) (tab st) (nchg st) x (i_ctx st I x Hx) (i_log st I))
        as [V1 [V2 [V3 V6]]].
      apply (report_complete_inv st sid x _ I Hf).
      * apply sub_after_ok_kept; [exact V1|]. rewrite V2. exact V6.
      * unfold sub_after_ok, with_core. cbn [s_seen]. rewrite V3. exact Hxs2.
      * unfold sub_after_ok, with_core. cbn [s_seen_ev s_dev]. lia.
    + (* nothing to send unless an attribute was emitted or the liveness report is due *)
      destruct (visit_rest_facts (log st) (tab st) (nchg st) x (i_ctx st I x Hx) (i_log st I))
        as [V1 [V2 [V3 V6]]].
      destruct (report_is_sent (visit_rest (tab st) (nchg st) x)).
      * apply (report_complete_inv st sid x _ I Hf).
        -- apply sub_after_ok_kept; [exact V1|]. rewrite V2. exact V6.
        -- unfold sub_after_ok, with_core. cbn [s_seen]. rewrite V3. exact Hxs2.
        -- unfold sub_after_ok, with_core. cbn [s_seen_ev s_dev]. lia.
      * apply (report_complete_inv st sid x _ I Hf).
        -- apply sub_after_skip_kept; [exact V1|]. rewrite V2. exact V6.
        -- unfold sub_after_skip, with_core. cbn [s_seen]. rewrite V3. exact Hxs2.
        -- unfold sub_after_skip, with_core. cbn [s_seen_ev s_dev]. lia.
    + (* failed *)
      apply (report_complete_inv st sid x _ I Hf).
      * apply sub_after_fail_kept. apply (i_ctx st I). exact Hx.
      * unfold sub_after_fail, with_core. cbn [s_seen]. lia.
      * unfold sub_after_fail, with_core. cbn [s_seen_ev s_dev]. exact Hxe.
    + (* dropped *)
      rewrite (Hd (x_sub x) (sub_after_fail x)).
      apply (report_complete_inv st sid x _ I Hf).
      * apply sub_after_fail_kept. apply (i_ctx st I). exact Hx.
      * unfold sub_after_fail, with_core. cbn [s_seen]. lia.
      * unfold sub_after_fail, with_core. cbn [s_seen_ev s_dev]. exact Hxe.
  - (* OReportBegin *)
    destruct (report_slot_free st); cbn [fst]; [|split; [exact I|lia]].
    destruct (find_index _ (subs st)) as [i|]; cbn [fst]; [|split; [exact I|lia]].
    destruct (nth_error (subs st) i) as [s|] eqn:Hnth; cbn [fst]; [|split; [exact I|lia]].
    cbn [nchg]. split; [|lia].
    assert (Hw : watermark (next_chg st) = nchg st) by (rewrite Hnx; apply watermark_next; exact Hb).
    pose proof (nth_error_In _ _ Hnth) as Hs.
    constructor; cbn [next_chg nchg tab log subs ctxs count].
    + exact Hnx.
    + apply (i_tab st I).
    + apply (i_log st I).
    + intros s' Hs'. apply (i_seen st I). eapply swap_remove_sub. exact Hs'.
    + intros x Hin. apply in_app_or in Hin. destruct Hin as [Hin|[Heq|[]]]; [apply (i_xseen st I); exact Hin|].
      subst x. cbn [x_sub x_nseen]. rewrite Hw. pose proof (i_seen st I s Hs). lia.
    + pose proof (i_cnt st I). pose proof (swap_remove_length_nth i (subs st) s Hnth).
      rewrite app_length. cbn [length]. lia.
    + intros s' Hs'. apply (i_kept st I). eapply swap_remove_sub. exact Hs'.
    + intros x Hin. apply in_app_or in Hin. destruct Hin as [Hin|[Heq|[]]]; [apply (i_ctx st I); exact Hin|].
      subst x. unfold ctx_P. cbn [x_sub x_pend x_vis x_nseen]. split.
      * pose proof (i_kept st I s Hs) as HK. destruct (unprimed s) eqn:Hu; [left; reflexivity|right].
        intros p Hp Hst. destruct (HK p Hp Hst) as [H|H]; [congruence|exact H].
      * split; [intros q []|]. intros p _ Hv. discriminate.
    + intros s' Hs'. apply (i_ev st I). eapply swap_remove_sub. exact Hs'.
    + intros x Hin. apply in_app_or in Hin. destruct Hin as [Hin|[Heq|[]]]; [apply (i_xev st I); exact Hin|].
      subst x. cbn [x_sub]. apply (i_ev st I). exact Hs.
  - (* OPurge, repaired *)
    cbn [fst nchg]. split; [|lia].
    assert (Hp : forall e, In e (purge true st) -> In e (tab st)).
    { intros e. unfold purge. destruct (true && negb (count st =? N.of_nat (length (subs st)))); [auto|].
      destruct (min_seen (subs st)) as [m|]; [|intros []]. apply purge_up_to_facts. }
    constructor; cbn [next_chg nchg tab log subs ctxs count].
    + exact Hnx.
    + intros e He. apply (i_tab st I). apply Hp. exact He.
    + apply (i_log st I).
    + apply (i_seen st I).
    + apply (i_xseen st I).
    + apply (i_cnt st I).
    + intros s Hs. unfold purge. cbn [andb].
      destruct (negb (count st =? N.of_nat (length (subs st)))); [apply (i_kept st I); exact Hs|].
      destruct (min_seen (subs st)) as [m|] eqn:Hm.
      * apply kept_purge; [apply (i_kept st I); exact Hs|]. eapply min_seen_le; eassumption.
      * destruct (subs st); [destruct Hs|discriminate].
    + intros x Hx. unfold purge. cbn [andb].
      destruct (negb (count st =? N.of_nat (length (subs st)))) eqn:Hc; [apply (i_ctx st I); exact Hx|].
      (* no subscription is outside the table, so there is no context *)
      exfalso. pose proof (i_cnt st I) as Hcnt. apply negb_false_iff in Hc.
      destruct (ctxs st) as [|c cs']; [destruct Hx|]. cbn [length] in Hcnt. lia.
    + apply (i_ev st I).
    + apply (i_xev st I).
  - (* ORemove *)
    pose proof (remove_where_inv (fun s => (s_fab s =? fab) && match peer with Some n => s_peer s =? n | None => true end) st I) as G.
    destruct (remove_where _ st) as [st' b] eqn:Hr. cbn [fst] in *. split; [exact G|].
    unfold remove_where in Hr. injection Hr as Hr _. subst st'. cbn [nchg]. lia.
  - (* OWake *)
    pose proof (remove_where_inv (fun s => is_expired s now) st I) as G.
    destruct (remove_where _ st) as [st' b] eqn:Hr. cbn [fst] in *. split; [exact G|].
    unfold remove_where in Hr. injection Hr as Hr _. subst st'. cbn [nchg]. lia.
  - (* OPersist *)
    cbn [fst nchg]. split; [|lia]. destruct I. constructor; assumption.
  - (* ORestart *)
    cbn [fst]. split.
    + apply resume_inv; try reflexivity.
      constructor; cbn [next_chg nchg tab log subs ctxs count]; try (intros ? []); try reflexivity.
    + assert (G : forall recs s now evw, nchg (resume recs s now evw) = nchg s).
      { induction recs as [|r t IH]; intros; [reflexivity|]. cbn [resume].
        destruct (MAX_SUBS <=? count s); rewrite IH; reflexivity. }
      rewrite G. cbn [nchg]. lia.
Qed.

Lemma init_inv : Inv init.
Proof. apply inv_b_spec. reflexivity. Qed.

Theorem run_inv : forall ops st,
  Inv st -> nchg st + N.of_nat (length ops) + 2 < two64 -> Inv (run st ops).
Proof.
  induction ops as [|o ops IH]; intros st I Hb; [exact I|].
  unfold run in *. cbn [run_gen]. cbn [length] in Hb.
  destruct (step_inv st o I) as [I' Hn]; [lia|]. unfold step in *.
  apply IH; [exact I'|]. lia.
Qed.

(** * The code before the repair loses a change (DESIGN section 8, F7) *)

Definition f7_path : path := mkPath 1 2 3.
(** subscribe; the priming report reads the attribute; the attribute changes;
    the reporter wakes up, finds nothing to report and purges; priming completes *)
Definition f7_witness : list op :=
  [OSubBegin 1 100 1 60 [f7_path] 0 0; OCtxRead 1 f7_path; OChange 1 2 3;
   OReportBegin 0 0; OPurge; OCtxEnd 1 EOk].

Lemma unfixed_purge_refuted : inv_b (run_gen false true true init f7_witness) = false.
Proof. vm_compute. reflexivity. Qed.

(** ... and that subscription is not reportable although its subscriber is out of date (until the
    liveness report, which will not carry the attribute either) *)
Lemma unfixed_purge_refuted_not_reportable :
  let st := run_gen false true true init f7_witness in
  existsb (fun s => stale (log st) (s_del s) f7_path &&
                    negb (unprimed s) &&
                    negb (is_reportable s 20000 (tab st) (evn st)) &&
                    negb (contains_since (tab st) f7_path (s_seen s))) (subs st) = true.
Proof. vm_compute. reflexivity. Qed.

Lemma fixed_purge_witness_ok : inv_b (run init f7_witness) = true.
Proof. vm_compute. reflexivity. Qed.
