(** The in-flight slot ([reporting] / [reporting_cancelled]) belongs to the report
    context created by [report]: with the repaired [report_complete] a priming
    context that completes while a report is in flight is kept (and leaves the slot
    alone), and a report cancelled by [remove] is dropped when it completes.  The
    code before the repair does the opposite on a six-operation witness. *)
From Coq Require Import ZifyN ZifyBool Permutation.
From RsM Require Import Model.Subs Model.SubsSpec Proofs.SubsFacts Proofs.SubsInv.
Open Scope N_scope.

Arguments N.add : simpl never.
Arguments N.sub : simpl never.
Arguments N.ltb : simpl never.
Arguments N.leb : simpl never.
Arguments N.eqb : simpl never.

Definition ctx_id (x : ctx) : N := s_id (x_sub x).
Definition cp (x : ctx) : N * bool := (ctx_id x, x_prim x).
Definition cps (st : state) : list (N * bool) := map cp (ctxs st).
Definition all_ids (st : state) : list N := map s_id (subs st) ++ map fst (cps st).

Record UInv (st : state) : Prop := mkUInv {
  u_nodup : NoDup (all_ids st);
  u_lt : forall i, In i (all_ids st) -> i < next_sid st;
  u_rep : forall r, reporting st = Some r -> In (s_id r, false) (cps st);
  u_ctx : forall i, In (i, false) (cps st) -> exists r, reporting st = Some r /\ s_id r = i;
  u_canc : cancelled st = true -> reporting st <> None
}.

(** * list facts *)

Lemma swap_remove_perm : forall {A} i (l : list A) x,
  nth_error l i = Some x -> Permutation (x :: swap_remove i l) l.
Proof.
  intros A i l. revert i. induction l as [|h t IH]; intros i x H.
  - destruct i; discriminate.
  - destruct i as [|k].
    + cbn in H. injection H as H. subst h. cbn [swap_remove]. destruct t as [|z t']; [reflexivity|].
      constructor. pose proof (app_removelast_last x (l := z :: t') ltac:(discriminate)) as E.
      apply perm_trans with (removelast (z :: t') ++ [last (z :: t') x]).
      * apply Permutation_cons_append.
      * rewrite <- E. reflexivity.
    + cbn in H. cbn [swap_remove]. specialize (IH k x H).
      apply perm_trans with (h :: x :: swap_remove k t); [apply perm_swap|]. constructor. exact IH.
Qed.

Lemma swap_filter_aux_nodup : forall {A B} (g : A -> B) (rm : A -> bool) fuel i l,
  NoDup (map g l) -> NoDup (map g (swap_filter_aux rm fuel i l)).
Proof.
  intros A B g rm fuel. induction fuel as [|f IH]; intros i l H; [exact H|].
  cbn [swap_filter_aux]. destruct (nth_error l i) as [x|] eqn:Hn; [|exact H].
  destruct (rm x); [|apply IH; exact H].
  apply IH. pose proof (swap_remove_perm i l x Hn) as P.
  apply (Permutation_map g) in P. cbn [map] in P.
  apply Permutation_sym in P. apply (Permutation_NoDup P) in H. inversion H; assumption.
Qed.

Lemma nodup_app_r : forall {A} (a b : list A), NoDup (a ++ b) -> NoDup b.
Proof. intros A a b. induction a as [|x a IH]; intros H; [exact H|]. apply IH. cbn in H. inversion H; assumption. Qed.
Lemma nodup_app_l : forall {A} (a b : list A), NoDup (a ++ b) -> NoDup a.
Proof.
  intros A a b. induction a as [|x a IH]; intros H; [constructor|]. cbn in H. inversion H as [|? ? Hn Hr]; subst.
  constructor; [intros Hin; apply Hn; apply in_or_app; left; exact Hin|apply IH; exact Hr].
Qed.

Lemma nodup_app_sub : forall {A} (a' a b : list A),
  NoDup (a ++ b) -> NoDup a' -> incl a' a -> NoDup (a' ++ b).
Proof.
  intros A a'. induction a' as [|h t IH]; intros a b H Hn Hi.
  - cbn. apply (nodup_app_r _ _ H).
  - cbn. inversion Hn as [|? ? Hnotin Hn']; subst. constructor.
    + intros Hin. apply in_app_or in Hin. destruct Hin as [Hin|Hin]; [contradiction|].
      assert (Ha : In h a) by (apply Hi; left; reflexivity).
      clear - H Ha Hin. induction a as [|x a IHa]; [destruct Ha|].
      cbn in H. inversion H as [|? ? Hx Hr]; subst. destruct Ha as [E|Ha].
      * subst x. apply Hx. apply in_or_app. right. exact Hin.
      * apply IHa; assumption.
    + apply (IH a b); [exact H|exact Hn'|]. intros y Hy. apply Hi. right. exact Hy.
Qed.

Lemma nodup_fst_fun : forall (l : list (N * bool)) i b1 b2,
  NoDup (map fst l) -> In (i, b1) l -> In (i, b2) l -> b1 = b2.
Proof.
  intros l i b1 b2. induction l as [|[j c] l IH]; intros Hn H1 H2; [destruct H1|].
  cbn in Hn. inversion Hn as [|? ? Hnot Hn']; subst.
  destruct H1 as [E1|H1]; destruct H2 as [E2|H2].
  - congruence.
  - injection E1 as E1 _. subst j. exfalso. apply Hnot. apply (in_map fst) in H2. exact H2.
  - injection E2 as E2 _. subst j. exfalso. apply Hnot. apply (in_map fst) in H1. exact H1.
  - apply IH; assumption.
Qed.

Lemma find_ctx_id : forall sid l x, find_ctx sid l = Some x -> ctx_id x = sid.
Proof.
  intros sid l x H. unfold find_ctx in H. apply find_some in H. destruct H as [_ H].
  unfold ctx_id. lia.
Qed.

Lemma remove_ctx_perm : forall sid l x, find_ctx sid l = Some x ->
  Permutation (cp x :: map cp (remove_ctx sid l)) (map cp l).
Proof.
  intros sid l. induction l as [|h t IH]; intros x H; [discriminate|].
  unfold find_ctx in H. cbn [find remove_ctx] in *. destruct (s_id (x_sub h) =? sid) eqn:E.
  - injection H as H. subst h. reflexivity.
  - cbn [map]. apply perm_trans with (cp h :: cp x :: map cp (remove_ctx sid t)); [apply perm_swap|].
    constructor. apply IH. exact H.
Qed.

Lemma remove_ctx_keeps : forall sid l i b, In (i, b) (map cp l) -> i <> sid -> In (i, b) (map cp (remove_ctx sid l)).
Proof.
  intros sid l i b. induction l as [|h t IH]; intros H Hne; [exact H|].
  cbn [remove_ctx]. cbn [map] in H. destruct (s_id (x_sub h) =? sid) eqn:E.
  - destruct H as [H|H]; [|exact H]. unfold cp, ctx_id in H. injection H as H _. lia.
  - cbn [map]. destruct H as [H|H]; [left; exact H|right; apply IH; assumption].
Qed.

Lemma remove_ctx_sub : forall sid l p, In p (map cp (remove_ctx sid l)) -> In p (map cp l).
Proof.
  intros sid l p H. apply in_map_iff in H. destruct H as [y [E Hy]]. apply in_map_iff. exists y.
  split; [exact E|]. eapply remove_ctx_In. exact Hy.
Qed.

Lemma replace_ctx_cp : forall x' l xf,
  find_ctx (ctx_id x') l = Some xf -> x_prim x' = x_prim xf -> map cp (replace_ctx x' l) = map cp l.
Proof.
  intros x' l. induction l as [|h t IH]; intros xf H Hp; [reflexivity|].
  unfold find_ctx in H. cbn [find replace_ctx] in *. unfold ctx_id in *.
  destruct (s_id (x_sub h) =? s_id (x_sub x')) eqn:E.
  - injection H as H. subst h. cbn [map]. f_equal. unfold cp, ctx_id. rewrite Hp. f_equal. lia.
  - cbn [map]. f_equal. apply (IH xf); assumption.
Qed.

Lemma slot_free_facts : forall st, report_slot_free st = true ->
  reporting st = None /\ cancelled st = false /\ forall i, ~ In (i, false) (cps st).
Proof.
  intros st H. unfold report_slot_free in H. apply andb_true_iff in H. destruct H as [H H3].
  apply andb_true_iff in H. destruct H as [H1 H2].
  split; [destruct (reporting st); [discriminate|reflexivity]|].
  split; [destruct (cancelled st); [discriminate|reflexivity]|].
  intros i Hin. unfold cps in Hin. apply in_map_iff in Hin. destruct Hin as [x [E Hx]].
  apply negb_true_iff in H1. rewrite <- not_true_iff_false in H1. apply H1.
  apply existsb_exists. exists x. split; [exact Hx|]. unfold cp in E. injection E as _ E. rewrite E. reflexivity.
Qed.

Lemma visit_rest_now_sub_id : forall tb n x,
  s_id (x_sub (visit_rest tb n x)) = s_id (x_sub x) /\ x_prim (visit_rest tb n x) = x_prim x.
Proof.
  intros tb n x. unfold visit_rest. generalize (s_paths (x_sub x)) as ps. intros ps. revert x.
  induction ps as [|p ps IH]; intros x; [split; reflexivity|].
  cbn [fold_left]. destruct (IH (visit n x p (should_report tb x p))) as [I1 I2]. rewrite I1, I2.
  unfold visit. destruct (mem_path p (x_vis x)); split; reflexivity.
Qed.

(** * preservation *)

Lemma resume_uinv : forall recs st now evw,
  UInv st -> ctxs st = [] -> reporting st = None -> cancelled st = false -> UInv (resume recs st now evw).
Proof.
  intros recs. induction recs as [|r t IH]; intros st now evw U Hc Hr Hk; [exact U|].
  cbn [resume]. destruct (MAX_SUBS <=? count st); [apply IH; assumption|].
  apply IH; cbn [ctxs reporting cancelled]; try assumption; try reflexivity.
  destruct U as [U1 U2 U3 U4 U5]. unfold all_ids, cps in *. rewrite Hc in *. cbn [map app] in *. rewrite app_nil_r in *.
  constructor; unfold all_ids, cps; cbn [subs ctxs next_sid reporting cancelled]; rewrite ?Hc; cbn [map]; rewrite ?app_nil_r.
  - rewrite map_app. cbn [map]. unfold with_core, fresh_sub. cbn [s_id].
    assert (Hfresh : ~ In (next_sid st) (map s_id (subs st))).
    { intros Hin. specialize (U2 _ Hin). lia. }
    clear - U1 Hfresh. induction (map s_id (subs st)) as [|h l IHl]; cbn.
    + constructor; [intros []|constructor].
    + inversion U1; subst. constructor.
      * intros Hin. apply in_app_or in Hin. destruct Hin as [Hin|[E|[]]]; [contradiction|]. apply Hfresh. left. symmetry. exact E.
      * apply IHl; [assumption|]. intros Hin. apply Hfresh. right. exact Hin.
  - intros i Hin. rewrite map_app in Hin. apply in_app_or in Hin. destruct Hin as [Hin|[E|[]]].
    + specialize (U2 _ Hin). lia.
    + unfold with_core, fresh_sub in E. cbn [s_id] in E. lia.
  - intros r0 H0. discriminate.
  - intros i [].
  - intros H0. discriminate.
Qed.

Theorem step_uinv : forall st o, UInv st -> UInv (fst (step st o)).
Proof.
  intros st o U. pose proof U as [U1 U2 U3 U4 U5]. unfold step.
  destruct o as [ep cl at_| |fab peer mn mx paths now lag|sid p|sid r|now lag| |fab peer|now| |now lag];
    cbn [step_gen].
  - cbn [fst]. constructor; assumption.
  - cbn [fst]. constructor; assumption.
  - (* OSubBegin *)
    destruct (MAX_SUBS <=? count st); cbn [fst]; [exact U|].
    assert (Hids : all_ids (mkSt (next_sid st + 1) (count st + 1) (subs st) (tab st) (next_chg st) (reporting st)
              (cancelled st) (ctxs st ++ [mkCtx (fresh_sub st now fab peer mn mx paths) true
                 (s_seen (fresh_sub st now fab peer mn mx paths)) (evn st - lag) now [] []]) (kv st) (log st) (nchg st) (evn st))
            = all_ids st ++ [next_sid st]).
    { unfold all_ids, cps. cbn [subs ctxs]. rewrite !map_app. cbn [map]. rewrite app_assoc. reflexivity. }
    constructor; rewrite ?Hids; cbn [next_sid reporting cancelled].
    + assert (Hfresh : ~ In (next_sid st) (all_ids st)) by (intros Hin; specialize (U2 _ Hin); lia).
      clear - U1 Hfresh. induction (all_ids st) as [|h l IHl]; cbn.
      * constructor; [intros []|constructor].
      * inversion U1; subst. constructor.
        -- intros Hin. apply in_app_or in Hin. destruct Hin as [Hin|[E|[]]]; [contradiction|]. apply Hfresh. left. symmetry. exact E.
        -- apply IHl; [assumption|]. intros Hin. apply Hfresh. right. exact Hin.
    + intros i Hin. apply in_app_or in Hin. destruct Hin as [Hin|[E|[]]]; [specialize (U2 _ Hin); lia|lia].
    + intros r0 H0. unfold cps. cbn [ctxs]. rewrite map_app. apply in_or_app. left. apply U3. exact H0.
    + intros i Hin. unfold cps in Hin. cbn [ctxs] in Hin. rewrite map_app in Hin. apply in_app_or in Hin.
      destruct Hin as [Hin|[E|[]]]; [apply U4; exact Hin|]. unfold cp in E. cbn in E. discriminate.
    + exact U5.
  - (* OCtxRead *)
    destruct (find_ctx sid (ctxs st)) as [x|] eqn:Hf; cbn [fst]; [|exact U].
    assert (Hcp : map cp (replace_ctx (visit (nchg st) x p (should_report (tab st) x p)) (ctxs st)) = map cp (ctxs st)).
    { apply (replace_ctx_cp _ _ x).
      - unfold ctx_id. rewrite visit_sub. fold (ctx_id x). rewrite (find_ctx_id _ _ _ Hf). exact Hf.
      - unfold visit. destruct (mem_path p (x_vis x)); reflexivity. }
    constructor; unfold all_ids, cps in *; cbn [subs ctxs next_sid reporting cancelled]; rewrite ?Hcp; assumption.
  - (* OCtxEnd *)
    destruct (find_ctx sid (ctxs st)) as [x|] eqn:Hf; cbn [fst]; [|exact U].
    pose proof (find_ctx_id _ _ _ Hf) as Hid.
    pose proof (remove_ctx_perm _ _ _ Hf) as Pc.
    assert (Pids : Permutation (sid :: map s_id (subs st) ++ map fst (map cp (remove_ctx sid (ctxs st)))) (all_ids st)).
    { unfold all_ids, cps. apply (Permutation_map fst) in Pc. cbn [map] in Pc. unfold cp at 1 in Pc. cbn [fst] in Pc.
      rewrite Hid in Pc. apply perm_trans with (map s_id (subs st) ++ sid :: map fst (map cp (remove_ctx sid (ctxs st)))).
      - apply Permutation_middle.
      - apply Permutation_app_head. exact Pc. }
    assert (Hnd : NoDup (sid :: map s_id (subs st) ++ map fst (map cp (remove_ctx sid (ctxs st))))).
    { apply (Permutation_NoDup (Permutation_sym Pids)). exact U1. }
    assert (Hlt : forall i, In i (sid :: map s_id (subs st) ++ map fst (map cp (remove_ctx sid (ctxs st)))) -> i < next_sid st).
    { intros i Hin. apply U2. apply (Permutation_in _ Pids). exact Hin. }
    (* the three shapes of the resulting state *)
    assert (Hgen : forall (s' : sub) keep, s_id s' = sid ->
              UInv (report_complete true st sid s' keep)).
    { intros s' keep Hs'. unfold report_complete.
      set (own := owns_slot true st sid).
      assert (Hown : own = true -> exists r0, reporting st = Some r0 /\ s_id r0 = sid).
      { unfold own, owns_slot. destruct (reporting st) as [r0|]; [|discriminate]. intros E. exists r0. split; [reflexivity|lia]. }
      assert (Hnown : own = false -> forall r0, reporting st = Some r0 -> s_id r0 <> sid).
      { unfold own, owns_slot. intros E r0 H0. rewrite H0 in E. lia. }
      assert (Hrest : forall (ss : list sub) cnt,
                NoDup (map s_id ss ++ map fst (map cp (remove_ctx sid (ctxs st)))) ->
                (forall i, In i (map s_id ss ++ map fst (map cp (remove_ctx sid (ctxs st)))) -> i < next_sid st) ->
                UInv (mkSt (next_sid st) cnt ss (tab st) (next_chg st)
                          (if own then None else reporting st) (if own then false else cancelled st)
                          (remove_ctx sid (ctxs st)) (kv st) (log st) (nchg st) (evn st))).
      { intros ss cnt N1 N2. constructor; unfold all_ids, cps; cbn [subs ctxs next_sid reporting cancelled].
        - exact N1.
        - exact N2.
        - intros r0 H0. destruct own eqn:Eo; [discriminate|]. apply remove_ctx_keeps; [apply U3; exact H0|].
          apply (Hnown eq_refl). exact H0.
        - intros i Hin. pose proof (remove_ctx_sub _ _ _ Hin) as Hin0. destruct (U4 i Hin0) as [r0 [H0 H1]].
          destruct own eqn:Eo.
          + exfalso. destruct (Hown eq_refl) as [r1 [H2 H3]]. rewrite H0 in H2. injection H2 as H2. subst r1.
            assert (Ei : i = sid) by congruence.
            destruct (proj1 (NoDup_cons_iff _ _) Hnd) as [Hnot _]. apply Hnot. apply in_or_app. right.
            apply (in_map fst) in Hin. cbn [fst] in Hin. rewrite Ei in Hin. exact Hin.
          + exists r0. split; assumption.
        - destruct own; [discriminate|exact U5]. }
      destruct (proj1 (NoDup_cons_iff _ _) Hnd) as [Hnot Hnd'].
      destruct (own && cancelled st).
      - apply Hrest; [exact Hnd'|]. intros i Hin. apply Hlt. right. exact Hin.
      - destruct keep.
        + apply Hrest.
          * rewrite map_app. cbn [map]. rewrite Hs'. rewrite <- app_assoc. cbn [app].
            apply (Permutation_NoDup (Permutation_middle _ _ _)). constructor; assumption.
          * intros i Hin. apply Hlt. rewrite map_app in Hin. cbn [map] in Hin. rewrite Hs' in Hin.
            rewrite <- app_assoc in Hin. cbn [app] in Hin.
            apply (Permutation_in _ (Permutation_sym (Permutation_middle _ _ _))) in Hin. exact Hin.
        + apply Hrest; [exact Hnd'|]. intros i Hin. apply Hlt. right. exact Hin. }
    destruct r; cbn [fst]; apply Hgen.
    + unfold sub_after_ok, with_core. cbn [s_id]. destruct (visit_rest_now_sub_id (tab st) (nchg st) x) as [E _]. rewrite E. exact Hid.
    + destruct (visit_rest_now_sub_id (tab st) (nchg st) x) as [E _].
      destruct (report_is_sent (visit_rest (tab st) (nchg st) x)).
      * unfold sub_after_ok, with_core. cbn [s_id]. rewrite E. exact Hid.
      * unfold sub_after_skip, with_core. cbn [s_id]. rewrite E. exact Hid.
    + unfold sub_after_fail, with_core. cbn [s_id]. exact Hid.
    + exact Hid.
  - (* OReportBegin *)
    destruct (report_slot_free st) eqn:Hfree; cbn [fst]; [|exact U].
    destruct (find_index _ (subs st)) as [i|]; cbn [fst]; [|exact U].
    destruct (nth_error (subs st) i) as [s|] eqn:Hn; cbn [fst]; [|exact U].
    destruct (slot_free_facts st Hfree) as [F1 [F2 F3]].
    pose proof (swap_remove_perm i (subs st) s Hn) as P.
    assert (Pids : Permutation (map s_id (swap_remove i (subs st)) ++ map fst (map cp (ctxs st ++
                [mkCtx s false (watermark (next_chg st)) (evn st - lag) now [] []]))) (all_ids st)).
    { unfold all_ids, cps. rewrite !map_app. cbn [map]. unfold cp at 2. cbn [fst]. unfold ctx_id. cbn [x_sub].
      apply (Permutation_map s_id) in P. cbn [map] in P.
      apply perm_trans with (map s_id (swap_remove i (subs st)) ++ s_id s :: map fst (map cp (ctxs st))).
      - apply Permutation_app_head. apply Permutation_sym. apply Permutation_cons_append.
      - apply perm_trans with (s_id s :: map s_id (swap_remove i (subs st)) ++ map fst (map cp (ctxs st))).
        + apply Permutation_sym. apply Permutation_middle.
        + apply (Permutation_app_tail (map fst (map cp (ctxs st)))) in P. exact P. }
    constructor; unfold all_ids, cps in *; cbn [subs ctxs next_sid reporting cancelled].
    + apply (Permutation_NoDup (Permutation_sym Pids)). exact U1.
    + intros j Hin. apply U2. apply (Permutation_in _ Pids). exact Hin.
    + intros r0 H0. injection H0 as H0. subst r0. rewrite map_app. apply in_or_app. right. left. reflexivity.
    + intros j Hin. rewrite map_app in Hin. apply in_app_or in Hin. destruct Hin as [Hin|[E|[]]].
      * exfalso. apply (F3 j). exact Hin.
      * exists s. split; [reflexivity|]. unfold cp, ctx_id in E. cbn in E. injection E as E. exact E.
    + intros H0. discriminate.
  - cbn [fst]. constructor; assumption.
  - (* ORemove *)
    destruct (remove_where _ st) as [st' b] eqn:Hr. unfold remove_where in Hr. injection Hr as Hr _. subst st'. cbn [fst].
    constructor; unfold all_ids, cps in *; cbn [subs ctxs next_sid reporting cancelled].
    + apply (nodup_app_sub _ (map s_id (subs st))); [exact U1| |].
      * apply swap_filter_aux_nodup. apply (nodup_app_l _ _ U1).
      * intros y Hy. apply in_map_iff in Hy. destruct Hy as [z [E Hz]]. apply in_map_iff. exists z. split; [exact E|]. eapply swap_filter_In. exact Hz.
    + intros j Hin. apply U2. apply in_app_or in Hin. apply in_or_app. destruct Hin as [Hin|Hin]; [left|right; exact Hin].
      apply in_map_iff in Hin. destruct Hin as [z [E Hz]]. apply in_map_iff. exists z. split; [exact E|]. eapply swap_filter_In. exact Hz.
    + exact U3.
    + exact U4.
    + intros H0. apply orb_true_iff in H0. destruct H0 as [H0|H0]; [apply U5; exact H0|].
      destruct (cancelled st); [discriminate|]. destruct (reporting st); [discriminate|discriminate].
  - (* OWake *)
    destruct (remove_where _ st) as [st' b] eqn:Hr. unfold remove_where in Hr. injection Hr as Hr _. subst st'. cbn [fst].
    constructor; unfold all_ids, cps in *; cbn [subs ctxs next_sid reporting cancelled].
    + apply (nodup_app_sub _ (map s_id (subs st))); [exact U1| |].
      * apply swap_filter_aux_nodup. apply (nodup_app_l _ _ U1).
      * intros y Hy. apply in_map_iff in Hy. destruct Hy as [z [E Hz]]. apply in_map_iff. exists z. split; [exact E|]. eapply swap_filter_In. exact Hz.
    + intros j Hin. apply U2. apply in_app_or in Hin. apply in_or_app. destruct Hin as [Hin|Hin]; [left|right; exact Hin].
      apply in_map_iff in Hin. destruct Hin as [z [E Hz]]. apply in_map_iff. exists z. split; [exact E|]. eapply swap_filter_In. exact Hz.
    + exact U3.
    + exact U4.
    + intros H0. apply orb_true_iff in H0. destruct H0 as [H0|H0]; [apply U5; exact H0|].
      destruct (cancelled st); [discriminate|]. destruct (reporting st); [discriminate|discriminate].
  - cbn [fst]. constructor; assumption.
  - (* ORestart *)
    cbn [fst]. apply resume_uinv; try reflexivity.
    constructor; unfold all_ids, cps; cbn [subs ctxs next_sid reporting cancelled map app].
    + constructor.
    + intros i [].
    + intros r0 H0. discriminate.
    + intros i [].
    + intros H0. discriminate.
Qed.

Lemma init_uinv : UInv init.
Proof.
  constructor; unfold all_ids, cps; cbn.
  - constructor.
  - intros i [].
  - intros r H. discriminate.
  - intros i [].
  - intros H. discriminate.
Qed.

Theorem run_uinv : forall ops st, UInv st -> UInv (run st ops).
Proof.
  induction ops as [|o ops IH]; intros st U; [exact U|].
  unfold run in *. cbn [run_gen]. apply IH. apply (step_uinv st o U).
Qed.

(** * the statements *)

(** an acknowledged priming puts the new subscription in the table and leaves the in-flight slot alone *)
Theorem established_is_kept : forall ops sid x,
  let st := run init ops in
  find_ctx sid (ctxs st) = Some x -> x_prim x = true ->
  let st' := fst (step st (OCtxEnd sid EOk)) in
  (exists s, In s (subs st') /\ s_id s = sid) /\
  reporting st' = reporting st /\ cancelled st' = cancelled st.
Proof.
  intros ops sid x st Hf Hp st'.
  pose proof (run_uinv ops init init_uinv) as U. fold st in U.
  pose proof (find_ctx_id _ _ _ Hf) as Hid.
  assert (Hown : owns_slot true st sid = false).
  { unfold owns_slot. destruct (reporting st) as [r|] eqn:Hr; [|reflexivity].
    destruct (s_id r =? sid) eqn:E; [|reflexivity]. exfalso.
    pose proof (u_rep st U r Hr) as H1.
    assert (H2 : In (sid, true) (cps st)).
    { unfold cps. apply in_map_iff. exists x. split; [unfold cp; rewrite Hid, Hp; reflexivity|]. eapply find_ctx_In. exact Hf. }
    replace (s_id r) with sid in H1 by lia.
    assert (Hnd : NoDup (map fst (cps st))) by (apply (nodup_app_r _ _ (u_nodup st U))).
    pose proof (nodup_fst_fun _ _ _ _ Hnd H1 H2). discriminate. }
  subst st'. unfold step. cbn [step_gen]. rewrite Hf. cbn [fst]. unfold report_complete. rewrite Hown. cbn [andb].
  cbn [subs reporting cancelled]. split; [|split; reflexivity].
  eexists. split; [apply in_or_app; right; left; reflexivity|].
  unfold sub_after_ok, with_core. cbn [s_id]. destruct (visit_rest_now_sub_id (tab st) (nchg st) x) as [E _]. rewrite E. exact Hid.
Qed.

(** a report that [remove] cancelled while it was in flight is dropped when it completes, whatever its outcome *)
Theorem cancelled_report_is_dropped : forall ops r res,
  let st := run init ops in
  reporting st = Some r -> cancelled st = true ->
  let st' := fst (step st (OCtxEnd (s_id r) res)) in
  subs st' = subs st /\ reporting st' = None /\ cancelled st' = false /\ ~ In (s_id r) (all_ids st').
Proof.
  intros ops r res st Hr Hc st'.
  pose proof (run_uinv ops init init_uinv) as U. fold st in U.
  pose proof (u_rep st U r Hr) as Hin. unfold cps in Hin. apply in_map_iff in Hin. destruct Hin as [x0 [E0 Hx0]].
  assert (Hex : exists x, find_ctx (s_id r) (ctxs st) = Some x).
  { unfold find_ctx. destruct (find (fun x1 => s_id (x_sub x1) =? s_id r) (ctxs st)) as [x|] eqn:Hfd; [exists x; reflexivity|].
    exfalso. apply (find_none _ _ Hfd) in Hx0. unfold cp, ctx_id in E0. injection E0 as E0 _. lia. }
  destruct Hex as [x Hf].
  assert (Hown : owns_slot true st (s_id r) = true) by (unfold owns_slot; rewrite Hr; lia).
  pose proof (step_uinv st (OCtxEnd (s_id r) res) U) as U'. fold st' in U'.
  assert (Hshape : subs st' = subs st /\ reporting st' = None /\ cancelled st' = false /\ ctxs st' = remove_ctx (s_id r) (ctxs st)).
  { subst st'. unfold step. cbn [step_gen]. rewrite Hf. unfold report_complete.
    destruct res; cbn [fst]; rewrite Hown, Hc; cbn [andb subs reporting cancelled ctxs]; repeat split. }
  destruct Hshape as [S1 [S2 [S3 S4]]]. split; [exact S1|]. split; [exact S2|]. split; [exact S3|].
  (* the id is gone: it was unique, and its context has been removed *)
  pose proof (remove_ctx_perm _ _ _ Hf) as Pc. pose proof (find_ctx_id _ _ _ Hf) as Hid.
  assert (Pids : Permutation (s_id r :: all_ids st') (all_ids st)).
  { unfold all_ids, cps. rewrite S1, S4. apply (Permutation_map fst) in Pc. cbn [map] in Pc. unfold cp at 1 in Pc. cbn [fst] in Pc.
    rewrite Hid in Pc. apply perm_trans with (map s_id (subs st) ++ s_id r :: map fst (map cp (remove_ctx (s_id r) (ctxs st)))).
    - apply Permutation_middle.
    - apply Permutation_app_head. exact Pc. }
  pose proof (Permutation_NoDup (Permutation_sym Pids) (u_nodup st U)) as Hnd. inversion Hnd; assumption.
Qed.

(** * before the repair: corpus case c5 *)

Definition slot_p0 : path := mkPath 0 10 0.
Definition slot_p1 : path := mkPath 0 10 1.
(** subscription 1 (fabric 1) established; a change; its report is in flight; a subscribe request of
    another fabric is primed; fabric 1 is removed (the in-flight report is flagged); the priming
    completes and is acknowledged; the old report completes *)
Definition slot_witness : list op :=
  [OSubBegin 1 100 0 60 [slot_p0] 0 0; OCtxEnd 1 EOk; OChange 0 10 0; OReportBegin 1000 0;
   OSubBegin 2 101 0 60 [slot_p1] 1000 0; ORemove 1 None; OCtxEnd 2 EOk; OCtxEnd 1 EOk].

Definition ids_in_table (st : state) : list N := map s_id (subs st).

Lemma slot_before_fix : ids_in_table (run_gen true false true init slot_witness) = [1].
Proof. vm_compute. reflexivity. Qed.
Lemma slot_after_fix : ids_in_table (run init slot_witness) = [2].
Proof. vm_compute. reflexivity. Qed.
