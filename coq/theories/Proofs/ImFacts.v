(** Facts about the per-leaf checks: the checks of cluster.rs, in their
    order, compute the decision table of the specification. *)
From RsM Require Import Lib.MachInt Model.Acl Model.AclSpec Model.Im Model.ImSpec.
From RsM Require Import Proofs.AclTheorems Proofs.ImLists.
From Coq Require Import ZifyN ZifyBool.
Open Scope N_scope.

Arguments N.testbit : simpl never.
Arguments N.land : simpl never.
Arguments N.pow : simpl never.
Arguments N.eqb : simpl never.

(** [a.contains(single bit)] is a bit test *)
Lemma land_pow2 (a k : N) : N.land a (2 ^ k) = if N.testbit a k then 2 ^ k else 0.
Proof.
  apply N.bits_inj. intros m. rewrite N.land_spec, N.pow2_bits_eqb.
  destruct (N.eqb_spec k m) as [->|Hne].
  - rewrite andb_true_r. destruct (N.testbit a m) eqn:Ha.
    + rewrite N.pow2_bits_true. reflexivity.
    + rewrite N.bits_0. reflexivity.
  - rewrite andb_false_r. destruct (N.testbit a k).
    + rewrite N.pow2_bits_false by exact Hne. reflexivity.
    + rewrite N.bits_0. reflexivity.
Qed.

Lemma bits_contains_pow2 (a k : N) : bits_contains a (2 ^ k) = N.testbit a k.
Proof.
  unfold bits_contains. rewrite land_pow2. destruct (N.testbit a k).
  - apply N.eqb_refl.
  - apply N.eqb_neq. intro H. symmetry in H. revert H. apply N.pow_nonzero. discriminate.
Qed.

Lemma contains_read (a : N) : bits_contains a ACC_READ = readable a.
Proof. exact (bits_contains_pow2 a 4). Qed.
Lemma contains_write (a : N) : bits_contains a ACC_WRITE = writable a.
Proof. exact (bits_contains_pow2 a 5). Qed.
Lemma contains_fab_scoped (a : N) : bits_contains a ACC_FAB_SCOPED = fabric_scoped a.
Proof. exact (bits_contains_pow2 a 6). Qed.
Lemma contains_timed_only (a : N) : bits_contains a ACC_TIMED_ONLY = timed_only a.
Proof. exact (bits_contains_pow2 a 8). Qed.

(** * Well-formedness as propositions *)

Lemma distinct_NoDup (l : list N) : distinct l = true -> NoDup l.
Proof.
  induction l as [|x l IH]; cbn [distinct]; intros H; [constructor|].
  apply andb_true_iff in H. destruct H as [Hx Hl]. constructor; [|apply IH; exact Hl].
  intro Hin. apply negb_true_iff in Hx.
  assert (Ht : existsb (N.eqb x) l = true).
  { apply existsb_exists. exists x. split; [exact Hin|apply N.eqb_refl]. }
  congruence.
Qed.

Lemma elements_leaves (op : operation) (c : cluster) : elements op c = leaves op c.
Proof. unfold elements, leaves, declared. destruct op; reflexivity. Qed.

Lemma leaves_declared (op : operation) (c : cluster) (l : leaf) :
  In l (leaves op c) -> In l (declared op c).
Proof. unfold leaves. intros H. apply filter_In in H. exact (proj1 H). Qed.

Lemma wf_cluster_declared (op : operation) (c : cluster) :
  wf_cluster c = true -> NoDup (map l_id (declared op c)).
Proof.
  unfold wf_cluster. intros H. apply andb_true_iff in H. destruct H as [Ha Hc].
  unfold declared. destruct (is_invoke op); apply distinct_NoDup; assumption.
Qed.

(** the access bits the check looks up by id are those of the element itself *)
Lemma find_access_in (ls : list leaf) (l : leaf) :
  NoDup (map l_id ls) -> In l ls -> find_access ls (l_id l) = l_access l.
Proof.
  intros Hnd Hin. unfold find_access. rewrite (find_some_in_unique l_id ls l Hnd Hin). reflexivity.
Qed.

(** * The per-leaf check is the decision table *)

(** the ACL step of the check, for an endpoint that has been entered *)
Lemma allow_spec_granted (fabs : list fabric) (who : accessor) (op : operation)
  (e : endpoint) (c : cluster) (d : N) :
  wf_fabrics fabs = true ->
  is_endpoint_accessible fabs who (ep_id e) = true ->
  allow fabs who (mkReq (Some (ep_id e)) (Some (c_id c)) (Some d) (op_bits op) (ep_dts e))
  = spec_granted fabs who op (ep_id e) (c_id c) (ep_dts e) d.
Proof.
  intros Hwf Hacc. rewrite <- (im_access_eq_spec fabs who op (ep_id e) (c_id c) (ep_dts e) d Hwf).
  unfold im_access. rewrite Hacc. reflexivity.
Qed.

Lemma unreachable_not_granted (fabs : list fabric) (who : accessor) (op : operation)
  (ep cl : N) (dts : list N) (d : N) :
  is_endpoint_accessible fabs who ep = false -> spec_granted fabs who op ep cl dts d = false.
Proof.
  intros H. unfold spec_granted, granted. rewrite endpoint_eq_spec in H. unfold spec_endpoint in H.
  rewrite H. reflexivity.
Qed.

Lemma leaf_check_decision (fabs : list fabric) (who : accessor) (op : operation) (timed : bool)
  (flt : N -> N -> N -> bool) (e : endpoint) (c : cluster) (l : leaf) :
  wf_fabrics fabs = true ->
  is_endpoint_accessible fabs who (ep_id e) = true ->
  NoDup (map l_id (declared op c)) -> In l (declared op c) ->
  leaf_check (mkEnv op who timed flt) fabs e c (l_id l) = leaf_decision fabs who op timed (e, c, l).
Proof.
  intros Hwf Hacc Hnd Hin.
  unfold leaf_check, leaf_decision. cbn [xe_op xe_acc xe_timed].
  pose proof (find_access_in (declared op c) l Hnd Hin) as Hfa.
  destruct op; unfold declared in Hfa; cbn [is_invoke] in Hfa.
  - (* Read *)
    pose proof (allow_spec_granted fabs who Read e c (l_access l) Hwf Hacc) as Ha.
    change (op_bits Read) with ACC_READ in Ha.
    unfold check_attr_access. cbv beta iota zeta. rewrite Hfa. cbn [andb timed_ok negb supported].
    rewrite contains_read, Ha.
    destruct (readable (l_access l)); reflexivity.
  - (* Write *)
    pose proof (allow_spec_granted fabs who Write e c (l_access l) Hwf Hacc) as Ha.
    change (op_bits Write) with ACC_WRITE in Ha.
    unfold check_attr_access. cbv beta iota zeta. rewrite Hfa. cbn [andb timed_ok supported].
    rewrite contains_timed_only, contains_write, Ha.
    destruct timed, (timed_only (l_access l)), (writable (l_access l)); reflexivity.
  - (* Invoke *)
    pose proof (allow_spec_granted fabs who Invoke e c (l_access l) Hwf Hacc) as Ha.
    change (op_bits Invoke) with ACC_WRITE in Ha.
    unfold check_cmd_access. cbv beta iota zeta. rewrite Hfa. cbn [timed_ok fabric_ok].
    rewrite contains_timed_only, contains_fab_scoped, Ha.
    destruct timed, (timed_only (l_access l)), (fabric_scoped (l_access l)), (a_fab who =? 0); reflexivity.
Qed.

(** the decision table refuses nothing exactly for the permitted elements *)
Lemma decision_none_iff_permitted (fabs : list fabric) (who : accessor) (op : operation)
  (timed : bool) (t : cand) :
  (match leaf_decision fabs who op timed t with None => true | Some _ => false end)
  = permitted_leaf fabs who op timed t.
Proof.
  destruct t as [[e c] l]. unfold leaf_decision, permitted_leaf.
  destruct op; cbn [supported timed_ok fabric_ok].
  - destruct (readable (l_access l)), (spec_granted fabs who Read (ep_id e) (c_id c) (ep_dts e) (l_access l)); reflexivity.
  - destruct timed, (timed_only (l_access l)), (writable (l_access l)),
      (spec_granted fabs who Write (ep_id e) (c_id c) (ep_dts e) (l_access l)); reflexivity.
  - destruct timed, (timed_only (l_access l)), (fabric_scoped (l_access l)), (a_fab who =? 0),
      (spec_granted fabs who Invoke (ep_id e) (c_id c) (ep_dts e) (l_access l)); reflexivity.
Qed.
