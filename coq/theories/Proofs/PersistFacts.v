(** C11: facts about association maps, ranges and replaying a key-value log. *)
From Coq Require Import NArith Arith List Bool Lia ZifyN ZifyBool.
From RsM Require Import Model.Persist.
Import ListNotations.
Open Scope N_scope.

Section AMapFacts.
  Context {V : Type}.
  Implicit Types m : list (N * V).

  Lemma aget_adel_same : forall m k, aget (adel m k) k = None.
  Proof.
    induction m as [|[k' v] t IH]; intros k; cbn [adel filter aget fst]; [reflexivity|].
    destruct (N.eqb_spec k' k) as [E|E]; cbn [negb].
    - apply IH.
    - cbn [aget]. destruct (N.eqb_spec k k'); [congruence|]. apply IH.
  Qed.

  Lemma aget_adel_other : forall m k k', k' <> k -> aget (adel m k) k' = aget m k'.
  Proof.
    induction m as [|[k0 v] t IH]; intros k k' Hne; cbn [adel filter aget fst]; [reflexivity|].
    destruct (N.eqb_spec k0 k) as [E|E]; cbn [negb aget].
    - subst. destruct (N.eqb_spec k' k); [congruence|]. apply IH; assumption.
    - destruct (N.eqb_spec k' k0); [reflexivity|]. apply IH; assumption.
  Qed.

  Lemma aget_app : forall m1 m2 k,
    aget (m1 ++ m2) k = match aget m1 k with Some v => Some v | None => aget m2 k end.
  Proof.
    induction m1 as [|[k' v] t IH]; intros m2 k; cbn [app aget]; [reflexivity|].
    destruct (k =? k'); [reflexivity|]. apply IH.
  Qed.

  Lemma aget_aset_same : forall m k v, aget (aset m k v) k = Some v.
  Proof.
    intros m k v. unfold aset. rewrite aget_app, aget_adel_same. cbn [aget].
    rewrite N.eqb_refl. reflexivity.
  Qed.

  Lemma aget_aset_other : forall m k k' v, k' <> k -> aget (aset m k v) k' = aget m k'.
  Proof.
    intros m k k' v Hne. unfold aset. rewrite aget_app, aget_adel_other by assumption.
    destruct (aget m k'); [reflexivity|]. cbn [aget].
    destruct (N.eqb_spec k' k); [congruence|reflexivity].
  Qed.

  Lemma aget_In_keys : forall m k v, aget m k = Some v -> In k (akeys m).
  Proof.
    induction m as [|[k' v'] t IH]; intros k v H; cbn [aget] in H; [discriminate|].
    cbn [akeys map fst]. destruct (N.eqb_spec k k'); [left; congruence|right; eapply IH; eassumption].
  Qed.

  Lemma aget_None_keys : forall m k, aget m k = None -> ~ In k (akeys m).
  Proof.
    induction m as [|[k' v'] t IH]; intros k H; cbn [aget] in H; [intros []|].
    cbn [akeys map fst]. destruct (N.eqb_spec k k'); [discriminate|].
    intros [E|Hin]; [congruence|]. eapply IH; eassumption.
  Qed.

  Lemma amem_true : forall m k, amem m k = true <-> exists v, aget m k = Some v.
  Proof.
    intros m k. unfold amem. destruct (aget m k); split; intros H; eauto; try discriminate.
    destruct H; discriminate.
  Qed.

  Lemma amem_false : forall m k, amem m k = false <-> aget m k = None.
  Proof.
    intros m k. unfold amem. destruct (aget m k); split; intros H; congruence.
  Qed.

  Lemma akeys_adel : forall m k i, In i (akeys (adel m k)) <-> In i (akeys m) /\ i <> k.
  Proof.
    intros m k i. unfold akeys, adel. rewrite !in_map_iff. split.
    - intros [x [Hx Hin]]. apply filter_In in Hin. destruct Hin as [Hin Hp].
      split; [exists x; tauto|]. subst i. destruct (N.eqb_spec (fst x) k); [discriminate|assumption].
    - intros [[x [Hx Hin]] Hne]. exists x. split; [assumption|]. apply filter_In. split; [assumption|].
      subst i. destruct (N.eqb_spec (fst x) k); [congruence|reflexivity].
  Qed.

  Lemma nodup_adel : forall m k, NoDup (akeys m) -> NoDup (akeys (adel m k)).
  Proof.
    induction m as [|[k' v] t IH]; intros k H; cbn [adel filter akeys map fst]; [constructor|].
    inversion H as [|? ? Hn Hd]; subst.
    destruct (N.eqb_spec k' k) as [E|E]; cbn [negb].
    - apply IH; assumption.
    - cbn [map fst]. constructor.
      + fold (adel t k). fold (akeys (adel t k)). rewrite akeys_adel. tauto.
      + apply IH; assumption.
  Qed.

  Lemma akeys_app : forall m1 m2, akeys (m1 ++ m2) = akeys m1 ++ akeys m2.
  Proof. intros. unfold akeys. apply map_app. Qed.

  Lemma nodup_snoc : forall (l : list N) x, NoDup l -> ~ In x l -> NoDup (l ++ [x]).
  Proof.
    induction l as [|a t IH]; intros x Hd Hn; cbn [app].
    - constructor; [intros []|constructor].
    - inversion Hd as [|? ? Ha Ht]; subst. constructor.
      + rewrite in_app_iff. cbn [In]. intros [H|[H|[]]]; [tauto|]. subst. apply Hn. left; reflexivity.
      + apply IH; [assumption|]. intros H. apply Hn. right; assumption.
  Qed.

  Lemma nodup_aset : forall m k v, NoDup (akeys m) -> NoDup (akeys (aset m k v)).
  Proof.
    intros m k v H. unfold aset. rewrite akeys_app. cbn [akeys map fst].
    apply nodup_snoc.
    - apply nodup_adel; assumption.
    - fold (akeys (adel m k)). rewrite akeys_adel. tauto.
  Qed.

  Lemma length_adel_le : forall m k, (length (adel m k) <= length m)%nat.
  Proof.
    induction m as [|a t IH]; intros k; cbn [adel filter length]; [lia|].
    destruct (negb (fst a =? k)); cbn [length]; specialize (IH k); unfold adel in IH; lia.
  Qed.

  Lemma length_adel_mem : forall m k v, NoDup (akeys m) -> aget m k = Some v ->
    S (length (adel m k)) = length m.
  Proof.
    induction m as [|[k' v'] t IH]; intros k v Hd H; cbn [aget] in H; [discriminate|].
    inversion Hd as [|? ? Hn Ht]; subst. cbn [adel filter fst length].
    destruct (N.eqb_spec k k') as [E|E].
    - subst. rewrite N.eqb_refl. cbn [negb]. f_equal.
      (* k' does not occur in t: nothing else is removed *)
      clear IH H Hd Ht. induction t as [|[k0 v0] t IH]; [reflexivity|].
      cbn [akeys map fst In] in Hn. cbn [filter fst length].
      destruct (N.eqb_spec k0 k'); [exfalso; apply Hn; left; assumption|].
      cbn [negb length]. f_equal. apply IH. intros Hin. apply Hn. right; assumption.
    - destruct (N.eqb_spec k' k); [congruence|]. cbn [negb length]. f_equal. eapply IH; eassumption.
  Qed.

  Lemma length_aset_mem : forall m k v v', NoDup (akeys m) -> aget m k = Some v' ->
    length (aset m k v) = length m.
  Proof.
    intros m k v v' Hd H. unfold aset. rewrite app_length. cbn [length].
    rewrite <- (length_adel_mem m k v' Hd H). lia.
  Qed.

  Lemma length_aset_le : forall m k v, (length (aset m k v) <= S (length m))%nat.
  Proof.
    intros. unfold aset. rewrite app_length. cbn [length].
    pose proof (length_adel_le m k). lia.
  Qed.

  Lemma akeys_aset : forall m k v i, In i (akeys (aset m k v)) <-> (In i (akeys m) /\ i <> k) \/ i = k.
  Proof.
    intros m k v i. unfold aset. rewrite akeys_app, in_app_iff. fold (akeys (adel m k)).
    rewrite akeys_adel. cbn [akeys map fst In]. intuition congruence.
  Qed.
End AMapFacts.

(** ** ranges *)
Lemma in_nrange : forall n s x, In x (nrange s n) <-> s <= x < s + N.of_nat n.
Proof.
  induction n as [|n IH]; intros s x; cbn [nrange In].
  - lia.
  - rewrite IH. lia.
Qed.

Lemma nodup_nrange : forall n s, NoDup (nrange s n).
Proof.
  induction n as [|n IH]; intros s; cbn [nrange]; constructor.
  - rewrite in_nrange. lia.
  - apply IH.
Qed.

Lemma in_fab_indices : forall i, In i fab_indices <-> 1 <= i <= 255.
Proof. intros i. unfold fab_indices. rewrite in_nrange. lia. Qed.

Lemma fabric_key_id : forall i, fabric_key i = i.
Proof. intros. unfold fabric_key, FABRIC_KEYS_START. lia. Qed.

Lemma nmax_ge : forall l x, In x l -> x <= nmax l.
Proof.
  induction l as [|a t IH]; intros x H; [destruct H|].
  cbn [nmax fold_right]. fold (nmax t). destruct H as [E|H]; [subst; lia|].
  specialize (IH x H). lia.
Qed.

Section ReplayFacts.
  Variable blob : Type.

  Lemma replay_app : forall (m : kv blob) l1 l2, replay blob m (l1 ++ l2) = replay blob (replay blob m l1) l2.
  Proof. intros. unfold replay. apply fold_left_app. Qed.

  Lemma kvlog_app : forall (a b : list (ev blob)), kvlog blob (a ++ b) = kvlog blob a ++ kvlog blob b.
  Proof.
    induction a as [|[o|s] t IH]; intros b; cbn [app kvlog]; [reflexivity| |]; rewrite IH; reflexivity.
  Qed.

  Lemma kvlog_map_EKv : forall l : list (kvop blob), kvlog blob (map EKv l) = l.
  Proof. induction l as [|o t IH]; cbn [map kvlog]; [reflexivity|]. rewrite IH. reflexivity. Qed.
End ReplayFacts.
