(** C14: the statements about a whole chunked answer, in terms of what a client
    observes ([parse_chunk] of every message), and the link to the executable
    property (the monitor). *)
From RsM Require Import Lib.MachInt Model.Chunk Model.ChunkSpec Proofs.ChunkFacts Proofs.ChunkEvents.
From Coq Require Import ZifyN ZifyBool Lia Sorted.
Open Scope N_scope.

Arguments N.add : simpl never.
Arguments N.sub : simpl never.
Arguments N.mul : simpl never.
Arguments N.leb : simpl never.
Arguments N.ltb : simpl never.
Arguments N.eqb : simpl never.

(** * Views of rendered messages *)

Lemma parse_map_render (c : cfg) (ds : list desc) :
  map parse_chunk (map (render c) ds) = map Some (map (view_of c) ds).
Proof. induction ds as [|d ds IH]; [reflexivity|]. cbn [map]. rewrite parse_render, IH. reflexivity. Qed.

Lemma map_Some_inj {A} (l m : list A) : map Some l = map Some m -> l = m.
Proof.
  revert m. induction l as [|x l IH]; intros [|y m] H; try discriminate H; [reflexivity|].
  cbn [map] in H. inversion H. f_equal. apply IH. assumption.
Qed.

Lemma attr_atoms_views (c : cfg) (ds : list desc) :
  all_attr_atoms (map (view_of c) ds) = flat_map datoms ds.
Proof. unfold all_attr_atoms. induction ds as [|d ds IH]; [reflexivity|]. cbn [map flat_map]. rewrite IH. reflexivity. Qed.

Lemma event_atoms_views (c : cfg) (ds : list desc) :
  all_event_atoms (map (view_of c) ds) = flat_map devents ds.
Proof. unfold all_event_atoms. induction ds as [|d ds IH]; [reflexivity|]. cbn [map flat_map]. rewrite IH. reflexivity. Qed.

Lemma fits_views (c : cfg) (ds : list desc) :
  Forall (fun d => tsum (render c d) <= tx c) ds -> c14_fits (tx c) (map (view_of c) ds) = true.
Proof.
  unfold c14_fits. induction 1 as [|d ds Hd _ IH]; [reflexivity|]. cbn [map forallb]. rewrite IH.
  rewrite view_size_render. cbn [view_of v_size]. rewrite N.eqb_refl.
  destruct (N.leb_spec (tsum (render c d)) (tx c)); [reflexivity | lia].
Qed.

Lemma only_last_views (c : cfg) (init : list desc) (last : desc) :
  Forall (fun d => d_more d = true) init -> d_more last = false ->
  only_last_ends (map (view_of c) (init ++ [last])) = true.
Proof.
  intros Hi Hl. induction Hi as [|d init Hd _ IH]; cbn [app map only_last_ends].
  - cbn [view_of v_more]. rewrite Hl. reflexivity.
  - destruct (map (view_of c) (init ++ [last])) eqn:E.
    + destruct init; discriminate E.
    + rewrite IH. cbn [view_of v_more v_supp]. rewrite Hd. reflexivity.
Qed.

Lemma last_supp_views (c : cfg) (init : list desc) (last : desc) :
  d_more last = false -> last_supp (map (view_of c) (init ++ [last])) (suppress c) = true.
Proof.
  intros Hl. unfold last_supp. rewrite map_app, rev_app_distr. cbn [map rev app view_of v_supp].
  rewrite Hl. apply Bool.eqb_reflx.
Qed.

(** * Reassembly of the forms in which the work list travels *)

Lemma path_eqb_refl (p : path) : path_eqb p p = true.
Proof. destruct p as [[a b] d]. unfold path_eqb. rewrite !N.eqb_refl. reflexivity. Qed.

Definition starts_ok (l : list atom) : Prop :=
  match l with
  | AElem _ _ _ :: _ | AEvent _ _ :: _ | AEvStatus _ _ :: _ => False
  | _ => True
  end.

Lemma reasm_open (l : list atom) (p : path) (n : N) :
  starts_ok l -> reasm l (Some (p, n)) = option_map (cons (IdList p n)) (reasm l None).
Proof.
  destruct l as [|a r]; [reflexivity|]. destruct a; cbn [starts_ok reasm close_open app]; try contradiction;
    intros _; destruct (reasm r _); reflexivity.
Qed.

Lemma reasm_elems (p : path) (es : list N) (rest : list atom) : forall idx,
  reasm (elem_atoms p idx es ++ rest) (Some (p, idx)) = reasm rest (Some (p, idx + N.of_nat (length es))).
Proof.
  induction es as [|sz es IH]; intros idx; cbn [elem_atoms app length].
  - f_equal. f_equal. f_equal. lia.
  - cbn [reasm]. rewrite path_eqb_refl, N.eqb_refl. cbn [andb]. rewrite IH. f_equal. f_equal. f_equal. lia.
Qed.

Lemma sent_as_starts_ok (it : item) (g rest : list atom) :
  item_ok it = true -> sent_as it g -> starts_ok (g ++ rest).
Proof.
  intros Hok Hs. destruct Hs as [a|p w m es pr|p w m es pr]; cbn [app starts_ok]; try exact I.
  destruct a; cbn [item_ok] in Hok; try discriminate Hok; exact I.
Qed.

Lemma groups_start_ok (its : list item) (gs : list (list atom)) :
  forallb item_ok its = true -> Forall2 sent_as its gs -> starts_ok (concat gs).
Proof.
  intros Hok H. destruct H as [|it g its gs Hs _]; [exact I|]. cbn [concat]. cbn [forallb] in Hok.
  apply andb_prop in Hok. eapply sent_as_starts_ok; [apply Hok | exact Hs].
Qed.

Lemma reasm_groups (its : list item) (gs : list (list atom)) :
  forallb item_ok its = true -> Forall2 sent_as its gs ->
  exists ids, reasm (concat gs) None = Some ids /\ forall2b matches (map expect_of_item its) ids = true.
Proof.
  intros Hok H. induction H as [|it g its gs Hs Hrest IH].
  - exists []. split; reflexivity.
  - cbn [forallb] in Hok. apply andb_prop in Hok. destruct Hok as [Hok1 Hok2].
    destruct (IH Hok2) as (ids & Hr & Hm). pose proof (groups_start_ok its gs Hok2 Hrest) as Hst.
    cbn [concat map]. destruct Hs as [a|p w m es pr|p w m es pr].
    + destruct a; cbn [item_ok] in Hok1; try discriminate Hok1; cbn [app reasm close_open]; rewrite Hr; cbn [option_map];
        eexists; (split; [reflexivity|]); cbn [forall2b expect_of_item matches]; rewrite Hm, path_eqb_refl, ?N.eqb_refl; reflexivity.
    + cbn [app reasm close_open]. rewrite Hr. cbn [option_map]. eexists. split; [reflexivity|].
      cbn [forall2b expect_of_item matches]. rewrite Hm, path_eqb_refl. reflexivity.
    + cbn [app reasm close_open]. rewrite reasm_elems, (reasm_open _ _ _ Hst), Hr. cbn [option_map app].
      eexists. split; [reflexivity|]. cbn [forall2b expect_of_item matches].
      rewrite Hm, path_eqb_refl. replace (0 + N.of_nat (length es)) with (N.of_nat (length es)) by lia.
      rewrite N.eqb_refl. reflexivity.
Qed.

(** events *)
Lemma ev_matches_self (l : list atom) :
  forallb (fun a => match a with AEvStatus _ _ | AEvent _ _ => true | _ => false end) l = true ->
  forall2b ev_matches (map evx_of_atom l) l = true.
Proof.
  induction l as [|a l IH]; [reflexivity|]. cbn [forallb map forall2b]. intros H. apply andb_prop in H.
  destruct H as [Ha Hl]. rewrite (IH Hl). destruct a; try discriminate Ha; cbn [evx_of_atom ev_matches]; rewrite N.eqb_refl; reflexivity.
Qed.

(** * The statements *)

Section Run.
  Variables (n : nat) (c : cfg) (its : list item) (stats : list atom) (evs : list ev).
  Hypothesis Hc : cfg_ok c = true.
  Hypothesis Hs : ev_sorted evs.

  Lemma run_views (o : outcome) (chunks : list (list token)) :
    respond n c its stats evs = (o, chunks) ->
    exists ds, chunks = map (render c) ds /\ map parse_chunk chunks = map Some (map (view_of c) ds) /\
      Forall (fun d => tsum (render c d) <= tx c) ds /\
      match o with
      | ODone =>
          (exists A, attrs_total c its A /\ flat_map datoms ds = A) /\
          flat_map devents ds = (if has_events c then events_total c stats evs else []) /\
          exists init last, ds = init ++ [last] /\ Forall (fun d => d_more d = true) init /\ d_more last = false
      | OStatus =>
          Forall (fun d => d_more d = true) ds /\
          (forallb (item_fits c) its = false \/ forallb (fun e => ev_size e <=? fresh_room c) evs = false)
      | OError => Forall (fun d => d_more d = true) ds /\ forallb (atom_fits c) stats = false
      | OFuel => Forall (fun d => d_more d = true) ds /\ (n <= length evs)%nat
      | OAbort => Forall (fun d => d_more d = true) ds /\ can_refuse c = true
      end.
  Proof.
    intros E. pose proof (respond_spec n c its stats evs Hc Hs) as H. rewrite E in H.
    destruct H as (ds & Hch & Hsz & Hrest). exists ds. split; [assumption|]. split; [|split; assumption].
    rewrite Hch. apply parse_map_render.
  Qed.

  Lemma exactly_once_in_order (chunks : list (list token)) :
    has_attrs c = true -> respond n c its stats evs = (ODone, chunks) ->
    exists vs gs, map parse_chunk chunks = map Some vs /\ Forall2 sent_as its gs /\ all_attr_atoms vs = concat gs.
  Proof.
    intros Ha E. destruct (run_views _ _ E) as (ds & _ & Hp & _ & (A & HA & HdA) & _).
    unfold attrs_total in HA. rewrite Ha in HA. destruct HA as (gs & Hgs & ->).
    exists (map (view_of c) ds), gs. split; [assumption|]. split; [assumption|].
    rewrite attr_atoms_views. assumption.
  Qed.

  Lemma lists_reassemble (chunks : list (list token)) :
    has_attrs c = true -> forallb item_ok its = true -> respond n c its stats evs = (ODone, chunks) ->
    exists vs ids, map parse_chunk chunks = map Some vs /\ reasm (all_attr_atoms vs) None = Some ids /\
                   forall2b matches (map expect_of_item its) ids = true.
  Proof.
    intros Ha Hok E. destruct (exactly_once_in_order _ Ha E) as (vs & gs & Hp & Hgs & Hat).
    destruct (reasm_groups its gs Hok Hgs) as (ids & Hr & Hm).
    exists vs, ids. split; [assumption|]. rewrite Hat. split; assumption.
  Qed.

  Lemma events_exactly_once (chunks : list (list token)) :
    has_events c = true -> respond n c its stats evs = (ODone, chunks) ->
    exists vs, map parse_chunk chunks = map Some vs /\
      all_event_atoms vs = stats ++ map ev_atom
        (filter (fun e => (ev_lo c <? ev_num e) && (ev_num e <=? ev_hi c) && ev_sel e) evs).
  Proof.
    intros He E. destruct (run_views _ _ E) as (ds & _ & Hp & _ & _ & HdE & _).
    rewrite He in HdE. exists (map (view_of c) ds). split; [assumption|].
    rewrite event_atoms_views, HdE. reflexivity.
  Qed.

  Lemma each_chunk_fits_and_parses (o : outcome) (chunks : list (list token)) :
    respond n c its stats evs = (o, chunks) ->
    Forall (fun ch => tsum ch <= tx c /\
                      exists v, parse_chunk ch = Some v /\ v_size v = tsum ch /\ view_size v = tsum ch) chunks.
  Proof.
    intros E. destruct (run_views _ _ E) as (ds & -> & _ & Hsz & _).
    clear E. induction Hsz as [|d ds Hd _ IH]; cbn [map]; [constructor|]. constructor; [|assumption].
    split; [assumption|]. exists (view_of c d). split; [apply parse_render|].
    split; [reflexivity | apply view_size_render].
  Qed.

  Lemma only_last_ends_run (chunks : list (list token)) :
    respond n c its stats evs = (ODone, chunks) ->
    exists vs, map parse_chunk chunks = map Some vs /\ only_last_ends vs = true /\
               last_supp vs (suppress c) = true.
  Proof.
    intros E. destruct (run_views _ _ E) as (ds & _ & Hp & _ & _ & _ & init & last & -> & Hi & Hl).
    exists (map (view_of c) (init ++ [last])). split; [assumption|].
    split; [apply only_last_views; assumption | apply last_supp_views; assumption].
  Qed.

  Lemma unfinished_never_ends (o : outcome) (chunks : list (list token)) :
    respond n c its stats evs = (o, chunks) -> o <> ODone ->
    exists vs, map parse_chunk chunks = map Some vs /\ forallb (fun v => v_more v && negb (v_supp v)) vs = true.
  Proof.
    intros E Ho. destruct (run_views _ _ E) as (ds & _ & Hp & _ & Hrest).
    exists (map (view_of c) ds). split; [assumption|].
    assert (Hm : Forall (fun d => d_more d = true) ds) by (destruct o; [congruence | | | | ]; apply Hrest).
    clear - Hm. induction Hm as [|d ds Hd _ IH]; [reflexivity|]. cbn [map forallb view_of v_more v_supp].
    rewrite Hd, IH. reflexivity.
  Qed.

  Lemma terminates : (length evs < n)%nat -> fst (respond n c its stats evs) <> OFuel.
  Proof.
    intros Hn. destruct (respond n c its stats evs) as [o chunks] eqn:E. cbn [fst]. intros ->.
    destruct (run_views _ _ E) as (ds & _ & _ & _ & _ & Hle). lia.
  Qed.

  Lemma completes :
    accept c = None ->
    (length evs < n)%nat -> all_fit c its stats evs = true -> fst (respond n c its stats evs) = ODone.
  Proof.
    intros Hacc Hn Hfit. unfold all_fit in Hfit. apply andb_prop in Hfit. destruct Hfit as [Hfit H3].
    apply andb_prop in Hfit. destruct Hfit as [H1 H2].
    destruct (respond n c its stats evs) as [o chunks] eqn:E. cbn [fst].
    destruct (run_views _ _ E) as (ds & _ & _ & _ & Hrest). destruct o; [reflexivity | | | | ].
    - destruct Hrest as [_ [H|H]]; congruence.
    - destruct Hrest as [_ H]. congruence.
    - destruct Hrest as [_ H]. unfold can_refuse in H. rewrite Hacc in H. discriminate H.
    - destruct Hrest as [_ H]. lia.
  Qed.

  Lemma accepting_never_aborts : accept c = None -> fst (respond n c its stats evs) <> OAbort.
  Proof.
    intros Hacc. destruct (respond n c its stats evs) as [o chunks] eqn:E. cbn [fst]. intros ->.
    destruct (run_views _ _ E) as (ds & _ & _ & _ & _ & H). unfold can_refuse in H. rewrite Hacc in H. discriminate H.
  Qed.

  Lemma aborted_never_complete (chunks : list (list token)) :
    respond n c its stats evs = (OAbort, chunks) ->
    exists vs, map parse_chunk chunks = map Some vs /\
               forallb (fun v => v_more v && negb (v_supp v)) vs = true.
  Proof. intros E. apply (unfinished_never_ends OAbort chunks E). discriminate. Qed.

  Lemma status_means_oversized :
    fst (respond n c its stats evs) = OStatus ->
    forallb (item_fits c) its = false \/ forallb (fun e => ev_size e <=? fresh_room c) evs = false.
  Proof.
    destruct (respond n c its stats evs) as [o chunks] eqn:E. cbn [fst]. intros ->.
    destruct (run_views _ _ E) as (ds & _ & _ & _ & _ & H). exact H.
  Qed.

  Lemma monitor_accepts (chunks : list (list token)) :
    has_attrs c = true -> has_events c = true -> forallb item_ok its = true -> forallb is_evstatus stats = true ->
    respond n c its stats evs = (ODone, chunks) ->
    exists vs, map parse_chunk chunks = map Some vs /\
      c14_holds (tx c) (suppress c) (map expect_of_item its)
                (map evx_of_atom (events_total c stats evs)) vs = true.
  Proof.
    intros Ha He Hok Hst E.
    destruct (run_views _ _ E) as (ds & _ & Hp & Hsz & (A & HA & HdA) & HdE & init & last & Hds & Hi & Hl).
    exists (map (view_of c) ds). split; [assumption|].
    unfold attrs_total in HA. rewrite Ha in HA. destruct HA as (gs & Hgs & ->). rewrite He in HdE.
    destruct (reasm_groups its gs Hok Hgs) as (ids & Hr & Hm).
    unfold c14_holds, c14_exactly_once, c14_events_once.
    rewrite attr_atoms_views, HdA, Hr, Hm, event_atoms_views, HdE, (fits_views c ds Hsz).
    rewrite Hds, (only_last_views c init last Hi Hl), (last_supp_views c init last Hl).
    rewrite ev_matches_self; [reflexivity|].
    unfold events_total. rewrite forallb_app. apply andb_true_intro. split.
    - clear - Hst. induction stats as [|a l IH]; [reflexivity|]. cbn [forallb] in *. apply andb_prop in Hst.
      destruct Hst as [H1 H2]. rewrite (IH H2). destruct a; try discriminate H1. reflexivity.
    - clear. induction (want c (ev_lo c) evs) as [|e l IH]; [reflexivity|]. cbn [map forallb ev_atom]. exact IH.
  Qed.
End Run.

(** * What the executable property means *)

Lemma forall2b_Forall2 {A B} (f : A -> B -> bool) (l : list A) (m : list B) :
  forall2b f l m = true <-> Forall2 (fun x y => f x y = true) l m.
Proof.
  revert m. induction l as [|x l IH]; intros [|y m]; cbn [forall2b]; split; intros H;
    try discriminate H; try (inversion H; fail); try constructor.
  - apply andb_prop in H. tauto.
  - apply IH. apply andb_prop in H. tauto.
  - inversion H; subst. apply andb_true_intro. split; [assumption | apply IH; assumption].
Qed.

Lemma only_last_ends_meaning (vs : list view) :
  only_last_ends vs = true ->
  exists init last, vs = init ++ [last] /\ Forall (fun v => v_more v = true /\ v_supp v = false) init /\ v_more last = false.
Proof.
  induction vs as [|v vs IH]; cbn [only_last_ends]; [discriminate|].
  destruct vs as [|v' vs'].
  - intros H. exists [], v. split; [reflexivity|]. split; [constructor|]. destruct (v_more v); [discriminate H | reflexivity].
  - intros H. apply andb_prop in H. destruct H as [H1 H2]. apply andb_prop in H1. destruct H1 as [Hm Hsu].
    destruct (IH H2) as (init & last & E & Hi & Hl). exists (v :: init), last. rewrite E.
    split; [reflexivity|]. split; [|assumption]. constructor; [|assumption].
    split; [assumption|]. destruct (v_supp v); [discriminate Hsu | reflexivity].
Qed.

Lemma monitor_sound (txmax : N) (supp : bool) (ex : list expect) (xs : list evexpect) (vs : list view) :
  c14_holds txmax supp ex xs vs = true ->
  (exists ids, reasm (all_attr_atoms vs) None = Some ids /\ Forall2 (fun e i => matches e i = true) ex ids) /\
  Forall2 (fun e a => ev_matches e a = true) xs (all_event_atoms vs) /\
  Forall (fun v => v_size v <= txmax /\ view_size v = v_size v) vs /\
  (exists init last, vs = init ++ [last] /\
     Forall (fun v => v_more v = true /\ v_supp v = false) init /\ v_more last = false /\ v_supp last = supp).
Proof.
  unfold c14_holds, c14_exactly_once, c14_events_once, c14_fits. intros H.
  apply andb_prop in H. destruct H as [H He].
  apply andb_prop in H. destruct H as [H Hd].
  apply andb_prop in H. destruct H as [H Hf].
  apply andb_prop in H. destruct H as [Ha Hb].
  split; [|split; [|split]].
  - destruct (reasm (all_attr_atoms vs) None) as [ids|]; [|discriminate Ha].
    exists ids. split; [reflexivity|]. apply forall2b_Forall2. assumption.
  - apply forall2b_Forall2. assumption.
  - rewrite forallb_forall in Hf. apply Forall_forall. intros v Hv. specialize (Hf v Hv). lia.
  - destruct (only_last_ends_meaning vs Hd) as (init & last & E & Hi & Hl). exists init, last.
    split; [assumption|]. split; [assumption|]. split; [assumption|].
    unfold last_supp in He. rewrite E, rev_app_distr in He. cbn [rev app] in He. apply Bool.eqb_prop. assumption.
Qed.
