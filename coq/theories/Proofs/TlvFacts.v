(** Basic facts about the TLV model: slices, little-endian values,
    the [safe] predicate (a value or an error, no panic, fuel left) and
    the characterising lemmas of the straight-line reader helpers. *)
From Coq Require Import NArith ZArith List Bool Lia ZifyN ZifyBool.
From RsM Require Import Model.Tlv.
Import ListNotations.
Open Scope N_scope.

Arguments N.add : simpl never.
Arguments N.sub : simpl never.
Arguments N.mul : simpl never.
Arguments N.div : simpl never.
Arguments N.modulo : simpl never.
Arguments N.leb : simpl never.
Arguments N.ltb : simpl never.
Arguments N.eqb : simpl never.
Arguments N.of_nat : simpl never.
Arguments N.to_nat : simpl never.
Arguments two63 : simpl never.
Arguments two64 : simpl never.

(** * [safe] *)

Definition safe {A} (r : rres A) : Prop :=
  match r with ROk _ | RErr _ => True | _ => False end.

Lemma safe_bind {A B} (r : rres A) (f : A -> rres B) :
  safe r -> (forall v, r = ROk v -> safe (f v)) -> safe (rbind r f).
Proof. destruct r; cbn; intros Hs Hf; auto. Qed.

Lemma safe_ok_or {A} e (o : option A) : safe (ok_or e o).
Proof. destruct o; exact I. Qed.

Lemma safe_rmap {A B} (f : A -> B) r : safe r -> safe (rmap f r).
Proof. destruct r; cbn; auto. Qed.

Lemma bind_ok {A B} (r : rres A) (f : A -> rres B) v :
  rbind r f = ROk v -> exists x, r = ROk x /\ f x = ROk v.
Proof. destruct r; cbn; try discriminate. eauto. Qed.

Lemma ok_or_ok {A} e (o : option A) v : ok_or e o = ROk v -> o = Some v.
Proof. destruct o; cbn; congruence. Qed.

(** * Slices *)

Lemma blen_nil : blen [] = 0.
Proof. reflexivity. Qed.
Lemma blen_cons b s : blen (b :: s) = 1 + blen s.
Proof. unfold blen. cbn [length]. lia. Qed.
Lemma blen_app a b : blen (a ++ b) = blen a + blen b.
Proof. unfold blen. rewrite app_length. lia. Qed.
Lemma blen_0 s : blen s = 0 -> s = [].
Proof. destruct s; [reflexivity|]. rewrite blen_cons. lia. Qed.

Lemma get_from_some n s r :
  get_from n s = Some r ->
  n <= blen s /\ r = skipn (N.to_nat n) s /\ blen r = blen s - n /\
  s = firstn (N.to_nat n) s ++ r.
Proof.
  unfold get_from. destruct (N.leb_spec n (blen s)) as [Hle|]; [|discriminate].
  intros E. injection E as <-. repeat split; auto.
  - unfold blen in *. rewrite skipn_length. lia.
  - symmetry. apply firstn_skipn.
Qed.

Lemma get_to_some n s r :
  get_to n s = Some r ->
  n <= blen s /\ r = firstn (N.to_nat n) s /\ blen r = n.
Proof.
  unfold get_to. destruct (N.leb_spec n (blen s)) as [Hle|]; [|discriminate].
  intros E. injection E as <-. repeat split; auto.
  unfold blen in *. rewrite firstn_length. lia.
Qed.

Lemma get_from_app a b : get_from (blen a) (a ++ b) = Some b.
Proof.
  unfold get_from. rewrite blen_app.
  destruct (N.leb_spec (blen a) (blen a + blen b)); [|lia].
  unfold blen. rewrite Nat2N.id, skipn_app, skipn_all, Nat.sub_diag. reflexivity.
Qed.

Lemma get_to_app a b : get_to (blen a) (a ++ b) = Some a.
Proof.
  unfold get_to. rewrite blen_app.
  destruct (N.leb_spec (blen a) (blen a + blen b)); [|lia].
  unfold blen. rewrite Nat2N.id, firstn_app, firstn_all, Nat.sub_diag. cbn.
  rewrite app_nil_r. reflexivity.
Qed.

(** * Little-endian values *)

Definition is_bytes (s : bytes) : Prop := Forall (fun b => b < 256) s.

Lemma le_bytes_length n v : length (le_bytes n v) = n.
Proof. revert v. induction n; intros; cbn [le_bytes length]; auto. Qed.

Lemma le_bytes_blen n v : blen (le_bytes n v) = N.of_nat n.
Proof. unfold blen. rewrite le_bytes_length. reflexivity. Qed.

Lemma le_bytes_is_bytes n v : is_bytes (le_bytes n v).
Proof.
  revert v. induction n; intros; cbn [le_bytes]; constructor.
  - apply N.mod_lt. lia.
  - apply IHn.
Qed.

Lemma le_val_le_bytes n v : le_val (le_bytes n v) = v mod 256 ^ N.of_nat n.
Proof.
  revert v. induction n; intros v.
  - cbn [le_bytes le_val]. change (N.of_nat 0) with 0. rewrite N.pow_0_r, N.mod_1_r. reflexivity.
  - cbn [le_bytes le_val]. rewrite IHn.
    replace (N.of_nat (S n)) with (N.succ (N.of_nat n)) by lia.
    rewrite N.pow_succ_r'.
    assert (Hp : 256 ^ N.of_nat n <> 0) by (apply N.pow_nonzero; lia).
    rewrite (N.mul_comm 256), N.mod_mul_r by lia. lia.
Qed.

Lemma le_val_bound l : is_bytes l -> le_val l < 256 ^ blen l.
Proof.
  induction 1 as [|b l Hb Hl IH]; cbn [le_val].
  - rewrite blen_nil. cbn. lia.
  - rewrite blen_cons. replace (1 + blen l) with (N.succ (blen l)) by lia.
    rewrite N.pow_succ_r'. lia.
Qed.

Lemma le_bytes_le_val l : is_bytes l -> le_bytes (length l) (le_val l) = l.
Proof.
  induction 1 as [|b l Hb Hl IH]; cbn [le_val le_bytes length]; [reflexivity|].
  f_equal.
  - rewrite (N.mul_comm 256), N.mod_add by lia. apply N.mod_small. exact Hb.
  - rewrite (N.mul_comm 256), N.div_add by lia.
    rewrite (N.div_small b) by exact Hb. rewrite N.add_0_l. exact IH.
Qed.

Lemma is_bytes_app a b : is_bytes (a ++ b) <-> is_bytes a /\ is_bytes b.
Proof. apply Forall_app. Qed.
Lemma is_bytes_firstn n s : is_bytes s -> is_bytes (firstn n s).
Proof.
  intros H. rewrite <- (firstn_skipn n s) in H. apply is_bytes_app in H. tauto.
Qed.
Lemma is_bytes_skipn n s : is_bytes s -> is_bytes (skipn n s).
Proof.
  intros H. rewrite <- (firstn_skipn n s) in H. apply is_bytes_app in H. tauto.
Qed.

(** * Control byte *)

Lemma control_nonempty s c : control s = ROk c -> s <> [].
Proof. destruct s; cbn; congruence. Qed.

Lemma safe_parse_control b : safe (parse_control b).
Proof. unfold parse_control. destruct (vtype_of_code _); exact I. Qed.

Lemma safe_control s : safe (control s).
Proof. destruct s; cbn; [exact I|apply safe_parse_control]. Qed.

Lemma safe_confirm_end c : safe (confirm_end c).
Proof. unfold confirm_end. destruct (ctl_is_end c); exact I. Qed.

(** * Straight-line helpers *)

Lemma tag_start_cons b s : tag_start (b :: s) = ROk s.
Proof.
  unfold tag_start, get_from. rewrite blen_cons.
  destruct (N.leb_spec 1 (1 + blen s)); [|lia]. reflexivity.
Qed.

Lemma safe_tag_start s : safe (tag_start s).
Proof. apply safe_ok_or. Qed.

Lemma safe_tag_slice s t : safe (tag_slice s t).
Proof. unfold tag_slice. apply safe_bind; [apply safe_tag_start|intros; apply safe_ok_or]. Qed.

Lemma safe_value_len_start s t : s <> [] -> safe (value_len_start s t).
Proof.
  destruct s as [|b s]; [congruence|]. intros _.
  unfold value_len_start. rewrite tag_start_cons. apply safe_ok_or.
Qed.

Lemma safe_value_start s c : s <> [] -> safe (value_start s c).
Proof.
  intros H. unfold value_start. apply safe_bind; [apply safe_value_len_start; auto|].
  intros; apply safe_ok_or.
Qed.

Lemma safe_le_exact n sl : blen sl = n -> safe (le_exact n sl).
Proof. intros H. unfold le_exact. rewrite H, N.eqb_refl. exact I. Qed.

Lemma safe_le_exact_err n sl : safe (le_exact_err n sl).
Proof. unfold le_exact_err. destruct (_ =? _); exact I. Qed.

Lemma safe_value_len s c : s <> [] -> safe (value_len s c).
Proof.
  intros H. unfold value_len. destruct (fixed_size (snd c)); [exact I|].
  apply safe_bind; [apply safe_value_len_start; auto|]. intros vls _.
  apply safe_bind; [apply safe_ok_or|]. intros sl Hsl.
  apply ok_or_ok, get_to_some in Hsl. apply safe_le_exact. tauto.
Qed.

Lemma safe_value s c : s <> [] -> safe (value s c).
Proof.
  intros H. unfold value. apply safe_bind; [apply safe_value_len; auto|]. intros vl _.
  apply safe_bind; [apply safe_value_start; auto|]. intros; apply safe_ok_or.
Qed.

Lemma safe_next_start s c : s <> [] -> safe (next_start s c).
Proof.
  intros H. unfold next_start. apply safe_bind; [apply safe_value_len; auto|]. intros vl _.
  apply safe_bind; [apply safe_value_start; auto|]. intros; apply safe_ok_or.
Qed.

Lemma safe_next_enter s : safe (next_enter s).
Proof.
  destruct s as [|b s]; [exact I|]. unfold next_enter.
  apply safe_bind; [apply safe_control|]. intros c _. apply safe_next_start. discriminate.
Qed.

Lemma safe_add_len a b : safe (add_len a b).
Proof. unfold add_len. destruct (_ <? _); exact I. Qed.

Lemma safe_len_ s : safe (len_ s).
Proof.
  unfold len_. apply safe_bind; [apply safe_control|]. intros c Hc.
  apply safe_bind; [apply safe_value_len; eapply control_nonempty; eauto|].
  intros; apply safe_add_len.
Qed.

(** where the pieces of an element lie: everything is a suffix of the input *)

Lemma value_start_suffix s c vs :
  value_start s c = ROk vs ->
  exists hd, s = hd ++ vs /\ blen hd = hdr_len c.
Proof.
  destruct s as [|b s]; unfold value_start, value_len_start.
  - cbn. discriminate.
  - rewrite tag_start_cons. intros H.
    apply bind_ok in H as (vls & H1 & H2).
    apply ok_or_ok, get_from_some in H1 as (L1 & E1 & B1 & S1).
    apply ok_or_ok, get_from_some in H2 as (L2 & E2 & B2 & S2).
    exists (b :: firstn (N.to_nat (tagsize (fst c))) s ++ firstn (N.to_nat (varlen (snd c))) vls).
    split.
    + cbn [app]. f_equal. rewrite <- app_assoc, <- S2. exact S1.
    + rewrite blen_cons, blen_app. unfold hdr_len.
      unfold blen at 1 2. rewrite !firstn_length.
      unfold blen in *. lia.
Qed.

Lemma next_start_suffix s c s' :
  next_start s c = ROk s' -> exists pre, s = pre ++ s' /\ hdr_len c <= blen pre.
Proof.
  unfold next_start. intros H.
  apply bind_ok in H as (vl & _ & H). apply bind_ok in H as (vs & Hvs & H).
  apply value_start_suffix in Hvs as (hd & -> & Hhd).
  apply ok_or_ok, get_from_some in H as (_ & _ & _ & S).
  exists (hd ++ firstn (N.to_nat vl) vs). split.
  - rewrite <- app_assoc. f_equal. exact S.
  - rewrite blen_app. lia.
Qed.

Lemma hdr_len_pos c : 1 <= hdr_len c.
Proof. unfold hdr_len. lia. Qed.

Lemma next_enter_suffix s s' :
  next_enter s = ROk s' -> s <> [] -> exists pre, s = pre ++ s' /\ 1 <= blen pre.
Proof.
  destruct s as [|b s]; [congruence|]. intros H _. unfold next_enter in H.
  apply bind_ok in H as (c & _ & H). apply next_start_suffix in H as (pre & E & L).
  exists pre. split; auto. pose proof (hdr_len_pos c). lia.
Qed.

Lemma next_enter_shorter s s' :
  next_enter s = ROk s' -> s <> [] -> (length s' < length s)%nat.
Proof.
  intros H Hn. apply next_enter_suffix in H as (pre & -> & L); auto.
  rewrite app_length. unfold blen in L. lia.
Qed.

Lemma next_enter_le s s' : next_enter s = ROk s' -> (length s' <= length s)%nat.
Proof.
  destruct s as [|b s].
  - cbn. intros E. injection E as <-. auto.
  - intros H. apply next_enter_shorter in H; [lia|discriminate].
Qed.
