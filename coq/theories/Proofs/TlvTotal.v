(** Totality of the TLV reader: every entry point returns a value or an
    error on every byte string - never [RPanic], never [RFuel]. *)
From Coq Require Import NArith ZArith List Bool Lia ZifyN ZifyBool.
From RsM Require Import Model.Tlv Model.TlvSpec Proofs.TlvFacts.
Import ListNotations.
Open Scope N_scope.

Ltac nlia := unfold blen, two63, two64 in *; cbn [length] in *; lia.

(** * The two skipping loops *)

Lemma safe_level_step c level : level + 1 < two64 -> safe (level_step c level).
Proof.
  intros H. unfold level_step. destruct (is_cend (snd c)).
  - apply safe_bind; [apply safe_confirm_end|]. intros; exact I.
  - destruct (is_container_vt (snd c)); [|exact I].
    destruct (N.ltb_spec (level + 1) two64); [exact I|lia].
Qed.

Lemma level_step_le c level l' : level_step c level = ROk l' -> l' <= level + 1.
Proof.
  unfold level_step. destruct (is_cend (snd c)).
  - intros H. apply bind_ok in H as (_ & _ & H). injection H as <-. lia.
  - destruct (is_container_vt (snd c)).
    + destruct (_ <? _); [|discriminate]. intros H. injection H as <-. lia.
    + intros H. injection H as <-. lia.
Qed.

Lemma next_enter_progress next next' c :
  next_enter next = ROk next' -> control next' = ROk c ->
  next <> [] /\ (length next' < length next)%nat.
Proof.
  intros Hn Hc. assert (Hne : next <> []).
  { destruct next; [|discriminate]. cbn in Hn. injection Hn as <-. cbn in Hc. discriminate. }
  split; [exact Hne|]. eapply next_enter_shorter; eauto.
Qed.

Lemma safe_cvl_loop fuel : forall next len level,
  (length next < fuel)%nat -> level + blen next < two64 ->
  safe (cvl_loop fuel next len level).
Proof.
  induction fuel as [|fuel IH]; intros next len level Hf Hb; [lia|].
  cbn [cvl_loop]. destruct (level =? 0); [exact I|].
  apply safe_bind; [apply safe_next_enter|]. intros next' Hn.
  apply safe_bind; [apply safe_len_|]. intros l _.
  apply safe_bind; [apply safe_add_len|]. intros len' _.
  apply safe_bind; [apply safe_control|]. intros c Hc.
  destruct (next_enter_progress _ _ _ Hn Hc) as [Hne Hlt].
  assert (1 <= blen next) by (destruct next; [congruence|nlia]).
  apply safe_bind; [apply safe_level_step; lia|]. intros level' Hl.
  apply level_step_le in Hl. apply IH; nlia.
Qed.

Lemma safe_cn_loop fuel : forall next level,
  (length next < fuel)%nat -> level + blen next < two64 ->
  safe (cn_loop fuel next level).
Proof.
  induction fuel as [|fuel IH]; intros next level Hf Hb; [lia|].
  cbn [cn_loop]. destruct (level =? 0); [exact I|].
  apply safe_bind; [apply safe_control|]. intros c Hc.
  pose proof (control_nonempty _ _ Hc) as Hne.
  assert (1 <= blen next) by (destruct next; [congruence|nlia]).
  apply safe_bind; [apply safe_level_step; lia|]. intros level' Hl.
  apply level_step_le in Hl.
  apply safe_bind; [apply safe_next_enter|]. intros next' Hn.
  apply next_enter_shorter in Hn; auto. apply IH; nlia.
Qed.

Lemma safe_container_value_len s c :
  blen s < two63 -> s <> [] -> safe (container_value_len s c).
Proof.
  intros Hb Hne. unfold container_value_len. destruct (is_container_vt (snd c)).
  - apply safe_cvl_loop; nlia.
  - apply safe_value_len. exact Hne.
Qed.

Lemma safe_container_value s c :
  blen s < two63 -> s <> [] -> safe (container_value s c).
Proof.
  intros Hb Hne. unfold container_value.
  apply safe_bind; [apply safe_container_value_len; auto|]. intros vl _.
  apply safe_bind; [apply safe_value_start; auto|]. intros; apply safe_ok_or.
Qed.

Lemma safe_container_len s : blen s < two63 -> safe (container_len s).
Proof.
  intros Hb. unfold container_len. apply safe_bind; [apply safe_control|]. intros c Hc.
  apply safe_bind; [apply safe_container_value_len; auto; eapply control_nonempty; eauto|].
  intros; apply safe_add_len.
Qed.

Lemma safe_container_next s : blen s < two63 -> safe (container_next s).
Proof.
  intros Hb. destruct s as [|b s]; [exact I|]. unfold container_next.
  apply safe_bind; [apply safe_control|]. intros c _.
  destruct (is_cend (snd c)).
  - apply safe_bind; [apply safe_confirm_end|]. intros; exact I.
  - apply safe_bind; [apply safe_next_enter|]. intros next Hn.
    destruct (is_container_vt (snd c)); [|exact I].
    apply next_enter_shorter in Hn; [|discriminate].
    apply safe_cn_loop; nlia.
Qed.

Lemma safe_current s : safe (current s).
Proof.
  destruct s as [|b s]; [exact I|]. unfold current.
  apply safe_bind; [apply safe_control|]. intros c _.
  destruct (is_cend (snd c)); [|exact I].
  apply safe_bind; [apply safe_confirm_end|]. intros; exact I.
Qed.

(** * Element accessors *)

Lemma safe_el_raw_value s : blen s < two63 -> safe (el_raw_value s).
Proof.
  intros Hb. unfold el_raw_value. apply safe_bind; [apply safe_control|]. intros c Hc.
  apply safe_container_value; auto. eapply control_nonempty; eauto.
Qed.

Lemma safe_tag_of_slice t sl : blen sl = tagsize t -> safe (tag_of_slice t sl).
Proof.
  intros H. destruct t; cbn [tag_of_slice tagsize] in *;
    try (apply safe_bind; [apply safe_le_exact; exact H|intros; exact I]).
  - exact I.
  - destruct sl; [rewrite blen_nil in H; lia|exact I].
  - destruct (N.ltb_spec (blen sl) 6); [lia|exact I].
  - destruct (N.ltb_spec (blen sl) 8); [lia|exact I].
Qed.

Lemma safe_el_tag s : safe (el_tag s).
Proof.
  unfold el_tag. apply safe_bind; [apply safe_control|]. intros c _.
  apply safe_bind; [apply safe_tag_start|]. intros ts _.
  apply safe_bind; [apply safe_ok_or|]. intros sl Hsl.
  apply ok_or_ok, get_to_some in Hsl. apply safe_tag_of_slice. tauto.
Qed.

Lemma container_value_fixed s c sl n :
  is_container_vt (snd c) = false -> fixed_size (snd c) = Some n ->
  container_value s c = ROk sl -> blen sl = n.
Proof.
  intros Hc Hf H. unfold container_value, container_value_len, value_len in H.
  rewrite Hc, Hf in H. cbn [rbind] in H.
  apply bind_ok in H as (vs & _ & H). apply ok_or_ok, get_to_some in H. tauto.
Qed.

Lemma safe_el_value s : blen s < two63 -> safe (el_value s).
Proof.
  intros Hb. unfold el_value. apply safe_bind; [apply safe_control|]. intros c Hc.
  apply safe_bind; [apply safe_container_value; auto; eapply control_nonempty; eauto|].
  intros sl Hsl. destruct (snd c) as [w|w| | | | |w|w| |k|] eqn:Evt; try exact I.
  - apply safe_bind; [|intros; exact I]. apply safe_le_exact.
    eapply container_value_fixed; eauto; rewrite Evt; reflexivity.
  - apply safe_bind; [|intros; exact I]. apply safe_le_exact.
    eapply container_value_fixed; eauto; rewrite Evt; reflexivity.
  - apply safe_bind; [|intros; exact I]. apply safe_le_exact.
    eapply container_value_fixed; eauto; rewrite Evt; reflexivity.
  - apply safe_bind; [|intros; exact I]. apply safe_le_exact.
    eapply container_value_fixed; eauto; rewrite Evt; reflexivity.
  - destruct (utf8_valid sl); exact I.
Qed.

Lemma safe_el_tlv s : blen s < two63 -> safe (el_tlv s).
Proof.
  intros Hb. unfold el_tlv. apply safe_bind; [apply safe_el_tag|]. intros t _.
  apply safe_bind; [apply safe_el_value; auto|]. intros; exact I.
Qed.

Lemma safe_el_fixed s vt n other : safe other -> safe (el_fixed s vt n other).
Proof.
  intros Ho. unfold el_fixed. apply safe_bind; [apply safe_control|]. intros c Hc.
  destruct (vtype_eqb (snd c) vt); [|exact Ho].
  apply safe_bind; [apply safe_value; eapply control_nonempty; eauto|].
  intros; apply safe_le_exact_err.
Qed.

Lemma safe_el_u8 s : safe (el_u8 s).
Proof. apply safe_el_fixed. exact I. Qed.
Lemma safe_el_u16 s : safe (el_u16 s).
Proof. apply safe_el_fixed, safe_el_u8. Qed.
Lemma safe_el_u32 s : safe (el_u32 s).
Proof. apply safe_el_fixed, safe_el_u16. Qed.
Lemma safe_el_u64 s : safe (el_u64 s).
Proof. apply safe_el_fixed, safe_el_u32. Qed.
Lemma safe_el_f32 s : safe (el_f32 s).
Proof. apply safe_el_fixed. exact I. Qed.
Lemma safe_el_f64 s : safe (el_f64 s).
Proof. apply safe_el_fixed. exact I. Qed.

Lemma safe_el_i8 s : safe (el_i8 s).
Proof. apply safe_rmap, safe_el_fixed. exact I. Qed.

Lemma safe_el_signed s vt w n other :
  safe other ->
  safe (let! c := control s in
        if vtype_eqb (snd c) vt then
          let! v := value s c in rmap (to_signed w) (le_exact_err n v)
        else other).
Proof.
  intros Ho. apply safe_bind; [apply safe_control|]. intros c Hc.
  destruct (vtype_eqb (snd c) vt); [|exact Ho].
  apply safe_bind; [apply safe_value; eapply control_nonempty; eauto|].
  intros; apply safe_rmap, safe_le_exact_err.
Qed.

Lemma safe_el_i16 s : safe (el_i16 s).
Proof. apply safe_el_signed, safe_el_i8. Qed.
Lemma safe_el_i32 s : safe (el_i32 s).
Proof. apply safe_el_signed, safe_el_i16. Qed.
Lemma safe_el_i64 s : safe (el_i64 s).
Proof. apply safe_el_signed, safe_el_i32. Qed.

Lemma safe_el_str s : safe (el_str s).
Proof.
  unfold el_str. apply safe_bind; [apply safe_control|]. intros c Hc.
  destruct (is_str_vt (snd c)); [|exact I].
  apply safe_value; eapply control_nonempty; eauto.
Qed.

Lemma safe_el_utf8 s : safe (el_utf8 s).
Proof.
  unfold el_utf8. apply safe_bind; [apply safe_control|]. intros c Hc.
  destruct (is_utf8_vt (snd c)); [|exact I].
  apply safe_bind; [apply safe_value; eapply control_nonempty; eauto|].
  intros v _. destruct (utf8_valid v); exact I.
Qed.

Lemma safe_el_octets s : safe (el_octets s).
Proof.
  unfold el_octets. apply safe_bind; [apply safe_control|]. intros c Hc.
  destruct (varlen (snd c) =? 0); [exact I|].
  apply safe_value; eapply control_nonempty; eauto.
Qed.

Lemma safe_el_bool s : safe (el_bool s).
Proof.
  unfold el_bool. apply safe_bind; [apply safe_control|]. intros c _.
  destruct (snd c); exact I.
Qed.

Lemma safe_el_is_container s : safe (el_is_container s).
Proof. unfold el_is_container. apply safe_bind; [apply safe_control|]. intros; exact I. Qed.

Lemma safe_el_null s : safe (el_null s).
Proof.
  unfold el_null. apply safe_bind; [apply safe_control|]. intros c _.
  destruct (snd c); exact I.
Qed.

Lemma safe_el_struct s : safe (el_struct s).
Proof.
  unfold el_struct. apply safe_bind; [apply safe_control|]. intros c _.
  destruct (snd c) as [| | | | | | | | |[]|]; try exact I; apply safe_next_enter.
Qed.
Lemma safe_el_array s : safe (el_array s).
Proof.
  unfold el_array. apply safe_bind; [apply safe_control|]. intros c _.
  destruct (snd c) as [| | | | | | | | |[]|]; try exact I; apply safe_next_enter.
Qed.
Lemma safe_el_list s : safe (el_list s).
Proof.
  unfold el_list. apply safe_bind; [apply safe_control|]. intros c _.
  destruct (snd c) as [| | | | | | | | |[]|]; try exact I; apply safe_next_enter.
Qed.
Lemma safe_el_container s : safe (el_container s).
Proof.
  unfold el_container. apply safe_bind; [apply safe_control|]. intros c _.
  destruct (snd c); try exact I; apply safe_next_enter.
Qed.

Lemma safe_el_confirm_anon s : safe (el_confirm_anon s).
Proof.
  unfold el_confirm_anon. apply safe_bind; [apply safe_control|]. intros c _.
  destruct (fst c); exact I.
Qed.

Lemma safe_el_try_ctx s : safe (el_try_ctx s).
Proof.
  unfold el_try_ctx. apply safe_bind; [apply safe_control|]. intros c _.
  destruct (fst c); try exact I.
  apply safe_bind; [apply safe_tag_slice|]. intros sl _. destruct sl; exact I.
Qed.

Lemma safe_el_ctx s : safe (el_ctx s).
Proof.
  unfold el_ctx. apply safe_bind; [apply safe_el_try_ctx|]. intros; apply safe_ok_or.
Qed.

Lemma safe_el_to_tlv t s : blen s < two63 -> safe (el_to_tlv t s).
Proof.
  intros Hb. unfold el_to_tlv. destruct (is_nil s); [exact I|].
  apply safe_bind; [apply safe_control|]. intros c _.
  apply safe_bind; [apply safe_el_raw_value; auto|]. intros p _.
  destruct (0 <? varlen (snd c)); exact I.
Qed.

(** * Iterators *)

(** what the skipping loops return is a (strict) suffix of what they were given *)
Lemma cn_loop_le fuel : forall next level r,
  cn_loop fuel next level = ROk r -> (length r <= length next)%nat.
Proof.
  induction fuel as [|fuel IH]; intros next level r H; [discriminate|].
  cbn [cn_loop] in H. destruct (level =? 0).
  - injection H as <-. lia.
  - apply bind_ok in H as (c & _ & H). apply bind_ok in H as (l' & _ & H).
    apply bind_ok in H as (next' & Hn & H). apply IH in H.
    apply next_enter_le in Hn. lia.
Qed.

Lemma container_next_le s r : container_next s = ROk r -> (length r <= length s)%nat.
Proof.
  destruct s as [|b s]; cbn [container_next].
  - intros H. injection H as <-. lia.
  - intros H. apply bind_ok in H as (c & _ & H). destruct (is_cend (snd c)).
    + apply bind_ok in H as (_ & _ & H). injection H as <-. lia.
    + apply bind_ok in H as (next & Hn & H). apply next_enter_le in Hn.
      destruct (is_container_vt (snd c)).
      * apply cn_loop_le in H. lia.
      * injection H as <-. lia.
Qed.

(** when [current] returns a (non-empty) element, [container_next] makes progress *)
Lemma container_next_progress s cur r :
  current s = ROk cur -> cur <> [] -> container_next s = ROk r ->
  (length r < length s)%nat.
Proof.
  destruct s as [|b s]; cbn [current container_next].
  - intros H. injection H as <-. congruence.
  - intros H Hne Hn. apply bind_ok in H as (c & Hc & H).
    rewrite Hc in Hn. cbn [rbind] in Hn. destruct (is_cend (snd c)).
    + apply bind_ok in H as (_ & _ & H). injection H as <-. congruence.
    + apply bind_ok in Hn as (next & Hne' & Hn).
      apply next_enter_shorter in Hne'; [|discriminate].
      destruct (is_container_vt (snd c)).
      * apply cn_loop_le in Hn. lia.
      * injection Hn as <-. lia.
Qed.

Lemma current_cases s cur : current s = ROk cur -> cur = [] \/ cur = s.
Proof.
  destruct s as [|b s]; cbn [current].
  - intros H. injection H as <-. auto.
  - intros H. apply bind_ok in H as (c & _ & H). destruct (is_cend (snd c)).
    + apply bind_ok in H as (_ & _ & H). injection H as <-. auto.
    + injection H as <-. auto.
Qed.

Lemma safe_seq_iter_next s : blen s < two63 -> safe (fst (seq_iter_next s)).
Proof.
  intros Hb. unfold seq_iter_next.
  assert (Hs : safe (let! cur := current s in let! nx := container_next s in ROk (cur, nx))).
  { apply safe_bind; [apply safe_current|]. intros cur _.
    apply safe_bind; [apply safe_container_next; auto|]. intros; exact I. }
  destruct (let! cur := current s in let! nx := container_next s in ROk (cur, nx)) as [[cur nx]| | |];
    cbn in *; auto.
Qed.

Lemma seq_iter_next_some s e s' :
  seq_iter_next s = (ROk (Some e), s') -> e = s /\ (length s' < length s)%nat.
Proof.
  unfold seq_iter_next.
  destruct (let! cur := current s in let! nx := container_next s in ROk (cur, nx)) as [[cur nx]| | |] eqn:E;
    try (intros H; discriminate H).
  intros H. apply bind_ok in E as (cur' & Hc & E). apply bind_ok in E as (nx' & Hn & E).
  injection E as <- <-. destruct cur' as [|b0 cur0] eqn:Ecur; cbn [is_nil] in H; [discriminate|].
  injection H as <- <-. destruct (current_cases _ _ Hc) as [|Hs]; [discriminate|].
  split; [exact Hs|]. eapply container_next_progress; eauto. discriminate.
Qed.

Lemma seq_iter_next_le s r s' :
  seq_iter_next s = (r, s') -> (length s' <= length s)%nat.
Proof.
  unfold seq_iter_next.
  destruct (let! cur := current s in let! nx := container_next s in ROk (cur, nx)) as [[cur nx]| | |] eqn:E;
    intros H; injection H as <- <-; cbn [length]; try lia.
  apply bind_ok in E as (cur' & Hc & E). apply bind_ok in E as (nx' & Hn & E).
  injection E as <- <-. eapply container_next_le; eauto.
Qed.

Lemma seq_iter_next_err s c s' : seq_iter_next s = (RErr c, s') -> s' = [].
Proof.
  unfold seq_iter_next.
  destruct (let! cur := current s in let! nx := container_next s in ROk (cur, nx)) as [[cur nx]| | |];
    intros H; try discriminate H; injection H as _ <-; reflexivity.
Qed.

Lemma seq_iter_next_nil : seq_iter_next [] = (ROk None, []).
Proof. reflexivity. Qed.

Lemma safe_seq_iter_collect fuel : forall s,
  blen s < two63 -> (length s + 1 < fuel)%nat -> safe (seq_iter_collect fuel s).
Proof.
  induction fuel as [|fuel IH]; intros s Hb Hf; [lia|].
  cbn [seq_iter_collect]. pose proof (safe_seq_iter_next s Hb) as Hs.
  destruct (seq_iter_next s) as [r s'] eqn:E. cbn [fst] in Hs.
  destruct r as [[e|]| | |]; try exact I; try contradiction.
  - apply seq_iter_next_some in E as (_ & Hlt).
    apply safe_bind; [apply IH; nlia|]. intros; exact I.
  - apply seq_iter_next_err in E. subst s'.
    apply safe_bind; [|intros; exact I].
    destruct fuel as [|fuel]; [lia|]. cbn [seq_iter_collect]. rewrite seq_iter_next_nil. exact I.
Qed.

Lemma safe_seq_iter_all s : blen s < two63 -> safe (seq_iter_all s).
Proof. intros Hb. apply safe_seq_iter_collect; auto. lia. Qed.

Lemma safe_tlv_try_next s nest :
  blen s < two63 -> nest + 1 < two64 -> safe (tlv_try_next s nest).
Proof.
  intros Hb Hn. destruct s as [|b s]; [exact I|]. unfold tlv_try_next.
  apply safe_bind; [apply safe_control|]. intros c _.
  destruct (is_cend (snd c)).
  - apply safe_bind; [apply safe_confirm_end|]. intros _ _.
    destruct (nest =? 0); [exact I|].
    apply safe_bind; [apply safe_next_enter|]. intros; exact I.
  - apply safe_bind; [apply safe_el_tag|]. intros t _.
    apply safe_bind; [apply safe_el_value; auto|]. intros v _.
    apply safe_bind; [apply safe_next_enter|]. intros nx _.
    apply safe_bind; [|intros; exact I].
    destruct (is_cstart (snd c)); [|exact I].
    destruct (N.ltb_spec (nest + 1) two64); [exact I|lia].
Qed.

Lemma tlv_try_next_some s nest x s' n' :
  tlv_try_next s nest = ROk (Some x, s', n') ->
  (length s' < length s)%nat /\ n' <= nest + 1.
Proof.
  destruct s as [|b s]; [discriminate|]. unfold tlv_try_next. intros H.
  apply bind_ok in H as (c & _ & H). destruct (is_cend (snd c)).
  - apply bind_ok in H as (_ & _ & H). destruct (nest =? 0); [discriminate|].
    apply bind_ok in H as (nx & Hn & H). injection H as _ <- <-.
    apply next_enter_shorter in Hn; [|discriminate]. split; [exact Hn|lia].
  - apply bind_ok in H as (t & _ & H). apply bind_ok in H as (v & _ & H).
    apply bind_ok in H as (nx & Hn & H). apply bind_ok in H as (nest' & Hnest & H).
    injection H as _ <- <-. apply next_enter_shorter in Hn; [|discriminate].
    split; [exact Hn|]. destruct (is_cstart (snd c)).
    + destruct (_ <? _); [|discriminate]. injection Hnest as <-. lia.
    + injection Hnest as <-. lia.
Qed.

Lemma safe_tlv_iter_collect fuel : forall s nest,
  nest + blen s < two63 -> (length s + 1 < fuel)%nat -> safe (tlv_iter_collect fuel s nest).
Proof.
  induction fuel as [|fuel IH]; intros s nest Hb Hf; [lia|].
  cbn [tlv_iter_collect].
  assert (Hs : safe (tlv_try_next s nest)) by (apply safe_tlv_try_next; nlia).
  destruct (tlv_try_next s nest) as [[[o s'] n']| | |] eqn:E; try contradiction.
  - destruct o as [x|]; [|exact I].
    apply tlv_try_next_some in E as (Hlt & Hn).
    apply safe_bind; [apply IH; nlia|]. intros; exact I.
  - apply safe_bind; [|intros; exact I].
    destruct fuel as [|fuel]; [lia|]. cbn [tlv_iter_collect tlv_try_next]. exact I.
Qed.

Lemma safe_tlv_iter_all s : blen s < two63 -> safe (tlv_iter_all s).
Proof. intros Hb. apply safe_tlv_iter_collect; [nlia|lia]. Qed.

Lemma safe_find_ctx_loop fuel : forall s ctx,
  blen s < two63 -> (length s < fuel)%nat -> safe (find_ctx_loop fuel s ctx).
Proof.
  induction fuel as [|fuel IH]; intros s ctx Hb Hf; [lia|].
  cbn [find_ctx_loop]. pose proof (safe_seq_iter_next s Hb) as Hs.
  destruct (seq_iter_next s) as [r s'] eqn:E. cbn [fst] in Hs.
  destruct r as [[e|]| | |]; try exact I; try contradiction.
  apply seq_iter_next_some in E as (_ & Hlt).
  apply safe_bind; [apply safe_el_try_ctx|]. intros oc _.
  assert (safe (find_ctx_loop fuel s' ctx)) by (apply IH; nlia).
  destruct oc as [c|]; [|assumption]. destruct (c =? ctx); [exact I|assumption].
Qed.

Lemma safe_seq_find_ctx s ctx : blen s < two63 -> safe (seq_find_ctx s ctx).
Proof. intros Hb. apply safe_find_ctx_loop; auto. Qed.

Lemma safe_seq_ctx s ctx : blen s < two63 -> safe (seq_ctx s ctx).
Proof.
  intros Hb. unfold seq_ctx. apply safe_bind; [apply safe_seq_find_ctx; auto|].
  intros e _. destruct (is_nil e); exact I.
Qed.

Lemma safe_scan_ctx_loop fuel : forall s ctx,
  blen s < two63 -> (length s < fuel)%nat -> safe (scan_ctx_loop fuel s ctx).
Proof.
  induction fuel as [|fuel IH]; intros s ctx Hb Hf; [lia|].
  cbn [scan_ctx_loop]. apply safe_bind; [apply safe_current|]. intros cur Hcur.
  destruct (is_nil cur) eqn:Enil.
  - cbn [rbind]. exact I.
  - apply safe_bind.
    + apply safe_bind; [apply safe_el_try_ctx|]. intros oc _.
      destruct oc as [c|]; [|exact I]. destruct (c =? ctx); [exact I|].
      destruct (ctx <? c); exact I.
    + intros r _. destruct r as [e|]; [exact I|].
      apply safe_bind; [apply safe_container_next; auto|]. intros nx Hn.
      assert (cur <> []) by (destruct cur; [discriminate|discriminate]).
      pose proof (container_next_progress _ _ _ Hcur H Hn). apply IH; nlia.
Qed.

Lemma scan_ctx_loop_le fuel : forall s ctx e s',
  scan_ctx_loop fuel s ctx = ROk (e, s') -> (length s' <= length s)%nat.
Proof.
  induction fuel as [|fuel IH]; intros s ctx e s' H; [discriminate|].
  cbn [scan_ctx_loop] in H. apply bind_ok in H as (cur & _ & H).
  apply bind_ok in H as (r & _ & H). destruct r as [x|].
  - injection H as _ <-. lia.
  - apply bind_ok in H as (nx & Hn & H). apply container_next_le in Hn. apply IH in H. lia.
Qed.

Lemma safe_seq_scan_ctx s ctx : blen s < two63 -> safe (seq_scan_ctx s ctx).
Proof. intros Hb. apply safe_scan_ctx_loop; auto. Qed.

(** * Decoding into a tree *)

Lemma el_container_shorter s sq :
  el_container s = ROk sq -> (length sq < length s)%nat.
Proof.
  unfold el_container. intros H. apply bind_ok in H as (c & Hc & H).
  apply control_nonempty in Hc. destruct (snd c); try discriminate.
  eapply next_enter_shorter; eauto.
Qed.

Lemma safe_decode fuel :
  (forall s, blen s < two63 -> (2 * length s + 1 <= fuel)%nat -> safe (decode_el fuel s)) /\
  (forall s, blen s < two63 -> (2 * length s + 2 <= fuel)%nat -> safe (decode_seq fuel s)).
Proof.
  induction fuel as [|fuel [IHe IHs]]; [split; intros; lia|]. split.
  - intros s Hb Hf. cbn [decode_el].
    apply safe_bind; [apply safe_el_tag|]. intros t _.
    apply safe_bind; [apply safe_el_value; auto|]. intros v _.
    destruct v; try exact I.
    apply safe_bind; [apply safe_el_container|]. intros sq Hsq.
    apply el_container_shorter in Hsq.
    apply safe_bind; [apply IHs; nlia|]. intros; exact I.
  - intros s Hb Hf. cbn [decode_seq].
    pose proof (safe_seq_iter_next s Hb) as Hs.
    destruct (seq_iter_next s) as [r s'] eqn:E. cbn [fst] in Hs.
    destruct r as [[e|]| | |]; try exact I; try contradiction.
    apply seq_iter_next_some in E as (-> & Hlt).
    apply safe_bind; [apply IHe; [auto|lia]|]. intros x _.
    apply safe_bind; [apply IHs; nlia|]. intros; exact I.
Qed.

Lemma safe_decode_top s : blen s < two63 -> safe (decode s).
Proof. intros Hb. unfold decode. apply (proj1 (safe_decode _)); auto. lia. Qed.

(** * Every probe *)

Lemma safe_pr {A} (f : A -> outv) r : safe r -> safe (pr f r).
Proof. apply safe_rmap. Qed.

Lemma safe_probe_scan s k : blen s < two63 -> safe (probe_scan s k).
Proof.
  intros Hb. unfold probe_scan.
  apply safe_bind; [apply safe_seq_scan_ctx; auto|]. intros [e s'] Hr.
  apply scan_ctx_loop_le in Hr. cbn [fst snd].
  apply safe_bind; [apply safe_seq_iter_all; nlia|]. intros; exact I.
Qed.

Theorem probe_all_safe s : blen s < two63 -> Forall safe (probe_all s).
Proof.
  intros Hb. unfold probe_all. apply Forall_app. split.
  - unfold probe_el. repeat (apply Forall_cons || apply Forall_nil); apply safe_pr;
      auto using safe_control, safe_el_tag, safe_el_value, safe_el_tlv, safe_el_raw_value,
        safe_el_i8, safe_el_i16, safe_el_i32, safe_el_i64, safe_el_u8, safe_el_u16, safe_el_u32,
        safe_el_u64, safe_el_f32, safe_el_f64, safe_el_str, safe_el_utf8, safe_el_octets,
        safe_el_bool, safe_el_is_container, safe_el_null, safe_el_struct, safe_el_array,
        safe_el_list, safe_el_container, safe_el_confirm_anon, safe_el_ctx, safe_el_try_ctx,
        safe_decode_top.
    apply safe_bind; [apply safe_el_tag|]. intros; apply safe_el_to_tlv; auto.
  - unfold probe_seq. repeat rewrite Forall_app. repeat split.
    + repeat (apply Forall_cons || apply Forall_nil); apply safe_pr;
        auto using safe_seq_iter_all, safe_tlv_iter_all, safe_el_raw_value.
    + apply Forall_map, Forall_forall. intros k _. apply safe_pr, safe_seq_find_ctx; auto.
    + apply Forall_map, Forall_forall. intros k _. apply safe_pr, safe_seq_ctx; auto.
    + apply Forall_map, Forall_forall. intros k _. apply safe_probe_scan; auto.
Qed.
