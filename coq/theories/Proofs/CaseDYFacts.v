(** C01, Dolev-Yao part: secrecy (derivable => guarded) and origin of ciphertexts under unguarded keys. *)
From Coq Require Import ZifyN ZifyBool.
From RsM Require Import Lib.MachInt Model.Cert Model.CertSpec Model.Case Model.CaseSpec Model.CaseDY
  Proofs.CaseFacts.
Open Scope N_scope.
Arguments N.eqb : simpl never.
Arguments N.min : simpl never.
Arguments N.max : simpl never.

Section Secrecy.
Variables (SN SK : list N).
Notation G := (guarded SN SK).

Lemma guarded_dh : forall sk pk, G sk -> G pk -> G (dh sk pk).
Proof.
  intros sk pk Hs Hp. unfold dh.
  destruct sk as [| a | | | | | | | | | | | | |]; try (cbn in *; tauto).
  destruct pk as [| | | p | | | | | | | | | | |]; try (cbn in *; tauto).
  destruct p as [| c | | | | | | | | | | | | |]; try (cbn in *; tauto).
  cbn [guarded] in Hs |- *.
  destruct (N.min_spec a c) as [[L E]|[L E]]; rewrite E;
  destruct (N.max_spec a c) as [[L' E']|[L' E']]; rewrite E'; try tauto; exfalso; lia.
Qed.

(** SECRECY: everything derivable from guarded knowledge is guarded. *)
Theorem derivable_guarded : forall K : knowledge, (forall t, K t -> G t) -> forall t, derivable K t -> G t.
Proof.
  intros K HK t H. induction H; cbn [guarded] in *; try tauto; auto.
  - apply guarded_dh; assumption.
Qed.

Lemma sub_refl : forall t, sub t t.
Proof. destruct t; cbn; auto. Qed.

Lemma sub_trans : forall t c0 d0, sub c0 d0 -> sub d0 t -> sub c0 t.
Proof.
  induction t; intros c0 d0 Hcd Hdt; cbn [sub] in Hdt;
    (destruct Hdt as [->|Hdt]; [exact Hcd|]); cbn [sub]; right;
    try contradiction; intuition eauto.
Qed.

Lemma sub_mentions : forall n0 t c0, sub c0 t -> mentions n0 c0 -> mentions n0 t.
Proof.
  induction t; intros c0 Hs Hm; cbn [sub] in Hs; (destruct Hs as [->|Hs]; [exact Hm|]);
    cbn [mentions]; try contradiction; intuition eauto.
Qed.

Lemma sub_dh : forall c sk pk, sub c (dh sk pk) -> c = dh sk pk \/ sub c sk \/ sub c pk.
Proof.
  intros c sk pk H. unfold dh in *.
  destruct sk as [| a | | | | | | | | | | | | |]; try (cbn [sub] in *; tauto).
  destruct pk as [| | | p | | | | | | | | | | |]; try (cbn [sub] in *; tauto).
  destruct p as [| e | | | | | | | | | | | | |]; try (cbn [sub] in *; tauto).
Qed.

(** ORIGIN: a ciphertext under a key that is not guarded, occurring anywhere in a derivable term,
    occurs in the knowledge itself - the attacker cannot have made it. *)
Theorem aead_origin : forall K : knowledge, (forall t, K t -> G t) ->
  forall t, derivable K t -> forall k n pt, ~ G k -> sub (TAead k n pt) t ->
  exists t0, K t0 /\ sub (TAead k n pt) t0.
Proof.
  intros K HK t H. induction H; intros k0 n0 pt0 Hk Hs;
    try (cbn [sub] in Hs; destruct Hs as [Hs|Hs]; [discriminate|]; try contradiction).
  - exists t. auto.
  - eauto.
  - destruct Hs; eauto.
  - apply (IHderivable k0 n0 pt0 Hk). cbn [sub]. auto.
  - apply (IHderivable k0 n0 pt0 Hk). cbn [sub]. auto.
  - eauto.
  - destruct Hs as [Hs|[Hs|Hs]]; eauto.
  - destruct Hs; eauto.
  - cbn [sub] in Hs. destruct Hs as [Hs|Hs].
    + inversion Hs; subst. exfalso. apply Hk. eapply derivable_guarded; eassumption.
    + destruct Hs as [Hs|[Hs|Hs]]; eauto.
  - apply (IHderivable1 k0 n0 pt0 Hk). cbn [sub]. auto.
  - destruct Hs; eauto.
  - apply (IHderivable k0 n0 pt0 Hk). cbn [sub]. auto.
  - apply sub_dh in Hs. destruct Hs as [Hs|[Hs|Hs]]; eauto.
    unfold dh in Hs. destruct sk; try discriminate. destruct pk; try discriminate. destruct pk; discriminate.
Qed.

End Secrecy.

Lemma derivable_mono : forall (K K' : knowledge), (forall t, K t -> K' t) -> forall t, derivable K t -> derivable K' t.
Proof.
  intros K K' H t D. induction D; try (econstructor; eauto; fail).
Qed.

Lemma kunion_guarded : forall SN SK (K : knowledge) l,
  (forall t, K t -> guarded SN SK t) -> (forall v, In v l -> guarded SN SK v) ->
  forall t, kunion K l t -> guarded SN SK t.
Proof. intros SN SK K l HK Hl t [H|H]; auto. Qed.

(** a ciphertext inside the payload term of a message sits inside one of its field values *)
Lemma sub_fields_term : forall fs k n pt,
  sub (TAead k n pt) (fields_term fs) -> exists v, In v (map fd_val fs) /\ sub (TAead k n pt) v.
Proof.
  induction fs as [|f r IH]; intros k n pt H; cbn [fields_term sub] in H.
  - destruct H as [H|[]]. discriminate.
  - destruct H as [H|[H|H]]; [discriminate| |].
    + destruct H as [H|[H|H]]; [discriminate| |].
      * destruct H as [H|[]]. discriminate.
      * destruct H as [H|[H|H]]; [discriminate| |].
        -- destruct H as [H|[]]. discriminate.
        -- exists (fd_val f). split; [left; reflexivity|exact H].
    + destruct (IH _ _ _ H) as (v & Hin & Hs). exists v. split; [right; exact Hin|exact Hs].
Qed.

Lemma sub_msg_term : forall m k n pt,
  sub (TAead k n pt) (msg_term m) -> exists v, In v (msg_vals m) /\ sub (TAead k n pt) v.
Proof.
  intros m k n pt H. unfold msg_term in H. cbn [sub] in H.
  destruct H as [H|[H|H]]; [discriminate| |].
  - apply sub_fields_term. exact H.
  - destruct H as [H|[]]. discriminate.
Qed.

Lemma mentions_fields_term : forall n fs,
  mentions n (fields_term fs) <-> exists v, In v (map fd_val fs) /\ mentions n v.
Proof.
  induction fs as [|f r IH]; cbn [fields_term mentions map In].
  - split; [intros []|intros (v & [] & _)].
  - rewrite IH. split.
    + intros [[[]|[[]|H]]|(v & Hin & Hm)]; [exists (fd_val f); auto|exists v; auto].
    + intros (v & [<-|Hin] & Hm); [left; right; right; exact Hm|right; exists v; auto].
Qed.

Lemma mentions_msg_term : forall n m,
  mentions n (msg_term m) <-> exists v, In v (msg_vals m) /\ mentions n v.
Proof.
  intros n m. unfold msg_term, msg_vals. cbn [mentions]. rewrite mentions_fields_term.
  split; [intros [H|[]]; exact H|intros H; left; exact H].
Qed.

Lemma not_sub_fresh : forall n c t, mentions n c -> ~ mentions n t -> ~ sub c t.
Proof. intros n c t Hc Ht Hs. apply Ht. eapply sub_mentions; eassumption. Qed.
