(** The decoder accepts only what the writer produces: if a byte string
    decodes to a tree, the string starts with exactly the encoding of
    that tree (so re-encoding a decoded element reproduces its bytes),
    and the tree is well-formed. *)
From Coq Require Import NArith ZArith List Bool Lia ZifyN ZifyBool.
From RsM Require Import Model.Tlv Model.TlvSpec Proofs.TlvFacts Proofs.TlvTotal Proofs.TlvWriter
  Proofs.TlvRoundtrip Proofs.TlvWithin Proofs.TlvReencode.
Import ListNotations.
Open Scope N_scope.

(** a decoded tree: well-formed, or a stray end-of-container marker at the root *)
Definition wf_root (x : tree) : Prop :=
  wf_tree x \/ exists t, x = Leaf t VEnd /\ wf_tag t.

Lemma pow256 n : 256 ^ N.of_nat n = wfull W1 ^ N.of_nat n.
Proof. reflexivity. Qed.

Lemma le_val_lt_wfull w sl : is_bytes sl -> blen sl = wlen w -> le_val sl < wfull w.
Proof.
  intros Hb Hl. pose proof (le_val_bound sl Hb) as H. rewrite Hl, wlen_wnat, <- wfull_pow in H. exact H.
Qed.

Lemma tag_of_slice_wf tt sl t :
  is_bytes sl -> blen sl = tagsize tt -> tag_of_slice tt sl = ROk t -> wf_tag t.
Proof.
  intros Hb Hl H. destruct tt; cbn [tag_of_slice tagsize] in *.
  - injection H as <-. exact I.
  - destruct sl as [|b sl]; [discriminate|]. injection H as <-. cbn.
    apply is_bytes_cons in Hb. tauto.
  - apply bind_ok in H as (v & Hv & H). injection H as <-. cbn.
    unfold le_exact in Hv. destruct (_ =? _); [|discriminate]. injection Hv as <-.
    apply (le_val_lt_wfull W2); assumption.
  - apply bind_ok in H as (v & Hv & H). injection H as <-. cbn.
    unfold le_exact in Hv. destruct (_ =? _); [|discriminate]. injection Hv as <-.
    apply (le_val_lt_wfull W4); assumption.
  - apply bind_ok in H as (v & Hv & H). injection H as <-. cbn.
    unfold le_exact in Hv. destruct (_ =? _); [|discriminate]. injection Hv as <-.
    apply (le_val_lt_wfull W2); assumption.
  - apply bind_ok in H as (v & Hv & H). injection H as <-. cbn.
    unfold le_exact in Hv. destruct (_ =? _); [|discriminate]. injection Hv as <-.
    apply (le_val_lt_wfull W4); assumption.
  - destruct sl as [|a0 [|a1 [|a2 [|a3 [|a4 [|a5 [|]]]]]]];
      try (rewrite ?blen_cons, ?blen_nil in Hl; lia).
    destruct (_ <? _); [discriminate|]. injection H as <-.
    repeat (apply is_bytes_cons in Hb as [? Hb]).
    cbn [wf_tag subsl firstn skipn le_val]. lia.
  - destruct sl as [|a0 [|a1 [|a2 [|a3 [|a4 [|a5 [|a6 [|a7 [|]]]]]]]]];
      try (rewrite ?blen_cons, ?blen_nil in Hl; lia).
    destruct (_ <? _); [discriminate|]. injection H as <-.
    repeat (apply is_bytes_cons in Hb as [? Hb]).
    cbn [wf_tag subsl firstn skipn le_val]. lia.
Qed.

(** the header bytes of an element whose tag can be read *)
Lemma header_prefix s c t :
  is_bytes s -> control s = ROk c -> el_tag s = ROk t ->
  wf_tag t /\ tagtype_of_tag t = fst c /\
  exists rest, s = (ctl_byte (tagtype_of_tag t) (snd c) :: enc_tag t) ++ rest.
Proof.
  intros Hs Hc Ht. destruct s as [|b s1]; [cbn in Hc; discriminate|].
  apply is_bytes_cons in Hs as [Hb Hs1].
  pose proof Hc as Hc'. cbn [control] in Hc'. apply parse_control_inv in Hc'; [|exact Hb].
  unfold el_tag in Ht. rewrite Hc, tag_start_cons in Ht. cbn [rbind] in Ht.
  apply bind_ok in Ht as (sl & Hsl & Ht).
  apply ok_or_ok, get_to_some in Hsl as (_ & Esl & Lsl).
  assert (Hbsl : is_bytes sl) by (subst sl; apply is_bytes_firstn; exact Hs1).
  pose proof (tag_of_slice_wf _ _ _ Hbsl Lsl Ht) as Hwf.
  apply tag_of_slice_inv in Ht as [Htt Henc]; [|exact Hbsl|exact Lsl].
  split; [exact Hwf|]. split; [exact Htt|].
  exists (skipn (N.to_nat (tagsize (fst c))) s1).
  cbn [app]. rewrite Htt, <- Hc', Henc, Esl, firstn_skipn. reflexivity.
Qed.

Lemma of_to_signed w u : u < wfull w -> of_signed w (to_signed w u) = u.
Proof.
  intros H. unfold to_signed, of_signed.
  assert (Hf : wfull w = 2 * whalf w) by (destruct w; reflexivity).
  destruct (N.ltb_spec u (whalf w)).
  - rewrite Z.mod_small by lia. lia.
  - assert (E : ((Z.of_N u - Z.of_N (wfull w)) mod Z.of_N (wfull w) = Z.of_N u)%Z).
    { symmetry. apply Z.mod_unique_pos with (q := (-1)%Z); lia. }
    rewrite E. lia.
Qed.

Lemma to_signed_range w u :
  u < wfull w -> (- Z.of_N (whalf w) <= to_signed w u < Z.of_N (whalf w))%Z.
Proof.
  intros H. unfold to_signed.
  assert (Hf : wfull w = 2 * whalf w) by (destruct w; reflexivity).
  destruct (N.ltb_spec u (whalf w)); lia.
Qed.

(** facts about the value slice of a non-container element *)
Lemma value_slice_facts s c sl :
  is_bytes s -> is_container_vt (snd c) = false -> container_value s c = ROk sl ->
  is_bytes sl /\
  match fixed_size (snd c) with
  | Some n => blen sl = n
  | None => blen sl < 256 ^ varlen (snd c)
  end.
Proof.
  intros Hs Hnc H. split.
  - apply container_value_within in H as (hd & tl & -> & _).
    apply is_bytes_app in Hs as [_ Hs]. apply is_bytes_app in Hs. tauto.
  - destruct (fixed_size (snd c)) as [n|] eqn:Ef.
    + eapply container_value_fixed; eauto.
    + unfold container_value, container_value_len in H. rewrite Hnc in H.
      apply bind_ok in H as (vl & Hvl & H). apply bind_ok in H as (vs & _ & H).
      apply ok_or_ok, get_to_some in H as (_ & _ & ->).
      unfold value_len in Hvl. rewrite Ef in Hvl.
      apply bind_ok in Hvl as (vls & Hvls & Hvl). apply bind_ok in Hvl as (lf & Hlf & Hvl).
      apply ok_or_ok, get_to_some in Hlf as (_ & Elf & Llf).
      unfold le_exact in Hvl. destruct (_ =? _); [|discriminate]. injection Hvl as <-.
      rewrite <- Llf. apply le_val_bound. subst lf. apply is_bytes_firstn.
      destruct s as [|b s1]; [cbn in Hvls; discriminate|].
      unfold value_len_start in Hvls. rewrite tag_start_cons in Hvls.
      apply ok_or_ok, get_from_some in Hvls as (_ & -> & _).
      apply is_bytes_skipn. apply is_bytes_cons in Hs. tauto.
Qed.

(** a decoded leaf is well-formed and the input starts with its encoding *)
Lemma leaf_inv s t v :
  is_bytes s -> el_tag s = ROk t -> el_value s = ROk v ->
  (forall k, v <> VCont k) -> v <> VEnd ->
  wf_tag t /\ wf_val v /\ exists rest, s = w_tlv t v ++ rest.
Proof.
  intros Hs Ht Hv Hnk Hne.
  pose proof Hv as Hv'. unfold el_value in Hv'.
  apply bind_ok in Hv' as (c & Hc & Hv'). apply bind_ok in Hv' as (sl & Hsl & Hv').
  destruct (header_prefix s c t Hs Hc Ht) as (Hwt & Htt & _).
  split; [exact Hwt|].
  assert (Hraw : el_raw_value s = ROk sl) by (unfold el_raw_value; rewrite Hc; exact Hsl).
  pose proof (el_to_tlv_reproduces s c t sl Hs Hc Ht Hraw) as Hre.
  unfold el_to_tlv in Hre. destruct s as [|b0 s0] eqn:Es; [cbn in Hc; discriminate|].
  rewrite <- Es in *. assert (Hnil : is_nil s = false) by (rewrite Es; reflexivity).
  rewrite Hnil, Hc in Hre. cbn [rbind] in Hre. rewrite Hraw in Hre. cbn [rbind] in Hre.
  assert (Hnc : is_container_vt (snd c) = false).
  { destruct (snd c); try reflexivity.
    - injection Hv' as <-. exfalso. eapply Hnk. reflexivity.
    - injection Hv' as <-. congruence. }
  destruct (value_slice_facts s c sl Hs Hnc Hsl) as (Hbsl & Hlen).
  (* [out] = what el_to_tlv wrote = a prefix of s; show it is w_tlv t v *)
  assert (Hgoal : wf_val v /\
    (if 0 <? varlen (snd c)
     then w_raw_value t (snd c)
            (firstn (N.to_nat (varlen (snd c))) (le_bytes 8 (blen sl))) ++ sl
     else w_raw_value t (snd c) sl) = w_tlv t v).
  { rewrite w_tlv_raw.
    destruct (snd c) as [w|w| | | | |w|w| |k|] eqn:Evt; cbn [varlen fixed_size] in *;
      try (change (0 <? 0) with false; cbv iota).
    - apply bind_ok in Hv' as (u & Hu & Hv'). injection Hv' as <-.
      unfold le_exact in Hu. destruct (_ =? _); [|discriminate]. injection Hu as <-.
      pose proof (le_val_lt_wfull w sl Hbsl Hlen) as Hlt.
      split; [apply to_signed_range; exact Hlt|].
      cbn [vtype_of_val val_payload]. rewrite of_to_signed by exact Hlt.
      f_equal. symmetry. apply le_bytes_le_val_n; [exact Hbsl|].
      unfold blen in Hlen. rewrite wlen_wnat in Hlen. lia.
    - apply bind_ok in Hv' as (u & Hu & Hv'). injection Hv' as <-.
      unfold le_exact in Hu. destruct (_ =? _); [|discriminate]. injection Hu as <-.
      pose proof (le_val_lt_wfull w sl Hbsl Hlen) as Hlt.
      split; [exact Hlt|]. cbn [vtype_of_val val_payload].
      f_equal. symmetry. apply le_bytes_le_val_n; [exact Hbsl|].
      unfold blen in Hlen. rewrite wlen_wnat in Hlen. lia.
    - injection Hv' as <-. split; [exact I|]. apply blen_0 in Hlen. subst sl. reflexivity.
    - injection Hv' as <-. split; [exact I|]. apply blen_0 in Hlen. subst sl. reflexivity.
    - apply bind_ok in Hv' as (u & Hu & Hv'). injection Hv' as <-.
      unfold le_exact in Hu. destruct (_ =? _); [|discriminate]. injection Hu as <-.
      split; [apply (le_val_lt_wfull W4); assumption|]. cbn [vtype_of_val val_payload].
      f_equal. symmetry. apply le_bytes_le_val_n; [exact Hbsl|unfold blen in Hlen; lia].
    - apply bind_ok in Hv' as (u & Hu & Hv'). injection Hv' as <-.
      unfold le_exact in Hu. destruct (_ =? _); [|discriminate]. injection Hu as <-.
      split; [apply (le_val_lt_wfull W8); assumption|]. cbn [vtype_of_val val_payload].
      f_equal. symmetry. apply le_bytes_le_val_n; [exact Hbsl|unfold blen in Hlen; lia].
    - destruct (utf8_valid sl) eqn:Eu; [|discriminate]. injection Hv' as <-.
      rewrite wlen_wnat, <- wfull_pow in Hlen.
      split; [cbn; auto|].
      assert (Hpos : (0 <? wlen w) = true) by (destruct w; reflexivity). rewrite Hpos.
      cbn [vtype_of_val val_payload]. unfold w_raw_value. cbn [app]. rewrite <- !app_assoc.
      do 3 f_equal. rewrite firstn_le_bytes; [f_equal; destruct w; reflexivity|destruct w; cbn; lia].
    - injection Hv' as <-. rewrite wlen_wnat, <- wfull_pow in Hlen.
      split; [cbn; auto|].
      assert (Hpos : (0 <? wlen w) = true) by (destruct w; reflexivity). rewrite Hpos.
      cbn [vtype_of_val val_payload]. unfold w_raw_value. cbn [app]. rewrite <- !app_assoc.
      do 3 f_equal. rewrite firstn_le_bytes; [f_equal; destruct w; reflexivity|destruct w; cbn; lia].
    - injection Hv' as <-. split; [exact I|]. apply blen_0 in Hlen. subst sl. reflexivity.
    - discriminate Hnc.
    - discriminate Hnc. }
  destruct Hgoal as [Hwv Hout]. split; [exact Hwv|].
  exists (skipn (N.to_nat (hdr_len c + blen sl)) s).
  rewrite <- Hout.
  assert (E : (if 0 <? varlen (snd c)
     then w_raw_value t (snd c)
            (firstn (N.to_nat (varlen (snd c))) (le_bytes 8 (blen sl))) ++ sl
     else w_raw_value t (snd c) sl) = firstn (N.to_nat (hdr_len c + blen sl)) s).
  { destruct (0 <? varlen (snd c)); injection Hre as Hre; exact Hre. }
  rewrite E. symmetry. apply firstn_skipn.
Qed.

(** * Containers and sequences *)

Lemma end_inv s : is_bytes s -> control s = ROk (GAnon, TEnd) -> exists r, s = w_end ++ r.
Proof.
  intros Hs Hc. destruct s as [|b r]; [cbn in Hc; discriminate|].
  apply is_bytes_cons in Hs as [Hb _]. cbn [control] in Hc.
  apply parse_control_inv in Hc; [|exact Hb]. exists r. subst b. reflexivity.
Qed.

Lemma ctl_is_end_inv c : ctl_is_end c = true -> c = (GAnon, TEnd).
Proof. destruct c as [[] []]; cbn; congruence. Qed.

Lemma seq_iter_next_none s s' :
  seq_iter_next s = (ROk None, s') -> s = [] \/ control s = ROk (GAnon, TEnd).
Proof.
  unfold seq_iter_next.
  destruct (let! cur := current s in let! nx := container_next s in ROk (cur, nx)) as [[cur nx]| | |] eqn:E;
    try (intros H; discriminate H).
  intros H. apply bind_ok in E as (cur' & Hc & E). apply bind_ok in E as (nx' & _ & E).
  injection E as <- <-. destruct cur' as [|b0 cur0]; [|discriminate H].
  destruct s as [|b s]; [left; reflexivity|right].
  unfold current in Hc. apply bind_ok in Hc as (c & Hc & Hcur). rewrite Hc. f_equal.
  destruct (is_cend (snd c)); [|discriminate].
  apply bind_ok in Hcur as (u & Hce & _). unfold confirm_end in Hce.
  destruct (ctl_is_end c) eqn:Ee; [|discriminate]. apply ctl_is_end_inv. exact Ee.
Qed.

Lemma seq_iter_next_some_full s e s' :
  seq_iter_next s = (ROk (Some e), s') ->
  e = s /\ container_next s = ROk s' /\ exists c, control s = ROk c /\ is_cend (snd c) = false.
Proof.
  intros H. pose proof (seq_iter_next_some _ _ _ H) as [He _]. split; [exact He|].
  unfold seq_iter_next in H.
  destruct (let! cur := current s in let! nx := container_next s in ROk (cur, nx)) as [[cur nx]| | |] eqn:E;
    try discriminate H.
  apply bind_ok in E as (cur' & Hc & E). apply bind_ok in E as (nx' & Hn & E).
  injection E as <- <-. destruct cur' as [|b0 cur0] eqn:Ecur; [discriminate H|].
  injection H as _ <-. split; [exact Hn|].
  destruct s as [|b s]; [cbn in Hc; discriminate|].
  unfold current in Hc. apply bind_ok in Hc as (c & Hc & Hcur). exists c. split; [exact Hc|].
  destruct (is_cend (snd c)); [|reflexivity].
  apply bind_ok in Hcur as (_ & _ & Hcur). discriminate.
Qed.

Lemma el_value_cont_inv s k :
  el_value s = ROk (VCont k) ->
  exists c sl, control s = ROk c /\ snd c = TCont k /\ container_value s c = ROk sl.
Proof.
  unfold el_value. intros H. apply bind_ok in H as (c & Hc & H).
  apply bind_ok in H as (sl & Hsl & H). exists c, sl. split; [exact Hc|]. split; [|exact Hsl].
  destruct (snd c) as [w|w| | | | |w|w| |k'|]; try discriminate;
    try (apply bind_ok in H as (? & _ & H); discriminate).
  - destruct (utf8_valid sl); discriminate.
  - injection H as ->. reflexivity.
Qed.

Lemma el_value_end_inv s :
  el_value s = ROk VEnd -> exists c, control s = ROk c /\ snd c = TEnd.
Proof.
  unfold el_value. intros H. apply bind_ok in H as (c & Hc & H).
  apply bind_ok in H as (sl & Hsl & H). exists c. split; [exact Hc|].
  destruct (snd c) as [w|w| | | | |w|w| |k'|]; try discriminate;
    try (apply bind_ok in H as (? & _ & H); discriminate); try reflexivity.
  destruct (utf8_valid sl); discriminate.
Qed.

(** an unterminated container has no value *)
Lemma unterminated_no_value t k cs :
  wf_list cs -> blen (w_start t k ++ encode_list cs) < two63 ->
  forall vl, container_value_len (w_start t k ++ encode_list cs ++ []) (tagtype_of_tag t, TCont k) <> ROk vl.
Proof.
  intros Hcs Hb vl. unfold container_value_len. cbn [snd is_container_vt is_cstart orb].
  pose proof (items_list_le_length cs) as Hit.
  remember (S (length (w_start t k ++ encode_list cs ++ []))) as F.
  assert (HF : (items_list cs + 1 <= F)%nat).
  { subst F. rewrite !app_length. lia. }
  replace F with (items_list cs + (F - items_list cs))%nat by lia.
  rewrite blen_app in Hb.
  destruct (cvl_loop_list cs Hcs (w_start t k) (F - items_list cs)%nat [] 0 1)
    as (it' & Hsk & E); [intros R; apply start_next_enter| lia | | |].
  { unfold two63, two64 in *. lia. }
  { unfold two63, two64 in *. lia. }
  rewrite E. destruct (F - items_list cs)%nat as [|f] eqn:EF; [lia|].
  rewrite cvl_loop_S. change (1 =? 0) with false. cbv iota. rewrite Hsk. cbn. discriminate.
Qed.

Lemma decode_inv fuel :
  (forall s x, is_bytes s -> blen s < two63 -> decode_el fuel s = ROk x ->
     wf_root x /\ exists rest, s = encode x ++ rest) /\
  (forall s cs, is_bytes s -> blen s < two63 -> decode_seq fuel s = ROk cs ->
     wf_list cs /\ exists rest, s = encode_list cs ++ rest /\
                               (rest = [] \/ exists r, rest = w_end ++ r)).
Proof.
  induction fuel as [|fuel [IHe IHs]]; [split; intros; discriminate|]. split.
  - intros s x Hs Hb H. rewrite decode_el_S in H.
    apply bind_ok in H as (t & Ht & H). apply bind_ok in H as (v & Hv & H).
    destruct v as [w z|w n|b|bits|bits|w d|w d| |k|];
      try (injection H as <-;
           destruct (leaf_inv s t _ Hs Ht Hv) as (Hwt & Hwv & rest & E);
           [intros k; discriminate|discriminate|];
           split; [left; split; assumption|exists rest; exact E]).
    + (* a container *)
      apply bind_ok in H as (sq & Hsq & H). apply bind_ok in H as (cs & Hcs & H).
      injection H as <-.
      destruct (el_value_cont_inv s k Hv) as (c & sl & Hc & Hk & Hsl).
      destruct (header_prefix s c t Hs Hc Ht) as (Hwt & Htt & rest0 & E0).
      rewrite Hk in E0.
      assert (Estart : ctl_byte (tagtype_of_tag t) (TCont k) :: enc_tag t = w_start t k).
      { unfold w_start, w_raw_value. rewrite app_nil_r. reflexivity. }
      rewrite Estart in E0.
      assert (Esq : sq = rest0).
      { unfold el_container in Hsq. rewrite Hc in Hsq. cbn [rbind] in Hsq. rewrite Hk in Hsq.
        rewrite E0, start_next_enter in Hsq. injection Hsq as <-. reflexivity. }
      subst sq.
      assert (Hs0 : is_bytes rest0) by (rewrite E0 in Hs; apply is_bytes_app in Hs; tauto).
      assert (Hb0 : blen rest0 < two63) by (rewrite E0, blen_app in Hb; lia).
      destruct (IHs rest0 cs Hs0 Hb0 Hcs) as (Hwcs & rest1 & E1 & Hend).
      destruct Hend as [->|(r & ->)].
      * exfalso. unfold container_value in Hsl.
        apply bind_ok in Hsl as (vl & Hvl & _).
        assert (Ec : c = (tagtype_of_tag t, TCont k)) by (destruct c; cbn in *; congruence).
        rewrite Ec, E0, E1 in Hvl. eapply unterminated_no_value; [exact Hwcs| |exact Hvl].
        rewrite E0, E1, app_nil_r in Hb. exact Hb.
      * split; [left; apply wf_node; split; assumption|].
        exists r. rewrite encode_node, E0, E1. reflexivity.
    + (* a stray end-of-container marker *)
      injection H as <-.
      destruct (el_value_end_inv s Hv) as (c & Hc & Hk).
      destruct (header_prefix s c t Hs Hc Ht) as (Hwt & Htt & rest0 & E0).
      split; [right; exists t; split; [reflexivity|exact Hwt]|].
      exists rest0. rewrite Hk in E0. cbn [encode]. unfold w_tlv, w_raw_value.
      cbn [vtype_of_val val_payload]. rewrite !app_nil_r. exact E0.
  - intros s cs Hs Hb H. rewrite decode_seq_S in H.
    destruct (seq_iter_next s) as [r s'] eqn:E.
    destruct r as [[e|]| | |]; try discriminate.
    + apply bind_ok in H as (x & Hx & H). apply bind_ok in H as (r & Hr & H). injection H as <-.
      destruct (seq_iter_next_some_full _ _ _ E) as (-> & Hn & c & Hc & Hnend).
      destruct (IHe s x Hs Hb Hx) as (Hwx & rest1 & E1).
      assert (Hwx' : wf_tree x).
      { destruct Hwx as [Hwx|(t & -> & _)]; [exact Hwx|exfalso].
        rewrite E1 in Hc. cbn [encode] in Hc. rewrite leaf_control in Hc.
        injection Hc as <-. discriminate Hnend. }
      rewrite E1 in Hn. rewrite container_next_tree in Hn; [|exact Hwx'|rewrite <- E1; exact Hb].
      injection Hn as <-.
      assert (Hs1 : is_bytes rest1) by (rewrite E1 in Hs; apply is_bytes_app in Hs; tauto).
      assert (Hb1 : blen rest1 < two63) by (rewrite E1, blen_app in Hb; lia).
      destruct (IHs rest1 r Hs1 Hb1 Hr) as (Hwr & rest2 & E2 & Hend).
      split; [constructor; assumption|].
      exists rest2. split; [|exact Hend]. rewrite encode_list_cons, E1, E2. reflexivity.
    + injection H as <-. split; [constructor|]. exists s. split; [reflexivity|].
      destruct (seq_iter_next_none _ _ E) as [->|Hc]; [left; reflexivity|right].
      apply end_inv; assumption.
Qed.

(** Re-encoding a decoded element reproduces its bytes (tree level). *)
Theorem decode_reencode s x :
  is_bytes s -> blen s < two63 -> decode s = ROk x ->
  wf_root x /\ exists rest, s = encode x ++ rest.
Proof. intros Hs Hb H. exact (proj1 (decode_inv _) s x Hs Hb H). Qed.

(** hence decoding is injective on prefixes: the decoder and the writer are inverse *)
Corollary decode_then_decode s x :
  is_bytes s -> blen s < two63 -> decode s = ROk x -> wf_tree x ->
  forall rest', blen (encode x ++ rest') < two63 -> decode (encode x ++ rest') = ROk x.
Proof. intros _ _ _ Hw rest' Hb. apply decode_encode; assumption. Qed.
