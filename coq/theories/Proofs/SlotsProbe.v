(** A new handshake gets the two session slots it needs (the unsecured
    session for its first message and the reserved slot of its handler)
    whenever two slots are reclaimable: free, or held by idle sessions. *)
From RsM Require Import Lib.MachInt Model.Slots Model.SlotsSpec Proofs.SlotsFacts Proofs.SlotsInv
  Proofs.SlotsStep Proofs.SlotsEvict Proofs.SlotsNode Proofs.SlotsOwn Proofs.SlotsExch Proofs.SlotsExchNode.
From Coq Require Import Permutation ZifyN ZifyBool Arith.
Open Scope N_scope.

Arguments N.add : simpl never.
Arguments N.ltb : simpl never.
Arguments N.eqb : simpl never.
Arguments N.mul : simpl never.

(** the first message of a handshake, repeated once after a Busy answer *)
Definition first_msg (cap mx : nat) (k : hkind) (now : N) (n : node) : node * option N :=
  match nstep cap mx n (NRx k now) with
  | (n1, RId a) => (n1, Some a)
  | (n1, _) => match nstep cap mx n1 (NRx k now) with
               | (n2, RId a) => (n2, Some a)
               | (n2, _) => (n2, None)
               end
  end.

Section Probe.
Variables cap mx : nat.

(** one more session can be had / two more sessions can be had *)
Definition room1 (now : N) (l : list session) : Prop :=
  (length l < cap)%nat \/ exists y, In y l /\ idle now y = true.
Definition room2 (now : N) (l : list session) : Prop :=
  (length l + 2 <= cap)%nat \/
  ((length l < cap)%nat /\ exists y, In y l /\ idle now y = true) \/
  (exists y1 y2, In y1 l /\ In y2 l /\ s_id y1 <> s_id y2 /\ idle now y1 = true /\ idle now y2 = true).

Lemma t_upd_keeps : forall t id f y, In y (t_sess t) -> s_id y <> id -> In y (t_sess (t_upd id f t)).
Proof.
  intros t id f y Hin Hne. unfold t_upd. destruct (t_find id t) as [i|] eqn:Hf; auto.
  destruct (t_find_decomp _ _ _ Hf) as [x [rest [_ [Hx [Hp [_ Hu]]]]]]. cbn.
  apply (Permutation_in _ (Permutation_sym (Hu f))). right.
  apply (Permutation_in _ Hp) in Hin. destruct Hin as [->|]; auto. congruence.
Qed.

Lemma t_get_keeps : forall t id now t1 y,
  t_get id now t = Some t1 -> In y (t_sess t) -> s_id y <> id -> In y (t_sess t1).
Proof.
  intros t id now t1 y Hg Hin Hne. unfold t_get in Hg. destruct (t_find id t) as [i|] eqn:Hf; inversion Hg; subst.
  pose proof (t_upd_keeps t id (set_last now) y Hin Hne) as H. unfold t_upd in H. rewrite Hf in H. exact H.
Qed.

Lemma t_upd_length : forall t id f, length (t_sess (t_upd id f t)) = length (t_sess t).
Proof. intros. unfold t_upd. destruct (t_find id t); cbn; auto. apply upd_nth_length. Qed.

Lemma t_get_length : forall t id now t1, t_get id now t = Some t1 -> length (t_sess t1) = length (t_sess t).
Proof.
  intros t id now t1 Hg. unfold t_get in Hg. destruct (t_find id t); inversion Hg; subst; cbn. apply upd_nth_length.
Qed.

Lemma ex_add_keeps : forall s id p now y,
  In y (t_sess (tb s)) -> s_id y <> id -> In y (t_sess (tb (fst (ex_add mx s id p now)))).
Proof.
  intros s id p now y Hin Hne. unfold ex_add.
  destruct (t_lookup id (tb s)) as [x|]; auto. destruct (p && s_reserved x); auto.
  destruct (t_get id now (tb s)) as [t1|] eqn:Hg; auto.
  pose proof (t_get_keeps _ _ _ _ _ Hg Hin Hne) as H1.
  destruct (s_expired x); auto. destruct (x_add mx (s_exch x) _) as [[x' i]|]; auto.
  cbn. apply t_upd_keeps; auto.
Qed.

Lemma ex_add_length : forall s id p now,
  length (t_sess (tb (fst (ex_add mx s id p now)))) = length (t_sess (tb s)).
Proof.
  intros s id p now. unfold ex_add.
  destruct (t_lookup id (tb s)) as [x|]; auto. destruct (p && s_reserved x); auto.
  destruct (t_get id now (tb s)) as [t1|] eqn:Hg; auto.
  pose proof (t_get_length _ _ _ _ Hg) as H1.
  destruct (s_expired x); auto. destruct (x_add mx (s_exch x) _) as [[x' i]|]; auto.
  cbn. rewrite t_upd_length. auto.
Qed.

(** the first message when a slot is free *)
Lemma nrx_free : forall n k now,
  inv1 cap (core n) -> next_of (core n) + 2 <= UID_MAX -> (length (nl n) < cap)%nat ->
  exists id n1, nstep cap mx n (NRx k now) = (n1, RId (n_next n)) /\
    atts n1 = atts n ++ [mkA (n_next n) k id O None 0 false] /\ marker n1 = marker n /\
    length (nl n1) = S (length (nl n)) /\ (forall y, In y (nl n) -> In y (nl n1)).
Proof.
  intros n k now Hi Hb Hlt. unfold nl in *. cbn [nstep step].
  destruct (t_add cap (tb (core n)) false now) as [t1 r] eqn:Ha.
  destruct (t_add_spec _ _ _ _ _ _ Ha ltac:(unfold next_of in Hb; lia)) as [Hn Hs].
  destruct r as [id|]; [|destruct Hs; lia]. destruct Hs as [Hid [_ Hs]].
  eexists id, _. split; [reflexivity|]. cbn [atts marker core]. repeat split; auto.
  - unfold do1. cbn [step]. rewrite ex_add_length. cbn. rewrite Hs, app_length. cbn. lia.
  - intros y Hy. unfold do1. cbn [step]. apply ex_add_keeps.
    + cbn. rewrite Hs. apply in_or_app; auto.
    + destruct Hi as [[_ [_ [_ Hfr]]] _]. specialize (Hfr y Hy). lia.
Qed.

(** the first message when the table is full and two sessions are idle: Busy, one of them is evicted *)
Lemma nrx_full : forall n k now y1 y2,
  inv1 cap (core n) -> next_of (core n) + 2 <= UID_MAX -> (cap <= length (nl n))%nat ->
  In y1 (nl n) -> In y2 (nl n) -> s_id y1 <> s_id y2 -> idle now y1 = true -> idle now y2 = true ->
  exists n1, nstep cap mx n (NRx k now) = (n1, RErr E_BUSY) /\
    atts n1 = atts n /\ marker n1 = marker n /\ n_next n1 = n_next n /\
    (length (nl n1) < cap)%nat /\ exists y, In y (nl n1) /\ idle now y = true.
Proof.
  intros n k now y1 y2 Hi Hb Hfull H1 H2 Hne I1 I2. unfold nl in *. cbn [nstep step].
  destruct (t_add cap (tb (core n)) false now) as [t1 r] eqn:Ha.
  destruct (t_add_spec _ _ _ _ _ _ Ha ltac:(unfold next_of in Hb; lia)) as [Hn Hs].
  destruct r as [id|]; [destruct Hs as [_ [Hlt _]]; lia|]. destruct Hs as [Hs _].
  eexists. split; [reflexivity|]. cbn [atts marker n_next core set_core]. repeat split; auto.
  - unfold do1. cbn [step tb hs].
    destruct (t_evict now t1) as [t2 [v|]] eqn:He.
    + destruct (t_evict_spec _ _ _ _ He) as [i [x [_ [_ [_ [Hp _]]]]]]. cbn.
      apply Permutation_length in Hp. cbn in Hp. rewrite Hs in Hp.
      destruct Hi as [[_ [Hlen _]] _]. lia.
    + exfalso. unfold t_evict in He. destruct (evict_choice now t1) as [i|] eqn:Hc.
      * destruct (evict_only_idle _ _ _ Hc) as [z [Hz _]]. rewrite Hz in He. inversion He.
      * eapply (evict_complete now t1 y1); auto. rewrite Hs; auto.
  - unfold do1. cbn [step tb hs].
    destruct (t_evict now t1) as [t2 [v|]] eqn:He.
    + destruct (t_evict_spec _ _ _ _ He) as [i [x [_ [_ [_ [Hp _]]]]]]. cbn. rewrite Hs in Hp.
      destruct (N.eq_dec (s_id x) (s_id y1)) as [E|E].
      * exists y2. split; auto. apply (Permutation_in _ Hp) in H2. destruct H2 as [<-|]; auto. congruence.
      * exists y1. split; auto. apply (Permutation_in _ Hp) in H1. destruct H1 as [<-|]; auto. congruence.
    + apply t_evict_none in He. subst t2. cbn. exists y1. rewrite Hs. auto.
Qed.

(** accepting an exchange leaves idle sessions alone *)
Lemma accept_keeps_idle : forall s id xi now0 now y,
  NoDup (ids (tb s)) -> In y (t_sess (tb s)) -> idle now y = true ->
  In y (t_sess (tb (fst (step cap mx s (OExAccept id xi now0))))) /\
  length (t_sess (tb (fst (step cap mx s (OExAccept id xi now0))))) = length (t_sess (tb s)).
Proof.
  intros s id xi now0 now y Hnd Hin Hidle. cbn [step].
  destruct (t_lookup id (tb s)) as [x|] eqn:Hlk; [|auto].
  destruct (nth_error (s_exch x) xi) as [[[]|]|] eqn:Hsl; auto.
  destruct (t_get id now0 (tb s)) as [t1|] eqn:Hg; auto. cbn [fst tb].
  assert (Hne : s_id y <> id).
  { intros E. rewrite (t_lookup_in id _ y Hnd Hin E) in Hlk. inversion Hlk; subst x.
    destruct (idle_not_busy _ _ Hidle) as [_ Hno]. unfold no_exch in Hno.
    rewrite forallb_forall in Hno. specialize (Hno _ (nth_error_In _ _ Hsl)). discriminate. }
  split; [apply t_upd_keeps; auto; eapply t_get_keeps; eauto|].
  rewrite t_upd_length. eapply t_get_length; eauto.
Qed.

(** the handler's accept: with room for one more session its reserve succeeds *)
Lemma naccept_ok : forall n a x now,
  inv1 cap (core n) -> next_of (core n) + 4 <= UID_MAX ->
  find (att_has a) (atts n) = Some x -> a_stage x = 0 ->
  room1 now (nl n) ->
  (a_kind x = HPase -> marker_live now (marker n) = None) ->
  snd (nstep cap mx n (NAccept a VGood now)) = ROk.
Proof.
  intros n a x now Hi Hb Hf Hst Hroom Hm. cbn [nstep]. rewrite Hf, Hst. cbn [N.eqb negb].
  replace (0 =? 0) with true by reflexivity. cbn [negb].
  set (c1 := do1 cap mx (core n) (OExAccept (a_sess x) (a_xi x) now)).
  assert (Hi1 : inv1 cap c1 /\ next_of c1 <= next_of (core n) + 2) by (apply inv1_do1; auto; lia).
  destruct Hi1 as [Hi1 Hb1].
  assert (Hroom1 : (length (t_sess (tb c1)) < cap)%nat \/
                   ((0 < cap)%nat /\ exists y, In y (t_sess (tb c1)) /\ idle now y = true)).
  { unfold c1, do1. destruct Hroom as [Hl|[y [Hy Hidle]]].
    - left. cbn [step]. unfold nl in Hl.
      destruct (t_lookup (a_sess x) (tb (core n))) as [z|]; auto.
      destruct (nth_error (s_exch z) (a_xi x)) as [[[]|]|]; auto.
      destruct (t_get (a_sess x) now (tb (core n))) as [t1|] eqn:Hg; auto. cbn [fst tb].
      rewrite t_upd_length, (t_get_length _ _ _ _ Hg). auto.
    - right. destruct (accept_keeps_idle (core n) (a_sess x) (a_xi x) now now y ltac:(apply Hi) Hy Hidle) as [A B].
      split; [|exists y; auto]. destruct Hi as [[_ [Hlen _]] _]. unfold nl in Hy.
      destruct (t_sess (tb (core n))); [inversion Hy|cbn in Hlen; lia]. }
  destruct (reserve_recovers cap mx c1 now Hi1 ltac:(lia) Hroom1) as [h [Hr _]].
  destruct (step cap mx c1 (OReserve now)) as [c2 r] eqn:E. cbn [snd] in Hr. subst r.
  destruct (a_kind x) eqn:Hk.
  - unfold marker_check. rewrite (Hm eq_refl). reflexivity.
  - reflexivity.
Qed.

(** ** with two reclaimable slots the handshake gets both *)
Theorem handshake_gets_both_slots : forall n k now,
  inv1 cap (core n) -> hinv n -> next_of (core n) + 24 <= UID_MAX ->
  room2 now (nl n) ->
  (k = HPase -> marker_live now (marker n) = None) ->
  exists n1 a, first_msg cap mx k now n = (n1, Some a) /\
               snd (nstep cap mx n1 (NAccept a VGood now)) = ROk.
Proof.
  intros n k now Hi Hh Hb Hroom Hm.
  assert (Hfree : forall n0, inv1 cap (core n0) -> hinv n0 -> next_of (core n0) + 12 <= UID_MAX ->
            (length (nl n0) < cap)%nat -> marker n0 = marker n ->
            ((length (nl n0) + 2 <= cap)%nat \/ exists y, In y (nl n0) /\ idle now y = true) ->
            exists n1, nstep cap mx n0 (NRx k now) = (n1, RId (n_next n0)) /\
                       snd (nstep cap mx n1 (NAccept (n_next n0) VGood now)) = ROk).
  { intros n0 Hi0 Hh0 Hb0 Hlt Hmk Hr.
    destruct (nrx_free n0 k now Hi0 ltac:(lia) Hlt) as [id [n1 [E [Ea [Em [El Hk]]]]]].
    exists n1. split; auto.
    pose proof (nstep_inv1 cap mx n0 (NRx k now) Hi0 ltac:(lia)) as [Hi1 [_ Hb1]]. rewrite E in Hi1, Hb1. cbn [fst] in Hi1, Hb1.
    apply (naccept_ok n1 (n_next n0) (mkA (n_next n0) k id O None 0 false) now Hi1).
    - lia.
    - rewrite Ea. rewrite find_app_none.
      + cbn. unfold att_has. cbn. rewrite N.eqb_refl. reflexivity.
      + intros y Hy. unfold att_has. apply N.eqb_neq. destruct Hh0 as [_ [H2 _]]. specialize (H2 y Hy). lia.
    - reflexivity.
    - destruct Hr as [Hr|[y [Hy Hidle]]]; [left; lia|right; exists y; auto].
    - cbn. intros ->. rewrite Em, Hmk. auto. }
  unfold first_msg.
  destruct (Nat.lt_ge_cases (length (nl n)) cap) as [Hlt|Hge].
  - destruct (Hfree n Hi Hh ltac:(lia) Hlt eq_refl) as [n1 [E Hr]].
    + destruct Hroom as [H|[[_ H]|[y1 [_ [H1 [_ [_ [I1 _]]]]]]]]; auto. right. exists y1. auto.
    + rewrite E. exists n1, (n_next n). auto.
  - destruct Hroom as [H|[[H _]|[y1 [y2 [H1 [H2 [Hne [I1 I2]]]]]]]]; try lia.
    destruct (nrx_full n k now y1 y2 Hi ltac:(lia) Hge H1 H2 Hne I1 I2) as [n1 [E [Ea [Em [En [Hl Hy]]]]]].
    rewrite E.
    pose proof (nstep_inv1 cap mx n (NRx k now) Hi ltac:(lia)) as [Hi1 [_ Hb1]]. rewrite E in Hi1, Hb1. cbn [fst] in Hi1, Hb1.
    pose proof (nstep_hinv cap mx n (NRx k now) Hi ltac:(lia) Hh) as Hh1. rewrite E in Hh1. cbn [fst] in Hh1.
    destruct (Hfree n1 Hi1 Hh1 ltac:(lia) Hl Em ltac:(right; exact Hy)) as [n2 [E2 Hr]].
    rewrite E2. exists n2, (n_next n1). auto.
Qed.

End Probe.
