(** What the expander scans for is what the specification permits:
    the acceptable elements of a wildcard scan are [served], the outcome of
    a concrete path is [concrete_decision]. *)
From RsM Require Import Lib.MachInt Model.Acl Model.AclSpec Model.Im Model.ImSpec.
From RsM Require Import Proofs.AclTheorems Proofs.ImLists Proofs.ImFacts Proofs.ImExpand Proofs.ImConcrete.
From Coq Require Import ZifyN ZifyBool.
Open Scope N_scope.

Arguments N.eqb : simpl never.

Lemma map_flat_map {A B C} (f : B -> C) (g : A -> list B) (l : list A) :
  map f (flat_map g l) = flat_map (fun x => map f (g x)) l.
Proof. induction l as [|x l IH]; [reflexivity|]. cbn [flat_map]. rewrite map_app, IH. reflexivity. Qed.

Lemma flat_map_nil {A B} (g : A -> list B) (l : list A) :
  (forall x, In x l -> g x = []) -> flat_map g l = [].
Proof.
  induction l as [|x l IH]; intros H; [reflexivity|]. cbn [flat_map].
  rewrite (H x (or_introl eq_refl)), IH; [reflexivity|]. intros y Hy. apply H. right. exact Hy.
Qed.

Lemma wf_node_parts (nd : node) :
  wf_node nd = true ->
  sorted nd /\ forall e, In e nd ->
    NoDup (map c_id (ep_clusters e)) /\
    forall c, In c (ep_clusters e) -> wf_cluster c = true.
Proof.
  unfold wf_node. intros H. apply andb_true_iff in H. destruct H as [Hs Hf]. split; [exact Hs|].
  intros e He. rewrite forallb_forall in Hf. specialize (Hf e He). unfold wf_endpoint in Hf.
  apply andb_true_iff in Hf. destruct Hf as [Hd Hc]. split; [apply distinct_NoDup; exact Hd|].
  intros c Hcin. rewrite forallb_forall in Hc. exact (Hc c Hcin).
Qed.

Section Link.
Variables (fabs : list fabric) (who : accessor) (op : operation) (timed : bool)
          (flt : N -> N -> N -> bool).
Let env := mkEnv op who timed flt.
Hypothesis Hwf : wf_fabrics fabs = true.

(** * wildcard scans *)

Lemma ecands_zero (path : gpath) (es : list endpoint) :
  ecands env fabs path es 0 0 =
  flat_map (fun e => if eok env fabs path e
                     then tag e (ccands env fabs path e (ep_clusters e) 0) else []) es.
Proof. induction es as [|e es IH]; [reflexivity|]. cbn [ecands flat_map skipn]. rewrite IH. reflexivity. Qed.

Lemma ccands_zero (path : gpath) (e : endpoint) (cs : list cluster) :
  ccands env fabs path e cs 0 =
  flat_map (fun c => if cok path c then lcands env fabs path e c 0 else []) cs.
Proof. induction cs as [|c cs IH]; [reflexivity|]. cbn [ccands flat_map]. rewrite IH. reflexivity. Qed.

(** the test the specification applies to an element *)
Definition spec_test (path : gpath) (t : cand) : bool :=
  (matches path t && permitted_leaf fabs who op timed t)
  && (let '(e, c, l) := cand_ids t in flt e c l).

Lemma served_filter (nd : node) (path : gpath) :
  served nd fabs who op timed flt path = filter (spec_test path) (all_leaves op nd).
Proof. unfold served, permitted. rewrite filter_filter. reflexivity. Qed.

Lemma lok_spec (path : gpath) (e : endpoint) (c : cluster) (l : leaf) :
  eok env fabs path e = true -> cok path c = true ->
  wf_cluster c = true -> In l (leaves op c) ->
  lok env fabs path e c l = spec_test path (e, c, l).
Proof.
  intros He Hc Hwc Hl. unfold eok in He. apply andb_true_iff in He. destruct He as [Hep Hacc].
  unfold lok, spec_test, matches, cand_ids. cbn [xe_flt xe_op env].
  change (wild_or (p_ep path) (ep_id e)) with (opt_matches (p_ep path) (ep_id e)).
  change (wild_or (p_cl path) (c_id c)) with (opt_matches (p_cl path) (c_id c)).
  change (wild_or (p_leaf path) (l_id l)) with (opt_matches (p_leaf path) (l_id l)).
  unfold cok in Hc. rewrite Hep, Hc. cbn [andb].
  unfold env.
  rewrite (leaf_check_decision fabs who op timed flt e c l Hwf Hacc
             (wf_cluster_declared op c Hwc) (leaves_declared op c l Hl)).
  rewrite decision_none_iff_permitted.
  destruct (opt_matches (p_leaf path) (l_id l)), (flt (ep_id e) (c_id c) (l_id l)),
    (permitted_leaf fabs who op timed (e, c, l)); reflexivity.
Qed.

Lemma not_eok_spec (path : gpath) (e : endpoint) (c : cluster) (l : leaf) :
  eok env fabs path e = false -> spec_test path (e, c, l) = false.
Proof.
  unfold eok. cbn [xe_acc env]. intros He. unfold spec_test, matches, permitted_leaf.
  change (wild_or (p_ep path) (ep_id e)) with (opt_matches (p_ep path) (ep_id e)).
  destruct (opt_matches (p_ep path) (ep_id e)); [|reflexivity]. cbn [andb] in He.
  rewrite (unreachable_not_granted fabs who op (ep_id e) (c_id c) (ep_dts e) (l_access l) He).
  rewrite !andb_false_r. reflexivity.
Qed.

Lemma not_cok_spec (path : gpath) (e : endpoint) (c : cluster) (l : leaf) :
  cok path c = false -> spec_test path (e, c, l) = false.
Proof.
  unfold cok. intros Hc. unfold spec_test, matches.
  change (wild_or (p_cl path) (c_id c)) with (opt_matches (p_cl path) (c_id c)).
  rewrite Hc, andb_false_r. reflexivity.
Qed.

Theorem ecands_served (nd : node) (path : gpath) :
  wf_node nd = true ->
  ecands env fabs path nd 0 0 = served nd fabs who op timed flt path.
Proof.
  intros Hn. destruct (wf_node_parts nd Hn) as [_ Hparts].
  rewrite served_filter, ecands_zero. unfold all_leaves. rewrite filter_flat_map.
  apply flat_map_ext_in. intros e He. destruct (Hparts e He) as [_ Hcl].
  rewrite filter_flat_map.
  destruct (eok env fabs path e) eqn:Heok.
  - rewrite ccands_zero. unfold tag. rewrite map_flat_map.
    apply flat_map_ext_in. intros c Hc. rewrite filter_map_comm, elements_leaves.
    destruct (cok path c) eqn:Hcok.
    + unfold lcands. cbn [skipn xe_op env]. rewrite map_map. cbn [fst snd].
      f_equal. apply filter_ext_in'. intros l Hl.
      apply (lok_spec path e c l Heok Hcok (Hcl c Hc) Hl).
    + cbn [map]. rewrite filter_false; [reflexivity|].
      intros l _. apply not_cok_spec. exact Hcok.
  - symmetry. apply flat_map_nil. intros c _. rewrite filter_map_comm.
    rewrite filter_false; [reflexivity|]. intros l _. apply not_eok_spec. exact Heok.
Qed.

(** * concrete paths *)

Definition decision_shape (d : decision) : shape :=
  match d with
  | Served t => let '(e, c, l) := cand_ids t in ShFound e c l
  | Refused s => ShErr s
  | Silent => ShNone
  end.

Lemma find_none_all {A} (f : A -> bool) (l : list A) :
  (forall x, In x l -> f x = false) -> find f l = None.
Proof.
  induction l as [|x l IH]; intros H; [reflexivity|]. cbn [find].
  rewrite (H x (or_introl eq_refl)). apply IH. intros y Hy. apply H. right. exact Hy.
Qed.

Lemma find_eok (e0 c0 l0 : N) (nd : node) :
  find (eok env fabs (mkPath (Some e0) (Some c0) (Some l0))) nd =
  if is_endpoint_accessible fabs who e0 then find (fun x => ep_id x =? e0) nd else None.
Proof.
  destruct (is_endpoint_accessible fabs who e0) eqn:Hacc.
  - induction nd as [|x nd IH]; [reflexivity|]. cbn [find]. unfold eok at 1.
    cbn [p_ep opt_matches xe_acc env]. rewrite (N.eqb_sym e0 (ep_id x)).
    destruct (N.eqb_spec (ep_id x) e0) as [->|_]; [rewrite Hacc; reflexivity|exact IH].
  - apply find_none_all. intros x _. unfold eok. cbn [p_ep opt_matches xe_acc env].
    destruct (N.eqb_spec e0 (ep_id x)) as [<-|_]; [rewrite Hacc|]; reflexivity.
Qed.

Theorem conc_node_decision (nd : node) (e0 c0 l0 : N) :
  wf_node nd = true ->
  (match conc_node env fabs e0 c0 l0 nd with ShEnd => ShErr SUnsupportedEndpoint | s => s end)
  = decision_shape (concrete_decision nd fabs who op timed flt e0 c0 l0).
Proof.
  intros Hn. destruct (wf_node_parts nd Hn) as [_ Hparts].
  unfold conc_node, concrete_decision. rewrite find_eok.
  rewrite <- (endpoint_eq_spec fabs who e0).
  destruct (is_endpoint_accessible fabs who e0) eqn:Hacc.
  2:{ destruct (find (fun x => ep_id x =? e0) nd); reflexivity. }
  destruct (find (fun x => ep_id x =? e0) nd) as [e|] eqn:Hfe; [|reflexivity].
  cbn [negb]. apply find_some in Hfe. destruct Hfe as [Hein Heid]. apply N.eqb_eq in Heid.
  destruct (Hparts e Hein) as [_ Hcl].
  unfold conc_cluster.
  destruct (find (fun x => c_id x =? c0) (ep_clusters e)) as [c|] eqn:Hfc; [|reflexivity].
  apply find_some in Hfc. destruct Hfc as [Hcin Hcid]. apply N.eqb_eq in Hcid.
  unfold conc_leaf. rewrite elements_leaves. unfold env. cbn [xe_op xe_flt].
  destruct (find (fun x => l_id x =? l0) (leaves op c)) as [l|] eqn:Hfl.
  2:{ destruct op; reflexivity. }
  apply find_some in Hfl. destruct Hfl as [Hlin Hlid]. apply N.eqb_eq in Hlid.
  rewrite Heid, Hcid.
  destruct (flt e0 c0 l0); cbn [negb]; [|reflexivity].
  assert (Hacc' : is_endpoint_accessible fabs who (ep_id e) = true) by (rewrite Heid; exact Hacc).
  pose proof (leaf_check_decision fabs who op timed flt e c l Hwf Hacc'
               (wf_cluster_declared op c (Hcl c Hcin)) (leaves_declared op c l Hlin)) as Hd.
  rewrite Hlid in Hd. rewrite Hd.
  destruct (leaf_decision fabs who op timed (e, c, l)); [reflexivity|].
  cbn [decision_shape cand_ids]. rewrite Heid, Hcid, Hlid. reflexivity.
Qed.

End Link.
