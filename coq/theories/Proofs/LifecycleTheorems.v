(** Property C07: the theorems about the model (all except the witnesses). *)
From Coq Require Import NArith List Bool Lia ZifyN ZifyBool.
From RsM Require Import Model.Lifecycle Model.LifecycleSpec Proofs.LifecycleFacts Proofs.LifecycleInv.
(* -- *)
Import ListNotations.
Open Scope N_scope.

Theorem bound_to_incarnation_all : forall st ops, Inv st -> bound_to_incarnation (exec st ops).
Proof. intros st ops H. apply inv_bound. apply invariant_exec. exact H. Qed.

Theorem bound_to_incarnation_init :
  forall kind pase ops, bound_to_incarnation (exec (init_state kind pase) ops).
Proof. intros. apply bound_to_incarnation_all. apply invariant_init. Qed.

(** ** Where the incarnations of the table after a step come from *)
Definition tbl_ok (a b : state) : Prop :=
  st_ninc a <= st_ninc b /\
  forall f', In f' (st_fabs b) ->
    st_ninc a <= f_inc f' \/ exists f, In f (st_fabs a) /\ f_inc f = f_inc f'.

Lemma tbl_ok_same : forall a b, st_fabs b = st_fabs a -> st_ninc b = st_ninc a -> tbl_ok a b.
Proof.
  intros a b E1 E2. split; [rewrite E2; apply N.le_refl|]. intros f' Hf. right. exists f'.
  rewrite <- E1. auto.
Qed.

Lemma tbl_ok_refl : forall a, tbl_ok a a.
Proof. intro a. apply tbl_ok_same; reflexivity. Qed.

Lemma tbl_ok_core : forall a b, same_core a b -> tbl_ok a b.
Proof. intros a b (E1 & _ & _ & _ & _ & _ & E7 & _). apply tbl_ok_same; assumption. Qed.

Lemma tbl_ok_trans : forall a b c, tbl_ok a b -> tbl_ok b c -> tbl_ok a c.
Proof.
  intros a b c [N1 F1] [N2 F2]. split; [lia|]. intros f' Hf. destruct (F2 f' Hf) as [Hl|(f & Hf1 & E)].
  - left. lia.
  - destruct (F1 f Hf1) as [Hl|(g & Hg & E')]; [left; lia|right]. exists g. split; [exact Hg|congruence].
Qed.

Lemma tbl_ok_sub : forall a b,
  st_ninc b = st_ninc a -> (forall f, In f (st_fabs b) -> exists g, In g (st_fabs a) /\ f_inc g = f_inc f) ->
  tbl_ok a b.
Proof. intros a b E Hs. split; [rewrite E; apply N.le_refl|]. intros f' Hf. right. auto. Qed.

Lemma expire_tbl : forall st keep, Inv st -> tbl_ok st (expire repaired st keep).
Proof.
  intros st keep H. unfold expire.
  destruct (st_fs st) as [|f fl]; [apply tbl_ok_refl|].
  destruct (f =? 0); [apply tbl_ok_same; reflexivity|]. cbv zeta.
  destruct (fget f (st_kvfabs st)) as [kf|] eqn:K.
  - apply tbl_ok_sub; sp; [reflexivity|]. intros x Hx. apply in_app_iff in Hx.
    destruct Hx as [Hx|[<-|[]]].
    + apply In_fdel in Hx. exists x. tauto.
    + destruct (fget_In _ _ _ K) as [Hkin _].
      destruct (live_In _ _ _ (inv_kv _ H kf Hkin)) as (g & Hg & _ & E). eauto.
  - cbn [drop_bound fx_drop_bound fx_expire_sessions repaired]. apply tbl_ok_sub; sp; [reflexivity|].
    intros x Hx. apply In_fdel in Hx. exists x. tauto.
Qed.

Lemma do_addnoc_tbl : forall st s, tbl_ok st (fst (do_addnoc repaired st s)).
Proof.
  intros st s. unfold do_addnoc.
  destruct (negb (allowed st s)); [apply tbl_ok_refl|].
  destruct (st_fs st) as [|f fl]; [apply tbl_ok_refl|].
  destruct (negb (f =? s_fab s)); [apply tbl_ok_refl|].
  destruct (negb (fl_root fl && fl_add_csr fl)); [apply tbl_ok_refl|].
  destruct (fl_add_noc fl || fl_upd_csr fl || fl_upd_noc fl); [apply tbl_ok_refl|].
  destruct (existsb _ _); [apply tbl_ok_refl|].
  destruct (next_idx (st_fabs st)) as [idx|]; [|apply tbl_ok_refl].
  destruct (Nat.leb _ _); [apply tbl_ok_refl|].
  assert (Hadd : forall x, In x (st_fabs st ++ [mkFabric idx (st_ninc st) (st_root st) 0]) ->
            st_ninc st <= f_inc x \/ exists f, In f (st_fabs st) /\ f_inc f = f_inc x).
  { intros x Hx. apply in_app_iff in Hx. destruct Hx as [Hx|[<-|[]]]; [right; eauto|left].
    cbn [f_inc]. apply N.le_refl. }
  destruct (is_pase s); [destruct (s_fab s =? 0)|]; cbn [fst].
  - split; sp; [lia|exact Hadd].
  - cbn [drop_bound fx_drop_bound repaired]. apply tbl_ok_same; reflexivity.
  - split; sp; [lia|exact Hadd].
Qed.

Lemma remove_fabric_tbl : forall st s i, tbl_ok st (fst (remove_fabric repaired st s i)).
Proof.
  intros st s i. unfold remove_fabric.
  destruct (negb (allowed st s)); [apply tbl_ok_refl|].
  destruct (i =? 0); [apply tbl_ok_refl|].
  destruct (fget i (st_fabs st)) as [fb|]; [|apply tbl_ok_refl].
  cbn [fst drop_bound fx_drop_bound repaired]. apply tbl_ok_sub; sp; [reflexivity|].
  intros x Hx. apply In_fdel in Hx. exists x. tauto.
Qed.

Lemma commit_sub_tbl : forall st sid, tbl_ok st (commit_sub st sid).
Proof.
  intros st sid. unfold commit_sub. destruct (sget sid (st_sess st)) as [x|]; [|apply tbl_ok_refl].
  destruct (Nat.leb _ _); [apply tbl_ok_refl|]. apply tbl_ok_same; reflexivity.
Qed.

Lemma step_tbl : forall st o, Inv st -> tbl_ok st (fst (step st o)).
Proof.
  intros st o H. unfold step.
  destruct o as [sid|sid r|sid|sid|sid i| |sid|sid|r|i node|i|k| | | |sid k|sid| |r|k|sid|sid|sid|sid i]; cbn [step_fx]; cbv zeta.
  - destruct (sess_ctx st sid) as [s|]; [|apply tbl_ok_refl].
    destruct (negb (allowed st s)); [apply tbl_ok_refl|].
    destruct (st_fs st) as [|f fl]; [|destruct (f =? s_fab s); apply tbl_ok_refl].
    apply tbl_ok_same; reflexivity.
  - destruct (sess_ctx st sid) as [s|]; [|apply tbl_ok_refl].
    eapply tbl_ok_trans; [|apply do_addnoc_tbl]. apply tbl_ok_core.
    eapply same_core_trans; [apply do_csr_core|apply do_root_core].
  - destruct (sess_ctx st sid) as [s|]; [|apply tbl_ok_refl]. apply tbl_ok_core.
    eapply same_core_trans; [apply do_csr_core|apply do_updnoc_core].
  - destruct (sess_ctx st sid) as [s|]; [|apply tbl_ok_refl].
    destruct (s_fab s =? 0); [apply tbl_ok_refl|].
    destruct (negb (allowed st s)); [apply tbl_ok_refl|].
    destruct (st_fs st) as [|f fl]; [apply tbl_ok_refl|].
    destruct (negb (f =? s_fab s)); [apply tbl_ok_refl|].
    destruct (is_pase s); [apply tbl_ok_refl|].
    destruct (fget (s_fab s) (st_fabs st)) as [fb|]; [|apply tbl_ok_refl].
    apply tbl_ok_same; reflexivity.
  - destruct (sess_ctx st sid) as [s|]; [|apply tbl_ok_refl]. apply remove_fabric_tbl.
  - cbn [fst]. apply expire_tbl; exact H.
  - destruct (sess_ctx st sid) as [s|]; [|apply tbl_ok_refl].
    destruct (negb (allowed st s)); [apply tbl_ok_refl|].
    cbn [fst]. apply expire_tbl; exact H.
  - destruct (sess_ctx st sid) as [s|]; [|apply tbl_ok_refl].
    destruct (negb (allowed st s)); [apply tbl_ok_refl|].
    cbn [fst]. apply expire_tbl; exact H.
  - destruct (find _ _) as [f|]; [|apply tbl_ok_refl]. unfold establish.
    destruct (table_full st); [apply tbl_ok_refl|]. apply tbl_ok_same; reflexivity.
  - destruct (fget i (st_fabs st)) as [f|]; [|apply tbl_ok_refl]. unfold establish.
    destruct (table_full st); [apply tbl_ok_refl|]. apply tbl_ok_same; reflexivity.
  - destruct (fget i (st_fabs st)) as [f|]; [|apply tbl_ok_refl].
    destruct (table_full st); [apply tbl_ok_refl|]. apply tbl_ok_same; reflexivity.
  - destruct (rget k (st_recs st)) as [r|]; [|apply tbl_ok_refl].
    destruct (fget (r_fab r) (st_fabs st)) as [f|]; [|apply tbl_ok_refl].
    destruct (table_full st); [apply tbl_ok_refl|]. apply tbl_ok_same; reflexivity.
  - apply tbl_ok_same; reflexivity.
  - cbn [fst]. unfold boot. apply tbl_ok_sub; sp; [reflexivity|].
    intros x Hx. destruct (live_In _ _ _ (inv_kv _ H x Hx)) as (g & Hg & _ & E). eauto.
  - apply tbl_ok_same; reflexivity.
  - destruct (sess_ctx st sid) as [s|]; [|apply tbl_ok_refl].
    destruct (s_fab s =? 0); [apply tbl_ok_refl|].
    destruct (negb (allowed st s)); [apply tbl_ok_refl|].
    destruct (fget (s_fab s) (st_fabs st)) as [fb|] eqn:G; [|apply tbl_ok_refl].
    assert (Hs : forall x, In x (fset (mkFabric (f_idx fb) (f_inc fb) (f_root fb) k) (st_fabs st)) ->
              exists g, In g (st_fabs st) /\ f_inc g = f_inc x).
    { intros x Hx. unfold fset in Hx. apply in_app_iff in Hx. destruct Hx as [Hx|[<-|[]]].
      - apply In_fdel in Hx. exists x. tauto.
      - exists fb. split; [apply (fget_In _ _ _ G)|reflexivity]. }
    destruct (match st_fs st with Idle => false | Armed f _ => f =? s_fab s end); cbn [fst];
      apply tbl_ok_sub; sp; auto.
  - destruct (sess_ctx st sid) as [s|]; [|apply tbl_ok_refl].
    destruct (s_fab s =? 0); [apply tbl_ok_refl|].
    destruct (negb (can_view st s)); [apply tbl_ok_refl|].
    destruct (Nat.leb _ _); [apply tbl_ok_refl|]. apply tbl_ok_same; reflexivity.
  - destruct (table_full st); [apply tbl_ok_refl|]. apply tbl_ok_same; reflexivity.
  - destruct (find _ _) as [f|]; [|apply tbl_ok_refl].
    destruct (table_full st); [apply tbl_ok_refl|]. apply tbl_ok_same; reflexivity.
  - destruct (rget k (st_recs st)) as [r|]; [|apply tbl_ok_refl].
    destruct (fget (r_fab r) (st_fabs st)) as [f|]; [|apply tbl_ok_refl].
    destruct (table_full st); [apply tbl_ok_refl|]. apply tbl_ok_same; reflexivity.
  - destruct (sget sid (st_sess st)) as [s|]; [|apply tbl_ok_refl].
    destruct (s_res s); [|apply tbl_ok_refl]. apply tbl_ok_same; reflexivity.
  - destruct (sget sid (st_sess st)) as [s|]; [|apply tbl_ok_refl].
    destruct (s_res s); [|apply tbl_ok_refl]. apply tbl_ok_same; reflexivity.
  - destruct (sess_ctx st sid) as [s|]; [|apply tbl_ok_refl].
    destruct (negb (is_case s)); [apply tbl_ok_refl|]. cbn [fst].
    eapply tbl_ok_trans; [apply expire_tbl; exact H|apply commit_sub_tbl].
  - destruct (sess_ctx st sid) as [s|]; [|apply tbl_ok_refl].
    destruct (negb (is_case s)); [apply tbl_ok_refl|].
    destruct (negb (can_view st s)); [apply tbl_ok_refl|].
    pose proof (remove_fabric_tbl st s i) as Ht.
    destruct (remove_fabric repaired st s i) as [st1 r1]. cbn [fst] in *.
    eapply tbl_ok_trans; [exact Ht|apply commit_sub_tbl].
Qed.

(** ** gone / unreferenced *)
Lemma gone_step : forall st o c, Inv st -> gone st c -> gone (fst (step st o)) c.
Proof.
  intros st o c H [Hc Hg]. destruct (step_tbl st o H) as [Hn Hf]. split; [lia|].
  intros f' Hin. destruct (Hf f' Hin) as [Hl|(f & Hf1 & E)]; [lia|].
  rewrite <- E. apply Hg. exact Hf1.
Qed.

Lemma gone_exec : forall st ops c, Inv st -> gone st c -> gone (exec st ops) c.
Proof.
  intros st ops c. revert st. induction ops as [|o ops IH]; intros st H Hg; [exact Hg|].
  unfold exec in *. cbn [exec_fx]. apply IH; [apply (invariant_step st o H)|apply (gone_step st o c H Hg)].
Qed.

Lemma gone_unreferenced : forall st c, Inv st -> gone st c -> unreferenced st c.
Proof.
  intros st c H [_ Hg]. unfold unreferenced. repeat split.
  - intros s Hs Hu Hf E. unfold usable in Hu. apply andb_true_iff in Hu. destruct Hu as [Hu _].
    apply negb_true_iff in Hu. destruct (live_In _ _ _ (inv_sess _ H s Hs Hu Hf)) as (f & Hin & _ & Ef).
    apply (Hg f Hin). congruence.
  - intros r Hr E. destruct (live_In _ _ _ (inv_recs _ H r Hr)) as (f & Hin & _ & Ef).
    apply (Hg f Hin). congruence.
  - intros u Hu E. destruct (live_In _ _ _ (inv_subs _ H u Hu)) as (f & Hin & _ & Ef).
    apply (Hg f Hin). congruence.
Qed.

Theorem no_use_after_removal :
  forall st ops c, Inv st -> gone st c ->
    gone (exec st ops) c /\ unreferenced (exec st ops) c.
Proof.
  intros st ops c H Hg. pose proof (gone_exec st ops c H Hg) as Hg'. split; [exact Hg'|].
  apply gone_unreferenced; [apply invariant_exec; exact H|exact Hg'].
Qed.

Lemma gone_fdel : forall st i f,
  Inv st -> fget i (st_fabs st) = Some f ->
  f_inc f < st_ninc st /\ forall g, In g (fdel i (st_fabs st)) -> f_inc g <> f_inc f.
Proof.
  intros st i f H G. destruct (fget_In _ _ _ G) as [Hf Hi]. split; [apply (inv_fresh _ H); exact Hf|].
  intros g Hg E. apply In_fdel in Hg. destruct Hg as [Hg Hne]. apply Hne. rewrite <- Hi.
  apply (inv_inj _ H); assumption.
Qed.

Theorem removed_is_gone :
  forall st sid i f, Inv st -> fget i (st_fabs st) = Some f ->
    snd (step st (ORemove sid i)) = StOk ->
    gone (fst (step st (ORemove sid i))) (f_inc f).
Proof.
  intros st sid i f H G Hok. unfold step in *. cbn [step_fx] in *.
  destruct (sess_ctx st sid) as [s|]; [|discriminate Hok]. unfold remove_fabric in *.
  destruct (negb (allowed st s)); [discriminate Hok|].
  destruct (i =? 0); [discriminate Hok|]. rewrite G in *.
  cbn [fst drop_bound fx_drop_bound repaired]. unfold gone; sp. apply gone_fdel; assumption.
Qed.

Lemma expire_rollback : forall st keep i fl,
  st_fs st = Armed i fl -> i <> 0 -> fget i (st_kvfabs st) = None ->
  st_fabs (expire repaired st keep) = fdel i (st_fabs st) /\
  st_ninc (expire repaired st keep) = st_ninc st.
Proof.
  intros st keep i fl Efs Hi K. unfold expire. rewrite Efs. apply N.eqb_neq in Hi. rewrite Hi. cbv zeta.
  rewrite K. cbn [drop_bound fx_drop_bound repaired]. sp. auto.
Qed.

Theorem rolled_back_is_gone :
  forall st o i fl f, Inv st -> is_expiry o = true -> st_fs st = Armed i fl -> i <> 0 ->
    fget i (st_fabs st) = Some f -> fget i (st_kvfabs st) = None ->
    snd (step st o) = StOk ->
    gone (fst (step st o)) (f_inc f).
Proof.
  intros st o i fl f H Ho Efs Hi G K Hok.
  assert (Hgone : forall st', st_fabs st' = fdel i (st_fabs st) -> st_ninc st' = st_ninc st ->
                    gone st' (f_inc f)).
  { intros st' E1 E2. unfold gone. rewrite E1, E2. apply gone_fdel; assumption. }
  destruct o; try discriminate Ho; unfold step in *; cbn [step_fx] in *.
  - destruct (expire_rollback st None i fl Efs Hi K) as (E1 & E2). cbn [fst]. auto.
  - destruct (sess_ctx st s) as [ss|]; [|discriminate Hok].
    destruct (negb (allowed st ss)); [discriminate Hok|].
    destruct (expire_rollback st (Some (s_id ss)) i fl Efs Hi K) as (E1 & E2). cbn [fst]. auto.
  - destruct (sess_ctx st s) as [ss|]; [|discriminate Hok].
    destruct (negb (allowed st ss)); [discriminate Hok|].
    destruct (expire_rollback st (Some (s_id ss)) i fl Efs Hi K) as (E1 & E2). cbn [fst]. auto.
Qed.

Theorem index_reuse_safe :
  forall st ops i f, Inv st -> fget i (st_fabs (exec st ops)) = Some f ->
    (forall s, In s (st_sess (exec st ops)) -> usable s = true -> s_fab s = i -> i <> 0 -> s_inc s = f_inc f) /\
    (forall r, In r (st_recs (exec st ops)) -> r_fab r = i -> r_inc r = f_inc f) /\
    (forall u, In u (st_subs (exec st ops)) -> u_fab u = i -> u_inc u = f_inc f).
Proof.
  intros st ops i f H G. pose proof (invariant_exec st ops H) as H'. repeat split.
  - intros s Hs Hu E Hi. unfold usable in Hu. apply andb_true_iff in Hu. destruct Hu as [Hu _].
    apply negb_true_iff in Hu. subst i. destruct (inv_sess _ H' s Hs Hu Hi) as (g & G' & Eg). congruence.
  - intros r Hr E. subst i. destruct (inv_recs _ H' r Hr) as (g & G' & Eg). congruence.
  - intros u Hu E. subst i. destruct (inv_subs _ H' u Hu) as (g & G' & Eg). congruence.
Qed.

(** ** Use clauses *)
Theorem request_only_own_incarnation :
  forall st sid k st', Inv st -> step st (ORequest sid k) = (st', StOk) ->
    exists s f, sget sid (st_sess st) = Some s /\ usable s = true /\ s_fab s <> 0 /\
                fget (s_fab s) (st_fabs st) = Some f /\ f_inc f = s_inc s /\
                (forall j, j <> s_fab s -> fget j (st_fabs st') = fget j (st_fabs st)).
Proof.
  intros st sid k st' H Hs. unfold step in Hs. cbn [step_fx] in Hs.
  destruct (sess_ctx st sid) as [s|] eqn:C; [|discriminate Hs].
  destruct (s_fab s =? 0) eqn:E0; [discriminate Hs|].
  destruct (negb (allowed st s)); [discriminate Hs|].
  destruct (fget (s_fab s) (st_fabs st)) as [fb|] eqn:G; [|discriminate Hs].
  destruct (sess_ctx_some _ _ _ C) as (Hg & Hu & Hin & _ & Hexp). apply N.eqb_neq in E0.
  destruct (fget_In _ _ _ G) as [_ Hi].
  exists s, fb. repeat split; auto.
  - destruct (inv_sess _ H s Hin Hexp E0) as (g & G' & Eg). congruence.
  - intros j Hj.
    destruct (match st_fs st with Idle => false | Armed f _ => f =? s_fab s end);
      inversion Hs; subst st'; sp; apply fget_fset_ne; cbn [f_idx]; congruence.
Qed.

Theorem stale_request_refused :
  forall st s k, Inv st -> In s (st_sess st) -> s_fab s <> 0 -> gone st (s_inc s) ->
    step st (ORequest (s_id s) k) = (st, StGone).
Proof.
  intros st s k H Hs Hf [_ Hg]. unfold step. cbn [step_fx]. unfold sess_ctx.
  rewrite (sget_unique _ _ (inv_sid _ H) Hs). destruct (usable s) eqn:U; [|reflexivity].
  exfalso. unfold usable in U. apply andb_true_iff in U. destruct U as [U _]. apply negb_true_iff in U.
  destruct (live_In _ _ _ (inv_sess _ H s Hs U Hf)) as (f & Hin & _ & E). exact (Hg f Hin E).
Qed.

Theorem resume_only_current :
  forall st k st', Inv st -> step st (OResume k) = (st', StOk) ->
    exists r f, rget k (st_recs st) = Some r /\ fget (r_fab r) (st_fabs st) = Some f /\
                f_inc f = r_inc r.
Proof.
  intros st k st' H Hs. unfold step in Hs. cbn [step_fx] in Hs.
  destruct (rget k (st_recs st)) as [r|] eqn:R; [|discriminate Hs].
  destruct (fget (r_fab r) (st_fabs st)) as [f|] eqn:G; [|discriminate Hs].
  exists r, f. repeat split; auto. destruct (rget_In _ _ _ R) as [Hr _].
  destruct (inv_recs _ H r Hr) as (g & G' & Eg). congruence.
Qed.

Lemma resume_begin_only_current :
  forall st k st', Inv st -> step st (OResumeBegin k) = (st', StOk) ->
    exists r f, rget k (st_recs st) = Some r /\ fget (r_fab r) (st_fabs st) = Some f /\
                f_inc f = r_inc r.
Proof.
  intros st k st' H Hs. unfold step in Hs. cbn [step_fx] in Hs.
  destruct (rget k (st_recs st)) as [r|] eqn:R; [|discriminate Hs].
  destruct (fget (r_fab r) (st_fabs st)) as [f|] eqn:G; [|discriminate Hs].
  exists r, f. repeat split; auto. destruct (rget_In _ _ _ R) as [Hr _].
  destruct (inv_recs _ H r Hr) as (g & G' & Eg). congruence.
Qed.

(** ** Nothing is left behind (the tight form; reserved handshake slots included) *)
Theorem inv_tight : forall st, Inv st -> nothing_left_behind st.
Proof.
  intros st H. unfold nothing_left_behind, live_at. repeat split.
  - apply (inv_sess _ H).
  - apply (inv_recs _ H).
  - apply (inv_subs _ H).
Qed.

Theorem nothing_left_behind_all : forall st ops, Inv st -> nothing_left_behind (exec st ops).
Proof. intros st ops H. apply inv_tight. apply invariant_exec. exact H. Qed.

Lemma live_at_b_iff : forall fabs i c, live_at_b fabs i c = true <-> live_at fabs i c.
Proof.
  intros fabs i c. unfold live_at_b, live_at, cur_inc. destruct (fget i fabs) as [f|]; cbn [opt_eqb].
  - rewrite N.eqb_eq. split; [intro E; exists f; auto|intros (g & G & E); congruence].
  - split; [discriminate|intros (g & G & _); discriminate G].
Qed.

Theorem tight_b_correct : forall st, tight_b st = true <-> nothing_left_behind st.
Proof.
  intro st. unfold tight_b, nothing_left_behind, sessions_tight, records_tight, subs_tight.
  rewrite !andb_true_iff, !forallb_forall. split.
  - intros [[Hs Hr] Hu]. repeat split.
    + intros s Hin He Hf. specialize (Hs s Hin). rewrite He in Hs. apply N.eqb_neq in Hf.
      rewrite Hf in Hs. cbn [orb] in Hs. apply live_at_b_iff; exact Hs.
    + intros r Hin. apply live_at_b_iff. auto.
    + intros u Hin. apply live_at_b_iff. auto.
  - intros (Hs & Hr & Hu). repeat split.
    + intros s Hin. destruct (s_exp s) eqn:He; [reflexivity|].
      destruct (s_fab s =? 0) eqn:Hf; [reflexivity|]. cbn [orb]. apply N.eqb_neq in Hf.
      apply live_at_b_iff. auto.
    + intros r Hin. apply live_at_b_iff. auto.
    + intros u Hin. apply live_at_b_iff. auto.
Qed.

Theorem left_behind_free_bound :
  forall st, nothing_left_behind st ->
    (forall s, In s (st_sess st) -> usable s = true -> sess_bound st s) /\
    (forall r, In r (st_recs st) -> rec_bound (st_fabs st) r) /\
    (forall u, In u (st_subs st) -> sub_bound (st_fabs st) u).
Proof.
  intros st (Hs & Hr & Hu). repeat split.
  - intros s Hin Hus. unfold sess_bound. destruct (N.eq_dec (s_fab s) 0) as [E|E]; [left; exact E|right].
    unfold usable in Hus. apply andb_true_iff in Hus. destruct Hus as [He _]. apply negb_true_iff in He.
    destruct (Hs s Hin He E) as (f & G & Ef). unfold cur_inc. rewrite G, Ef. reflexivity.
  - intros r Hin f G. destruct (Hr r Hin) as (g & G' & E). congruence.
  - intros u Hin f G. destruct (Hu u Hin) as (g & G' & E). congruence.
Qed.

(** ** Removal purges the session slots of the index (reserved ones included) *)
Theorem removal_purges_slots :
  forall st sid i st', step st (ORemove sid i) = (st', StOk) ->
    forall x, In x (st_sess st') -> s_fab x = i -> s_exp x = true.
Proof.
  intros st sid i st' Hs x Hx Hf. unfold step in Hs. cbn [step_fx] in Hs.
  destruct (sess_ctx st sid) as [s|]; [|discriminate Hs]. unfold remove_fabric in Hs.
  destruct (negb (allowed st s)); [discriminate Hs|].
  destruct (i =? 0); [discriminate Hs|].
  destruct (fget i (st_fabs st)) as [fb|]; [|discriminate Hs].
  inversion Hs; subst st'. cbn [drop_bound fx_drop_bound repaired] in Hx. sp.
  apply In_remove_for_fabric in Hx. destruct Hx as (y & Hy & [[-> Hne]| ->]); [contradiction|reflexivity].
Qed.

Lemma expire_rollback_sess : forall st keep i fl,
  st_fs st = Armed i fl -> i <> 0 -> fget i (st_kvfabs st) = None ->
  forall x, In x (st_sess (expire repaired st keep)) -> s_fab x = i -> s_exp x = true.
Proof.
  intros st keep i fl Efs Hi K x. unfold expire. rewrite Efs. apply N.eqb_neq in Hi. rewrite Hi. cbv zeta.
  rewrite K. cbn [drop_bound fx_drop_bound fx_expire_sessions repaired]. sp. intros Hx Hf.
  apply In_remove_for_fabric in Hx. destruct Hx as (y & Hy & [[-> Hne]| ->]); [contradiction|reflexivity].
Qed.

Theorem rollback_purges_slots :
  forall st o i fl, Inv st -> is_expiry o = true -> st_fs st = Armed i fl -> i <> 0 ->
    fget i (st_kvfabs st) = None -> snd (step st o) = StOk ->
    forall x, In x (st_sess (fst (step st o))) -> s_fab x = i -> s_exp x = true.
Proof.
  intros st o i fl H Ho Efs Hi K Hok x.
  destruct o; try discriminate Ho; unfold step in *; cbn [step_fx] in *.
  - cbn [fst]. apply (expire_rollback_sess st None i fl Efs Hi K).
  - destruct (sess_ctx st s) as [ss|]; [|discriminate Hok].
    destruct (negb (allowed st ss)); [discriminate Hok|].
    cbn [fst]. apply (expire_rollback_sess st (Some (s_id ss)) i fl Efs Hi K).
  - destruct (sess_ctx st s) as [ss|]; [|discriminate Hok].
    destruct (negb (allowed st ss)); [discriminate Hok|].
    cbn [fst]. apply (expire_rollback_sess st (Some (s_id ss)) i fl Efs Hi K).
Qed.

(** ** The last step of a handshake *)
Theorem finish_after_removal_void :
  forall st sid, sget sid (st_sess st) = None ->
    step st (OFinishFull sid) = (st, StGone) /\ step st (OFinishResume sid) = (st, StGone).
Proof. intros st sid G. unfold step. cbn [step_fx]. rewrite G. split; reflexivity. Qed.

Theorem finish_only_live :
  forall st sid st', Inv st -> step st (OFinishResume sid) = (st', StOk) ->
    exists s f, sget sid (st_sess st) = Some s /\ s_res s = true /\
                fget (s_fab s) (st_fabs st) = Some f /\ f_inc f = s_inc s.
Proof.
  intros st sid st' H Hs. unfold step in Hs. cbn [step_fx] in Hs.
  destruct (sget sid (st_sess st)) as [s|] eqn:G; [|discriminate Hs].
  destruct (s_res s) eqn:Er; [|discriminate Hs].
  destruct (sget_In _ _ _ G) as [Hin _]. destruct (inv_res _ H s Hin Er) as (f & Gf & E).
  exists s, f. auto.
Qed.

(** ** ... not in the store either *)
Theorem inv_store : forall st, Inv st -> store_tight st.
Proof.
  intros st H. unfold store_tight, live_at. split; [apply (inv_kv _ H)|apply (inv_kvrecs _ H)].
Qed.

Theorem store_tight_all : forall st ops, Inv st -> store_tight (exec st ops).
Proof. intros st ops H. apply inv_store. apply invariant_exec. exact H. Qed.

Theorem store_tight_b_correct : forall st, store_tight_b st = true <-> store_tight st.
Proof.
  intro st. unfold store_tight_b, store_tight, kvfabs_tight, kvrecs_tight.
  rewrite !andb_true_iff, !forallb_forall. split.
  - intros [Hk Hr]. split; intros x Hin; apply live_at_b_iff; auto.
  - intros [Hk Hr]. split; intros x Hin; apply live_at_b_iff; auto.
Qed.

(** an incarnation that is not in the table (and was drawn before) never comes back *)
Theorem incarnation_never_returns :
  forall st ops c, Inv st -> c < st_ninc st -> (forall f, In f (st_fabs st) -> f_inc f <> c) ->
    forall f, In f (st_fabs (exec st ops)) -> f_inc f <> c.
Proof.
  intros st ops c H Hc Hg. destruct (gone_exec st ops c H (conj Hc Hg)) as [_ Hg']. exact Hg'.
Qed.

(** after RemoveFabric answered OK neither a stored copy of the fabric nor a stored record of
    its index is left (what an expiry or a restart could reload) *)
Theorem removed_not_reloadable :
  forall st sid i f st', Inv st -> fget i (st_fabs st) = Some f ->
    step st (ORemove sid i) = (st', StOk) ->
    fget i (st_kvfabs st') = None /\ (forall r, In r (st_kvrecs st') -> r_fab r <> i).
Proof.
  intros st sid i f st' H G Hs. unfold step in Hs. cbn [step_fx] in Hs.
  destruct (sess_ctx st sid) as [s|]; [|discriminate Hs]. unfold remove_fabric in Hs.
  destruct (negb (allowed st s)); [discriminate Hs|].
  destruct (i =? 0); [discriminate Hs|].
  rewrite G in Hs. inversion Hs; subst st'. cbn [drop_bound fx_drop_bound repaired]. sp. split.
  - apply fget_fdel_eq.
  - intros r Hr. apply In_recs_drop in Hr. tauto.
Qed.

(** ** A subscription committed after the removal broadcast of its fabric is purged *)
Theorem late_subscription_purged_due :
  forall st sid, Inv st -> nothing_left_behind (fst (step st (OSubscribeDue sid))).
Proof. intros st sid H. apply inv_tight. apply invariant_step. exact H. Qed.

Theorem late_subscription_purged_remove :
  forall st sid i, Inv st -> nothing_left_behind (fst (step st (OSubscribeRemove sid i))).
Proof. intros st sid i H. apply inv_tight. apply invariant_step. exact H. Qed.

Theorem purge_drops_fabricless :
  forall st u, In u (st_subs (purge st)) -> has_fab (st_fabs st) (u_fab u) = true.
Proof. intros st u Hu. unfold purge in Hu. sp. apply filter_In in Hu. tauto. Qed.

(** ** Frame *)
Lemma rp_frame : forall i keep l, others_sess i true (remove_pase keep l) = others_sess i true l.
Proof.
  intros i keep l. unfold others_sess, remove_pase. apply filter_map_filter.
  - intros x _. destruct (is_pase x && opt_is keep (s_id x)); reflexivity.
  - intros x _ Hp. apply andb_true_iff in Hp. destruct Hp as [_ Hp]. cbn [andb] in Hp.
    apply negb_true_iff in Hp. rewrite Hp. cbn [andb negb orb]. auto.
Qed.

Lemma rff_frame : forall i pase keep l,
  NoDup (map s_id l) ->
  (forall k, keep = Some k -> exists s', In s' l /\ s_id s' = k /\ s_fab s' = i) ->
  others_sess i pase (remove_for_fabric i keep l) = others_sess i pase l.
Proof.
  intros i pase keep l Hd Hk. unfold others_sess, remove_for_fabric. apply filter_map_filter.
  - intros x _. destruct (opt_is keep (s_id x)); reflexivity.
  - intros x Hx Hp. apply andb_true_iff in Hp. destruct Hp as [Hp _].
    rewrite Hp. cbn [orb]. split; [|reflexivity].
    destruct (opt_is keep (s_id x)) eqn:Eo; [|reflexivity]. exfalso.
    unfold opt_is in Eo. destruct keep as [k|]; [|discriminate]. apply N.eqb_eq in Eo.
    destruct (Hk k eq_refl) as (s' & Hs' & Ei & Ef).
    assert (s' = x) by (apply (NoDup_map_In_inj s_id l); congruence). subst s'.
    apply negb_true_iff, N.eqb_neq in Hp. contradiction.
Qed.

Lemma expire_frame : forall st keep f fl,
  Inv st -> st_fs st = Armed f fl ->
  others_sess f true (st_sess (expire repaired st keep)) = others_sess f true (st_sess st) /\
  others_recs f (st_recs (expire repaired st keep)) = others_recs f (st_recs st) /\
  others_subs f (st_subs (expire repaired st keep)) = others_subs f (st_subs st) /\
  fdel f (st_fabs (expire repaired st keep)) = fdel f (st_fabs st) /\
  fdel f (st_kvfabs (expire repaired st keep)) = fdel f (st_kvfabs st).
Proof.
  intros st keep f fl H Efs. unfold expire. rewrite Efs.
  destruct (f =? 0) eqn:E0.
  { sp. rewrite rp_frame. auto. }
  cbv zeta. destruct (fget f (st_kvfabs st)) as [kf|] eqn:K.
  - sp. rewrite rp_frame. repeat split; auto.
    rewrite fdel_app_same; [apply fdel_fdel|apply (fget_In _ _ _ K)].
  - cbn [drop_bound fx_drop_bound fx_expire_sessions repaired]. sp. repeat split.
    + rewrite rff_frame; [apply rp_frame|apply ids_remove_pase; apply (inv_sid _ H)|].
      intros k Hk. eapply keep_if_on_some; eauto.
    + apply filter_idem.
    + apply filter_idem.
    + apply fdel_fdel.
Qed.

Theorem others_unaffected :
  forall st o st' i pase, Inv st -> step st o = (st', StOk) -> removes st o = Some (i, pase) ->
    others_sess i pase (st_sess st') = others_sess i pase (st_sess st) /\
    others_recs i (st_recs st') = others_recs i (st_recs st) /\
    others_subs i (st_subs st') = others_subs i (st_subs st) /\
    fdel i (st_fabs st') = fdel i (st_fabs st) /\
    fdel i (st_kvfabs st') = fdel i (st_kvfabs st).
Proof.
  intros st o st' i pase H Hs Hr. destruct o; cbn [removes] in Hr; try discriminate Hr;
    unfold step in Hs; cbn [step_fx] in Hs.
  - (* ORemove *)
    inversion Hr; subst.
    destruct (sess_ctx st s) as [ss|] eqn:C; [|discriminate Hs]. unfold remove_fabric in Hs.
    destruct (negb (allowed st ss)); [discriminate Hs|].
    destruct (i =? 0); [discriminate Hs|].
    destruct (fget i (st_fabs st)) as [fb|]; [|discriminate Hs].
    inversion Hs; subst st'. cbn [drop_bound fx_drop_bound repaired]. sp.
    destruct (sess_ctx_some _ _ _ C) as (_ & _ & Hin & _ & _). repeat split.
    + apply rff_frame; [apply (inv_sid _ H)|]. intros k Hk.
      destruct (s_fab ss =? i) eqn:E; [|discriminate Hk]. inversion Hk; subst k.
      apply N.eqb_eq in E. eauto.
    + unfold others_recs, recs_drop. rewrite !filter_idem. reflexivity.
    + apply filter_idem.
    + apply fdel_fdel.
    + apply fdel_fdel.
  - (* OTimeout *)
    destruct (st_fs st) as [|f fl] eqn:Efs; [discriminate Hr|]. inversion Hr; subst.
    inversion Hs; subst st'. eapply expire_frame; eauto.
  - (* OArm0 *)
    destruct (st_fs st) as [|f fl] eqn:Efs; [discriminate Hr|]. inversion Hr; subst.
    destruct (sess_ctx st s) as [ss|]; [|discriminate Hs].
    destruct (negb (allowed st ss)); [discriminate Hs|].
    inversion Hs; subst st'. eapply expire_frame; eauto.
  - (* ORevoke *)
    destruct (st_fs st) as [|f fl] eqn:Efs; [discriminate Hr|]. inversion Hr; subst.
    destruct (sess_ctx st s) as [ss|]; [|discriminate Hs].
    destruct (negb (allowed st ss)); [discriminate Hs|].
    inversion Hs; subst st'. eapply expire_frame; eauto.
Qed.

(** ** The executable forms *)
Lemma sess_bound_b_iff : forall st s, sess_bound_b (st_fabs st) s = true <-> sess_bound st s.
Proof.
  intros st s. unfold sess_bound_b, sess_bound. rewrite orb_true_iff, N.eqb_eq.
  destruct (cur_inc (st_fabs st) (s_fab s)) as [x|]; cbn [opt_eqb].
  - rewrite N.eqb_eq. split; (intros [E|E]; [left; exact E|right; congruence]).
  - split; (intros [E|E]; [left; exact E|discriminate E]).
Qed.

Lemma rec_bound_b_iff : forall fabs r, rec_bound_b fabs r = true <-> rec_bound fabs r.
Proof.
  intros fabs r. unfold rec_bound_b, rec_bound. destruct (fget (r_fab r) fabs) as [f|].
  - rewrite N.eqb_eq. split; [intros E g Hg; inversion Hg; subst; exact E|intros Hb; apply Hb; reflexivity].
  - split; [intros _ g Hg; discriminate Hg|reflexivity].
Qed.

Lemma sub_bound_b_iff : forall fabs u, sub_bound_b fabs u = true <-> sub_bound fabs u.
Proof.
  intros fabs u. unfold sub_bound_b, sub_bound. destruct (fget (u_fab u) fabs) as [f|].
  - rewrite N.eqb_eq. split; [intros E g Hg; inversion Hg; subst; exact E|intros Hb; apply Hb; reflexivity].
  - split; [intros _ g Hg; discriminate Hg|reflexivity].
Qed.

Theorem bound_b_correct : forall st, bound_b st = true <-> bound_to_incarnation st.
Proof.
  intro st. unfold bound_b, bound_to_incarnation, sessions_ok, records_ok, subs_ok, kvrecords_ok.
  rewrite !andb_true_iff, !forallb_forall. split.
  - intros [[[Hs Hr] Hu] Hk]. repeat split.
    + intros s Hin Hus. specialize (Hs s Hin). rewrite Hus in Hs. cbn [negb orb] in Hs.
      apply sess_bound_b_iff; exact Hs.
    + intros r Hin. apply rec_bound_b_iff. auto.
    + intros u Hin. apply sub_bound_b_iff. auto.
    + intros r Hin. apply rec_bound_b_iff. auto.
  - intros (Hs & Hr & Hu & Hk). repeat split.
    + intros s Hin. destruct (usable s) eqn:Hus; [|reflexivity]. cbn [negb orb].
      apply sess_bound_b_iff. auto.
    + intros r Hin. apply rec_bound_b_iff. auto.
    + intros u Hin. apply sub_bound_b_iff. auto.
    + intros r Hin. apply rec_bound_b_iff. auto.
Qed.

Lemma step_verdict_clean : forall st o st1 r1,
  Inv st -> step st o = (st1, r1) -> step_verdict st o r1 st1 = [].
Proof.
  intros st o st1 r1 H Hs.
  assert (H1 : Inv st1).
  { pose proof (invariant_step st o H) as Hi. rewrite Hs in Hi. exact Hi. }
  pose proof (proj2 (bound_b_correct st1) (inv_bound _ H1)) as Hb. unfold bound_b in Hb.
  rewrite !andb_true_iff in Hb. destruct Hb as [[[_ _] _] B4].
  pose proof (proj2 (tight_b_correct st1) (inv_tight _ H1)) as Ht. unfold tight_b in Ht.
  rewrite !andb_true_iff in Ht. destruct Ht as [[B1 B2] B3].
  pose proof (proj2 (store_tight_b_correct st1) (inv_store _ H1)) as Hst. unfold store_tight_b in Hst.
  rewrite andb_true_iff in Hst. destruct Hst as [B5 B6].
  unfold step_verdict. rewrite B1, B2, B3, B4, B5, B6. cbn [app andb].
  assert (Hframe : match removes st o with
                   | Some (i, pase) => if negb (status_ok r1) || frame_ok i pase st st1 then [] else [5]
                   | None => []
                   end = @nil N).
  { destruct (removes st o) as [[i pase]|] eqn:Er; [|reflexivity].
    destruct r1; try reflexivity. cbn [status_ok negb orb].
    destruct (others_unaffected st o st1 i pase H Hs Er) as (F1 & F2 & F3 & F4 & F5).
    unfold frame_ok. rewrite F1, F2, F3, F4, F5.
    rewrite !list_eqb_refl; [reflexivity|apply fab_eqb_refl|apply fab_eqb_refl|apply sub_eqb_refl
                            |apply rec_eqb_refl|apply sess_eqb_refl]. }
  rewrite Hframe. cbn [app].
  destruct o; try reflexivity.
  - (* OResume *)
    destruct r1; try reflexivity. cbn [status_ok negb orb].
    destruct (resume_only_current st k st1 H Hs) as (r & f & R & G & E).
    unfold resume_ok. rewrite R, G. apply N.eqb_eq in E. rewrite E. reflexivity.
  - (* ORequest *)
    destruct r1; try reflexivity. cbn [status_ok negb orb].
    destruct (request_only_own_incarnation st s k st1 H Hs) as (ss & f & Sg & U & Hf & G & E & _).
    unfold request_ok. rewrite Sg, U. apply N.eqb_neq in Hf. rewrite Hf. cbn [negb andb].
    unfold sess_bound_b, cur_inc. rewrite G. cbn [opt_eqb]. apply N.eqb_eq in E. rewrite E.
    rewrite orb_true_r. reflexivity.
  - (* OResumeBegin *)
    destruct r1; try reflexivity. cbn [status_ok negb orb].
    destruct (resume_begin_only_current st k st1 H Hs) as (r & f & R & G & E).
    unfold resume_ok. rewrite R, G. apply N.eqb_eq in E. rewrite E. reflexivity.
Qed.

(** *** Trace clause: no removed incarnation returns *)
Lemma memN_In : forall x l, memN x l = true <-> In x l.
Proof.
  intros x l. unfold memN. rewrite existsb_exists. split.
  - intros (y & Hy & E). apply N.eqb_eq in E. subst y. exact Hy.
  - intro Hin. exists x. split; [exact Hin|apply N.eqb_refl].
Qed.

Lemma returns_b_clean : forall seen pre post,
  (forall c, In c seen -> c < st_ninc pre) -> tbl_ok pre post -> returns_b seen pre post = false.
Proof.
  intros seen pre post Hseen [_ Hf]. unfold returns_b.
  destruct (existsb _ (st_fabs post)) eqn:E; [|reflexivity]. exfalso.
  apply existsb_exists in E. destruct E as (f' & Hin & Hp). apply andb_true_iff in Hp.
  destruct Hp as [Hm Hn]. apply memN_In in Hm. apply negb_true_iff in Hn.
  destruct (Hf f' Hin) as [Hl|(f & Hf1 & Ef)].
  - specialize (Hseen _ Hm). lia.
  - assert (Hc : memN (f_inc f') (incs (st_fabs pre)) = true).
    { apply memN_In. unfold incs. apply in_map_iff. exists f. auto. }
    rewrite Hc in Hn. discriminate Hn.
Qed.

Lemma monitor_from_clean : forall ops st seen,
  Inv st -> (forall c, In c seen -> c < st_ninc st) ->
  monitor_from seen st (combine ops (snd (run st ops))) = [].
Proof.
  induction ops as [|o ops IH]; intros st seen H Hseen; [reflexivity|].
  unfold run in *. cbn [run_fx]. destruct (step_fx repaired st o) as [st1 r1] eqn:Es.
  assert (H1 : Inv st1).
  { pose proof (invariant_step st o H) as Hi. unfold step in Hi. rewrite Es in Hi. exact Hi. }
  assert (Ht : tbl_ok st st1).
  { pose proof (step_tbl st o H) as Hi. unfold step in Hi. rewrite Es in Hi. exact Hi. }
  assert (Hseen1 : forall c, In c (seen ++ incs (st_fabs st1)) -> c < st_ninc st1).
  { intros c Hc. apply in_app_iff in Hc. destruct Hc as [Hc|Hc].
    - specialize (Hseen c Hc). destruct Ht as [Hn _]. lia.
    - unfold incs in Hc. apply in_map_iff in Hc. destruct Hc as (f & <- & Hf).
      apply (inv_fresh _ H1); exact Hf. }
  specialize (IH st1 _ H1 Hseen1). destruct (run_fx repaired st1 ops) as [st2 tr] eqn:Er.
  cbn [snd combine monitor_from] in *. rewrite IH.
  rewrite (step_verdict_clean st o st1 r1 H Es), (returns_b_clean seen st st1 Hseen Ht). reflexivity.
Qed.

Theorem monitor_model_clean :
  forall st ops, Inv st -> monitor st (combine ops (snd (run st ops))) = [].
Proof.
  intros st ops H. unfold monitor. apply monitor_from_clean; [exact H|].
  intros c Hc. apply in_app_iff in Hc. unfold incs in Hc.
  destruct Hc as [Hc|Hc]; apply in_map_iff in Hc; destruct Hc as (f & <- & Hf).
  - apply (inv_fresh _ H); exact Hf.
  - destruct (TInv_kv _ H) as [Hfr _]. apply Hfr; exact Hf.
Qed.
