(** Two well-behaved BTP ends joined by a reliable in-order channel per
    direction, under an arbitrary scheduler: the invariant that ties each
    sender's window and outgoing SDU to the segments in flight and to the
    receiver's window and ring buffer, and the proof that every run satisfies
    the executable property [mon_pair]. *)
From RsM Require Import Lib.MachInt Model.Btp Model.BtpSpec
  Proofs.BtpCodec Proofs.BtpFacts Proofs.BtpHostile.
From Coq Require Import ZifyN ZifyBool.
Open Scope N_scope.

Ltac Zify.zify_post_hook ::= Z.div_mod_to_equations.

Arguments N.add : simpl never.
Arguments N.sub : simpl never.
Arguments N.mul : simpl never.
Arguments N.div : simpl never.
Arguments N.modulo : simpl never.
Arguments N.leb : simpl never.
Arguments N.ltb : simpl never.
Arguments N.eqb : simpl never.
Arguments N.min : simpl never.
Arguments N.max : simpl never.
Arguments N.of_nat : simpl never.
Arguments N.to_nat : simpl never.
Arguments N.testbit : simpl never.

Definition nlen {A} (l : list A) : N := N.of_nat (length l).

Lemma nlen_app {A} (a b : list A) : nlen (a ++ b) = nlen a + nlen b.
Proof. unfold nlen. rewrite app_length. lia. Qed.
Lemma nlen_cons {A} (x : A) l : nlen (x :: l) = nlen l + 1.
Proof. unfold nlen. cbn [length]. lia. Qed.
Lemma nlen_nil {A} : nlen (@nil A) = 0.
Proof. reflexivity. Qed.

(** * segments as the receiver reads them *)

Definition seg_of (b : bytes) : hdr * bytes :=
  match hdr_decode b with Ok hp => hp | _ => (hdr_new, []) end.

(** what the flag checks of [check_data_integrity] demand *)
Definition shape (m : N) (h : hdr) (p : bytes) : Prop :=
  fH h = false /\ fM h = false /\
  ((is_standalone_ack h = true /\ p = []) \/
   (is_standalone_ack h = false /\
    (is_some (get_msg_len h) || fC h || fE h) = true /\
    (is_some (get_msg_len h) && fC h) = false /\
    (fE h = false -> blen p + hdr_len h = m))).

(** what the length bookkeeping of [accept_incoming] demands *)
Definition content_next (rem : N) (h : hdr) (p : bytes) : N :=
  match get_msg_len h with Some L => L - blen p | None => rem - blen p end.

Definition content_ok (m rem : N) (h : hdr) (p : bytes) : Prop :=
  match get_msg_len h with
  | Some L => rem = 0 /\ blen p <= L /\ (L + hdr_len h <= m -> fE h = true)
  | None => blen p <= rem
  end /\ (fE h = true -> content_next rem h p = 0).

Definition prefix_of (h : hdr) : bytes :=
  match get_msg_len h with Some L => if 0 <? L then le16 L else [] | None => [] end.

(** what a well-behaved sender additionally guarantees *)
Definition honest (m : N) (h : hdr) (p : bytes) : Prop :=
  blen p + hdr_len h <= m /\ (fB h = true -> 1 <= h_len h <= MAX_TX) /\
  (fE h = true -> 1 <= blen p) /\ h_seq h < 256 /\ h_ack h < 256.

Definition seg_ok (m : N) (b : bytes) : Prop :=
  hdr_decode b = Ok (seg_of b) /\ shape m (fst (seg_of b)) (snd (seg_of b)) /\
  honest m (fst (seg_of b)) (snd (seg_of b)).

Definition contrib (b : bytes) : bytes := prefix_of (fst (seg_of b)) ++ snd (seg_of b).

Lemma rw_accept_yes win r h p m :
  rw_ok win r -> win <= 255 -> shape m h p ->
  h_seq h = wrap8 (rack_seq r + 1) -> 1 <= rlevel r -> content_ok m (rrem r) h p ->
  blen (rbuf r) + blen (prefix_of h) + blen p <= RX_CAP ->
  rw_accept_incoming r h p m =
    Ok (mkRW (rbuf r ++ prefix_of h ++ p)
             (if fE h && negb (blen p =? 0) then rmsgs r + 1 else rmsgs r)
             (rlevel r - 1) (rack_level r + 1) (h_seq h) (content_next (rrem r) h p)).
Proof.
  intros (Hsum & Hmsgs & Hseq & Hcap) Hwin (EH & EM & Hshape) Es Hlev (Hc & Hfin) Hfit.
  unfold rw_accept_incoming.
  assert (Hcdi : check_data_integrity r h p m = Ok tt).
  { unfold check_data_integrity. rewrite EH. unfold get_opcode. rewrite EM. cbn [is_some].
    unfold get_seq. rewrite EH. cbn [negb]. rewrite Es, N.eqb_refl. cbn [negb].
    destruct Hshape as [(Esa & ->)|(Esa & H1 & H2 & H3)]; rewrite Esa.
    - reflexivity.
    - destruct (is_some (get_msg_len h)), (fC h), (fE h); cbn [orb andb negb] in *; try discriminate;
        try reflexivity; rewrite (H3 eq_refl), N.eqb_refl; reflexivity. }
  rewrite Hcdi. cbn [bind].
  destruct (N.eqb_spec (rlevel r) 0); [lia|].
  unfold content_ok, content_next, prefix_of, rb_free, two8 in *.
  assert (Htail : forall rem prefix,
    blen p <= rem -> (fE h = true -> rem - blen p = 0) ->
    blen (rbuf r) + blen prefix + blen p <= RX_CAP ->
    (if rem <? blen p then Err E_INVALID_DATA
     else let? rem0 := csub P_REM rem (blen p) in
       if fE h && (0 <? rem0) then Err E_INVALID_DATA
       else if RX_CAP - blen (rbuf r) <? blen prefix + blen p then Err E_INVALID_DATA
       else let buf := rb_push (rb_push (rbuf r) prefix) p in
         let? level := csub P_RECV_LEVEL (rlevel r) 1 in
         let? ack_level := cadd 256 P_ACK_LEVEL (rack_level r) 1 in
         let? msgs := (if fE h && negb (blen p =? 0) then cadd 256 P_MSGS_CT (rmsgs r) 1 else Ok (rmsgs r)) in
         Ok (mkRW buf msgs level ack_level (h_seq h) rem0)) =
    Ok (mkRW (rbuf r ++ prefix ++ p)
             (if fE h && negb (blen p =? 0) then rmsgs r + 1 else rmsgs r)
             (rlevel r - 1) (rack_level r + 1) (h_seq h) (rem - blen p))).
  { intros rem prefix Hle Hf Hsp.
    destruct (N.ltb_spec rem (blen p)); [lia|].
    rewrite csub_ok by lia. cbn [bind].
    assert (Efin : fE h && (0 <? rem - blen p) = false).
    { destruct (fE h); [rewrite (Hf eq_refl); reflexivity|reflexivity]. }
    rewrite Efin.
    destruct (N.ltb_spec (RX_CAP - blen (rbuf r)) (blen prefix + blen p)); [lia|].
    cbv zeta. rewrite csub_ok by lia. cbn [bind]. rewrite cadd_ok by lia. cbn [bind].
    rewrite (rb_push_fits (rbuf r)) by lia. rewrite rb_push_fits by (rewrite blen_app; lia).
    rewrite <- app_assoc.
    destruct (fE h && negb (blen p =? 0)); [rewrite cadd_ok by lia|]; reflexivity. }
  destruct (get_msg_len h) as [L|].
  - destruct Hc as (Hr0 & HpL & Hmust).
    destruct (N.ltb_spec 0 (rrem r)); [lia|].
    assert (Emust : (L + hdr_len h <=? m) && negb (fE h) = false).
    { destruct (N.leb_spec (L + hdr_len h) m) as [Hle|]; [rewrite (Hmust Hle)|]; reflexivity. }
    rewrite Emust. cbn [bind]. apply Htail; assumption.
  - cbn [bind]. apply Htail; assumption.
Qed.

(** * what a well-behaved sender puts on the wire *)

Definition rem_of (buf : bytes) (off : N) : N := if off =? 0 then 0 else blen buf - off.

Definition rest_of (buf : bytes) (off : N) : bytes :=
  if blen buf =? 0 then [] else if off =? 0 then enc buf else skipn (N.to_nat off) buf.

Definition buf_after (buf : bytes) (off : N) (p : bytes) : bytes :=
  if off + blen p =? blen buf then [] else buf.
Definition off_after (buf : bytes) (off : N) (p : bytes) : N :=
  if off + blen p =? blen buf then 0 else off + blen p.

Lemma firstn_skipn_blen (n : N) (l : bytes) :
  n <= blen l -> blen (firstn (N.to_nat n) l) = n.
Proof. intro H. rewrite blen_firstn, N2Nat.id. lia. Qed.

Lemma skipn_all_blen (l : bytes) : skipn (N.to_nat (blen l)) l = [].
Proof. unfold blen. rewrite Nat2N.id. apply skipn_all. Qed.

Lemma firstn_all_blen (l : bytes) : firstn (N.to_nat (blen l)) l = l.
Proof. unfold blen. rewrite Nat2N.id. apply firstn_all. Qed.

Lemma hdr_len_data fa fe fc fb op ack sq ln :
  hdr_len (mkHdr false false fa fe fc fb op ack sq ln) = 2 + b2n fa + (if fb then 2 else 0).
Proof. unfold hdr_len. cbn [fM fA fH fB negb andb b2n]. destruct fa, fb; reflexivity. Qed.

Lemma tx_data_props m s buf off :
  mtu s = m -> 20 <= m <= 244 -> 1 <= blen buf <= MAX_TX -> off < blen buf ->
  rack_seq (recv s) < 256 ->
  let h := fst (tx_seg s buf off) in
  let p := snd (tx_seg s buf off) in
  hdr_wf h /\ shape m h p /\ honest m h p /\
  content_ok m (rem_of buf off) h p /\
  content_next (rem_of buf off) h p = rem_of (buf_after buf off p) (off_after buf off p) /\
  prefix_of h ++ p ++ rest_of (buf_after buf off p) (off_after buf off p) = rest_of buf off /\
  get_ack h = rw_pending_ack (recv s) /\ h_seq h = wrap8 (slast (send s) + 1) /\
  1 <= blen p /\ off + blen p <= blen buf /\ is_standalone_ack h = false /\
  (content_next (rem_of buf off) h p = 0 -> fE h = true).
Proof.
  intros Hm Hmr Hbuf Hoff Hrs. unfold tx_seg. rewrite Hm.
  destruct (N.eqb_spec (blen buf) 0); [lia|].
  set (pa := rw_pending_ack (recv s)).
  assert (Hpa : match pa with Some a => a | None => 0 end < 256).
  { unfold pa, rw_pending_ack. destruct (_ && _); lia. }
  set (a := match pa with Some a => a | None => 0 end) in *.
  assert (Hack : forall (fe fc fb : bool) sq ln,
            get_ack (mkHdr false false (is_some pa) fe fc fb 0 a sq ln) = pa).
  { intros. unfold get_ack. cbn [fA h_ack]. unfold a. destruct pa; reflexivity. }
  pose proof (wrap8_lt (slast (send s) + 1)) as Hsq.
  unfold sw_next_seq.
  destruct (N.eqb_spec off 0) as [->|Hoff0].
  - (* first segment *)
    rewrite !hdr_len_data.
    set (hl := 2 + b2n (is_some pa) + 2).
    assert (Hhl : 4 <= hl <= 5) by (unfold hl; destruct (is_some pa); cbn [b2n]; lia).
    cbn [skipn N.to_nat]. replace (N.to_nat 0) with 0%nat by reflexivity. cbn [skipn].
    set (chunk := N.min (blen buf) (m - hl)).
    assert (Hchunk : chunk <= blen buf /\ 1 <= chunk) by (unfold chunk; lia).
    cbn [fst snd].
    assert (Hpl : blen (firstn (N.to_nat chunk) buf) = chunk) by (apply firstn_skipn_blen; lia).
    unfold hdr_wf, shape, honest, content_ok, content_next, prefix_of, is_standalone_ack, get_msg_len,
      rem_of, rest_of, buf_after, off_after.
    cbn [fM fA fH fB fC fE h_op h_ack h_seq h_len negb andb orb is_some].
    rewrite !hdr_len_data. fold hl. rewrite Hpl. rewrite N.add_0_l. rewrite Hack.
    replace (0 =? 0) with true by reflexivity.
    replace (0 <? blen buf) with true by lia.
    split; [repeat split; intros Hx; try discriminate; try reflexivity; unfold a; destruct pa; [discriminate Hx|reflexivity]|].
    split.
    { split; [reflexivity|]. split; [reflexivity|]. right.
      split; [reflexivity|]. split; [reflexivity|]. split; [reflexivity|].
      intro Hne. unfold chunk in *. lia. }
    split.
    { split; [unfold chunk; lia|]. split; [intros _; lia|]. split; [intros _; lia|]. split; assumption. }
    split.
    { split; [split; [reflexivity|split; [lia|]]|].
      - intro Hle. unfold chunk. apply N.eqb_eq. lia.
      - intro HE. apply N.eqb_eq in HE. lia. }
    split.
    { destruct (N.eqb_spec chunk (blen buf)) as [E|NE].
      - replace (0 =? 0) with true by reflexivity. lia.
      - destruct (N.eqb_spec chunk 0); [lia|]. reflexivity. }
    split.
    { destruct (N.eqb_spec (blen buf) 0); [lia|].
      destruct (N.eqb_spec chunk (blen buf)) as [E|NE].
      - cbn [blen length]. replace (N.of_nat 0 =? 0) with true by reflexivity.
        rewrite app_nil_r. unfold enc. f_equal. rewrite E. apply firstn_all_blen.
      - destruct (N.eqb_spec (blen buf) 0); [lia|]. destruct (N.eqb_spec chunk 0); [lia|].
        unfold enc. f_equal. apply firstn_skipn. }
    repeat split; try lia; try reflexivity.
  - (* continuation *)
    rewrite !hdr_len_data.
    set (hl := 2 + b2n (is_some pa) + 0).
    assert (Hhl : 2 <= hl <= 3) by (unfold hl; destruct (is_some pa); cbn [b2n]; lia).
    set (remaining := skipn (N.to_nat off) buf).
    assert (Hrl : blen remaining = blen buf - off) by (unfold remaining; rewrite blen_skipn, N2Nat.id; reflexivity).
    set (chunk := N.min (blen remaining) (m - hl)).
    assert (Hchunk : chunk <= blen remaining /\ 1 <= chunk) by (unfold chunk; lia).
    cbn [fst snd].
    assert (Hpl : blen (firstn (N.to_nat chunk) remaining) = chunk) by (apply firstn_skipn_blen; lia).
    unfold hdr_wf, shape, honest, content_ok, content_next, prefix_of, is_standalone_ack, get_msg_len,
      rem_of, rest_of, buf_after, off_after.
    cbn [fM fA fH fB fC fE h_op h_ack h_seq h_len negb andb orb is_some].
    rewrite !hdr_len_data. fold hl. rewrite Hpl. rewrite Hack.
    destruct (N.eqb_spec off 0); [lia|].
    split; [repeat split; intros Hx; try discriminate; try reflexivity; unfold a; destruct pa; [discriminate Hx|reflexivity]|].
    split.
    { split; [reflexivity|]. split; [reflexivity|]. right.
      split; [reflexivity|]. split; [reflexivity|]. split; [reflexivity|].
      intro Hne. unfold chunk in *. lia. }
    split.
    { split; [unfold chunk; lia|]. split; [intro Hx; discriminate Hx|]. split; [intros _; lia|]. split; assumption. }
    split.
    { split; [lia|]. intro HE. apply N.eqb_eq in HE. lia. }
    split.
    { destruct (N.eqb_spec chunk (blen remaining)) as [E|NE].
      - destruct (N.eqb_spec (off + chunk) (blen buf)); [|lia]. replace (0 =? 0) with true by reflexivity. lia.
      - destruct (N.eqb_spec (off + chunk) (blen buf)); [lia|].
        destruct (N.eqb_spec (off + chunk) 0); [lia|]. lia. }
    split.
    { cbn [app]. destruct (N.eqb_spec (blen buf) 0); [lia|].
      destruct (N.eqb_spec (off + chunk) (blen buf)) as [E|NE].
      - cbn [blen length]. replace (N.of_nat 0 =? 0) with true by reflexivity.
        rewrite app_nil_r.
        replace chunk with (blen remaining) by lia. apply firstn_all_blen.
      - destruct (N.eqb_spec (blen buf) 0); [lia|]. destruct (N.eqb_spec (off + chunk) 0); [lia|].
        replace (N.to_nat (off + chunk)) with (N.to_nat chunk + N.to_nat off)%nat by lia.
        rewrite <- skipn_skipn'. fold remaining. apply firstn_skipn. }
    repeat split; try lia; try (rewrite !andb_false_r; reflexivity).
Qed.

Lemma tx_seg_nil s :
  tx_seg s [] 0 =
  (mkHdr false false (is_some (rw_pending_ack (recv s))) false false false 0
         (match rw_pending_ack (recv s) with Some a => a | None => 0 end)
         (sw_next_seq (send s)) 0, []).
Proof. reflexivity. Qed.

Lemma tx_ack_props m s :
  is_some (rw_pending_ack (recv s)) = true -> rack_seq (recv s) < 256 -> 20 <= m ->
  let h := fst (tx_seg s [] 0) in
  snd (tx_seg s [] 0) = [] /\ hdr_wf h /\ shape m h [] /\ honest m h [] /\
  (forall rem, content_ok m rem h [] /\ content_next rem h [] = rem) /\
  prefix_of h = [] /\ get_ack h = rw_pending_ack (recv s) /\
  h_seq h = wrap8 (slast (send s) + 1) /\ is_standalone_ack h = true.
Proof.
  intros Hpa Hrs Hm. rewrite tx_seg_nil.
  cbn [fst snd]. rewrite Hpa.
  pose proof (wrap8_lt (slast (send s) + 1)) as Hsq.
  assert (Ha : match rw_pending_ack (recv s) with Some a => a | None => 0 end < 256).
  { unfold rw_pending_ack. destruct (_ && _); lia. }
  unfold hdr_wf, shape, honest, content_ok, content_next, prefix_of, is_standalone_ack, get_msg_len,
    get_ack, sw_next_seq.
  cbn [fM fA fH fB fC fE h_op h_ack h_seq h_len negb andb orb is_some].
  rewrite hdr_len_data. cbn [b2n]. rewrite blen_nil.
  split; [reflexivity|].
  split; [repeat split; intros Hx; try discriminate Hx; reflexivity|].
  split; [split; [reflexivity|split; [reflexivity|left; split; reflexivity]]|].
  split; [repeat split; try lia; intro Hx; discriminate Hx|].
  split; [intro rem; split; [split; [lia|intro Hx; discriminate Hx]|lia]|].
  split; [reflexivity|]. split; [|split; reflexivity].
  destruct (rw_pending_ack (recv s)); [reflexivity|discriminate Hpa].
Qed.

Lemma hdr_encode_nonempty h l : (blen (hdr_encode h ++ l) =? 0) = false.
Proof. unfold hdr_encode. cbn [app]. rewrite blen_cons. lia. Qed.

(** what a poll of an established end does, in closed form *)
Lemma poll_est s oa buf off g t :
  let i := mkInner s oa buf off in
  inner_ok i -> hs_pending s = false -> 20 <= mtu s <= 244 ->
  (blen buf <> 0 -> oa = address s /\ off < blen buf /\ blen buf <= MAX_TX) ->
  rack_seq (recv s) < 256 ->
  process_outgoing i g t POLL_CAP =
    let full := sw_is_full (send s) (recv s) in
    if negb (blen buf =? 0) && negb full then
      let h := fst (tx_seg s buf off) in let p := snd (tx_seg s buf off) in
      (mkInner (after_tx s) (if off + blen p =? blen buf then 0 else oa)
               (buf_after buf off p) (off_after buf off p), Ok (hdr_encode h ++ p))
    else if is_ack_due s t && negb full then
      (mkInner (after_tx s) oa buf off, Ok (hdr_encode (fst (tx_seg s [] 0)) ++ snd (tx_seg s [] 0)))
    else (i, Ok []).
Proof.
  intros i (Hs & Hoff) Hp Hm Hbuf Hrs. unfold i in *. cbn [sess out_off out_buf] in *.
  unfold process_outgoing. cbn [sess out_addr out_buf out_off].
  unfold prep_tx_handshake. rewrite Hp.
  change (blen (@nil N) =? 0) with true. cbn [negb].
  cbv zeta.
  assert (Hack_stage : forall oa2 b2 o2,
     (if is_ack_due s t
      then match prep_tx_data s [] 0 POLL_CAP with
           | Ok (s3, out, _) => (mkInner s3 oa2 b2 o2, Ok out)
           | Err c => (mkInner s oa2 b2 o2, Err c) | Panic p => (mkInner s oa2 b2 o2, Panic p) end
      else (mkInner s oa2 b2 o2, Ok [])) =
     (if is_ack_due s t && negb (sw_is_full (send s) (recv s))
      then (mkInner (after_tx s) oa2 b2 o2,
            Ok (hdr_encode (fst (tx_seg s [] 0)) ++ snd (tx_seg s [] 0)))
      else (mkInner s oa2 b2 o2, Ok []))).
  { intros oa2 b2 o2.
    destruct (is_ack_due s t) eqn:Edue; [|reflexivity]. cbn [andb].
    pose proof (prep_tx_data_cases s [] 0 POLL_CAP Hs Hp (N.le_0_l _)) as Hd.
    assert (Hpa : is_some (rw_pending_ack (recv s)) = true).
    { unfold is_ack_due in Edue. apply andb_true_iff in Edue. apply Edue. }
    destruct (tx_ack_props (mtu s) s Hpa Hrs (proj1 Hm)) as (Ep & _ & _ & (Hsz & _) & _).
    destruct (sw_is_full (send s) (recv s)) eqn:Hfull; cbn [negb].
    - unfold prep_tx_data. rewrite prep_tx_seg_full by assumption. cbn [bind].
      reflexivity.
    - unfold prep_tx_data. rewrite prep_tx_seg_open by (try assumption; lia). cbn [bind].
      destruct (tx_seg s [] 0) as [h p] eqn:Etx. cbn [fst snd] in *. subst p.
      unfold wb. rewrite blen_app, hdr_len_encode, blen_nil.
      rewrite blen_nil in Hsz. unfold POLL_CAP.
      destruct (N.leb_spec (hdr_len h + 0) 512); [|lia]. cbn [bind].
      rewrite sw_post_send_ok by (eapply not_full_level; eassumption). cbn [bind].
      destruct Hs as ((Hw & ? & ?) & Hrw & _).
      erewrite rw_post_send_ok by eassumption. cbn [bind]. reflexivity. }
  destruct (N.eqb_spec (blen buf) 0) as [E0|Hne]; cbn [negb andb].
  - (* nothing queued *)
    cbn [sess out_addr out_buf out_off]. change (blen (@nil N) =? 0) with true. cbn [negb].
    etransitivity; [apply Hack_stage|].
    destruct (is_ack_due s t && negb (sw_is_full (send s) (recv s))); reflexivity.
  - destruct (Hbuf Hne) as (-> & Hlt & Hmax). rewrite N.eqb_refl.
    destruct (sw_is_full (send s) (recv s)) eqn:Hfull; cbn [negb andb].
    + unfold prep_tx_data at 1. rewrite prep_tx_seg_full by assumption. cbn [bind].
      change (blen (@nil N) =? 0) with true. cbn [negb].
      cbn [sess out_addr out_buf out_off].
      etransitivity; [apply Hack_stage|].
      cbn [negb]. rewrite !andb_false_r. reflexivity.
    + unfold prep_tx_data at 1. rewrite prep_tx_seg_open by (try assumption; lia). cbn [bind].
      pose proof (tx_data_props (mtu s) s buf off eq_refl Hm) as Hprops.
      cbv zeta in Hprops.
      destruct Hprops as (_ & _ & (Hsz & _) & _ & _ & _ & _ & _ & Hp1 & Hp2 & _ & _); try lia.
      destruct (tx_seg s buf off) as [h p] eqn:Etx. cbn [fst snd] in *.
      unfold wb. rewrite blen_app, hdr_len_encode. unfold POLL_CAP.
      destruct (N.leb_spec (hdr_len h + blen p) 512); [|lia]. cbn [bind].
      rewrite sw_post_send_ok by (eapply not_full_level; eassumption). cbn [bind].
      destruct Hs as ((Hw & ? & ?) & Hrw & _).
      erewrite rw_post_send_ok by eassumption. cbn [bind].
      rewrite hdr_encode_nonempty. cbn [negb].
      unfold buf_after, off_after, out_reset.
      destruct (off + blen p =? blen buf); reflexivity.
Qed.

(** * mod-256 distance between the last sequence number sent and an acknowledged one *)

Definition dist (last a : N) : N := wrap8 (last + 256 - a).

Lemma dist_succ last a :
  last < 256 -> a < 256 -> dist last a < 255 -> dist (wrap8 (last + 1)) a = dist last a + 1.
Proof. unfold dist, wrap8, two8. intros. lia. Qed.

Lemma dist_of_len r n last :
  r < 256 -> n < 256 -> wrap8 (r + n) = last -> dist last r = n.
Proof. unfold dist, wrap8, two8. intros. lia. Qed.

Lemma wrap8_add_l a b : wrap8 (wrap8 a + b) = wrap8 (a + b).
Proof. unfold wrap8, two8. lia. Qed.

(** * unique decoding of the ring-buffer framing *)

Lemma app_eq_len {A} (a c b d : list A) :
  a ++ b = c ++ d -> length a = length c -> a = c /\ b = d.
Proof.
  revert c. induction a as [|x a IH]; intros [|y c] H Hl; cbn [length] in Hl; try discriminate.
  - auto.
  - cbn [app] in H. injection H as -> H. destruct (IH c H) as [-> ->]; [lia|]. auto.
Qed.

Lemma frame_unique L pb r1 mk r2 :
  le16 L ++ pb ++ r1 = enc mk ++ r2 -> blen pb = L -> L < 65536 -> blen mk < 65536 ->
  pb = mk /\ r1 = r2.
Proof.
  unfold enc, le16. cbn [app]. intros H Hl HL Hk.
  injection H as H1 H2 H. assert (E : L = blen mk) by lia.
  apply app_eq_len in H; [assumption|]. unfold blen in *. lia.
Qed.

Section Pair.
Variables (m w : N).
Hypothesis Hm : 20 <= m <= 244.
Hypothesis Hw : 1 <= w <= 255.
Hypothesis Hcapmw : w * m + 1234 <= RX_CAP.

(** honest streams: a non-ack segment that brings the remaining length to 0 is final *)
Definition content_h (rem : N) (h : hdr) (p : bytes) : Prop :=
  content_ok m rem h p /\
  (is_standalone_ack h = false -> content_next rem h p = 0 -> fE h = true).

Fixpoint chan_seqs (e : N) (c : list bytes) : Prop :=
  match c with
  | [] => True
  | b :: t => h_seq (fst (seg_of b)) = e /\ chan_seqs (wrap8 (e + 1)) t
  end.

Fixpoint chan_content (rem : N) (c : list bytes) (final : N) : Prop :=
  match c with
  | [] => rem = final
  | b :: t => content_h rem (fst (seg_of b)) (snd (seg_of b)) /\
              chan_content (content_next rem (fst (seg_of b)) (snd (seg_of b))) t final
  end.

Definition acks_of (c : list bytes) : list N :=
  flat_map (fun b => match get_ack (fst (seg_of b)) with Some a => [a] | None => [] end) c.

(** the ACKs on their way back to the sender, oldest first: each acknowledges
    strictly more than the one before ([dist] strictly decreasing, below what
    the sender has outstanding, not below what is still in flight or unacknowledged) *)
Fixpoint acks_chain (last hi lo : N) (l : list N) : Prop :=
  match l with
  | [] => True
  | a :: t => a < 256 /\ lo <= dist last a /\ dist last a < hi /\ acks_chain last (dist last a) lo t
  end.

(** what the sender will have outstanding once every ACK in flight has arrived *)
Fixpoint chain_end (last hi : N) (l : list N) : N :=
  match l with
  | [] => hi
  | a :: t => chain_end last (dist last a) t
  end.

Definition partial (rem : N) (pb : bytes) : bytes :=
  if rem =? 0 then [] else le16 (blen pb + rem) ++ pb.

Definition msg_ok (x : bytes) : Prop := 1 <= blen x <= MAX_TX.

(** the invariant of one direction: sender window and outgoing SDU, segments in
    flight, receiver window and ring buffer, ACKs on their way back, and the
    SDUs accepted from the application and not delivered yet *)
Definition dirinv (sw : sendw) (buf : bytes) (off : N) (rw : recvw)
    (cxy cyx : list bytes) (q : list bytes) : Prop :=
  exists done tailq pb,
    q = done ++ tailq /\ nlen done = rmsgs rw /\
    rbuf rw = concat (map enc done) ++ partial (rrem rw) pb /\
    (rrem rw = 0 -> pb = []) /\ blen pb + rrem rw <= MAX_TX /\
    concat (map enc tailq) =
      partial (rrem rw) pb ++ concat (map contrib cxy) ++ rest_of buf off /\
    Forall msg_ok q /\
    off <= blen buf /\ (blen buf <> 0 -> off < blen buf /\ blen buf <= MAX_TX) /\
    (blen buf = 0 -> off = 0) /\
    Forall (seg_ok m) cxy /\
    chan_seqs (wrap8 (rack_seq rw + 1)) cxy /\ wrap8 (rack_seq rw + nlen cxy) = slast sw /\
    nlen cxy + rack_level rw <= w - slevel sw /\ slevel sw <= w /\ swin sw = w /\
    slast sw < 256 /\ rack_seq rw < 256 /\
    acks_chain (slast sw) (w - slevel sw) (nlen cxy + rack_level rw) (acks_of cyx) /\
    chan_content (rrem rw) cxy (rem_of buf off) /\
    blen (rbuf rw) <= 1234 + rack_level rw * m /\
    (* no lost ACK: everything the sender has outstanding is in flight, or remembered
       by the receiver as unacknowledged, or covered by an ACK in flight *)
    chain_end (slast sw) (w - slevel sw) (acks_of cyx) = nlen cxy + rack_level rw.

Lemma chan_seqs_snoc c : forall e b,
  chan_seqs e c -> h_seq (fst (seg_of b)) = wrap8 (e + nlen c) -> e < 256 ->
  chan_seqs e (c ++ [b]).
Proof.
  induction c as [|x c IH]; intros e b Hc Hb He; cbn [app chan_seqs] in *.
  - rewrite nlen_nil, N.add_0_r, wrap8_small in Hb by assumption. auto.
  - destruct Hc as [Hx Hc]. split; [assumption|].
    apply IH; [assumption| |apply wrap8_lt].
    rewrite Hb, nlen_cons, wrap8_add_l. f_equal. lia.
Qed.

Lemma chan_content_snoc c : forall rem f b,
  chan_content rem c f -> content_h f (fst (seg_of b)) (snd (seg_of b)) ->
  chan_content rem (c ++ [b]) (content_next f (fst (seg_of b)) (snd (seg_of b))).
Proof.
  induction c as [|x c IH]; intros rem f b Hc Hb; cbn [app chan_content] in *.
  - subst. auto.
  - destruct Hc as [Hx Hc]. split; [assumption|]. apply IH; assumption.
Qed.

Lemma acks_of_snoc c b :
  acks_of (c ++ [b]) =
  acks_of c ++ match get_ack (fst (seg_of b)) with Some a => [a] | None => [] end.
Proof. unfold acks_of. rewrite flat_map_app. cbn [flat_map]. rewrite app_nil_r. reflexivity. Qed.

Lemma acks_chain_shift last l : forall hi lo,
  last < 256 -> hi < 256 -> acks_chain last hi lo l ->
  acks_chain (wrap8 (last + 1)) (hi + 1) (lo + 1) l.
Proof.
  induction l as [|a l IH]; intros hi lo Hl Hhi Hc; cbn [acks_chain] in *; [trivial|].
  destruct Hc as (Ha & Hd & Hd2 & Hc).
  rewrite dist_succ by lia. split; [assumption|]. split; [lia|]. split; [lia|].
  apply IH; [assumption|lia|assumption].
Qed.

Lemma chain_end_shift last l : forall hi lo,
  last < 256 -> hi < 256 -> acks_chain last hi lo l ->
  chain_end (wrap8 (last + 1)) (hi + 1) l = chain_end last hi l + 1.
Proof.
  induction l as [|a l IH]; intros hi lo Hl Hhi Hc; cbn [acks_chain chain_end] in *; [reflexivity|].
  destruct Hc as (Ha & Hd & Hd2 & Hc).
  rewrite dist_succ by lia. eapply IH; [assumption|lia|eassumption].
Qed.

Lemma acks_chain_snoc last l : forall hi lo lo' a,
  acks_chain last hi lo l -> lo' < lo -> lo <= hi -> a < 256 -> dist last a = lo' ->
  acks_chain last hi lo' (l ++ [a]).
Proof.
  induction l as [|x l IH]; intros hi lo lo' a Hc Hlo Hhi Ha Hd; cbn [app acks_chain] in *.
  - repeat split; try assumption; lia.
  - destruct Hc as (Hx & Hdx & Hdx2 & Hc). split; [assumption|]. split; [lia|]. split; [assumption|].
    eapply IH; try eassumption.
Qed.

Lemma chain_end_snoc last l : forall hi a,
  chain_end last hi (l ++ [a]) = dist last a.
Proof. induction l as [|x l IH]; intros hi a; cbn [app chain_end]; [reflexivity|apply IH]. Qed.

Lemma acks_chain_lower last l : forall hi lo lo',
  acks_chain last hi lo l -> lo' <= lo -> acks_chain last hi lo' l.
Proof.
  induction l as [|x l IH]; intros hi lo lo' Hc Hlo; cbn [acks_chain] in *; [trivial|].
  destruct Hc as (Hx & Hdx & Hdx2 & Hc). split; [assumption|]. split; [lia|]. split; [assumption|].
  eapply IH; eassumption.
Qed.

(** the chain never ends above the sender's outstanding count *)
Lemma chain_end_le last l : forall hi lo, acks_chain last hi lo l -> chain_end last hi l <= hi.
Proof.
  induction l as [|x l IH]; intros hi lo Hc; cbn [acks_chain chain_end] in *; [lia|].
  destruct Hc as (_ & _ & Hd & Hc). specialize (IH _ _ Hc). lia.
Qed.

(** ... and strictly below it when an ACK is in flight *)
Lemma chain_end_lt last l hi lo :
  acks_chain last hi lo l -> l <> [] -> chain_end last hi l < hi.
Proof.
  destruct l as [|x l]; [congruence|]. cbn [acks_chain chain_end]. intros (_ & _ & Hd & Hc) _.
  pose proof (chain_end_le _ _ _ _ Hc). lia.
Qed.

Lemma partial_len rem pb : blen pb + rem <= MAX_TX -> blen (partial rem pb) <= 1234.
Proof.
  unfold partial, MAX_TX. intro H. destruct (rem =? 0); [rewrite blen_nil; lia|].
  rewrite blen_app, blen_le16. lia.
Qed.

(** the segment a decoded, well-formed header and payload encode to *)
Lemma seg_of_encode h p : hdr_wf h -> seg_of (hdr_encode h ++ p) = (h, p).
Proof. intro H. unfold seg_of. rewrite hdr_decode_encode by assumption. reflexivity. Qed.

Lemma is_data_encode h p : fH h = false -> is_data_seg (hdr_encode h ++ p) = true.
Proof.
  intro H. unfold hdr_encode. cbn [app is_data_seg].
  destruct (flags_byte_bits h) as (B6 & _). rewrite B6, H. reflexivity.
Qed.

(** ** events on one direction *)

Lemma dir_submit sw buf off rw cxy cyx q d :
  dirinv sw buf off rw cxy cyx q -> blen buf = 0 -> msg_ok d ->
  dirinv sw d 0 rw cxy cyx (q ++ [d]).
Proof.
  intros (done & tailq & pb & Hq & Hn & Hbuf & Hpb & Hpl & Heq & Hmsgs & Ho1 & Ho2 & Ho3 & Hrest) Hb0 Hd.
  exists done, (tailq ++ [d]), pb.
  assert (Hoff : off = 0) by auto. subst off.
  unfold msg_ok in Hd.
  split; [rewrite Hq, app_assoc; reflexivity|]. split; [assumption|]. split; [assumption|].
  split; [assumption|]. split; [assumption|].
  split.
  { rewrite concat_enc_snoc, Heq. unfold rest_of at 1. rewrite Hb0.
    replace (0 =? 0) with true by reflexivity. rewrite app_nil_r.
    unfold rest_of. destruct (N.eqb_spec (blen d) 0); [lia|].
    replace (0 =? 0) with true by reflexivity. rewrite <- !app_assoc. reflexivity. }
  split; [apply Forall_app; split; [assumption|constructor; [exact Hd|constructor]]|].
  split; [lia|]. split; [intros _; lia|]. split; [reflexivity|].
  unfold rem_of in *. replace (0 =? 0) with true in * by reflexivity. exact Hrest.
Qed.

Lemma dir_emit_tx sw buf off rw cxy cyx q h p buf' off' :
  dirinv sw buf off rw cxy cyx q -> 1 <= slevel sw ->
  hdr_wf h -> shape m h p -> honest m h p ->
  content_h (rem_of buf off) h p ->
  content_next (rem_of buf off) h p = rem_of buf' off' ->
  prefix_of h ++ p ++ rest_of buf' off' = rest_of buf off ->
  h_seq h = wrap8 (slast sw + 1) ->
  off' <= blen buf' -> (blen buf' <> 0 -> off' < blen buf' /\ blen buf' <= MAX_TX) ->
  (blen buf' = 0 -> off' = 0) ->
  dirinv (mkSW (swin sw) (slevel sw - 1) (wrap8 (slast sw + 1))) buf' off' rw
         (cxy ++ [hdr_encode h ++ p]) cyx q.
Proof.
  intros (done & tailq & pb & Hq & Hn & Hbuf & Hpb & Hpl & Heq & Hmsgs & _ & _ & _ & Hsegs & Hseqs & Hlast
          & Hwin & Hlev & Hsw & Hsl & Hrs & Hacks & Hcont & Hspace & Hexact)
         Hlev1 Hwf Hshape Hhon Hch Hnext Hrest Hseq Ho1 Ho2 Ho3.
  pose proof (seg_of_encode h p Hwf) as Eseg.
  exists done, tailq, pb.
  cbn [swin slevel slast].
  split; [assumption|]. split; [assumption|]. split; [assumption|]. split; [assumption|]. split; [assumption|].
  split.
  { assert (Ec : contrib (hdr_encode h ++ p) = prefix_of h ++ p) by (unfold contrib; rewrite Eseg; reflexivity).
    rewrite Heq, map_app, concat_app. cbn [map concat]. rewrite Ec.
    rewrite app_nil_r, <- Hrest, <- !app_assoc. reflexivity. }
  split; [assumption|]. split; [assumption|]. split; [assumption|]. split; [assumption|].
  split.
  { apply Forall_app. split; [assumption|]. constructor; [|constructor].
    unfold seg_ok. rewrite Eseg. cbn [fst snd]. split; [apply hdr_decode_encode; assumption|]. split; assumption. }
  assert (Hn255 : nlen cxy < 255) by lia.
  split.
  { apply chan_seqs_snoc; [assumption| |apply wrap8_lt].
    rewrite Eseg. cbn [fst]. rewrite Hseq, <- Hlast, !wrap8_add_l. f_equal. lia. }
  split; [rewrite nlen_app, <- Hlast, !wrap8_add_l; cbn [nlen length]; f_equal; unfold nlen; cbn [length]; lia|].
  rewrite nlen_app, nlen_cons, nlen_nil.
  split; [lia|]. split; [lia|]. split; [assumption|]. split; [apply wrap8_lt|]. split; [assumption|].
  split.
  { replace (w - (slevel sw - 1)) with (w - slevel sw + 1) by lia.
    replace (nlen cxy + (0 + 1) + rack_level rw) with (nlen cxy + rack_level rw + 1) by lia.
    apply acks_chain_shift; [assumption|lia|assumption]. }
  split.
  { rewrite <- Hnext.
    pose proof (chan_content_snoc cxy (rrem rw) (rem_of buf off) (hdr_encode h ++ p) Hcont) as Hs.
    rewrite Eseg in Hs. cbn [fst snd] in Hs. apply Hs. exact Hch. }
  split; [assumption|].
  replace (w - (slevel sw - 1)) with (w - slevel sw + 1) by lia.
  erewrite chain_end_shift; [|assumption|lia|eassumption]. lia.
Qed.

Lemma dir_emit_rx sw buf off rw cxy cyx q h p :
  dirinv sw buf off rw cxy cyx q -> hdr_wf h -> get_ack h = rw_pending_ack rw ->
  dirinv sw buf off
    (if is_some (rw_pending_ack rw)
     then mkRW (rbuf rw) (rmsgs rw) (rlevel rw + rack_level rw) 0 (rack_seq rw) (rrem rw)
     else rw)
    cxy (cyx ++ [hdr_encode h ++ p]) q.
Proof.
  intros (done & tailq & pb & Hq & Hn & Hbuf & Hpb & Hpl & Heq & Hmsgs & Ho1 & Ho2 & Ho3 & Hsegs & Hseqs & Hlast
          & Hwin & Hlev & Hsw & Hsl & Hrs & Hacks & Hcont & Hspace & Hexact) Hwf Hack.
  pose proof (seg_of_encode h p Hwf) as Eseg.
  exists done, tailq, pb.
  rewrite acks_of_snoc, Eseg. cbn [fst]. rewrite Hack.
  destruct (rw_pending_ack rw) as [a|] eqn:Epa; cbn [is_some].
  - assert (Ea : a = rack_seq rw /\ rmsgs rw = 0 /\ 1 <= rack_level rw).
    { unfold rw_pending_ack in Epa. destruct (N.ltb_spec 0 (rack_level rw)); cbn [andb] in Epa; [|discriminate].
      destruct (N.eqb_spec (rmsgs rw) 0); inversion Epa. repeat split; try assumption; lia. }
    destruct Ea as (-> & Hm0 & Hr1).
    cbn [rbuf rmsgs rrem rack_level rack_seq]. rewrite !N.add_0_r.
    repeat (split; [assumption|]).
    split; [lia|]. split; [assumption|]. split; [assumption|]. split; [assumption|]. split; [assumption|].
    split.
    { eapply acks_chain_snoc; try eassumption; try lia.
      eapply dist_of_len; try eassumption; lia. }
    split; [assumption|].
    split.
    { (* nothing complete is waiting: the buffer holds at most one partial SDU *)
      assert (done = []) by (destruct done; [reflexivity|rewrite nlen_cons in Hn; lia]). subst done.
      rewrite Hbuf. cbn [map concat app]. pose proof (partial_len _ _ Hpl). lia. }
    rewrite chain_end_snoc. eapply dist_of_len; try eassumption; lia.
  - rewrite app_nil_r. repeat (split; [assumption|]). assumption.
Qed.

Lemma dir_deliver_tx sw buf off rw cxy b cyx q :
  dirinv sw buf off rw cxy (b :: cyx) q ->
  sw_check_incoming sw (fst (seg_of b)) = Ok tt /\
  dirinv (match get_ack (fst (seg_of b)) with
          | Some a => mkSW (swin sw) (swin sw - wrap8 (slast sw + 256 - a)) (slast sw)
          | None => sw end) buf off rw cxy cyx q /\
  match get_ack (fst (seg_of b)) with
  | Some a => 1 <= swin sw - wrap8 (slast sw + 256 - a)   (* an ACK always re-opens the window *)
  | None => acks_of (b :: cyx) = acks_of cyx
  end.
Proof.
  intros (done & tailq & pb & Hq & Hn & Hbuf & Hpb & Hpl & Heq & Hmsgs & Ho1 & Ho2 & Ho3 & Hsegs & Hseqs & Hlast
          & Hwin & Hlev & Hsw & Hsl & Hrs & Hacks & Hcont & Hspace & Hexact).
  unfold acks_of in Hacks, Hexact. cbn [flat_map] in Hacks, Hexact. fold (acks_of cyx) in Hacks, Hexact.
  unfold sw_check_incoming.
  destruct (get_ack (fst (seg_of b))) as [a|] eqn:Eg.
  - cbn [app acks_chain chain_end] in Hacks, Hexact. destruct Hacks as (Ha & Hd & Hd2 & Hacks). unfold dist in *.
    rewrite Hsw. rewrite csub_ok by lia. cbn [bind].
    destruct (N.ltb_spec (w - slevel sw) (wrap8 (slast sw + 256 - a))); [lia|].
    split; [reflexivity|]. split; [|lia].
    exists done, tailq, pb. cbn [swin slevel slast].
    repeat (split; [assumption|]).
    split; [lia|]. split; [lia|]. split; [reflexivity|]. split; [assumption|]. split; [assumption|].
    replace (w - (w - wrap8 (slast sw + 256 - a))) with (wrap8 (slast sw + 256 - a)) by lia.
    split; [exact Hacks|]. split; [assumption|]. split; [assumption|]. exact Hexact.
  - split; [reflexivity|]. cbn [app] in Hacks, Hexact.
    split; [|unfold acks_of at 1; cbn [flat_map]; rewrite Eg; reflexivity].
    exists done, tailq, pb. repeat (split; [assumption|]). assumption.
Qed.

Lemma standalone_facts h : is_standalone_ack h = true -> get_msg_len h = None /\ fE h = false.
Proof.
  unfold is_standalone_ack. intro H.
  repeat (apply andb_true_iff in H; destruct H as [H ?]).
  destruct (get_msg_len h); [discriminate|]. destruct (fE h); [discriminate|]. auto.
Qed.

Lemma msg_len_hdr_len h L : get_msg_len h = Some L -> 4 <= hdr_len h /\ h_len h = L /\ fB h = true.
Proof.
  unfold get_msg_len, hdr_len. destruct (fB h); cbn [andb]; [|discriminate].
  destruct (fH h); cbn [negb]; [discriminate|]. intro H. inversion H.
  unfold b2n. destruct (fM h), (fA h); cbn [negb]; repeat split; lia.
Qed.

Lemma dir_deliver_rx sw buf off rw b cxy cyx q :
  dirinv sw buf off rw (b :: cxy) cyx q -> rw_ok w rw ->
  exists rw', rw_accept_incoming rw (fst (seg_of b)) (snd (seg_of b)) m = Ok rw' /\
              dirinv sw buf off rw' cxy cyx q.
Proof.
  intros (done & tailq & pb & Hq & Hn & Hbuf & Hpb & Hpl & Heq & Hmsgs & Ho1 & Ho2 & Ho3 & Hsegs & Hseqs & Hlast
          & Hwin & Hlev & Hsw & Hsl & Hrs & Hacks & Hcont & Hspace & Hexact) Hrw.
  pose proof (Forall_inv Hsegs) as Hb. pose proof (Forall_inv_tail Hsegs) as Hsegs'.
  destruct Hb as (Hdec & Hshape & Hhon).
  set (h := fst (seg_of b)) in *. set (p := snd (seg_of b)) in *.
  cbn [chan_seqs] in Hseqs. destruct Hseqs as (Hseq & Hseqs).
  cbn [chan_content] in Hcont. destruct Hcont as ((Hcok & Hfinal) & Hcont).
  fold h in Hseq, Hseqs, Hcont, Hcok, Hfinal. fold p in Hcont, Hcok, Hfinal.
  rewrite nlen_cons in *.
  pose proof Hrw as (Hsum & Hmr & _ & Hcapr).
  destruct Hhon as (Hsz & HL & HEp & Hsq & Hak).
  (* the prefix and the payload fit in one segment size *)
  assert (Hpp : blen (prefix_of h) + blen p <= m).
  { unfold prefix_of. destruct (get_msg_len h) as [L|] eqn:EL.
    - destruct (msg_len_hdr_len _ _ EL) as (H4 & _). destruct (0 <? L); rewrite ?blen_le16, ?blen_nil; lia.
    - rewrite blen_nil. lia. }
  assert (Hmul : (rack_level rw + 1) * m <= w * m) by (apply N.mul_le_mono_r; lia).
  assert (Hfit : blen (rbuf rw) + blen (prefix_of h) + blen p <= RX_CAP) by lia.
  assert (Hacc := rw_accept_yes w rw h p m Hrw (proj2 Hw) Hshape Hseq ltac:(lia) Hcok Hfit).
  eexists. split; [exact Hacc|].
  set (rem := rrem rw) in *. set (rem' := content_next rem h p) in *.
  (* everything except the ring-buffer structure *)
  assert (Hcommon : forall done' tailq' pb',
    q = done' ++ tailq' ->
    nlen done' = (if fE h && negb (blen p =? 0) then rmsgs rw + 1 else rmsgs rw) ->
    rbuf rw ++ prefix_of h ++ p = concat (map enc done') ++ partial rem' pb' ->
    (rem' = 0 -> pb' = []) -> blen pb' + rem' <= MAX_TX ->
    concat (map enc tailq') = partial rem' pb' ++ concat (map contrib cxy) ++ rest_of buf off ->
    dirinv sw buf off
      (mkRW (rbuf rw ++ prefix_of h ++ p)
            (if fE h && negb (blen p =? 0) then rmsgs rw + 1 else rmsgs rw)
            (rlevel rw - 1) (rack_level rw + 1) (h_seq h) rem') cxy cyx q).
  { intros done' tailq' pb' E1 E2 E3 E4 E5 E6. exists done', tailq', pb'.
    cbn [rbuf rmsgs rrem rack_level rack_seq].
    repeat (split; [assumption|]).
    split; [rewrite Hseq; exact Hseqs|].
    split; [rewrite Hseq, wrap8_add_l, <- Hlast; f_equal; lia|].
    split; [lia|]. split; [assumption|]. split; [assumption|]. split; [assumption|].
    split; [rewrite Hseq; apply wrap8_lt|].
    split; [replace (nlen cxy + (rack_level rw + 1)) with (nlen cxy + 1 + rack_level rw) by lia; exact Hacks|].
    split; [exact Hcont|].
    split; [rewrite !blen_app; lia|].
    rewrite Hexact. lia. }
  assert (Econtrib : contrib b = prefix_of h ++ p) by reflexivity.
  cbn [map concat] in Heq. rewrite Econtrib in Heq.
  destruct (is_standalone_ack h) eqn:Esa.
  - (* a stand-alone ACK carries nothing *)
    destruct (standalone_facts _ Esa) as (EL & EE).
    destruct Hshape as (_ & _ & [(_ & Hp0)|(Hx & _)]); [|rewrite Esa in Hx; discriminate Hx].
    assert (Er : rem' = rem) by (unfold rem', content_next; rewrite EL, Hp0, blen_nil; lia).
    unfold prefix_of in *. rewrite EL in *. rewrite Hp0 in *. rewrite EE in *. cbn [andb app] in *.
    apply (Hcommon done tailq pb); rewrite ?Er; try assumption.
    rewrite app_nil_r. exact Hbuf.
  - specialize (Hfinal eq_refl).
    destruct (get_msg_len h) as [L|] eqn:EL.
    + (* first segment of an SDU *)
      destruct (msg_len_hdr_len _ _ EL) as (_ & ELen & EB).
      unfold content_ok in Hcok. rewrite EL in Hcok.
      destruct Hcok as ((Hr0 & HpL & _) & Hfin0).
      specialize (HL EB). rewrite ELen in HL.
      assert (Epb : pb = []) by auto. subst pb.
      assert (Epart : partial rem [] = []) by (unfold partial; fold rem in Hr0; rewrite Hr0; reflexivity).
      rewrite Epart in *. cbn [app] in Heq. rewrite app_nil_r in Hbuf.
      assert (Epre : prefix_of h = le16 L).
      { unfold prefix_of. rewrite EL. destruct (N.ltb_spec 0 L); [reflexivity|lia]. }
      rewrite Epre in *.
      assert (Erem' : rem' = L - blen p) by (unfold rem', content_next; rewrite EL; reflexivity).
      destruct (N.eqb_spec rem' 0) as [Ez|Enz].
      * (* complete at once *)
        assert (EE : fE h = true) by auto. specialize (HEp EE).
        assert (Emsg : fE h && negb (blen p =? 0) = true).
        { rewrite EE. destruct (N.eqb_spec (blen p) 0); [lia|reflexivity]. }
        destruct tailq as [|mk tailq'].
        { exfalso. cbn [map concat] in Heq. unfold le16 in Heq. discriminate Heq. }
        cbn [map concat] in Heq.
        assert (Hmk : msg_ok mk).
        { rewrite Hq in Hmsgs. apply Forall_app in Hmsgs. destruct Hmsgs as [_ Hm2]. inversion Hm2; assumption. }
        unfold msg_ok, MAX_TX in *.
        rewrite <- !app_assoc in Heq.
        destruct (frame_unique L p _ mk _ (eq_sym Heq)) as (Emk & Hrest); try lia.
        apply (Hcommon (done ++ [mk]) tailq' []); rewrite ?Ez.
        -- rewrite Hq, <- app_assoc. reflexivity.
        -- rewrite Emsg, nlen_app, nlen_cons, nlen_nil. lia.
        -- rewrite concat_enc_snoc, Hbuf. unfold partial. replace (0 =? 0) with true by reflexivity.
           rewrite app_nil_r. unfold enc. rewrite <- Emk. replace (blen p) with L by lia. reflexivity.
        -- reflexivity.
        -- rewrite blen_nil. lia.
        -- unfold partial. replace (0 =? 0) with true by reflexivity. cbn [app]. symmetry. exact Hrest.
      * assert (EE : fE h = false).
        { destruct (fE h) eqn:EE; [|reflexivity]. specialize (Hfin0 eq_refl). fold rem' in Hfin0. lia. }
        assert (Epart' : partial rem' p = le16 L ++ p).
        { unfold partial. destruct (N.eqb_spec rem' 0); [lia|]. f_equal. f_equal. lia. }
        apply (Hcommon done tailq p).
        -- exact Hq.
        -- rewrite EE. exact Hn.
        -- rewrite Epart', Hbuf. reflexivity.
        -- intro. lia.
        -- lia.
        -- rewrite Epart', Heq, <- !app_assoc. reflexivity.
    + (* continuation of the SDU in progress *)
      unfold content_ok in Hcok. rewrite EL in Hcok.
      destruct Hcok as (Hple & Hfin0).
      assert (Epre : prefix_of h = []) by (unfold prefix_of; rewrite EL; reflexivity).
      rewrite Epre in *. cbn [app] in *.
      assert (Hp1 : 1 <= blen p).
      { destruct (fE h) eqn:EE; [auto|].
        destruct Hshape as (_ & _ & [(Hx & _)|(_ & _ & _ & Hsize)]); [rewrite Esa in Hx; discriminate Hx|].
        specialize (Hsize EE). pose proof (hdr_len_bounds h). lia. }
      assert (Erem' : rem' = rem - blen p) by (unfold rem', content_next; rewrite EL; reflexivity).
      assert (Epart : partial rem pb = le16 (blen pb + rem) ++ pb).
      { unfold partial. destruct (N.eqb_spec rem 0); [lia|reflexivity]. }
      rewrite Epart in *.
      destruct (N.eqb_spec rem' 0) as [Ez|Enz].
      * assert (EE : fE h = true) by auto.
        assert (Emsg : fE h && negb (blen p =? 0) = true).
        { rewrite EE. destruct (N.eqb_spec (blen p) 0); [lia|reflexivity]. }
        destruct tailq as [|mk tailq'].
        { exfalso. cbn [map concat] in Heq. unfold le16 in Heq. discriminate Heq. }
        cbn [map concat] in Heq.
        assert (Hmk : msg_ok mk).
        { rewrite Hq in Hmsgs. apply Forall_app in Hmsgs. destruct Hmsgs as [_ Hm2]. inversion Hm2; assumption. }
        unfold msg_ok, MAX_TX in *.
        assert (Heq2 : le16 (blen pb + rem) ++ (pb ++ p) ++ (concat (map contrib cxy) ++ rest_of buf off)
                       = enc mk ++ concat (map enc tailq')).
        { rewrite Heq, <- !app_assoc. reflexivity. }
        destruct (frame_unique _ _ _ _ _ Heq2) as (Emk & Hrest); try (rewrite ?blen_app; lia).
        apply (Hcommon (done ++ [mk]) tailq' []); rewrite ?Ez.
        -- rewrite Hq, <- app_assoc. reflexivity.
        -- rewrite Emsg, nlen_app, nlen_cons, nlen_nil. lia.
        -- rewrite concat_enc_snoc, Hbuf. unfold partial. replace (0 =? 0) with true by reflexivity.
           rewrite app_nil_r, <- Emk. unfold enc. rewrite blen_app, <- !app_assoc.
           replace (blen pb + blen p) with (blen pb + rem) by lia. reflexivity.
        -- reflexivity.
        -- rewrite blen_nil. lia.
        -- unfold partial. replace (0 =? 0) with true by reflexivity. cbn [app]. symmetry. exact Hrest.
      * assert (EE : fE h = false).
        { destruct (fE h) eqn:EE; [|reflexivity]. specialize (Hfin0 eq_refl). fold rem' in Hfin0. lia. }
        assert (Epart' : partial rem' (pb ++ p) = le16 (blen pb + rem) ++ pb ++ p).
        { unfold partial. destruct (N.eqb_spec rem' 0); [lia|]. rewrite blen_app. f_equal. f_equal. lia. }
        apply (Hcommon done tailq (pb ++ p)).
        -- exact Hq.
        -- rewrite EE. exact Hn.
        -- rewrite Epart', Hbuf, <- !app_assoc. reflexivity.
        -- intro. lia.
        -- rewrite blen_app. lia.
        -- rewrite Epart', Heq, <- !app_assoc. reflexivity.
Qed.

Lemma dir_fetch sw buf off rw cxy cyx q :
  dirinv sw buf off rw cxy cyx q -> 0 < rmsgs rw ->
  exists x q' rw',
    q = x :: q' /\ rw_fetch rw RECV_CAP = (rw', Ok x) /\
    rlevel rw' = rlevel rw /\ rack_level rw' = rack_level rw /\ rack_seq rw' = rack_seq rw /\
    rmsgs rw' = rmsgs rw - 1 /\ blen (rbuf rw') <= blen (rbuf rw) /\
    dirinv sw buf off rw' cxy cyx q'.
Proof.
  intros (done & tailq & pb & Hq & Hn & Hbuf & Hpb & Hpl & Heq & Hmsgs & Hrest) Hpos.
  set (cur := if rrem rw =? 0 then None else Some (blen pb + rrem rw, pb)).
  assert (Hpenc : penc cur = partial (rrem rw) pb).
  { unfold cur, partial. destruct (rrem rw =? 0); reflexivity. }
  assert (Hdone : Forall (fun x => 0 < blen x < 65536) done).
  { rewrite Hq in Hmsgs. apply Forall_app in Hmsgs. destruct Hmsgs as [Hd _].
    eapply Forall_impl; [|exact Hd]. unfold msg_ok, MAX_TX. intros; lia. }
  assert (Hrel : rel rw (mkRS done cur)).
  { unfold rel. cbn [q_done q_cur]. rewrite Hpenc. split; [assumption|].
    unfold cur. unfold MAX_TX in *. destruct (N.eqb_spec (rrem rw) 0).
    - repeat split; try assumption; try lia. unfold nlen in Hn. lia.
    - repeat split; try assumption; try lia. unfold nlen in Hn. lia. }
  destruct (fetch_rel rw _ RECV_CAP Hrel Hpos) as (x & t & Ed & Hf).
  cbn [q_done q_cur] in *. subst done.
  assert (Hx : msg_ok x).
  { rewrite Hq in Hmsgs. inversion Hmsgs; assumption. }
  assert (Hfirst : firstn (N.to_nat RECV_CAP) x = x).
  { apply firstn_all2. unfold msg_ok, MAX_TX, RECV_CAP, blen in *. lia. }
  rewrite Hfirst in Hf.
  eexists x, (t ++ tailq), _. split; [rewrite Hq; reflexivity|]. split; [exact Hf|].
  cbn [rlevel rack_level rack_seq rmsgs rbuf].
  split; [reflexivity|]. split; [reflexivity|]. split; [reflexivity|]. split; [reflexivity|].
  assert (Hshrink : blen (concat (map enc t) ++ penc cur) <= blen (rbuf rw)).
  { rewrite Hbuf, Hpenc. cbn [map concat]. rewrite <- app_assoc, !blen_app. lia. }
  split; [exact Hshrink|].
  exists t, tailq, pb. cbn [rbuf rmsgs rrem rack_level rack_seq].
  split; [reflexivity|]. split; [rewrite nlen_cons in Hn; lia|].
  split; [rewrite Hpenc; reflexivity|]. split; [assumption|]. split; [assumption|]. split; [assumption|].
  split; [rewrite Hq in Hmsgs; inversion Hmsgs; assumption|].
  destruct Hrest as (Ho1 & Ho2 & Ho3 & Hsegs & Hseqs & Hlast & Hwin & Hlev & Hsw & Hsl & Hrs & Hacks & Hcont & Hspace & Hexact).
  repeat (split; [assumption|]). split; [lia|assumption].
Qed.

(** ** the two ends together, seen from one of them *)

Definition epinv (i : inner) (peer : N) : Prop :=
  sess_ok (sess i) /\ hs_pending (sess i) = false /\ mtu (sess i) = m /\
  swin (send (sess i)) = w /\ address (sess i) = peer /\
  (blen (out_buf i) <> 0 -> out_addr i = peer).

Definition sysinv2 (me peer : inner) (co ci : list bytes) (qm qp : list bytes) (pa ma : N) : Prop :=
  epinv me pa /\ epinv peer ma /\
  dirinv (send (sess me)) (out_buf me) (out_off me) (recv (sess peer)) co ci qm /\
  dirinv (send (sess peer)) (out_buf peer) (out_off peer) (recv (sess me)) ci co qp /\
  (* never both send windows exhausted without an ACK on its way *)
  (slevel (send (sess me)) = 0 -> slevel (send (sess peer)) = 0 ->
   acks_of co <> [] \/ acks_of ci <> []) /\
  (* something is always outstanding: every ACK is itself a segment to acknowledge *)
  1 <= (w - slevel (send (sess me))) + (w - slevel (send (sess peer))).

Lemma sysinv2_sym me peer co ci qm qp pa ma :
  sysinv2 me peer co ci qm qp pa ma -> sysinv2 peer me ci co qp qm ma pa.
Proof.
  intros (H1 & H2 & H3 & H4 & HJ & HD). split; [exact H2|]. split; [exact H1|]. split; [exact H4|].
  split; [exact H3|]. split; [|lia]. intros Ha Hb. destruct (HJ Hb Ha); auto.
Qed.

Lemma hdr_decode_first b h p :
  hdr_decode b = Ok (h, p) -> fH h = false -> is_data_seg b = true.
Proof.
  unfold hdr_decode. destruct b as [|x l]; cbn [take1 bind]; [discriminate|].
  intros H EH.
  repeat (let y := fresh "y" in let Hy := fresh "Hy" in
          apply bind_ok in H; destruct H as (y & Hy & H); destruct y).
  inversion H; subst. cbn [fH] in EH. cbn [is_data_seg]. rewrite EH. reflexivity.
Qed.

Lemma seg_ok_data b : seg_ok m b -> is_data_seg b = true.
Proof.
  intros (Hdec & (EH & _) & _). destruct (seg_of b) as [h p]. cbn [fst snd] in *.
  eapply hdr_decode_first; eassumption.
Qed.

Lemma v_submit me peer co ci qm qp pa ma d :
  sysinv2 me peer co ci qm qp pa ma ->
  (snd (step me (OSend d pa)) = RTrue /\
   sysinv2 (fst (step me (OSend d pa))) peer co ci (qm ++ [d]) qp pa ma /\
   recv (sess (fst (step me (OSend d pa)))) = recv (sess me)) \/
  (snd (step me (OSend d pa)) = RNone /\ fst (step me (OSend d pa)) = me) \/
  ((exists c, snd (step me (OSend d pa)) = RErr c) /\ fst (step me (OSend d pa)) = me /\
   ((blen d =? 0) || (MAX_TX <? blen d)) = true).
Proof.
  intros (Hme & Hpeer & Hd1 & Hd2 & HJ & HD). cbn [step]. unfold inner_send.
  destruct ((blen d =? 0) || (MAX_TX <? blen d)) eqn:Ebad.
  - right. right. cbn [fst snd]. eauto.
  - apply orb_false_iff in Ebad. destruct Ebad as [E0 Emax].
    destruct (N.eqb_spec (blen (out_buf me)) 0) as [Eb|Eb]; cbn [fst snd].
    + left. split; [reflexivity|]. split; [|reflexivity].
      destruct Hme as (Hs & Hp & Hmt & Hsw & Ha & Hoa).
      split; [|split; [assumption|split; [|split; [exact Hd2|split; assumption]]]].
      * unfold epinv. cbn [sess out_buf out_addr]. repeat (split; [assumption|]). auto.
      * cbn [sess out_buf out_off]. eapply dir_submit; [exact Hd1|exact Eb|]. unfold msg_ok. lia.
    + right. left. auto.
Qed.

Lemma sess_ok_static s r' w' :
  sess_ok s -> hs_pending s = false -> sw_ok w' -> swin w' = swin (send s) ->
  rw_ok (swin (send s)) r' ->
  sess_ok (mkSess (initiator s) (address s) (version s) (mtu s) (wsize s) (hs_pending s) r' w' (relaxed s)).
Proof.
  intros (Hsw & Hrw & Hmtu & H4) Hp Hw' Eq Hr'. unfold sess_ok. cbn [send recv mtu hs_pending initiator].
  rewrite Eq. split; [assumption|]. split; [assumption|]. split; [assumption|].
  rewrite Hp. intro Hx. discriminate Hx.
Qed.

Lemma v_deliver me peer co b ci qm qp pa ma g :
  sysinv2 me peer co (b :: ci) qm qp pa ma ->
  snd (step me (OIn g pa b)) = RUnit /\ is_data_seg b = true /\
  sysinv2 (fst (step me (OIn g pa b))) peer co ci qm qp pa ma /\
  rack_level (recv (sess (fst (step me (OIn g pa b))))) = rack_level (recv (sess me)) + 1.
Proof.
  intros (Hme & Hpeer & Hd1 & Hd2 & HJ & HD).
  destruct Hme as (Hs & Hp & Hmt & Hsw & Ha & Hoa).
  assert (Hseg : seg_ok m b).
  { destruct Hd2 as (? & ? & ? & _ & _ & _ & _ & _ & _ & _ & _ & _ & _ & Hsegs & _). exact (Forall_inv Hsegs). }
  pose proof (seg_ok_data _ Hseg) as Hdata.
  destruct Hseg as (Hdec & (EH & _) & _).
  pose proof Hs as (Hsok & Hrok & _).
  rewrite Hsw in Hrok.
  destruct (dir_deliver_tx _ _ _ _ _ _ _ _ Hd1) as (Hchk & Hd1' & Hopen).
  destruct (dir_deliver_rx _ _ _ _ _ _ _ _ Hd2 Hrok) as (rw' & Hacc & Hd2').
  assert (Hrack' : rack_level rw' = rack_level (recv (sess me)) + 1 /\
                   nlen ci + rack_level rw' <= w - slevel (send (sess peer))).
  { split.
    - pose proof Hacc as Hacc2. apply rw_accept_ok in Hacc2; [|apply Hrok].
      destruct Hacc2 as (_ & _ & _ & _ & ? & ? & -> & _). cbn [rack_level]. reflexivity.
    - destruct Hd2' as (? & ? & ? & _ & _ & _ & _ & _ & _ & _ & _ & _ & _ & _ & _ & _ & Hwin' & _). exact Hwin'. }
  cbn [step]. unfold process_incoming, process_rx. rewrite Hdec.
  destruct (seg_of b) as [h p]. cbn [fst snd bind] in *. rewrite EH.
  unfold process_rx_data. rewrite Hchk. cbn [bind]. rewrite <- Hmt in Hacc. rewrite Hacc. cbn [bind].
  rewrite (sw_accept_after_check _ _ Hsok Hchk). cbn [bind fst snd].
  split; [reflexivity|]. split; [assumption|]. split; [|cbn [sess recv]; apply Hrack'].
  split; [|split; [assumption|split; [assumption|split; [assumption|]]]].
  2:{ cbn [sess send]. split.
      - intros Hz Hzp. destruct (get_ack h) as [a|]; cbn [slevel] in Hz; [lia|].
        rewrite <- Hopen. auto.
      - lia. }
  unfold epinv. cbn [sess out_buf out_addr mtu hs_pending send address].
  split.
  { apply sess_ok_static; try assumption.
    - destruct Hsok as (H1 & H2 & H3). destruct (get_ack h); [|repeat split; assumption].
      unfold sw_ok. cbn [swin slevel slast]. repeat split; try assumption. lia.
    - destruct (get_ack h); reflexivity.
    - rewrite Hsw. eapply rw_accept_keeps_ok; [exact Hrok|lia|exact Hacc]. }
  split; [assumption|]. split; [assumption|]. split; [destruct (get_ack h); assumption|].
  split; assumption.
Qed.

Lemma v_fetch me peer co ci qm qp pa ma :
  sysinv2 me peer co ci qm qp pa ma ->
  (snd (step me (ORecv RECV_CAP)) = RNone /\ fst (step me (ORecv RECV_CAP)) = me) \/
  (exists x qp', snd (step me (ORecv RECV_CAP)) = RBytes x /\ qp = x :: qp' /\
     sysinv2 (fst (step me (ORecv RECV_CAP))) peer co ci qm qp' pa ma /\
     rack_level (recv (sess (fst (step me (ORecv RECV_CAP))))) = rack_level (recv (sess me))).
Proof.
  intros (Hme & Hpeer & Hd1 & Hd2 & HJ & HD). cbn [step]. unfold inner_recv.
  destruct (N.ltb_spec 0 (rmsgs (recv (sess me)))) as [Hpos|Hz]; [|left; auto].
  right.
  destruct (dir_fetch _ _ _ _ _ _ _ Hd2 Hpos) as (x & qp' & rw' & Eq & Hf & E1 & E2 & E3 & E4 & E5 & Hd2').
  rewrite Hf. cbn [fst snd]. exists x, qp'. split; [reflexivity|]. split; [assumption|].
  split; [|cbn [sess recv]; exact E2].
  destruct Hme as (Hs & Hp & Hmt & Hsw & Ha & Hoa).
  split; [|split; [assumption|split; [assumption|split; [assumption|split; assumption]]]].
  unfold epinv. cbn [sess out_buf out_addr mtu hs_pending send address].
  split.
  { apply sess_ok_static; try assumption; [apply Hs|reflexivity|].
    destruct Hs as (_ & (H1 & H2 & H3 & H4) & _). unfold rw_ok. rewrite E1, E2, E3, E4.
    repeat split; try assumption; lia. }
  repeat (split; [assumption|]). assumption.
Qed.

(** after an emission: an exhausted sender has just put an ACK on the wire *)
Lemma emit_JD (sw : sendw) (r : recvw) (sp : sendw) (co ci : list bytes) (h : hdr) (p : bytes) :
  sw_is_full sw r = false -> slevel sw <= w -> hdr_wf h -> get_ack h = rw_pending_ack r ->
  (slevel sw - 1 = 0 -> slevel sp = 0 -> acks_of (co ++ [hdr_encode h ++ p]) <> [] \/ acks_of ci <> []) /\
  1 <= (w - (slevel sw - 1)) + (w - slevel sp).
Proof.
  intros Hfull Hslw Hwf Hack. pose proof (not_full_level _ _ Hfull) as Hlev.
  split; [|lia]. intros Hz _. left.
  rewrite acks_of_snoc, seg_of_encode by assumption. cbn [fst]. rewrite Hack.
  unfold sw_is_full in Hfull. apply orb_false_iff in Hfull. destruct Hfull as [_ Hf].
  destruct (N.eqb_spec (slevel sw) 1); [|lia]. cbn [andb] in Hf.
  destruct (rw_pending_ack r); [|discriminate Hf].
  destruct (acks_of co); discriminate.
Qed.

Lemma seg_has_ack_encode h p : hdr_wf h -> fH h = false ->
  seg_has_ack (hdr_encode h ++ p) = is_some (get_ack h).
Proof.
  intros Hwf EH. unfold seg_has_ack. rewrite hdr_decode_encode by assumption. rewrite EH.
  unfold get_ack. destruct (fA h); reflexivity.
Qed.

Lemma after_tx_rack s :
  rack_level (recv (after_tx s)) =
  (if is_some (rw_pending_ack (recv s)) then 0 else rack_level (recv s)).
Proof. unfold after_tx. cbn [recv]. destruct (is_some _); reflexivity. Qed.

Lemma v_poll me peer co ci qm qp pa ma g t :
  sysinv2 me peer co ci qm qp pa ma ->
  (snd (step me (OOut g t POLL_CAP)) = RBytes [] /\ fst (step me (OOut g t POLL_CAP)) = me) \/
  (exists x l, snd (step me (OOut g t POLL_CAP)) = RBytes (x :: l) /\ is_data_seg (x :: l) = true /\
     sysinv2 (fst (step me (OOut g t POLL_CAP))) peer (co ++ [x :: l]) ci qm qp pa ma /\
     rack_level (recv (sess (fst (step me (OOut g t POLL_CAP))))) =
       (if seg_has_ack (x :: l) then 0 else rack_level (recv (sess me)))).
Proof.
  intros (Hme & Hpeer & Hd1 & Hd2 & HJ & HD).
  destruct me as [s oa buf off]. destruct Hme as (Hs & Hp & Hmt & Hsw & Ha & Hoa).
  cbn [sess out_buf out_off out_addr] in *.
  assert (Hloc : off <= blen buf /\ (blen buf <> 0 -> off < blen buf /\ blen buf <= MAX_TX)).
  { destruct Hd1 as (? & ? & ? & _ & _ & _ & _ & _ & _ & _ & H8 & H9 & _). auto. }
  destruct Hloc as (Hoff & Hbufc).
  assert (Hrs : rack_seq (recv s) < 256) by (destruct Hs as (_ & (_ & _ & H3 & _) & _); exact H3).
  assert (Hslw : slevel (send s) <= w) by (destruct Hs as ((_ & H2 & _) & _); lia).
  cbn [step].
  rewrite (poll_est s oa buf off g t).
  2:{ split; assumption. }
  2:{ assumption. }
  2:{ rewrite Hmt. exact Hm. }
  2:{ intro Hne. destruct (Hbufc Hne). rewrite Ha. auto. }
  2:{ assumption. }
  cbv zeta.
  destruct (sw_is_full (send s) (recv s)) eqn:Hfull; cbn [negb].
  { rewrite !andb_false_r. left. cbn [fst snd]. auto. }
  rewrite !andb_true_r.
  pose proof (not_full_level _ _ Hfull) as Hlev.
  assert (Hs' : sess_ok (after_tx s)) by (apply after_tx_ok; assumption).
  assert (Estat : hs_pending (after_tx s) = false /\ mtu (after_tx s) = m /\
                  swin (send (after_tx s)) = w /\ address (after_tx s) = pa).
  { unfold after_tx. cbn [hs_pending mtu send swin address]. auto. }
  destruct Estat as (Sp & Sm & Sw & Sa).
  destruct (N.eqb_spec (blen buf) 0) as [E0|Hne]; cbn [negb].
  - (* nothing queued: a stand-alone ACK if one is due *)
    destruct (is_ack_due s t) eqn:Edue; [|left; cbn [fst snd]; auto].
    right.
    assert (Hpa : is_some (rw_pending_ack (recv s)) = true).
    { unfold is_ack_due in Edue. apply andb_true_iff in Edue. apply Edue. }
    destruct (tx_ack_props m s Hpa Hrs (proj1 Hm)) as (Ep & Hwf & Hshape & Hhon & Hcont & Epre & Eack & Eseq & Esa).
    rewrite Ep. set (h := fst (tx_seg s [] 0)) in *.
    cbn [fst snd].
    assert (Enc : exists x l, hdr_encode h ++ [] = x :: l) by (unfold hdr_encode; cbn [app]; eauto).
    destruct Enc as (x & l & Enc). rewrite Enc. exists x, l. split; [reflexivity|].
    rewrite <- Enc. split; [apply is_data_encode; apply Hshape|].
    split; [|cbn [sess]; rewrite after_tx_rack, seg_has_ack_encode, Eack by (try assumption; apply Hshape); reflexivity].
    split; [unfold epinv; cbn [sess out_buf out_addr]; repeat (split; [assumption|]); assumption|].
    split; [assumption|]. cbn [sess out_buf out_off].
    split; [|split].
    + replace (send (after_tx s)) with (mkSW (swin (send s)) (slevel (send s) - 1) (wrap8 (slast (send s) + 1))) by reflexivity.
      destruct (Hcont (rem_of buf off)) as (Hc1 & Hc2).
      eapply dir_emit_tx; try eassumption.
      * split; [exact Hc1|]. intros Hsa. fold h in Esa. congruence.
      * rewrite Epre. reflexivity.
      * destruct Hd1 as (? & ? & ? & _ & _ & _ & _ & _ & _ & _ & _ & _ & H10 & _). exact H10.
    + replace (recv (after_tx s)) with
        (if is_some (rw_pending_ack (recv s))
         then mkRW (rbuf (recv s)) (rmsgs (recv s)) (rlevel (recv s) + rack_level (recv s)) 0
                   (rack_seq (recv s)) (rrem (recv s))
         else recv s) by reflexivity.
      apply dir_emit_rx; assumption.
    + cbn [sess send]. replace (send (after_tx s)) with (mkSW (swin (send s)) (slevel (send s) - 1) (wrap8 (slast (send s) + 1))) by reflexivity.
      cbn [slevel]. apply (emit_JD (send s) (recv s)); assumption.
  - (* a segment of the queued SDU *)
    right. destruct (Hbufc Hne) as (Hlt & Hmax).
    assert (Hbuf1 : 1 <= blen buf <= MAX_TX) by lia.
    pose proof (tx_data_props m s buf off Hmt Hm Hbuf1 Hlt Hrs) as Hprops. cbv zeta in Hprops.
    set (h := fst (tx_seg s buf off)) in *. set (p := snd (tx_seg s buf off)) in *.
    destruct Hprops as (Hwf & Hshape & Hhon & Hc1 & Hnext & Hrest & Eack & Eseq & Hp1 & Hp2 & Esa & Hfinal).
    cbn [fst snd].
    assert (Enc : exists x l, hdr_encode h ++ p = x :: l) by (unfold hdr_encode; cbn [app]; eauto).
    destruct Enc as (x & l & Enc). rewrite Enc. exists x, l. split; [reflexivity|].
    rewrite <- Enc. split; [apply is_data_encode; apply Hshape|].
    split; [|cbn [sess]; rewrite after_tx_rack, seg_has_ack_encode, Eack by (try assumption; apply Hshape); reflexivity].
    assert (Hloc' : off_after buf off p <= blen (buf_after buf off p) /\
                    (blen (buf_after buf off p) <> 0 ->
                     off_after buf off p < blen (buf_after buf off p) /\ blen (buf_after buf off p) <= MAX_TX) /\
                    (blen (buf_after buf off p) = 0 -> off_after buf off p = 0)).
    { unfold off_after, buf_after. destruct (N.eqb_spec (off + blen p) (blen buf)).
      - rewrite blen_nil. repeat split; try lia.
      - repeat split; try lia. }
    destruct Hloc' as (L1 & L2 & L3).
    split.
    { unfold epinv. cbn [sess out_buf out_addr]. repeat (split; [assumption|]).
      unfold buf_after. destruct (off + blen p =? blen buf); [rewrite blen_nil; intro Hx; lia|exact Hoa]. }
    split; [assumption|]. cbn [sess out_buf out_off].
    split; [|split].
    + replace (send (after_tx s)) with (mkSW (swin (send s)) (slevel (send s) - 1) (wrap8 (slast (send s) + 1))) by reflexivity.
      eapply dir_emit_tx; try eassumption.
      split; [exact Hc1|]. intros _. exact Hfinal.
    + replace (recv (after_tx s)) with
        (if is_some (rw_pending_ack (recv s))
         then mkRW (rbuf (recv s)) (rmsgs (recv s)) (rlevel (recv s) + rack_level (recv s)) 0
                   (rack_seq (recv s)) (rrem (recv s))
         else recv s) by reflexivity.
      apply dir_emit_rx; assumption.
    + cbn [sess send]. replace (send (after_tx s)) with (mkSW (swin (send s)) (slevel (send s) - 1) (wrap8 (slast (send s) + 1))) by reflexivity.
      cbn [slevel]. apply (emit_JD (send s) (recv s)); assumption.
Qed.

(** ** the whole system *)

Definition sysinv (c : cfg) (s : sys) (p : pstate) : Prop :=
  sysinv2 (epA s) (epB s) (chAB s) (chBA s) (w_ab p) (w_ba p) (addrB c) (addrA c) /\
  f_ab p = nlen (chAB s) /\ f_ba p = nlen (chBA s) /\
  o_ab p = rack_level (recv (sess (epB s))) /\ o_ba p = rack_level (recv (sess (epA s))).

Lemma win_ok_inv me peer co ci qm qp pa ma :
  sysinv2 me peer co ci qm qp pa ma -> win_ok (nlen co) (snap_of me) (snap_of peer) = true.
Proof.
  intros (Hme & Hpeer & Hd1 & _).
  destruct Hd1 as (? & ? & ? & _ & _ & _ & _ & _ & _ & _ & _ & _ & _ & _ & _ & _ & Hwin & Hlev & Hsw & _).
  destruct Hpeer as ((_ & (Hsum & _) & _) & _ & _ & Hswp & _).
  unfold win_ok, snap_of. cbn [n_rlevel n_rack n_slevel n_swin]. rewrite Hsw. rewrite Hswp in Hsum.
  lia.
Qed.

Lemma acks_fly_seen cs :
  Forall (seg_ok m) cs -> acks_of cs <> [] -> existsb seg_has_ack cs = true.
Proof.
  induction cs as [|b t IH]; intros Hf Hne; [exfalso; apply Hne; reflexivity|].
  pose proof (Forall_inv Hf) as (Hdec & (EH & _) & _). pose proof (Forall_inv_tail Hf) as Ht.
  cbn [existsb]. unfold acks_of in Hne. cbn [flat_map] in Hne. fold (acks_of t) in Hne.
  unfold seg_has_ack at 1. rewrite Hdec. destruct (seg_of b) as [h p]. cbn [fst snd] in *. rewrite EH.
  unfold get_ack in Hne. destruct (fA h); [reflexivity|]. cbn [negb andb orb app] in *. apply IH; assumption.
Qed.

Lemma ps_ok_inv c s p :
  sysinv c s p ->
  ps_ok p (snap_of (epA s)) (snap_of (epB s))
        (existsb seg_has_ack (chAB s) || existsb seg_has_ack (chBA s)) = true.
Proof.
  intros (H2 & Hfa & Hfb & Hoa & Hob). unfold ps_ok.
  rewrite Hfa, Hfb, (win_ok_inv _ _ _ _ _ _ _ _ H2), (win_ok_inv _ _ _ _ _ _ _ _ (sysinv2_sym _ _ _ _ _ _ _ _ H2)).
  unfold snap_of at 1 2. cbn [n_rack andb]. rewrite Hoa, Hob, !N.eqb_refl. cbn [andb].
  destruct H2 as (_ & _ & Hd1 & Hd2 & HJ & _).
  assert (HsAB : Forall (seg_ok m) (chAB s)).
  { destruct Hd1 as (? & ? & ? & _ & _ & _ & _ & _ & _ & _ & _ & _ & _ & H1 & _). exact H1. }
  assert (HsBA : Forall (seg_ok m) (chBA s)).
  { destruct Hd2 as (? & ? & ? & _ & _ & _ & _ & _ & _ & _ & _ & _ & _ & H1 & _). exact H1. }
  unfold snap_of. cbn [n_swin n_slevel].
  destruct (N.eqb_spec (slevel (send (sess (epA s)))) 0) as [Ea|]; [|rewrite !andb_false_r; reflexivity].
  destruct (N.eqb_spec (slevel (send (sess (epB s)))) 0) as [Eb|]; [|rewrite !andb_false_r; reflexivity].
  destruct (HJ Ea Eb) as [Hx|Hx].
  - rewrite (acks_fly_seen _ HsAB Hx). rewrite orb_true_r. reflexivity.
  - rewrite (acks_fly_seen _ HsBA Hx). rewrite !orb_true_r. reflexivity.
Qed.

(** one step of the system, judged by the monitor *)
Lemma sys_step_inv c s p o :
  sysinv c s p ->
  let s' := fst (sys_step c s o) in
  let r := snd (sys_step c s o) in
  let hd := match o with
            | SDeliver SB => match chAB s with b :: _ => is_data_seg b | [] => false end
            | SDeliver SA => match chBA s with b :: _ => is_data_seg b | [] => false end
            | _ => false
            end in
  exists p', pmon_step p o r hd = Some p' /\ sysinv c s' p' /\
    chAB s' = match o, r with
              | SPoll SA _, RBytes (x :: l) => chAB s ++ [x :: l]
              | SDeliver SB, _ => tl (chAB s)
              | _, _ => chAB s
              end /\
    chBA s' = match o, r with
              | SPoll SB _, RBytes (x :: l) => chBA s ++ [x :: l]
              | SDeliver SA, _ => tl (chBA s)
              | _, _ => chBA s
              end.
Proof.
  intros (H2 & Hfa & Hfb & Hoa & Hob). pose proof (sysinv2_sym _ _ _ _ _ _ _ _ H2) as H2'.
  destruct s as [A B cab cba]. destruct p as [wab wba fab fba oab oba].
  cbn [epA epB chAB chBA w_ab w_ba f_ab f_ba o_ab o_ba] in *.
  destruct o as [x d|x t|x|x]; destruct x; cbv zeta; cbn [sys_step ep set_ep ch_to set_ch_to other gatt_of addr_of
    epA epB chAB chBA].
  - (* A submits *)
    destruct (v_submit _ _ _ _ _ _ _ _ d H2) as [(Er & Hinv & Erx)|[(Er & Eme)|((cc & Er) & Eme & Ebad)]];
      destruct (step A (OSend d (addrB c))) as [i r]; cbn [fst snd] in *; subst r.
    + eexists. split; [reflexivity|]. cbn [fst snd chAB chBA]. split; [|auto].
      unfold sysinv; cbn [epA epB chAB chBA w_ab w_ba ps_deliver ps_emit]; split; [exact Hinv|]. cbn [f_ab f_ba o_ab o_ba chAB chBA epA epB]. rewrite Erx. auto.
    + subst i. eexists. split; [reflexivity|]. cbn [fst snd chAB chBA]. split; [|auto].
      split; [exact H2|auto].
    + subst i. eexists. split; [cbn [pmon_step is_bad]; rewrite Ebad; reflexivity|].
      cbn [fst snd chAB chBA]. split; [|auto]. split; [exact H2|auto].
  - (* B submits *)
    destruct (v_submit _ _ _ _ _ _ _ _ d H2') as [(Er & Hinv & Erx)|[(Er & Eme)|((cc & Er) & Eme & Ebad)]];
      destruct (step B (OSend d (addrA c))) as [i r]; cbn [fst snd] in *; subst r.
    + eexists. split; [reflexivity|]. cbn [fst snd chAB chBA]. split; [|auto].
      unfold sysinv; cbn [epA epB chAB chBA w_ab w_ba ps_deliver ps_emit]; split; [apply sysinv2_sym; exact Hinv|]. cbn [f_ab f_ba o_ab o_ba chAB chBA epA epB]. rewrite Erx. auto.
    + subst i. eexists. split; [reflexivity|]. cbn [fst snd chAB chBA]. split; [|auto].
      split; [exact H2|auto].
    + subst i. eexists. split; [cbn [pmon_step is_bad]; rewrite Ebad; reflexivity|].
      cbn [fst snd chAB chBA]. split; [|auto]. split; [exact H2|auto].
  - (* A polls *)
    destruct (v_poll _ _ _ _ _ _ _ _ (gattA c) t H2) as [(Er & Eme)|(x & l & Er & Hdata & Hinv & Erk)];
      destruct (step A (OOut (gattA c) t POLL_CAP)) as [i r]; cbn [fst snd] in *; subst r.
    + subst i. eexists. split; [reflexivity|]. cbn [fst snd chAB chBA]. split; [|auto].
      split; [exact H2|auto].
    + eexists. split; [reflexivity|].
      cbn [fst snd chAB chBA set_ch_to epA epB tl]. split; [|auto].
      unfold sysinv; cbn [epA epB chAB chBA w_ab w_ba ps_deliver ps_emit]; split; [exact Hinv|]. unfold ps_emit. rewrite Hdata.
      cbn [fst snd f_ab f_ba w_ab w_ba o_ab o_ba chAB chBA set_ch_to epA epB tl].
      rewrite nlen_app, nlen_cons, nlen_nil, Erk.
      destruct (seg_has_ack (x :: l)); repeat split; try lia; assumption.
  - (* B polls *)
    destruct (v_poll _ _ _ _ _ _ _ _ (gattB c) t H2') as [(Er & Eme)|(x & l & Er & Hdata & Hinv & Erk)];
      destruct (step B (OOut (gattB c) t POLL_CAP)) as [i r]; cbn [fst snd] in *; subst r.
    + subst i. eexists. split; [reflexivity|]. cbn [fst snd chAB chBA]. split; [|auto].
      split; [exact H2|auto].
    + eexists. split; [reflexivity|].
      cbn [fst snd chAB chBA set_ch_to epA epB tl]. split; [|auto].
      unfold sysinv; cbn [epA epB chAB chBA w_ab w_ba ps_deliver ps_emit]; split; [apply sysinv2_sym; exact Hinv|]. unfold ps_emit. rewrite Hdata.
      cbn [fst snd f_ab f_ba w_ab w_ba o_ab o_ba chAB chBA set_ch_to epA epB tl].
      rewrite nlen_app, nlen_cons, nlen_nil, Erk.
      destruct (seg_has_ack (x :: l)); repeat split; try lia; assumption.
  - (* a segment arrives at A *)
    destruct cba as [|b cba'].
    + cbn [fst snd]. eexists. split; [reflexivity|]. cbn [fst snd chAB chBA tl]. split; [|auto].
      split; [exact H2|auto].
    + destruct (v_deliver _ _ _ _ _ _ _ _ _ (gattA c) H2) as (Er & Hdata & Hinv & Erk).
      destruct (step A (OIn (gattA c) (addrB c) b)) as [i r]; cbn [fst snd] in *; subst r.
      eexists. split; [cbn [pmon_step is_bad]; reflexivity|]. unfold ps_deliver. rewrite Hdata.
      cbn [fst snd chAB chBA set_ch_to epA epB tl]. split; [|auto].
      unfold sysinv; cbn [epA epB chAB chBA w_ab w_ba ps_deliver ps_emit]; split; [exact Hinv|].
      cbn [fst snd f_ab f_ba w_ab w_ba o_ab o_ba chAB chBA set_ch_to epA epB tl].
      rewrite nlen_cons in Hfb. rewrite Erk. repeat split; try lia; assumption.
  - (* a segment arrives at B *)
    destruct cab as [|b cab'].
    + cbn [fst snd]. eexists. split; [reflexivity|]. cbn [fst snd chAB chBA tl]. split; [|auto].
      split; [exact H2|auto].
    + destruct (v_deliver _ _ _ _ _ _ _ _ _ (gattB c) H2') as (Er & Hdata & Hinv & Erk).
      destruct (step B (OIn (gattB c) (addrA c) b)) as [i r]; cbn [fst snd] in *; subst r.
      eexists. split; [cbn [pmon_step is_bad]; reflexivity|]. unfold ps_deliver. rewrite Hdata.
      cbn [fst snd chAB chBA set_ch_to epA epB tl]. split; [|auto].
      unfold sysinv; cbn [epA epB chAB chBA w_ab w_ba ps_deliver ps_emit]; split; [apply sysinv2_sym; exact Hinv|].
      cbn [fst snd f_ab f_ba w_ab w_ba o_ab o_ba chAB chBA set_ch_to epA epB tl].
      rewrite nlen_cons in Hfa. rewrite Erk. repeat split; try lia; assumption.
  - (* A fetches *)
    destruct (v_fetch _ _ _ _ _ _ _ _ H2) as [(Er & Eme)|(x & q' & Er & Eq & Hinv & Erk)];
      destruct (step A (ORecv RECV_CAP)) as [i r]; cbn [fst snd] in *; subst r.
    + subst i. eexists. split; [reflexivity|]. cbn [fst snd chAB chBA]. split; [|auto].
      split; [exact H2|auto].
    + subst wba. eexists. split; [cbn [fst snd pmon_step is_bad w_ba]; rewrite bytes_eqb_refl; reflexivity|].
      cbn [fst snd chAB chBA]. split; [|auto]. unfold sysinv; cbn [epA epB chAB chBA w_ab w_ba ps_deliver ps_emit]; split; [exact Hinv|].
      cbn [f_ab f_ba o_ab o_ba chAB chBA epA epB]. rewrite Erk. auto.
  - (* B fetches *)
    destruct (v_fetch _ _ _ _ _ _ _ _ H2') as [(Er & Eme)|(x & q' & Er & Eq & Hinv & Erk)];
      destruct (step B (ORecv RECV_CAP)) as [i r]; cbn [fst snd] in *; subst r.
    + subst i. eexists. split; [reflexivity|]. cbn [fst snd chAB chBA]. split; [|auto].
      split; [exact H2|auto].
    + subst wab. eexists. split; [cbn [fst snd pmon_step is_bad w_ab]; rewrite bytes_eqb_refl; reflexivity|].
      cbn [fst snd chAB chBA]. split; [|auto]. unfold sysinv; cbn [epA epB chAB chBA w_ab w_ba ps_deliver ps_emit]; split; [apply sysinv2_sym; exact Hinv|].
      cbn [f_ab f_ba o_ab o_ba chAB chBA epA epB]. rewrite Erk. auto.
Qed.

Lemma map_tl {A B} (f : A -> B) l : map f (tl l) = tl (map f l).
Proof. destruct l; reflexivity. Qed.

Lemma sys_run_cons c s o ops :
  sys_run c s (o :: ops) =
  (fst (sys_run c (fst (sys_step c s o)) ops),
   (snd (sys_step c s o), snap_of (epA (fst (sys_step c s o))), snap_of (epB (fst (sys_step c s o))))
   :: snd (sys_run c (fst (sys_step c s o)) ops)).
Proof.
  cbn [sys_run]. destruct (sys_step c s o) as [s1 r]. cbn [fst snd].
  destruct (sys_run c s1 ops) as [s2 rs]. reflexivity.
Qed.

Lemma pmon_run_inv c ops : forall s p,
  sysinv c s p ->
  pmon_run p (chAB s) (chBA s) ops (snd (sys_run c s ops)) = true.
Proof.
  induction ops as [|o ops IH]; intros s p Hinv; [reflexivity|].
  rewrite sys_run_cons. cbn [snd pmon_run].
  destruct (sys_step_inv c s p o Hinv) as (p' & Hstep & Hinv' & HcAB & HcBA).
  cbv zeta in *.
  set (s' := fst (sys_step c s o)) in *. set (r := snd (sys_step c s o)) in *.
  unfold head_is_data. rewrite Hstep, <- HcAB, <- HcBA.
  rewrite (ps_ok_inv _ _ _ Hinv'). cbn [andb]. apply IH. exact Hinv'.
Qed.

Lemma sys_run_inv c ops : forall s p,
  sysinv c s p -> exists p', sysinv c (fst (sys_run c s ops)) p'.
Proof.
  induction ops as [|o ops IH]; intros s p Hinv; [exists p; exact Hinv|].
  rewrite sys_run_cons. cbn [fst].
  destruct (sys_step_inv c s p o Hinv) as (p' & _ & Hinv' & _). cbv zeta in Hinv'.
  eapply IH. exact Hinv'.
Qed.

Lemma established_inv c ver rel : sysinv c (sys_established c ver m w rel) ps_established.
Proof.
  unfold sysinv, sys_established, ps_established, sysinv2.
  cbn [epA epB chAB chBA w_ab w_ba f_ab f_ba o_ab o_ba].
  assert (Hcap0 : blen (@nil N) <= RX_CAP) by (rewrite blen_nil; unfold RX_CAP; lia).
  split; [|repeat split; reflexivity].
  split.
  { unfold epinv, sess_ok, sw_ok, rw_ok.
    cbn [sess send recv mtu hs_pending initiator swin slevel slast rlevel rack_level rmsgs rack_seq rbuf
         address out_buf out_addr].
    rewrite blen_nil. repeat split; try lia; try discriminate. }
  split.
  { unfold epinv, sess_ok, sw_ok, rw_ok.
    cbn [sess send recv mtu hs_pending initiator swin slevel slast rlevel rack_level rmsgs rack_seq rbuf
         address out_buf out_addr].
    rewrite blen_nil. repeat split; try lia; try discriminate. }
  split.
  { exists [], [], []. cbn [sess send recv out_buf out_off swin slevel slast rlevel rack_level rmsgs rack_seq rbuf rrem].
    unfold partial, rest_of, rem_of, acks_of. cbn [map concat app flat_map chan_seqs chan_content acks_chain chain_end].
    rewrite !blen_nil, nlen_nil. replace (0 =? 0) with true by reflexivity.
    repeat split; try lia; try constructor; try reflexivity. }
  split.
  { exists [], [], []. cbn [sess send recv out_buf out_off swin slevel slast rlevel rack_level rmsgs rack_seq rbuf rrem].
    unfold partial, rest_of, rem_of, acks_of. cbn [map concat app flat_map chan_seqs chan_content acks_chain chain_end].
    rewrite !blen_nil, nlen_nil. replace (0 =? 0) with true by reflexivity.
    repeat split; try lia; try constructor; try reflexivity. }
  cbn [sess send slevel]. split; [intros; lia|lia].
Qed.

(** ** the theorems of the two-party system *)

Theorem pair_safe c ver rel ops :
  mon_pair_est ops (snd (sys_run c (sys_established c ver m w rel) ops)) = true.
Proof.
  unfold mon_pair_est. apply (pmon_run_inv c ops (sys_established c ver m w rel) ps_established).
  apply established_inv.
Qed.

Theorem window_respected c ver rel ops :
  let s := fst (sys_run c (sys_established c ver m w rel) ops) in
  nlen (chAB s) + rack_level (recv (sess (epB s))) + slevel (send (sess (epA s))) <= w /\
  nlen (chAB s) <= rlevel (recv (sess (epB s))) /\
  nlen (chBA s) + rack_level (recv (sess (epA s))) + slevel (send (sess (epB s))) <= w /\
  nlen (chBA s) <= rlevel (recv (sess (epA s))).
Proof.
  cbv zeta.
  destruct (sys_run_inv c ops _ _ (established_inv c ver rel)) as (p' & (HA & HB & Hd1 & Hd2 & _) & _).
  destruct Hd1 as (? & ? & ? & _ & _ & _ & _ & _ & _ & _ & _ & _ & _ & _ & _ & _ & Hwin1 & Hlev1 & _).
  destruct Hd2 as (? & ? & ? & _ & _ & _ & _ & _ & _ & _ & _ & _ & _ & _ & _ & _ & Hwin2 & Hlev2 & _).
  destruct HA as ((_ & (HsumA & _) & _) & _ & _ & HswA & _).
  destruct HB as ((_ & (HsumB & _) & _) & _ & _ & HswB & _).
  rewrite HswA in HsumA. rewrite HswB in HsumB. lia.
Qed.

(** while an ACK is due and the own send window is not exhausted, the next
    poll sends it *)
Lemma ack_enabled_view me peer co ci qm qp pa ma g t :
  sysinv2 me peer co ci qm qp pa ma ->
  is_ack_due (sess me) t = true -> 1 <= slevel (send (sess me)) ->
  exists b h p,
    snd (step me (OOut g t POLL_CAP)) = RBytes b /\ hdr_decode b = Ok (h, p) /\
    get_ack h = Some (rack_seq (recv (sess me))) /\
    rack_level (recv (sess (fst (step me (OOut g t POLL_CAP))))) = 0.
Proof.
  intros (Hme & Hpeer & Hd1 & Hd2 & HJ & HD) Hdue Hlev.
  destruct me as [s oa buf off]. destruct Hme as (Hs & Hp & Hmt & Hsw & Ha & Hoa).
  cbn [sess out_buf out_off out_addr] in *.
  assert (Hloc : off <= blen buf /\ (blen buf <> 0 -> off < blen buf /\ blen buf <= MAX_TX)).
  { destruct Hd1 as (? & ? & ? & _ & _ & _ & _ & _ & _ & _ & H8 & H9 & _). auto. }
  destruct Hloc as (Hoff & Hbufc).
  assert (Hrs : rack_seq (recv s) < 256) by (destruct Hs as (_ & (_ & _ & H3 & _) & _); exact H3).
  assert (Hpa : is_some (rw_pending_ack (recv s)) = true).
  { unfold is_ack_due in Hdue. apply andb_true_iff in Hdue. apply Hdue. }
  destruct (pending_ack_msgs _ Hpa) as (Hm0 & Hrl).
  assert (Epa : rw_pending_ack (recv s) = Some (rack_seq (recv s))).
  { unfold rw_pending_ack. destruct (N.ltb_spec 0 (rack_level (recv s))); [|lia].
    rewrite Hm0. reflexivity. }
  assert (Hfull : sw_is_full (send s) (recv s) = false).
  { unfold sw_is_full. destruct (N.eqb_spec (slevel (send s)) 0); [lia|].
    rewrite Hpa. rewrite andb_false_r. reflexivity. }
  assert (Hrecv' : rack_level (recv (after_tx s)) = 0).
  { unfold after_tx. cbn [recv]. rewrite Hpa. reflexivity. }
  cbn [step].
  rewrite (poll_est s oa buf off g t); [|split; assumption|assumption|rewrite Hmt; exact Hm| |assumption].
  2:{ intro Hne. destruct (Hbufc Hne). rewrite Ha. auto. }
  cbv zeta. rewrite Hfull, Hdue. cbn [negb andb]. rewrite !andb_true_r.
  destruct (N.eqb_spec (blen buf) 0) as [E0|Hne]; cbn [negb fst snd sess].
  - destruct (tx_ack_props m s Hpa Hrs (proj1 Hm)) as (Ep & Hwf & _ & _ & _ & _ & Eack & _).
    eexists _, _, _. split; [reflexivity|]. split; [apply hdr_decode_encode; exact Hwf|].
    split; [rewrite Eack; exact Epa|exact Hrecv'].
  - destruct (Hbufc Hne) as (Hlt & Hmax).
    assert (Hbuf1 : 1 <= blen buf <= MAX_TX) by lia.
    pose proof (tx_data_props m s buf off Hmt Hm Hbuf1 Hlt Hrs) as Hprops. cbv zeta in Hprops.
    destruct Hprops as (Hwf & _ & _ & _ & _ & _ & Eack & _).
    eexists _, _, _. split; [reflexivity|]. split; [apply hdr_decode_encode; exact Hwf|].
    split; [rewrite Eack; exact Epa|exact Hrecv'].
Qed.

Theorem ack_enabled c ver rel ops x t :
  let s := fst (sys_run c (sys_established c ver m w rel) ops) in
  is_ack_due (sess (ep s x)) t = true -> 1 <= slevel (send (sess (ep s x))) ->
  exists b h p,
    snd (step (ep s x) (OOut (gatt_of c x) t POLL_CAP)) = RBytes b /\ hdr_decode b = Ok (h, p) /\
    get_ack h = Some (rack_seq (recv (sess (ep s x)))) /\
    rack_level (recv (sess (fst (step (ep s x) (OOut (gatt_of c x) t POLL_CAP))))) = 0.
Proof.
  cbv zeta.
  destruct (sys_run_inv c ops _ _ (established_inv c ver rel)) as (p' & H2 & _).
  destruct x; cbn [ep gatt_of].
  - eapply ack_enabled_view. exact H2.
  - eapply ack_enabled_view. apply sysinv2_sym. exact H2.
Qed.

End Pair.
