(** Theorems about the access-control model: the model computes the
    declarative decision [granted] for every configuration; fabric
    isolation; missing fabric; PASE; tag versions; group membership. *)
From RsM Require Import Lib.MachInt Lib.BitFacts Model.Acl Model.AclSpec.
From RsM Require Import Proofs.AclFacts.
From Coq Require Import ZifyN ZifyBool.
Open Scope N_scope.

Arguments N.testbit : simpl never.
Arguments N.shiftl : simpl never.
Arguments N.shiftr : simpl never.
Arguments N.lor : simpl never.
Arguments N.land : simpl never.
Arguments N.modulo : simpl never.
Arguments N.div : simpl never.
Arguments N.sub : simpl never.
Arguments N.add : simpl never.
Arguments N.mul : simpl never.
Arguments N.leb : simpl never.
Arguments N.ltb : simpl never.
Arguments N.eqb : simpl never.

(** * Model = specification *)

Lemma own_fabric_spec (fabs : list fabric) (a : accessor) :
  own_fabric (map abs_fabric fabs) (abs_accessor a) =
  if a_fab a =? 0 then None else option_map abs_fabric (fabrics_get fabs (a_fab a)).
Proof.
  unfold own_fabric, fabrics_get. cbn [abs_accessor sa_fabric].
  destruct (a_fab a =? 0); [reflexivity|]. apply find_map.
Qed.

Lemma fabrics_get_idx (fabs : list fabric) (idx : N) (f : fabric) :
  fabrics_get fabs idx = Some f -> In f fabs /\ f_idx f = idx.
Proof.
  intros H. apply find_some in H. destruct H as [Hin He]. split; [exact Hin|].
  apply N.eqb_eq. exact He.
Qed.

Lemma pase_spec (a : accessor) :
  is_pase_commissioner (abs_accessor a) = oauth_is (a_auth a) APase.
Proof. unfold is_pase_commissioner. cbn. destruct (a_auth a) as [[]|]; reflexivity. Qed.

Lemma aux_fabric_spec (f : fabric) (a : accessor) (r : request) (op : operation) :
  forallb (fun g => g_id g <? 65536) (f_groups f) = true -> f_idx f = a_fab a ->
  existsb (fun e => entry_grants e (abs_accessor a) op (abs_element r))
          (auxiliary_entries (abs_fabric f))
  = oauth_is (a_auth a) AGroup
    && existsb (fun g => group_has_aux g
                         && existsb (fun ep => opt_same (Some ep) (r_ep r)) (g_eps g)
                         && subj_matches (a_subj a) (g_id g)) (f_groups f)
    && declaration_allows (Priv Operate) op (abs_element r).
Proof.
  intros Hwf Hf. unfold auxiliary_entries.
  rewrite existsb_flat_map. cbn [abs_fabric sf_groups]. rewrite existsb_map.
  rewrite forallb_forall in Hwf.
  rewrite (existsb_ext_in _
    (fun g => oauth_is (a_auth a) AGroup
              && (group_has_aux g
                  && existsb (fun ep => opt_same (Some ep) (r_ep r)) (g_eps g)
                  && subj_matches (a_subj a) (g_id g))
              && declaration_allows (Priv Operate) op (abs_element r)) (f_groups f)).
  2:{ intros g Hg. apply (aux_group_spec f a r op g); [|exact Hf].
      apply N.ltb_lt. apply Hwf. exact Hg. }
  clear Hwf. induction (f_groups f) as [|g gs IH]; cbn [existsb].
  - rewrite andb_false_r. reflexivity.
  - rewrite IH.
    destruct (oauth_is (a_auth a) AGroup); cbn [andb]; [|reflexivity].
    destruct (declaration_allows (Priv Operate) op (abs_element r));
      rewrite ?andb_true_r, ?andb_false_r; reflexivity.
Qed.

Theorem allow_eq_spec (fabs : list fabric) (a : accessor) (r : request) (op : operation) :
  wf_fabrics fabs = true -> r_op r = op_bits op ->
  allow fabs a r = spec_allow fabs a op r.
Proof.
  intros Hwf Hop.
  unfold allow, fabrics_allow, allow_groupcast_auxiliary, spec_allow, acl_granted.
  rewrite pase_spec, own_fabric_spec.
  destruct (oauth_is (a_auth a) APase) eqn:Hpase; [reflexivity|]. cbn [orb].
  destruct (a_fab a =? 0) eqn:Hz.
  { destruct (negb (a_aux a)); [reflexivity|].
    destruct (negb (oauth_is (a_auth a) AGroup)); reflexivity. }
  destruct (fabrics_get fabs (a_fab a)) as [f|] eqn:Hget; cbn [option_map].
  2:{ destruct (negb (a_aux a)); [reflexivity|].
      destruct (negb (oauth_is (a_auth a) AGroup)); reflexivity. }
  apply fabrics_get_idx in Hget. destruct Hget as [Hin Hidx].
  unfold wf_fabrics in Hwf. rewrite forallb_forall in Hwf. specialize (Hwf _ Hin).
  unfold wf_fabric in Hwf. apply andb_true_iff in Hwf. destruct Hwf as [Hprivs Hgids].
  unfold entries_in_force. rewrite existsb_app.
  replace (sf_entries (abs_fabric f)) with (map abs_entry (f_acl f)) by reflexivity.
  rewrite existsb_map.
  unfold fabric_allow.
  rewrite forallb_forall in Hprivs.
  rewrite (existsb_ext_in (fun e => entry_allow e a r (a_aux a))
             (fun x => entry_grants (abs_entry x) (abs_accessor a) op (abs_element r)) (f_acl f))
    by (intros e He; apply entry_allow_spec; [apply Hprivs; exact He|exact Hop]).
  f_equal.
  replace (sa_auxiliary (abs_accessor a)) with (a_aux a) by reflexivity.
  destruct (a_aux a); cbn [negb]; [|reflexivity].
  rewrite (aux_fabric_spec f a r op Hgids Hidx).
  destruct (oauth_is (a_auth a) AGroup); cbn [negb andb]; [|reflexivity].
  rewrite (perms_spec r op PRIV_OPERATE (Priv Operate) Hop eq_refl).
  destruct (r_ep r) as [endpoint|].
  - f_equal. apply existsb_ext_in. intros g _. f_equal. f_equal.
    apply existsb_ext_in. intros x _. cbn [opt_same]. apply N.eqb_sym.
  - cbn [andb].
    rewrite (existsb_ext_in _ (fun _ => false) (f_groups f)).
    + rewrite existsb_false. reflexivity.
    + intros g _. cbn [opt_same]. rewrite existsb_false, andb_false_r. reflexivity.
Qed.

Theorem endpoint_eq_spec (fabs : list fabric) (a : accessor) (ep : N) :
  is_endpoint_accessible fabs a ep = spec_endpoint fabs a ep.
Proof.
  unfold is_endpoint_accessible, spec_endpoint, endpoint_reachable.
  rewrite own_fabric_spec. cbn [abs_accessor sa_mode sa_group].
  destruct (a_auth a) as [[]|]; cbn [oauth_is auth_eqb negb amode_of]; try reflexivity.
  destruct (a_fab a =? 0); [reflexivity|].
  destruct (fabrics_get fabs (a_fab a)) as [f|]; cbn [option_map]; [|reflexivity].
  unfold groups_get. cbn [abs_fabric sf_groups]. rewrite find_map.
  cbn [abs_group sg_id].
  destruct (find (fun x => g_id x =? wrap16 (hd 0 (a_subj a))) (f_groups f)); reflexivity.
Qed.

Theorem im_access_eq_spec (fabs : list fabric) (a : accessor) (op : operation)
  (ep cl : N) (dts : list N) (decl : N) :
  wf_fabrics fabs = true ->
  im_access fabs a ep cl dts (op_bits op) decl = spec_granted fabs a op ep cl dts decl.
Proof.
  intros Hwf. unfold im_access, spec_granted, granted.
  rewrite endpoint_eq_spec.
  rewrite (allow_eq_spec fabs a (mkReq (Some ep) (Some cl) (Some decl) (op_bits op) dts) op Hwf eq_refl).
  reflexivity.
Qed.

(** the specification in the words of the property text *)
Theorem acl_granted_iff (fabs : list sfabric) (a : saccessor) (op : operation) (el : selement) :
  acl_granted fabs a op el = true <->
  sa_mode a = Some Pase \/
  exists f e, sa_fabric a <> 0 /\
              find (fun f => sf_index f =? sa_fabric a) fabs = Some f /\
              In e (entries_in_force f a) /\
              entry_grants e a op el = true.
Proof.
  unfold acl_granted, is_pase_commissioner, own_fabric. split.
  - intros H. apply orb_true_iff in H. destruct H as [H|H].
    + left. destruct (sa_mode a) as [[]|]; try discriminate. reflexivity.
    + right. destruct (N.eqb_spec (sa_fabric a) 0) as [|Hnz]; [discriminate|].
      destruct (find (fun f => sf_index f =? sa_fabric a) fabs) as [f|]; [|discriminate].
      apply existsb_exists in H. destruct H as [e [Hin Hg]].
      exists f, e. repeat split; assumption.
  - intros [Hp|[f [e [Hnz [Hf [Hin Hg]]]]]].
    + rewrite Hp. reflexivity.
    + apply orb_true_iff. right.
      destruct (N.eqb_spec (sa_fabric a) 0) as [|_]; [contradiction|].
      rewrite Hf. apply existsb_exists. exists e. split; assumption.
Qed.

(** * Fabric isolation *)

Lemma allow_via_get (fabs1 fabs2 : list fabric) (a : accessor) (r : request) :
  fabrics_get fabs1 (a_fab a) = fabrics_get fabs2 (a_fab a) ->
  allow fabs1 a r = allow fabs2 a r.
Proof.
  intros H. unfold allow, fabrics_allow, allow_groupcast_auxiliary. rewrite H. reflexivity.
Qed.

Lemma endpoint_via_get (fabs1 fabs2 : list fabric) (a : accessor) (ep : N) :
  fabrics_get fabs1 (a_fab a) = fabrics_get fabs2 (a_fab a) ->
  is_endpoint_accessible fabs1 a ep = is_endpoint_accessible fabs2 a ep.
Proof. intros H. unfold is_endpoint_accessible. rewrite H. reflexivity. Qed.

Lemma get_skip (fabs1 fabs2 : list fabric) (g : fabric) (idx : N) :
  f_idx g <> idx -> fabrics_get (fabs1 ++ g :: fabs2) idx = fabrics_get (fabs1 ++ fabs2) idx.
Proof. intros H. unfold fabrics_get. apply find_app_skip. apply N.eqb_neq. exact H. Qed.

(** a whole fabric with another index - its entries and its groups - never
    changes a decision *)
Theorem other_fabric_irrelevant (fabs1 fabs2 : list fabric) (g : fabric) (a : accessor) (r : request) :
  f_idx g <> a_fab a ->
  allow (fabs1 ++ g :: fabs2) a r = allow (fabs1 ++ fabs2) a r.
Proof. intros H. apply allow_via_get. apply get_skip. exact H. Qed.

Theorem other_fabric_irrelevant_endpoint (fabs1 fabs2 : list fabric) (g : fabric) (a : accessor) (ep : N) :
  f_idx g <> a_fab a ->
  is_endpoint_accessible (fabs1 ++ g :: fabs2) a ep = is_endpoint_accessible (fabs1 ++ fabs2) a ep.
Proof. intros H. apply endpoint_via_get. apply get_skip. exact H. Qed.

(** an entry carrying another fabric index (or none), wherever it is
    stored, never changes a decision: delete it and [allow] is unchanged *)
Theorem foreign_entry_irrelevant (fabs1 fabs2 : list fabric) (f : fabric)
  (l1 l2 : list entry) (e : entry) (a : accessor) (r : request) :
  f_acl f = l1 ++ e :: l2 -> e_fab e <> Some (a_fab a) ->
  allow (fabs1 ++ f :: fabs2) a r =
  allow (fabs1 ++ mkFabric (f_idx f) (l1 ++ l2) (f_groups f) :: fabs2) a r.
Proof.
  intros Hacl He.
  unfold allow, fabrics_allow, allow_groupcast_auxiliary, fabrics_get.
  set (f' := mkFabric (f_idx f) (l1 ++ l2) (f_groups f)).
  assert (Hfind : forall idx,
    match find (fun x => f_idx x =? idx) (fabs1 ++ f :: fabs2),
          find (fun x => f_idx x =? idx) (fabs1 ++ f' :: fabs2) with
    | Some x, Some y => (x = y) \/ (x = f /\ y = f')
    | None, None => True
    | _, _ => False
    end).
  { intros idx. induction fabs1 as [|h t IH]; cbn [app find].
    - change (f_idx f') with (f_idx f). destruct (f_idx f =? idx).
      + right. split; reflexivity.
      + destruct (find (fun x => f_idx x =? idx) fabs2); [left; reflexivity|exact I].
    - destruct (f_idx h =? idx); [left; reflexivity|exact IH]. }
  specialize (Hfind (a_fab a)).
  destruct (find (fun x => f_idx x =? a_fab a) (fabs1 ++ f :: fabs2)) as [x|],
           (find (fun x => f_idx x =? a_fab a) (fabs1 ++ f' :: fabs2)) as [y|];
    try contradiction; [|reflexivity].
  destruct Hfind as [->|[-> ->]]; [reflexivity|].
  unfold fabric_allow. change (f_acl f') with (l1 ++ l2). change (f_groups f') with (f_groups f).
  rewrite Hacl.
  rewrite (existsb_app_skip (fun e0 => entry_allow e0 a r (a_aux a)) l1 l2 e)
    by (apply entry_other_fabric; exact He).
  reflexivity.
Qed.

(** * Missing fabric, PASE *)

Theorem missing_fabric_denied (fabs : list fabric) (a : accessor) (r : request) :
  a_auth a <> Some APase ->
  a_fab a = 0 \/ (forall f, In f fabs -> f_idx f <> a_fab a) ->
  allow fabs a r = false.
Proof.
  intros Hp Hm. unfold allow, fabrics_allow, allow_groupcast_auxiliary.
  assert (Hpase : oauth_is (a_auth a) APase = false).
  { destruct (a_auth a) as [[]|]; try reflexivity. congruence. }
  rewrite Hpase.
  destruct (N.eqb_spec (a_fab a) 0) as [Hz|Hnz].
  { destruct (negb (a_aux a)); [reflexivity|].
    destruct (negb (oauth_is (a_auth a) AGroup)); reflexivity. }
  destruct Hm as [Hm|Hm]; [contradiction|].
  destruct (fabrics_get fabs (a_fab a)) as [f|] eqn:Hget.
  { apply fabrics_get_idx in Hget. destruct Hget as [Hin Hidx]. exfalso. exact (Hm f Hin Hidx). }
  destruct (negb (a_aux a)); [reflexivity|].
  destruct (negb (oauth_is (a_auth a) AGroup)); reflexivity.
Qed.

Theorem missing_fabric_group_unreachable (fabs : list fabric) (a : accessor) (ep : N) :
  a_auth a = Some AGroup ->
  a_fab a = 0 \/ (forall f, In f fabs -> f_idx f <> a_fab a) ->
  is_endpoint_accessible fabs a ep = false.
Proof.
  intros Hg Hm. unfold is_endpoint_accessible. rewrite Hg. cbn [oauth_is auth_eqb negb].
  destruct (N.eqb_spec (a_fab a) 0) as [Hz|Hnz]; [reflexivity|].
  destruct Hm as [Hm|Hm]; [contradiction|].
  destruct (fabrics_get fabs (a_fab a)) as [f|] eqn:Hget; [|reflexivity].
  apply fabrics_get_idx in Hget. destruct Hget as [Hin Hidx]. exfalso. exact (Hm f Hin Hidx).
Qed.

Theorem pase_granted (fabs : list fabric) (a : accessor) (r : request) :
  a_auth a = Some APase -> allow fabs a r = true.
Proof. intros H. unfold allow, fabrics_allow. rewrite H. reflexivity. Qed.

Theorem pase_session_granted (fabs : list fabric) (fab : N) (peer : option N) (aux : bool)
  (ep cl : N) (dts : list N) (op perms : N) :
  im_access fabs (for_session (SPase fab) peer aux) ep cl dts op perms = true.
Proof. reflexivity. Qed.

Theorem plaintext_denied (fabs : list fabric) (peer : option N) (aux : bool) (r : request) :
  allow fabs (for_session SPlain peer aux) r = false.
Proof. unfold allow, fabrics_allow, allow_groupcast_auxiliary. cbn. destruct aux; reflexivity. Qed.

(** * Tag (CAT) versions *)

Ltac Zify.zify_post_hook ::= Z.div_mod_to_equations.

Lemma cat_subject_arith (id v : N) :
  id < 65536 -> v < 65536 ->
  N.lor NOC_CAT_SUBJECT_PREFIX (gen_noc_cat id v) = 0xFFFFFFFD00000000 + id * 65536 + v.
Proof.
  intros Hid Hv. unfold gen_noc_cat.
  rewrite (shiftl_lor_add id 16 v) by (change (2 ^ 16) with 65536; exact Hv).
  rewrite N.shiftl_mul_pow2. change (2 ^ 16) with 65536.
  change NOC_CAT_SUBJECT_PREFIX with (N.shiftl 0xFFFFFFFD 32).
  rewrite (shiftl_lor_add 0xFFFFFFFD 32 (id * 65536 + v)) by (change (2 ^ 32) with 4294967296; lia).
  change (N.shiftl 0xFFFFFFFD 32) with 0xFFFFFFFD00000000. lia.
Qed.

Lemma cat_subject_of_raw (id v : N) :
  id < 65536 -> v < 65536 -> 0 < id * 65536 + v ->
  subject_of_raw (N.lor NOC_CAT_SUBJECT_PREFIX (gen_noc_cat id v)) = Cat id v.
Proof.
  intros Hid Hv Hnz. rewrite cat_subject_arith by assumption.
  unfold subject_of_raw.
  set (s := 0xFFFFFFFD00000000 + id * 65536 + v).
  assert (H1 : (s / 4294967296) mod 4294967296 = 0xFFFFFFFD) by (subst s; lia).
  assert (H2 : s mod 4294967296 = id * 65536 + v) by (subst s; lia).
  assert (H3 : (s / 65536) mod 65536 = id) by (subst s; lia).
  assert (H4 : s mod 65536 = v) by (subst s; lia).
  rewrite H1, H2, H3, H4.
  replace (id * 65536 + v =? 0) with false by (symmetry; apply N.eqb_neq; lia).
  reflexivity.
Qed.

Lemma node_subject_of_raw (n : N) : n <= 0xFFFFFFEFFFFFFFFF -> subject_of_raw n = Node n.
Proof.
  intros Hn. unfold subject_of_raw.
  assert (H1 : (n / 4294967296) mod 4294967296 <> 0xFFFFFFFD) by lia.
  apply N.eqb_neq in H1. rewrite H1. reflexivity.
Qed.

(** the accessor built from a node id and one tag *)
Lemma subjects_node_cat (node c : N) : c <> 0 ->
  filter (fun v => negb (v =? 0)) (subj_add_catid_ignore (subj_new node) c)
  = if node =? 0 then [N.lor NOC_CAT_SUBJECT_PREFIX c]
    else [node; N.lor NOC_CAT_SUBJECT_PREFIX c].
Proof.
  intros Hc.
  assert (Hp : (N.lor NOC_CAT_SUBJECT_PREFIX c =? 0) = false).
  { apply N.eqb_neq. intro H0. apply N.lor_eq_0_iff in H0. destruct H0 as [H0 _]. discriminate. }
  unfold subj_add_catid_ignore, subj_add_catid, subj_new. cbn [subj_put_first_zero].
  destruct (node =? 0) eqn:Hz.
  - cbn [filter]. rewrite Hp. cbn [negb]. reflexivity.
  - change (0 =? 0) with true. cbn [filter]. rewrite Hz, Hp. cbn [negb]. reflexivity.
Qed.

Theorem cat_version_order (node id v id' w : N) :
  node <= 0xFFFFFFEFFFFFFFFF ->
  id < 65536 -> v < 65536 -> id' < 65536 -> w < 65536 ->
  0 < id * 65536 + v -> 0 < id' * 65536 + w ->
  subj_matches (subj_add_catid_ignore (subj_new node) (gen_noc_cat id v))
               (N.lor NOC_CAT_SUBJECT_PREFIX (gen_noc_cat id' w))
  = (id =? id') && (w <=? v).
Proof.
  intros Hnode Hid Hv Hid' Hw Hnz Hnz'.
  rewrite subj_matches_spec.
  assert (Hc : gen_noc_cat id v <> 0).
  { unfold gen_noc_cat. rewrite (shiftl_lor_add id 16 v) by (change (2 ^ 16) with 65536; exact Hv).
    rewrite N.shiftl_mul_pow2. change (2 ^ 16) with 65536. lia. }
  rewrite (subjects_node_cat node _ Hc).
  rewrite (cat_subject_of_raw id' w) by assumption.
  destruct (node =? 0); cbn [map existsb].
  - rewrite (cat_subject_of_raw id v) by assumption. cbn [subject_matches].
    rewrite orb_false_r. reflexivity.
  - rewrite (cat_subject_of_raw id v), (node_subject_of_raw node) by assumption.
    cbn [subject_matches orb]. rewrite orb_false_r. reflexivity.
Qed.

(** * Group accessors *)

Theorem group_endpoint_membership (fabs : list fabric) (a : accessor) (ep : N) :
  a_auth a = Some AGroup ->
  is_endpoint_accessible fabs a ep = true ->
  exists f g, a_fab a <> 0 /\
              fabrics_get fabs (a_fab a) = Some f /\
              groups_get (f_groups f) (wrap16 (hd 0 (a_subj a))) = Some g /\
              In ep (g_eps g).
Proof.
  intros Hg H. unfold is_endpoint_accessible in H. rewrite Hg in H.
  cbn [oauth_is auth_eqb negb] in H.
  destruct (N.eqb_spec (a_fab a) 0) as [|Hnz]; [discriminate|].
  destruct (fabrics_get fabs (a_fab a)) as [f|] eqn:Hf; [|discriminate].
  destruct (groups_get (f_groups f) (wrap16 (hd 0 (a_subj a)))) as [g|] eqn:Hgr; [|discriminate].
  exists f, g. split; [exact Hnz|]. split; [reflexivity|]. split; [exact Hgr|].
  apply existsb_exists in H. destruct H as [x [Hin Hx]]. apply N.eqb_eq in Hx. subst x. exact Hin.
Qed.

Theorem group_im_access_membership (fabs : list fabric) (a : accessor)
  (ep cl : N) (dts : list N) (op perms : N) :
  a_auth a = Some AGroup ->
  im_access fabs a ep cl dts op perms = true ->
  exists f g, fabrics_get fabs (a_fab a) = Some f /\
              groups_get (f_groups f) (wrap16 (hd 0 (a_subj a))) = Some g /\
              In ep (g_eps g).
Proof.
  intros Hg H. unfold im_access in H. apply andb_true_iff in H. destruct H as [H _].
  destruct (group_endpoint_membership fabs a ep Hg H) as [f [g [_ [Hf [Hgr Hin]]]]].
  exists f, g. repeat split; assumption.
Qed.

Lemma group_session_accessor (fab gid : N) (peer : option N) (aux : bool) :
  gid < 65536 ->
  let a := for_session (SGroup fab gid) peer aux in
  a_auth a = Some AGroup /\ a_fab a = fab /\ wrap16 (hd 0 (a_subj a)) = gid.
Proof.
  intros Hg. cbn. repeat split. unfold wrap16, two16. apply N.mod_small. exact Hg.
Qed.

(** * Declarations: the flags the code generator emits say what the
      cluster definition says *)

Theorem declared_privilege (d : edecl) :
  decl_supported d = true ->
  (match d_read d with
   | Some r => supports (encode_decl d) Read = true /\ requires (encode_decl d) Read = Some r
   | None => supports (encode_decl d) Read = false
   end) /\
  (match d_write d with
   | Some w => supports (encode_decl d) Write = true /\ requires (encode_decl d) Write = Some w
               /\ supports (encode_decl d) Invoke = true /\ requires (encode_decl d) Invoke = Some w
   | None => supports (encode_decl d) Write = false /\ supports (encode_decl d) Invoke = false
   end).
Proof.
  destruct d as [[[]|] [[]|]]; cbn; intros H; try discriminate; repeat split; reflexivity.
Qed.

(** * Entries installed through [Fabric::acl_add] carry the fabric's index *)

Definition own_entries (f : fabric) : Prop :=
  forall e, In e (f_acl f) -> e_fab e = Some (f_idx f).

Theorem acl_add_own_index (f : fabric) (e : entry) :
  own_entries f -> own_entries (fst (acl_add f e)) /\ f_idx (fst (acl_add f e)) = f_idx f.
Proof.
  intros Hown. unfold acl_add.
  destruct (auth_eqb (e_auth e) APase); [split; [exact Hown|reflexivity]|].
  destruct (Nat.ltb (length (f_acl f)) MAX_ACL_ENTRIES_PER_FABRIC); [|split; [exact Hown|reflexivity]].
  split; [|reflexivity].
  intros x Hx. cbn [fst f_acl f_idx] in *. apply in_app_or in Hx. destruct Hx as [Hx|[<-|[]]].
  - apply Hown. exact Hx.
  - reflexivity.
Qed.
