(** The value slice reported for an element lies within the input, and
    re-encoding a decoded element ([ToTLV for TLVElement]) reproduces the
    bytes it occupied. *)
From Coq Require Import NArith ZArith List Bool Lia ZifyN ZifyBool.
From RsM Require Import Model.Tlv Model.TlvSpec Proofs.TlvFacts Proofs.TlvWriter.
Import ListNotations.
Open Scope N_scope.

Lemma bytes_eqb_refl a : bytes_eqb a a = true.
Proof. induction a as [|x a IH]; cbn [bytes_eqb]; [reflexivity|]. rewrite N.eqb_refl. exact IH. Qed.

Lemma bytes_eqb_eq a b : bytes_eqb a b = true -> a = b.
Proof.
  revert b. induction a as [|x a IH]; intros [|y b]; cbn [bytes_eqb]; try discriminate; auto.
  intros H. apply andb_true_iff in H as [H1 H2]. apply N.eqb_eq in H1. f_equal; auto.
Qed.

(** the value of an element is the piece of the input right after its header *)
Lemma container_value_within s c v :
  container_value s c = ROk v ->
  exists hd tl, s = hd ++ v ++ tl /\ blen hd = hdr_len c.
Proof.
  unfold container_value. intros H.
  apply bind_ok in H as (vl & _ & H). apply bind_ok in H as (vs & Hvs & H).
  apply value_start_suffix in Hvs as (hd & -> & Hhd).
  apply ok_or_ok, get_to_some in H as (_ & -> & _).
  exists hd, (skipn (N.to_nat vl) vs). split; [|exact Hhd].
  rewrite firstn_skipn. reflexivity.
Qed.

Lemma value_within s c v :
  value s c = ROk v -> exists hd tl, s = hd ++ v ++ tl /\ blen hd = hdr_len c.
Proof.
  unfold value. intros H.
  apply bind_ok in H as (vl & _ & H). apply bind_ok in H as (vs & Hvs & H).
  apply value_start_suffix in Hvs as (hd & -> & Hhd).
  apply ok_or_ok, get_to_some in H as (_ & -> & _).
  exists hd, (skipn (N.to_nat vl) vs). split; [|exact Hhd].
  rewrite firstn_skipn. reflexivity.
Qed.

Lemma mon_within_split hd v tl : mon_within (hd ++ v ++ tl) (blen hd) v = true.
Proof.
  unfold mon_within. rewrite !blen_app.
  destruct (N.leb_spec (blen hd + blen v) (blen hd + (blen v + blen tl))); [|lia].
  cbn [andb]. unfold blen. rewrite Nat2N.id, skipn_app_exact, firstn_app_exact.
  apply bytes_eqb_refl.
Qed.

Theorem raw_value_within s c v :
  control s = ROk c -> el_raw_value s = ROk v ->
  hdr_len c + blen v <= blen s /\ mon_within s (hdr_len c) v = true.
Proof.
  intros Hc H. unfold el_raw_value in H. rewrite Hc in H. cbn [rbind] in H.
  apply container_value_within in H as (hd & tl & -> & Hhd). split.
  - rewrite !blen_app. lia.
  - rewrite <- Hhd. apply mon_within_split.
Qed.

Lemma mon_within_sound input off v :
  mon_within input off v = true ->
  off + blen v <= blen input /\ v = firstn (length v) (skipn (N.to_nat off) input).
Proof.
  unfold mon_within. intros H. apply andb_true_iff in H as [H1 H2].
  split; [lia|]. apply bytes_eqb_eq. exact H2.
Qed.

(** [container_len] of an element whose value could be read is the size of
    header + value, hence within the input *)
Theorem container_len_within s c v :
  blen s < two63 -> control s = ROk c -> el_raw_value s = ROk v ->
  container_len s = ROk (hdr_len c + blen v) /\ hdr_len c + blen v <= blen s.
Proof.
  intros Hb Hc H. pose proof (raw_value_within _ _ _ Hc H) as [Hle _]. split; [|exact Hle].
  unfold el_raw_value in H. rewrite Hc in H. cbn [rbind] in H.
  unfold container_len. rewrite Hc. cbn [rbind]. unfold container_value in H.
  apply bind_ok in H as (vl & Hvl & H). rewrite Hvl. cbn [rbind].
  apply bind_ok in H as (vs & _ & H). apply ok_or_ok, get_to_some in H as (_ & _ & Hbl).
  rewrite Hbl. unfold add_len.
  destruct (N.ltb_spec (hdr_len c + vl) two64); [reflexivity|].
  unfold two63, two64 in *. lia.
Qed.

(** the typed string accessors return pieces of the input too *)
Theorem str_within s c v :
  control s = ROk c -> el_str s = ROk v \/ el_utf8 s = ROk v \/ el_octets s = ROk v ->
  hdr_len c + blen v <= blen s /\ mon_within s (hdr_len c) v = true.
Proof.
  intros Hc H.
  assert (Hv : value s c = ROk v).
  { unfold el_str, el_utf8, el_octets in H. rewrite Hc in H. cbn [rbind] in H.
    destruct H as [H|[H|H]].
    - destruct (is_str_vt (snd c)); [exact H|discriminate].
    - destruct (is_utf8_vt (snd c)); [|discriminate].
      apply bind_ok in H as (v' & Hv' & H). destruct (utf8_valid v'); [|discriminate].
      injection H as <-. exact Hv'.
    - destruct (varlen (snd c) =? 0); [discriminate|exact H]. }
  apply value_within in Hv as (hd & tl & -> & Hhd). split.
  - rewrite !blen_app. lia.
  - rewrite <- Hhd. apply mon_within_split.
Qed.
