(** C01: concrete runs of the two-node model (non-vacuity of the hypotheses of the theorems; the known
    class is inhabited and does violate the full-strength statement).  All by [vm_compute] on closed terms:
    existence proofs, not tests. *)
From RsM Require Import Lib.MachInt Model.Cert Model.CertSpec Model.Case Model.CaseSpec
  Proofs.CaseFacts Proofs.CaseResponder.
Open Scope N_scope.

Definition w_root : cert :=
  mkCert [(20, 7001)] [(20, 7001)] (Some 801) (Some 801) 1 (Some 1) 1 0 (Some (true, None)) (Some 96) None false.
Definition w_noc (key node : N) (cats : list N) : cert :=
  mkCert ([(17, node); (21, 9)] ++ map (fun c => (22, c)) cats) [(20, 7001)] (Some (600 + key)) (Some 801)
         key (Some 1) 1 0 (Some (false, None)) (Some 1) (Some [1; 2]) false.
Definition w_ipk : term := THkdf (TNonce 1001) (TPair (TNum 1) (TNum 9)) (TNum 0).
Definition w_fab_a : fabric := mkFabric 1 w_root (w_noc 5 4369 [65537]) None 5 w_ipk 9 4369.
Definition w_fab_b : fabric := mkFabric 1 w_root (w_noc 6 8738 []) None 6 w_ipk 9 8738.
Definition w_clock : clock := Reliable 800000000000000.
Definition w_a : node := mkNode [w_fab_a] [] [] 0 w_clock.
Definition w_b : node := mkNode [w_fab_b] [] [] 0 w_clock.
Definition w_fra : fresh := mkFresh 1 2 3 4.
Definition w_frb : fresh := mkFresh 5 6 7 8.
Definition honest_net : mitm_t := fun _ _ m => Some m.

(** what one handshake leaves behind: (initiator ok, sessions at A, sessions at B) *)
Definition outcome (p : pair_state) : bool * list session * list session :=
  (match p_is p with IDone true => true | _ => false end, n_sessions (p_i p), n_sessions (p_r p)).

Definition crosswise (sa sb : session) : bool :=
  term_eqb (s_enc sa) (s_dec sb) && term_eqb (s_dec sa) (s_enc sb).

(** an honest run completes at both ends, each bound to the other's identity, same keys crosswise *)
Example honest_handshake_completes :
  match outcome (handshake honest_net w_a w_b w_fra w_frb 1 8738) with
  | (true, [sa], [sb]) =>
      negb (s_reserved sa) && negb (s_reserved sb) && crosswise sa sb &&
      (s_fab sa =? 1) && (s_peer sa =? 8738) && (s_fab sb =? 1) && (s_peer sb =? 4369) &&
      list_eqb N.eqb (s_cats sb) [65537]
  | _ => false
  end = true.
Proof. vm_compute. reflexivity. Qed.

(** ... and both nodes are well formed and backed to begin with (hypotheses of the history theorems) *)
Example initial_nodes_well_formed : node_wf w_a /\ node_wf w_b.
Proof.
  split; (split; [split; [repeat constructor; cbn; tauto | intros f [<-|[]]; discriminate] | intros s []]).
Qed.

(** a second handshake resumes: same shared secret, identity copied from the record *)
Example resumption_completes :
  let p1 := handshake honest_net w_a w_b w_fra w_frb 1 8738 in
  match outcome (handshake honest_net (p_i p1) (p_r p1) (mkFresh 11 12 13 14) (mkFresh 15 16 17 18) 1 8738) with
  | (true, [_; sa], [_; sb]) =>
      crosswise sa sb && (s_peer sa =? 8738) && (s_peer sb =? 4369) && list_eqb N.eqb (s_cats sb) [65537] &&
      existsb (fun a => A_R_FIN_OK =? a)
              (p_arms (handshake honest_net (p_i p1) (p_r p1) (mkFresh 11 12 13 14) (mkFresh 15 16 17 18) 1 8738))
  | _ => false
  end = true.
Proof. vm_compute. reflexivity. Qed.

(** a NOC signed by a stray key: no session at either end, both tables as before *)
Definition w_bad_noc : cert :=
  mkCert [(17, 4369); (21, 9)] [(20, 7001)] (Some 605) (Some 801) 5 (Some 9) 1 0 (Some (false, None)) (Some 1) (Some [1; 2]) false.
Example invalid_chain_rejected :
  outcome (handshake honest_net (mkNode [mkFabric 1 w_root w_bad_noc None 5 w_ipk 9 4369] [] [] 0 w_clock)
                     w_b w_fra w_frb 1 8738) = (false, [], []).
Proof. vm_compute. reflexivity. Qed.

(** KNOWN CLASS, inhabited: the man in the middle appends one element to Sigma3.  The responder's
    parser ignores it, the transcript hash does not: both ends complete, the keys differ. *)
Definition append_to_sigma3 : mitm_t :=
  fun d k m => if (d =? 0) && (k =? 1)
               then Some (mkMsg (m_op m) (m_fields m ++ [mkField 9 KBytes (TJunk 1)]) (m_closed m))
               else Some m.

Example known_class_witness :
  let p := handshake append_to_sigma3 w_a w_b w_fra w_frb 1 8738 in
  match outcome p, p_wire p with
  | (true, [sa], [sb]), [_; _; (_, m3); _] =>
      negb (s_reserved sa) && negb (s_reserved sb) &&
      negb (term_eqb (s_enc sa) (s_dec sb)) &&
      match append_to_sigma3 0 1 m3 with Some m3' => sigma3_alt m3 m3' | None => false end
  | _, _ => false
  end = true.
Proof. vm_compute. reflexivity. Qed.
