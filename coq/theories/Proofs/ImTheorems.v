(** The engine level (im.rs handle / read / write / invoke) and the
    consequences of exactness the property text names: timed-only
    elements, fabric-scoped commands, what the handler is told. *)
From RsM Require Import Lib.MachInt Model.Acl Model.AclSpec Model.Im Model.ImSpec.
From RsM Require Import Proofs.ImLists Proofs.ImFacts Proofs.ImExpand Proofs.ImConcrete Proofs.ImSpecLink
  Proofs.ImRun Proofs.ImSound Proofs.ImTimed.
From Coq Require Import ZifyN ZifyBool.
Open Scope N_scope.

Arguments N.eqb : simpl never.

(** * The whole engine on a node that does not change *)

Lemma invoke_items_bad_spec (items : list item) :
  invoke_items_bad items
  = existsb (fun i => negb (is_some (it_tag i))) items || has_dup_invoke items.
Proof.
  induction items as [|i rest IH]; [reflexivity|]. cbn [invoke_items_bad existsb has_dup_invoke].
  rewrite IH.
  destruct (negb (is_some (it_tag i))),
    (existsb (fun j => path_eqb (it_path i) (it_path j) || opt_eqb (it_tag i) (it_tag j)) rest),
    (existsb (fun i0 => negb (is_some (it_tag i0))) rest), (has_dup_invoke rest); reflexivity.
Qed.

(** the [timed] flag the expansion runs with *)
Definition run_timed (rq : imreq) : bool := match rq_op rq with Read => false | _ => rq_flag rq end.

Definition spec_outs (nd : node) (fabs : list fabric) (who : accessor) (rq : imreq) : list out :=
  request_spec nd fabs who (rq_op rq) (run_timed rq) (fun _ _ _ => true) (rq_items rq).

Theorem im_handle_exact (fuel max_paths : nat) (who : accessor) (nd : node) (fabs : list fabric)
  (rq : imreq) :
  wf_node nd = true -> wf_fabrics fabs = true ->
  (length (spec_outs nd fabs who rq) < fuel)%nat ->
  im_handle fuel max_paths who (mkCfg nd fabs) [] rq = spec_response max_paths who nd fabs rq.
Proof.
  intros Hn Hf Hfuel. unfold im_handle, spec_response, spec_outs, run_timed in *.
  destruct (rq_op rq) eqn:Hop.
  - destruct (existsb (fun it => bad_read_path (it_path it)) (rq_items rq)); [reflexivity|].
    rewrite (expand_all_exact fabs who Read false (fun _ _ _ => true) (rq_ff rq) nd Hf Hn (rq_items rq) fuel Hfuel).
    reflexivity.
  - rewrite timed_gate_eq_spec.
    destruct (gate_spec (rq_win rq) (rq_flag rq) (rq_elapsed rq)); [reflexivity|].
    cbn [is_invoke andb].
    rewrite (expand_all_exact fabs who Write (rq_flag rq) (fun _ _ _ => true) (rq_ff rq) nd Hf Hn (rq_items rq) fuel Hfuel).
    reflexivity.
  - rewrite timed_gate_eq_spec.
    destruct (gate_spec (rq_win rq) (rq_flag rq) (rq_elapsed rq)); [reflexivity|].
    cbn [is_invoke andb]. unfold invoke_malformed. rewrite invoke_items_bad_spec.
    destruct (Nat.ltb max_paths (length (rq_items rq))); [reflexivity|]. cbn [orb].
    destruct (Nat.ltb 1 (length (rq_items rq))
              && (existsb (fun i => negb (is_some (it_tag i))) (rq_items rq) || has_dup_invoke (rq_items rq)));
      [reflexivity|].
    rewrite (expand_all_exact fabs who Invoke (rq_flag rq) (fun _ _ _ => true) (rq_ff rq) nd Hf Hn (rq_items rq) fuel Hfuel).
    reflexivity.
Qed.

(** * Served entries are existing, matching, permitted elements *)

Lemma concrete_served (nd : node) (fabs : list fabric) (who : accessor) (op : operation) (timed : bool)
  (flt : N -> N -> N -> bool) (e c l : N) (t : cand) :
  concrete_decision nd fabs who op timed flt e c l = Served t ->
  In t (all_leaves op nd) /\ cand_ids t = (e, c, l)
  /\ permitted_leaf fabs who op timed t = true /\ flt e c l = true.
Proof.
  unfold concrete_decision.
  destruct (find (fun x => ep_id x =? e) nd) as [ep|] eqn:Hfe; [|discriminate].
  destruct (negb (spec_endpoint fabs who e)); [discriminate|].
  destruct (find (fun x => c_id x =? c) (ep_clusters ep)) as [cl|] eqn:Hfc; [|discriminate].
  destruct (find (fun x => l_id x =? l) (elements op cl)) as [lf|] eqn:Hfl; [|discriminate].
  destruct (flt e c l) eqn:Hflt; cbn [negb]; [|discriminate].
  destruct (leaf_decision fabs who op timed (ep, cl, lf)) eqn:Hd; [discriminate|].
  intros H. injection H as <-.
  apply find_some in Hfe, Hfc, Hfl. destruct Hfe as [He Heid], Hfc as [Hc Hcid], Hfl as [Hl Hlid].
  apply N.eqb_eq in Heid, Hcid, Hlid.
  split.
  { unfold all_leaves. apply in_flat_map. exists ep. split; [exact He|].
    apply in_flat_map. exists cl. split; [exact Hc|]. apply in_map. exact Hl. }
  split; [cbn [cand_ids]; rewrite Heid, Hcid, Hlid; reflexivity|]. split; [|reflexivity].
  rewrite <- decision_none_iff_permitted, Hd. reflexivity.
Qed.

Definition ids_of_out (o : out) : option (N * N * N) :=
  match o with OData e c l _ => Some (e, c, l) | OStatus _ _ _ => None end.

Lemma out_of_ids (tag : option N) (t : cand) : ids_of_out (out_of tag t) = Some (cand_ids t).
Proof. destruct t as [[e c] l]. reflexivity. Qed.

Lemma item_spec_data (nd : node) (fabs : list fabric) (who : accessor) (op : operation) (timed : bool)
  (flt : N -> N -> N -> bool) (it : item) (o : out) (ids : N * N * N) :
  In o (item_spec nd fabs who op timed flt it) -> ids_of_out o = Some ids ->
  exists t, In t (all_leaves op nd) /\ cand_ids t = ids /\ matches (it_path it) t = true
            /\ permitted_leaf fabs who op timed t = true.
Proof.
  assert (Hwild : In o (map (out_of (it_tag it)) (served nd fabs who op timed flt (it_path it))) ->
                  ids_of_out o = Some ids ->
                  exists t, In t (all_leaves op nd) /\ cand_ids t = ids /\ matches (it_path it) t = true
                            /\ permitted_leaf fabs who op timed t = true).
  { intros Hin Hids. apply in_map_iff in Hin. destruct Hin as [t [<- Ht]].
    rewrite out_of_ids in Hids. injection Hids as <-.
    unfold served in Ht. apply filter_In in Ht. destruct Ht as [Ht _].
    unfold permitted in Ht. apply filter_In in Ht. destruct Ht as [Hall Htest].
    apply andb_true_iff in Htest. exists t. repeat split; tauto. }
  assert (Hconc : forall e c l, it_path it = mkPath (Some e) (Some c) (Some l) ->
                  In o (match concrete_decision nd fabs who op timed flt e c l with
                        | Served t => [out_of (it_tag it) t]
                        | Refused s => [OStatus (it_path it) (it_tag it) s]
                        | Silent => []
                        end) -> ids_of_out o = Some ids ->
                  exists t, In t (all_leaves op nd) /\ cand_ids t = ids /\ matches (it_path it) t = true
                            /\ permitted_leaf fabs who op timed t = true).
  { intros e c l Hp Hin Hids.
    destruct (concrete_decision nd fabs who op timed flt e c l) as [t| |] eqn:Hd.
    - destruct Hin as [<-|[]]. rewrite out_of_ids in Hids. injection Hids as <-.
      destruct (concrete_served _ _ _ _ _ _ _ _ _ _ Hd) as [Hall [Hid [Hperm _]]].
      exists t. split; [exact Hall|]. split; [reflexivity|]. split; [|exact Hperm].
      destruct t as [[te tc] tl]. cbn [cand_ids] in Hid. injection Hid as He Hc Hl.
      rewrite Hp. unfold matches. cbn [p_ep p_cl p_leaf wild_or]. rewrite He, Hc, Hl, !N.eqb_refl. reflexivity.
    - destruct Hin as [<-|[]]. discriminate.
    - destruct Hin. }
  unfold item_spec.
  destruct (it_path it) as [pe pc pl] eqn:Hp. cbn [p_ep p_cl p_leaf] in *.
  destruct op, pe as [e|], pc as [c|], pl as [l|]; intros Hin Hids;
    try (apply Hwild; assumption);
    try (apply (Hconc e c l eq_refl); assumption);
    try (destruct Hin as [<-|[]]; discriminate).
Qed.

Theorem request_spec_data (nd : node) (fabs : list fabric) (who : accessor) (op : operation) (timed : bool)
  (flt : N -> N -> N -> bool) (items : list item) (e c l : N) (tag : option N) :
  In (OData e c l tag) (request_spec nd fabs who op timed flt items) ->
  exists it t, In it items /\ In t (all_leaves op nd) /\ cand_ids t = (e, c, l)
               /\ matches (it_path it) t = true /\ permitted_leaf fabs who op timed t = true.
Proof.
  unfold request_spec. intros H. apply in_flat_map in H. destruct H as [it [Hit Hin]].
  destruct (item_spec_data nd fabs who op timed flt it _ (e, c, l) Hin eq_refl) as [t Ht].
  exists it, t. split; [exact Hit|exact Ht].
Qed.

(** a status entry never reaches the handler *)
Lemma calls_of_status (who : accessor) (op : operation) (ff : bool) (p : gpath) (tag : option N) (s : status) :
  calls_of who op ff [OStatus p tag s] = [].
Proof. reflexivity. Qed.

(** the handler is called once per served entry, in order *)
Lemma calls_of_length (who : accessor) (op : operation) (ff : bool) (outs : list out) :
  length (calls_of who op ff outs)
  = length (filter (fun o => match o with OData _ _ _ _ => true | _ => false end) outs).
Proof.
  induction outs as [|o outs IH]; [reflexivity|]. unfold calls_of in *. cbn [flat_map filter].
  destruct o; cbn [app length]; rewrite IH; reflexivity.
Qed.

(** * What the handler is told: the requester's fabric and the filter flag *)

Definition hcall_fabric (h : hcall) : N :=
  match h with HRead _ _ _ f _ | HWrite _ _ _ f | HInvoke _ _ _ f => f end.

Theorem calls_carry_fabric (who : accessor) (op : operation) (ff : bool) (outs : list out) (h : hcall) :
  In h (calls_of who op ff outs) ->
  hcall_fabric h = a_fab who /\
  (forall e c l f b, h = HRead e c l f b -> b = ff).
Proof.
  unfold calls_of. intros H. apply in_flat_map in H. destruct H as [o [_ Hin]].
  destruct o as [e c l t|p t s]; [|destruct Hin].
  destruct Hin as [<-|[]]. destruct op; cbn [hcall_fabric]; split; try reflexivity;
    intros e' c' l' f b Hb; try discriminate. injection Hb as _ _ _ _ <-. reflexivity.
Qed.

(** * Timed-only elements, fabric-scoped commands *)

Theorem permitted_timed_only (fabs : list fabric) (who : accessor) (op : operation) (timed : bool) (t : cand) :
  permitted_leaf fabs who op timed t = true -> op <> Read ->
  timed_only (l_access (snd t)) = true -> timed = true.
Proof.
  destruct t as [[e c] l]. unfold permitted_leaf. cbn [snd]. intros H Hop Hto.
  apply andb_true_iff in H. destruct H as [H _]. apply andb_true_iff in H. destruct H as [H _].
  apply andb_true_iff in H. destruct H as [_ H].
  destruct op; [congruence| |]; cbn [timed_ok] in H; rewrite Hto in H; destruct timed; [reflexivity|discriminate|reflexivity|discriminate].
Qed.

Theorem permitted_fabric_scoped (fabs : list fabric) (who : accessor) (timed : bool) (t : cand) :
  permitted_leaf fabs who Invoke timed t = true ->
  fabric_scoped (l_access (snd t)) = true -> a_fab who <> 0.
Proof.
  destruct t as [[e c] l]. unfold permitted_leaf. cbn [snd]. intros H Hfs.
  apply andb_true_iff in H. destruct H as [H _]. apply andb_true_iff in H. destruct H as [_ H].
  cbn [fabric_ok] in H. rewrite Hfs in H. cbn [andb] in H.
  intro Hz. rewrite Hz in H. discriminate.
Qed.

(** the status a fabric-scoped command gives a requester without fabric
    (inside the timed window if it needs one) *)
Theorem fabric_scoped_refused (fabs : list fabric) (who : accessor) (timed : bool) (t : cand) :
  fabric_scoped (l_access (snd t)) = true -> a_fab who = 0 ->
  timed_ok Invoke timed (l_access (snd t)) = true ->
  leaf_decision fabs who Invoke timed t = Some SUnsupportedAccess.
Proof.
  destruct t as [[e c] l]. cbn [snd]. intros Hfs Hz Ht. unfold leaf_decision. rewrite Ht.
  cbn [negb fabric_ok]. rewrite Hfs, Hz. reflexivity.
Qed.

(** a timed-only element outside a timed interaction: NeedsTimedInteraction, before anything else *)
Theorem timed_only_refused (fabs : list fabric) (who : accessor) (op : operation) (t : cand) :
  op <> Read -> timed_only (l_access (snd t)) = true ->
  leaf_decision fabs who op false t = Some SNeedsTimedInteraction.
Proof.
  destruct t as [[e c] l]. cbn [snd]. intros Hop Hto. unfold leaf_decision.
  destruct op; [congruence| |]; cbn [timed_ok orb]; rewrite Hto; reflexivity.
Qed.

(** * The engine: nothing is processed outside the gate *)

Theorem im_handle_items_gate (fuel max_paths : nat) (who : accessor) (c0 : config) (sw : list (nat * config))
  (rq : imreq) (outs : list out) (log : list hcall) :
  im_handle fuel max_paths who c0 sw rq = RespItems outs log -> rq_op rq <> Read ->
  rq_flag rq = is_some (rq_win rq)
  /\ (rq_flag rq = true -> window_open (rq_win rq) (rq_elapsed rq) = true).
Proof.
  unfold im_handle. intros H Hop.
  destruct (rq_op rq); [congruence| |];
    destruct (timed_gate (rq_win rq) (rq_flag rq) (rq_elapsed rq)) eqn:Hg; try discriminate;
    exact (timed_gate_open _ _ _ Hg).
Qed.

(** the engine's responses pass the soundness check of the monitor, whatever
    replaces the node or the access control lists between steps *)
Theorem im_handle_sound (fuel max_paths : nat) (who : accessor) (c0 : config) (sw : list (nat * config))
  (rq : imreq) (outs : list out) (log : list hcall) :
  forallb cfg_wf (c0 :: map snd sw) = true ->
  im_handle fuel max_paths who c0 sw rq = RespItems outs log ->
  served_sound c0 sw who (rq_op rq) (run_timed rq) 0 None outs = true
  /\ log = calls_of who (rq_op rq) (rq_ff rq) outs.
Proof.
  intros Hwf H. unfold im_handle, run_timed in *.
  assert (Hgo : forall timed,
    match expand_all fuel (mkEnv (rq_op rq) who timed (fun _ _ _ => true)) (rq_ff rq) c0 sw (rq_items rq) with
    | RunDone o l => RespItems o l
    | RunOutOfFuel => RespOutOfFuel
    end = RespItems outs log ->
    served_sound c0 sw who (rq_op rq) timed 0 None outs = true
    /\ log = calls_of who (rq_op rq) (rq_ff rq) outs).
  { intros timed Hr. unfold expand_all in Hr.
    destruct (run fuel (mkEnv (rq_op rq) who timed (fun _ _ _ => true)) (rq_ff rq) c0 sw 0
                (mkP (fresh None) None (rq_items rq)) [] []) as [O L|] eqn:Hrun; [|discriminate].
    injection Hr as <- <-.
    destruct (run_sound who (rq_op rq) timed (fun _ _ _ => true) (rq_ff rq) c0 sw Hwf _ _ _ _ _ _ _ Hrun)
      as [more [HO [HL Hs]]].
    cbn [rev app] in HO, HL. subst O L. cbn [ps_x fresh x_last] in Hs. split; [exact Hs|reflexivity]. }
  destruct (rq_op rq).
  - destruct (existsb (fun it => bad_read_path (it_path it)) (rq_items rq)); [discriminate|]. apply Hgo. exact H.
  - destruct (timed_gate (rq_win rq) (rq_flag rq) (rq_elapsed rq)); [discriminate|]. apply Hgo. exact H.
  - destruct (timed_gate (rq_win rq) (rq_flag rq) (rq_elapsed rq)); [discriminate|].
    destruct (Nat.ltb max_paths (length (rq_items rq))); [discriminate|].
    destruct (Nat.ltb 1 (length (rq_items rq)) && invoke_items_bad (rq_items rq)); [discriminate|].
    apply Hgo. exact H.
Qed.

(** * Single items *)

Lemma request_spec_single (nd : node) (fabs : list fabric) (who : accessor) (op : operation) (timed : bool)
  (flt : N -> N -> N -> bool) (it : item) :
  request_spec nd fabs who op timed flt [it] = item_spec nd fabs who op timed flt it.
Proof. unfold request_spec. cbn [flat_map]. apply app_nil_r. Qed.

Theorem wildcard_exact (fabs : list fabric) (who : accessor) (op : operation) (timed : bool)
  (flt : N -> N -> N -> bool) (ff : bool) (nd : node) (it : item) (fuel : nat) :
  wf_fabrics fabs = true -> wf_node nd = true ->
  is_wildcard (it_path it) = true ->
  is_read op = true \/ (is_some (p_cl (it_path it)) = true /\ is_some (p_leaf (it_path it)) = true) ->
  (length (served nd fabs who op timed flt (it_path it)) < fuel)%nat ->
  expand_all fuel (mkEnv op who timed flt) ff (mkCfg nd fabs) [] [it]
  = RunDone (map (out_of (it_tag it)) (served nd fabs who op timed flt (it_path it)))
            (calls_of who op ff (map (out_of (it_tag it)) (served nd fabs who op timed flt (it_path it)))).
Proof.
  intros Hf Hn Hw Hok Hfuel.
  assert (Hup : upfront op (it_path it) = None).
  { unfold upfront. destruct Hok as [->|[-> ->]]; [reflexivity|]. rewrite !andb_false_r. reflexivity. }
  pose proof (expand_all_exact fabs who op timed flt ff nd Hf Hn [it] fuel) as H.
  rewrite request_spec_single, (item_spec_wild fabs who op timed flt nd it Hup Hw) in H.
  apply H. rewrite map_length. exact Hfuel.
Qed.

Theorem served_unfiltered (nd : node) (fabs : list fabric) (who : accessor) (op : operation) (timed : bool)
  (p : gpath) :
  served nd fabs who op timed (fun _ _ _ => true) p = permitted nd fabs who op timed p.
Proof.
  unfold served. induction (permitted nd fabs who op timed p) as [|t l IH]; [reflexivity|].
  cbn [filter]. destruct (cand_ids t) as [[e c] x]. rewrite IH. reflexivity.
Qed.

Theorem concrete_status (fabs : list fabric) (who : accessor) (op : operation) (timed : bool)
  (flt : N -> N -> N -> bool) (ff : bool) (nd : node) (e c l : N) (tag : option N) (fuel : nat) :
  wf_fabrics fabs = true -> wf_node nd = true -> (1 < fuel)%nat ->
  expand_all fuel (mkEnv op who timed flt) ff (mkCfg nd fabs) []
             [mkItem (mkPath (Some e) (Some c) (Some l)) tag]
  = match concrete_decision nd fabs who op timed flt e c l with
    | Served t => RunDone [out_of tag t] (calls_of who op ff [out_of tag t])
    | Refused s => RunDone [OStatus (mkPath (Some e) (Some c) (Some l)) tag s] []
    | Silent => RunDone [] []
    end.
Proof.
  intros Hf Hn Hfuel.
  pose proof (expand_all_exact fabs who op timed flt ff nd Hf Hn
                [mkItem (mkPath (Some e) (Some c) (Some l)) tag] fuel) as H.
  rewrite request_spec_single,
    (item_spec_concrete fabs who op timed flt nd (mkItem (mkPath (Some e) (Some c) (Some l)) tag) e c l eq_refl) in H.
  cbn [it_tag it_path] in H.
  destruct (concrete_decision nd fabs who op timed flt e c l); apply H; cbn [length]; lia.
Qed.
