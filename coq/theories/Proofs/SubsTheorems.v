(** The statements of property C13 over every interleaving of operations of
    the subscription model, assembled from SubsInv.v and SubsTiming.v. *)
From Coq Require Import ZifyN ZifyBool.
From RsM Require Import Model.Subs Model.SubsSpec Proofs.SubsFacts Proofs.SubsInv Proofs.SubsTiming.
Open Scope N_scope.

Lemma reach_inv : forall ops, N.of_nat (length ops) + 2 < two64 -> Inv (run init ops).
Proof.
  intros ops H. apply run_inv; [apply init_inv|]. cbn [nchg init]. lia.
Qed.

Theorem invariant_holds : forall ops,
  N.of_nat (length ops) + 2 < two64 -> inv_b (run init ops) = true.
Proof. intros ops H. apply inv_b_spec. apply reach_inv. exact H. Qed.

Theorem no_lost_change : forall ops,
  N.of_nat (length ops) + 2 < two64 ->
  forall s p, In s (subs (run init ops)) -> In p (s_paths s) ->
    stale (log (run init ops)) (s_del s) p = true ->
    unprimed s = true \/ contains_since (tab (run init ops)) p (s_seen s) = true.
Proof. intros ops H s p Hs Hp Hst. exact (i_kept _ (reach_inv ops H) s Hs p Hp Hst). Qed.

Theorem no_lost_change_in_flight : forall ops,
  N.of_nat (length ops) + 2 < two64 ->
  forall x p, In x (ctxs (run init ops)) -> In p (s_paths (x_sub x)) ->
    stale (log (run init ops)) (s_del (x_sub x)) p = true ->
    should_report (tab (run init ops)) x p = true.
Proof. intros ops H x p Hx Hp Hst. exact (stale_emitted _ x p (reach_inv ops H) Hx Hp Hst). Qed.

Theorem stale_is_reportable : forall ops,
  N.of_nat (length ops) + 2 < two64 ->
  forall s p, In s (subs (run init ops)) -> In p (s_paths s) ->
    stale (log (run init ops)) (s_del s) p = true ->
    forall now evw, report_allowed_at s <= now ->
      is_reportable s now (tab (run init ops)) evw = true.
Proof. intros ops H s p Hs Hp Hst. exact (stale_reportable _ s p (reach_inv ops H) Hs Hp Hst). Qed.

Theorem undelivered_event_is_reportable : forall ops,
  N.of_nat (length ops) + 2 < two64 ->
  forall s n, In s (subs (run init ops)) -> s_dev s < n ->
    forall now evw, n <= evw -> report_allowed_at s <= now ->
      is_reportable s now (tab (run init ops)) evw = true.
Proof. intros ops H s n Hs Hn. exact (event_reportable _ s n (reach_inv ops H) Hs Hn). Qed.

Theorem unfixed_purge_loses_a_change :
  exists ops, inv_b (run_gen false true true init ops) = false /\ inv_b (run init ops) = true /\
    let st := run_gen false true true init ops in
    existsb (fun s => stale (log st) (s_del s) f7_path && negb (unprimed s) &&
                      negb (is_reportable s 20000 (tab st) (evn st)) &&
                      negb (contains_since (tab st) f7_path (s_seen s))) (subs st) = true.
Proof.
  exists f7_witness. split; [exact unfixed_purge_refuted|]. split; [exact fixed_purge_witness_ok|].
  exact unfixed_purge_refuted_not_reportable.
Qed.

Theorem failed_report_same_content : forall st sid x,
  find_ctx sid (ctxs st) = Some x -> cancelled st = false ->
  let st' := fst (step st (OCtxEnd sid EFail)) in
  let s' := sub_after_fail x in
  tab st' = tab st /\ subs st' = subs st ++ [s'] /\
  s_id s' = s_id (x_sub x) /\ s_seen s' = s_seen (x_sub x) /\ s_seen_ev s' = s_seen_ev (x_sub x) /\
  s_rep_at s' = s_rep_at (x_sub x) /\ s_del s' = s_del (x_sub x) /\
  (forall p, should_report (tab st) x p =
             should_report (tab st') (mkCtx s' false (x_nseen x) (x_nseen_ev x) (x_now x) [] []) p).
Proof.
  intros st sid x Hf Hc. destruct (retry_same_content st sid x Hf Hc) as [R1 [R2 R3]].
  destruct (sub_after_fail_same x) as [S1 [S2 [S3 [S4 [_ [_ [S7 _]]]]]]].
  cbv zeta. repeat split; assumption.
Qed.

Theorem backoff_capped : forall x,
  x_now x + N.max (s_max (x_sub x)) 2 * 1000 <= IMAX ->
  x_now x <= s_retry_at (sub_after_fail x) <= x_now x + N.max (s_max (x_sub x)) 2 * 1000 /\
  expiry_anchor (sub_after_fail x) = expiry_anchor (x_sub x).
Proof.
  intros x H. destruct (sub_after_fail_same x) as [_ [_ [_ [S4 [S5 [_ [_ [_ [S9 S10]]]]]]]]].
  split; [split; [apply S9; lia|apply S10; exact H]|].
  unfold expiry_anchor, unprimed. rewrite S4, S5. reflexivity.
Qed.
