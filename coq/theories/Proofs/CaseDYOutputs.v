(** C01, Dolev-Yao part: what the honest step functions can put on the wire (shapes of the outputs). *)
From Coq Require Import ZifyN ZifyBool.
From RsM Require Import Lib.MachInt Model.Cert Model.CertSpec Model.Case Model.CaseSpec Model.CaseDY
  Proofs.CertTheorems Proofs.CaseFacts Proofs.CaseDYFacts.
Open Scope N_scope.
Arguments N.eqb : simpl never.
Arguments N.add : simpl never.

Lemma init_start_out : forall a fr fab peer f,
  get_fabric fab (n_fabrics a) = Some f ->
  io_msgs (init_start a fr fab peer) = [sigma1_of a fr fab peer f] /\
  exists c, io_state (init_start a fr fab peer) = IAwait2 c /\
    ic_fab c = fab /\ ic_peer c = peer /\ ic_eph c = TNonce (fr_eph fr) /\ ic_pub c = TPub (TNonce (fr_eph fr)) /\
    ic_rand c = TNonce (fr_rand fr) /\ ic_s1 c = msg_term (sigma1_of a fr fab peer f) /\
    ic_cached c = find_by_peer (n_cache a) fab peer /\
    n_fabrics (io_node (init_start a fr fab peer)) = n_fabrics a /\
    n_clock (io_node (init_start a fr fab peer)) = n_clock a.
Proof.
  intros a fr fab peer f Hgf. unfold init_start, reserve. cbn [n_fabrics n_cache]. rewrite Hgf.
  cbn [io_msgs io_state io_node]. split.
  - unfold sigma1_of. destruct (find_by_peer (n_cache a) fab peer); reflexivity.
  - eexists. split; [reflexivity|]. cbn [ic_fab ic_peer ic_eph ic_pub ic_rand ic_s1 ic_cached n_fabrics n_clock].
    repeat split; try reflexivity.
Qed.

(** what the responder's first step can put on the wire *)
Inductive r1_shape (b : node) (fr : fresh) (m1 : msg) : list msg -> Prop :=
| r1_none : r1_shape b fr m1 []
| r1_status : forall c, r1_shape b fr m1 [status_msg c]
| r1_resume : forall q r, parse_sigma1 m1 = Ok q -> In r (n_cache b) ->
    g1_mic q = Some (resume_mic INFO_S1RK NONCE_R1 (r_secret r) (g1_random q) (r_rid r)) ->
    r1_shape b fr m1
      [mkMsg OP_SIGMA2R
         [mkField 1 KBytes (TNonce (fr_rid fr));
          mkField 2 KBytes (resume_mic INFO_S2RK NONCE_R2 (r_secret r) (g1_random q) (TNonce (fr_rid fr)));
          mkField 3 KUint (TNonce (fr_sid fr)); mkField 4 KStruct (TNum 0)] true]
| r1_sigma2 : forall q f, parse_sigma1 m1 = Ok q ->
    get_by_dest_id (n_fabrics b) (g1_random q) (g1_dest q) = Some f -> is_pub (g1_pub q) = true ->
    r1_shape b fr m1 [build_sigma2 f fr (g1_pub q) (msg_term m1)].

Lemma resp_first_shape : forall b fr m1, r1_shape b fr m1 (ro_msgs (resp_first b fr m1)).
Proof.
  intros b fr m1. unfold resp_first, reserve.
  destruct (negb (m_op m1 =? OP_SIGMA1)); [apply r1_none|].
  destruct (parse_sigma1 m1) as [q| |] eqn:Hq; try apply r1_none.
  cbn [n_cache n_fabrics].
  destruct (resp_try_resume _ _ fr q) as [o|] eqn:Hr.
  - unfold resp_try_resume in Hr. cbn [n_cache n_fabrics] in Hr.
    destruct (g1_rid q) as [rid|]; [|discriminate]. destruct (g1_mic q) as [mic|] eqn:Hmic; [|discriminate].
    destruct (find_by_rid (n_cache b) rid) as [r|] eqn:Hf; [|discriminate].
    destruct (term_eqb mic (resume_mic INFO_S1RK NONCE_R1 (r_secret r) (g1_random q) (r_rid r))) eqn:Hm;
      cbn [negb] in Hr; [|discriminate].
    apply term_eqb_eq in Hm. subst mic.
    apply find_by_rid_in in Hf. destruct Hf as [Hin _].
    destruct (get_fabric (r_fab r) (n_fabrics b)); inversion Hr; subst o; cbn [ro_msgs];
      apply (r1_resume b fr m1 q r Hq Hin Hmic).
  - unfold resp_sigma1. cbn [n_fabrics].
    destruct (g1_rid q); destruct (g1_mic q); try apply r1_status;
    (destruct (get_by_dest_id (n_fabrics b) (g1_random q) (g1_dest q)) as [f|] eqn:Hd; [|apply r1_status];
     destruct (is_pub (g1_pub q)) eqn:Hp; cbn [negb ro_msgs]; [|apply r1_none];
     apply (r1_sigma2 b fr m1 q f Hq Hd Hp)).
Qed.

(** what the initiator's step on the message received after Sigma1 can put on the wire *)
Inductive i2_shape (st : node) (c : ictx) (m2 : msg) : list msg -> Prop :=
| i2_none : i2_shape st c m2 []
| i2_status : forall code, i2_shape st c m2 [status_msg code]
| i2_sigma3 : forall f rr rpub noc icac sig rid cats,
    get_fabric (ic_fab c) (n_fabrics st) = Some f ->
    get_req m2 1 KBytes = Ok rr -> get_req m2 3 KBytes = Ok rpub -> is_pub rpub = true ->
    get_req m2 4 KBytes = Ok (TAead (s2k (f_ipk f) rr rpub (h1 (ic_s1 c)) (dh (ic_eph c) rpub)) (TNum NONCE_S2)
                                    (tbe2_plain noc icac sig rid)) ->
    case_valid (n_clock st) (f_fid f) (f_root f) noc icac ->
    get_node_id noc = Some (ic_peer c) -> cats_of noc = Ok cats ->
    sig = TSig (TKey (pubkey noc)) (tbs noc icac rpub (ic_pub c)) ->
    i2_shape st c m2 [build_sigma3 f (ic_pub c) rpub (ic_s1 c) (msg_term m2) (dh (ic_eph c) rpub)].

Lemma init_step_shape : forall st c m2, i2_shape st c m2 (io_msgs (init_step st (IAwait2 c) m2)).
Proof.
  intros st c m2. cbn [init_step].
  destruct (m_op m2 =? OP_STATUS); [apply i2_none|].
  destruct (m_op m2 =? OP_SIGMA2R).
  { destruct (ic_cached c) as [r|]; [|apply i2_status].
    unfold init_resume.
    destruct (get_req m2 1 KBytes); cbn [bind]; try apply i2_none.
    destruct (get_req m2 2 KBytes); cbn [bind]; try apply i2_none.
    destruct (get_req m2 3 KUint); cbn [bind]; try apply i2_none.
    destruct (get_opt m2 4 KStruct); cbn [bind]; try apply i2_none.
    destruct (negb _); [apply i2_status|].
    destruct (get_fabric (ic_fab c) (n_fabrics st)); [apply i2_status|apply i2_none]. }
  destruct (negb (m_op m2 =? OP_SIGMA2)); [apply i2_none|].
  unfold init_sigma2.
  destruct (get_req m2 1 KBytes) as [rr| |] eqn:H1; cbn [bind]; try apply i2_none.
  destruct (get_req m2 2 KUint) as [sid| |] eqn:H2; cbn [bind]; try apply i2_none.
  destruct (get_req m2 3 KBytes) as [rpub| |] eqn:H3; cbn [bind]; try apply i2_none.
  destruct (get_req m2 4 KBytes) as [enc| |] eqn:H4; cbn [bind]; try apply i2_none.
  destruct (get_fabric (ic_fab c) (n_fabrics st)) as [f|] eqn:Hgf; [|apply i2_status].
  destruct (is_pub rpub) eqn:Hp; cbn [negb]; [|apply i2_status].
  destruct (adec _ _ enc) as [pt|] eqn:Hdec; [|apply i2_status].
  destruct (parse_tbe2 pt) as [[[[noc icac] sig] rid]|] eqn:Hpt; [|apply i2_status].
  destruct (case_validate (n_clock st) (f_fid f) (f_root f) noc icac) as [[]| |] eqn:Hcv; try apply i2_status.
  destruct (get_node_id noc) as [nid|] eqn:Hnid; [|apply i2_status].
  destruct (nid =? ic_peer c) eqn:Hpeer; cbn [negb]; [|apply i2_status].
  destruct (sig_ok _ _ sig) eqn:Hsig; cbn [negb]; [|apply i2_status].
  destruct (cats_of noc) as [cats| |] eqn:Hcats; try apply i2_status.
  cbn [io_msgs].
  apply N.eqb_eq in Hpeer. subst nid. apply adec_some in Hdec. apply parse_tbe2_some in Hpt. subst enc pt.
  apply sig_ok_iff in Hsig. apply case_validate_iff in Hcv.
  eapply i2_sigma3; eassumption.
Qed.
