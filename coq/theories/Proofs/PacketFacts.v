(** Facts about Model/Packet.v: ideal AEAD, nonce, consumed header bytes,
    session routing frame lemmas, and the structure of [decode_packet] in
    terms of [auth_check]. *)
From RsM Require Import Lib.MachInt Model.Headers Model.Dedup Model.Mrp Model.Exchange
  Model.Packet Model.PacketSpec Proofs.HeadersFacts Proofs.ExchangeFacts.
From Coq Require Import ZifyN ZifyBool Lia Bool PeanoNat.
Open Scope N_scope.

Arguments N.ltb : simpl never.
Arguments N.leb : simpl never.
Arguments N.eqb : simpl never.
Arguments N.add : simpl never.
Arguments N.mul : simpl never.
Arguments N.div : simpl never.
Arguments N.modulo : simpl never.
Arguments N.pow : simpl never.

(** * Ideal AEAD *)

Lemma bytes_eqb_eq (a b : list N) : bytes_eqb a b = true <-> a = b.
Proof.
  revert b. induction a as [|x a IH]; intros [|y b]; cbn [bytes_eqb]; split; intro H;
    try reflexivity; try discriminate.
  - apply andb_prop in H as [Hx Hr]. apply N.eqb_eq in Hx. apply IH in Hr. congruence.
  - injection H as -> ->. rewrite N.eqb_refl. cbn [andb]. apply IH. reflexivity.
Qed.

Lemma bytes_eqb_refl (a : list N) : bytes_eqb a a = true.
Proof. apply bytes_eqb_eq. reflexivity. Qed.

Lemma term_eqb_eq (t u : term) : term_eqb t u = true <-> t = u.
Proof.
  destruct t as [k n a p], u as [k' n' a' p']. cbn [term_eqb]. split; intro H.
  - repeat (apply andb_prop in H; destruct H as [H ?]).
    apply N.eqb_eq in H. repeat match goal with
      | Hx : bytes_eqb _ _ = true |- _ => apply bytes_eqb_eq in Hx end. congruence.
  - injection H as -> -> -> ->. rewrite N.eqb_refl, !bytes_eqb_refl. reflexivity.
Qed.

Lemma entry_opens_spec k n a c (e : term * list N) :
  entry_opens k n a c e = true <-> exists pt, e = (Aead k n a pt, c).
Proof.
  destruct e as [[k' n' a' pt] c']. unfold entry_opens. cbn [fst snd]. split; intro H.
  - repeat (apply andb_prop in H; destruct H as [H ?]).
    apply N.eqb_eq in H. repeat match goal with
      | Hx : bytes_eqb _ _ = true |- _ => apply bytes_eqb_eq in Hx end.
    subst. exists pt. reflexivity.
  - destruct H as [pt' H]. injection H as -> -> -> -> ->.
    rewrite N.eqb_refl, !bytes_eqb_refl. reflexivity.
Qed.

(** opening succeeds only on a byte string recorded for that key, nonce, aad *)
Lemma aead_open_sound W k n a c pt :
  aead_open W k n a c = Some pt -> In (Aead k n a pt, c) W.
Proof.
  unfold aead_open. intro H.
  destruct (find (entry_opens k n a c) W) as [[[k' n' a' pt'] c']|] eqn:Hf; [|discriminate].
  injection H as ->. apply find_some in Hf as [Hin Ho].
  apply entry_opens_spec in Ho as [pt'' Ho]. injection Ho as -> -> -> -> ->. exact Hin.
Qed.

Lemma aead_open_none W k n a c :
  aead_open W k n a c = None -> forall pt, ~ In (Aead k n a pt, c) W.
Proof.
  unfold aead_open. intros H pt Hin.
  destruct (find (entry_opens k n a c) W) as [[[k' n' a' pt'] c']|] eqn:Hf; [discriminate|].
  pose proof (find_none _ _ Hf _ Hin) as Hn.
  assert (Ht : entry_opens k n a c (Aead k n a pt, c) = true)
    by (apply entry_opens_spec; exists pt; reflexivity).
  congruence.
Qed.

Lemma aead_open_complete W k n a c pt :
  world_functional W -> In (Aead k n a pt, c) W -> aead_open W k n a c = Some pt.
Proof.
  intros Hfun Hin. destruct (aead_open W k n a c) as [pt'|] eqn:Ho.
  - apply aead_open_sound in Ho. f_equal. eapply Hfun; eassumption.
  - exfalso. eapply aead_open_none; eassumption.
Qed.

Lemma aead_seal_sound W t c : aead_seal W t = Some c -> In (t, c) W.
Proof.
  unfold aead_seal. intro H.
  destruct (find (fun e => term_eqb (fst e) t) W) as [[t' c']|] eqn:Hf; [|discriminate].
  injection H as ->. apply find_some in Hf as [Hin Ht]. cbn [fst] in Ht.
  apply term_eqb_eq in Ht. subst. exact Hin.
Qed.

(** * Nonce *)

Lemma app_inj_len {A} (a b c d : list A) :
  length a = length c -> a ++ b = c ++ d -> a = c /\ b = d.
Proof.
  revert c. induction a as [|x a IH]; intros [|y c] Hl H; cbn [length] in Hl; try discriminate.
  - split; [reflexivity|exact H].
  - cbn [app] in H. injection H as -> H. destruct (IH c) as [-> ->]; [lia|exact H|].
    split; reflexivity.
Qed.

Lemma le_bytes_inj (n : nat) (v w : N) :
  v < 256 ^ N.of_nat n -> w < 256 ^ N.of_nat n -> le_bytes n v = le_bytes n w -> v = w.
Proof.
  intros Hv Hw H. rewrite <- (le_val_le_bytes n v Hv), <- (le_val_le_bytes n w Hw), H.
  reflexivity.
Qed.

Lemma nonce_length sf ctr node : length (nonce sf ctr node) = 13%nat.
Proof. unfold nonce. rewrite !app_length, !le_bytes_length. reflexivity. Qed.

Lemma nonce_bytes sf ctr node : bytes (nonce sf ctr node).
Proof. unfold nonce. repeat (apply bytes_app; split); apply le_bytes_bytes. Qed.

Lemma nonce_inj sf ctr node sf' ctr' node' :
  sf < 256 -> sf' < 256 -> ctr < two32 -> ctr' < two32 -> node < two64 -> node' < two64 ->
  nonce sf ctr node = nonce sf' ctr' node' -> sf = sf' /\ ctr = ctr' /\ node = node'.
Proof.
  intros H1 H1' H2 H2' H3 H3' H. unfold nonce in H.
  apply app_inj_len in H as [Ha H]; [|rewrite !le_bytes_length; reflexivity].
  apply app_inj_len in H as [Hb Hc]; [|rewrite !le_bytes_length; reflexivity].
  apply le_bytes_inj in Ha; [|rewrite pow_1; assumption..].
  apply le_bytes_inj in Hb; [|rewrite pow_4; assumption..].
  apply le_bytes_inj in Hc; [|rewrite pow_8; assumption..].
  repeat split; assumption.
Qed.

(** * The associated data is the encoded header *)

Lemma consumed_app (h rest : list N) : consumed (h ++ rest) rest = h.
Proof.
  unfold consumed. rewrite app_length.
  replace (length h + length rest - length rest)%nat with (length h) by lia.
  apply firstn_len_app.
Qed.

Lemma plain_decode_consumed wire p rest :
  bytes wire -> plain_decode wire = Ok (p, rest) ->
  wire = plain_encode p ++ rest /\ consumed wire rest = plain_encode p /\
  plain_wf p = true /\ bytes rest.
Proof.
  intros Hb Hd. apply plain_decode_canonical in Hd as (Hw & Hwf & Hr); [|exact Hb].
  repeat split; try assumption. rewrite Hw at 1. apply consumed_app.
Qed.

(** * Session routing touches the window and the exchange slots only *)

Definition same_ident (a b : psess) : Prop :=
  ps_id a = ps_id b /\ ps_addr a = ps_addr b /\ ps_local_node a = ps_local_node b /\
  ps_peer_node a = ps_peer_node b /\ ps_dec_key a = ps_dec_key b /\
  ps_enc_key a = ps_enc_key b /\ ps_local_sid a = ps_local_sid b /\
  ps_peer_sid a = ps_peer_sid b /\ ps_msg_ctr a = ps_msg_ctr b /\ ps_mode a = ps_mode b /\
  ps_expired a = ps_expired b /\ ps_reserved a = ps_reserved b.

Lemma same_ident_refl s : same_ident s s.
Proof. unfold same_ident. repeat split. Qed.

Lemma with_core_ident s c : same_ident s (with_core s c).
Proof. unfold same_ident, with_core. cbn. repeat split. Qed.

Lemma sess_post_recv_ident s p x : same_ident s (fst (sess_post_recv s p x)).
Proof.
  unfold sess_post_recv. destruct (session_post_recv (core s) (msg_of p x) 0) as [c r].
  cbn [fst]. apply with_core_ident.
Qed.

Lemma with_core_core s : with_core s (core s) = s.
Proof. destruct s. reflexivity. Qed.

(** a counter the window does not accept leaves the window as it was *)
Lemma post_recv_reject_same w c enc roll w' :
  post_recv w c enc roll = (w', false) -> w' = w.
Proof.
  unfold post_recv. intro Hp.
  destruct (negb (synced w)); [discriminate|].
  destruct (c =? max_ctr w); [injection Hp as <-; reflexivity|].
  destruct (if roll then _ else _) as [fwd udiff].
  destruct (negb fwd && (udiff <=? WIN)).
  - destruct (contains w (udiff - 1)); [injection Hp as <-; reflexivity|discriminate].
  - destruct fwd.
    + destruct (udiff <=? WIN); discriminate.
    + destruct (negb enc); [discriminate|injection Hp as <-; reflexivity].
Qed.

Lemma sess_post_recv_replay s p x :
  snd (post_recv (ps_win s) (p_ctr p) (mode_enc (ps_mode s)) false) = false ->
  sess_post_recv s p x = (s, Err ERR_DUPLICATE).
Proof.
  intro H. unfold sess_post_recv, session_post_recv, session_post_recv_raw.
  destruct (effective_fields (core s) (msg_of p x)) as [_ [_ [_ [Ec _]]]]. rewrite Ec.
  cbn [core s_win s_enc m_ctr msg_of].
  destruct (post_recv (ps_win s) (p_ctr p) (mode_enc (ps_mode s)) false) as [w' fresh] eqn:Hp.
  cbn [snd] in H. subst fresh. cbn [negb].
  apply post_recv_reject_same in Hp. subst w'.
  unfold set_win, with_core. cbn [s_id s_key s_enc s_group s_expired s_exchs s_win core].
  f_equal. destruct s; reflexivity.
Qed.

Lemma route_spec st i s p x payload :
  route st i s p x payload =
  (set_sessions st (set_nth (st_sessions st) i (fst (sess_post_recv s p x))),
   mkOut (Routed i (snd (sess_post_recv s p x))) p x payload).
Proof. unfold route. destruct (sess_post_recv s p x); reflexivity. Qed.

(** * find_sess *)

Lemma find_sess_some l from p i s :
  find_sess l from p = Some (i, s) ->
  nth_error l i = Some s /\ is_for_rx s from p = true /\
  (forall j t, (j < i)%nat -> nth_error l j = Some t -> is_for_rx t from p = false).
Proof.
  unfold find_sess. intro H.
  destruct (find_index (fun s0 => is_for_rx s0 from p) l) as [k|] eqn:Hf; [|discriminate].
  destruct (nth_error l k) as [s0|] eqn:Hn; [|discriminate]. injection H as -> ->.
  destruct (find_index_some _ _ _ Hf) as (y & Hy & Hp). rewrite Hn in Hy. injection Hy as <-.
  repeat split; try assumption. intros j t Hj Ht. exact (find_index_first _ _ _ Hf j t Hj Ht).
Qed.

Lemma find_sess_none l from p :
  find_sess l from p = None -> forall s, In s l -> is_for_rx s from p = false.
Proof.
  unfold find_sess. intro H.
  destruct (find_index (fun s0 => is_for_rx s0 from p) l) as [k|] eqn:Hf.
  - destruct (find_index_some _ _ _ Hf) as (y & Hy & _). rewrite Hy in H. discriminate.
  - intros s Hin. exact (find_index_none _ _ Hf s Hin).
Qed.

Lemma find_sess_first l from p i s :
  nth_error l i = Some s -> is_for_rx s from p = true ->
  (forall j t, (j < i)%nat -> nth_error l j = Some t -> is_for_rx t from p = false) ->
  find_sess l from p = Some (i, s).
Proof.
  intros Hn Hs Hfirst. unfold find_sess.
  destruct (find_index (fun s0 => is_for_rx s0 from p) l) as [k|] eqn:Hf.
  - destruct (find_index_some _ _ _ Hf) as (y & Hy & Hpy).
    destruct (Nat.lt_trichotomy k i) as [Hlt|[->|Hgt]].
    + rewrite (Hfirst k y Hlt Hy) in Hpy. discriminate.
    + rewrite Hn. reflexivity.
    + pose proof (find_index_first _ _ _ Hf i s Hgt Hn) as Hc. cbn beta in Hc. congruence.
  - pose proof (find_index_none _ _ Hf s (nth_error_In _ _ Hn)) as Hc. cbn beta in Hc. congruence.
Qed.

(** * decode_remaining *)

Lemma decode_remaining_ok W key node rel p aad rest x payload :
  decode_remaining W key node rel p aad rest = inr (x, payload) ->
  exists pt x0,
    proto_decode pt = Ok (x0, payload) /\ x = adjust_rel rel x0 /\
    match key with
    | Some k => In (Aead k (nonce (p_sec p) (p_ctr p) node) aad pt, rest) W
    | None => pt = rest
    end.
Proof.
  unfold decode_remaining. intro H.
  destruct key as [k|].
  - destruct (aead_open W k (nonce (p_sec p) (p_ctr p) node) aad rest) as [pt|] eqn:Ho;
      [|discriminate].
    destruct (proto_decode pt) as [[x0 pl]| |] eqn:Hd; try discriminate.
    injection H as <- <-. exists pt, x0.
    split; [exact Hd|split; [reflexivity|apply aead_open_sound; exact Ho]].
  - destruct (proto_decode rest) as [[x0 pl]| |] eqn:Hd; try discriminate.
    injection H as <- <-. exists rest, x0.
    split; [exact Hd|split; reflexivity].
Qed.

Lemma group_try_some W src rel p aad rest l c x payload :
  group_try W src rel p aad rest l = Some (c, x, payload) ->
  In c l /\ decode_remaining W (Some (gc_key c)) src rel p aad rest = inr (x, payload).
Proof.
  induction l as [|c0 t IH]; cbn [group_try]; intro H; [discriminate|].
  destruct (decode_remaining W (Some (gc_key c0)) src rel p aad rest) as [v|[x0 pl]] eqn:Hd.
  - destruct (IH H) as [Hin Hd']. split; [right; exact Hin|exact Hd'].
  - injection H as <- <- <-. split; [left; reflexivity|exact Hd].
Qed.


Lemma decode_remaining_rej W key node rel p aad rest v :
  decode_remaining W key node rel p aad rest = inl v ->
  v = RejAuth \/ exists e, v = RejProto e.
Proof.
  unfold decode_remaining. intro H.
  destruct (match key with Some k => _ | None => _ end) as [pt|].
  - destruct (proto_decode pt) as [[x0 pl]|e|e]; try discriminate;
      injection H as <-; right; eexists; reflexivity.
  - injection H as <-. left. reflexivity.
Qed.

(** * decode_packet in terms of auth_check *)

Definition not_routed (v : verdict) : Prop := forall i r, v <> Routed i r.

Lemma decode_remaining_not_routed W key node rel p aad rest v :
  decode_remaining W key node rel p aad rest = inl v -> not_routed v.
Proof.
  intros H i r Hc. apply decode_remaining_rej in H as [->|[e ->]]; discriminate.
Qed.

(** a datagram that is authentic for nobody changes nothing at all *)
Lemma decode_auth_none W o st from wire :
  auth_check W st from wire = AuthNone ->
  fst (decode_packet W o st from wire) = st /\
  not_routed (o_verdict (snd (decode_packet W o st from wire))).
Proof.
  unfold auth_check, decode_packet.
  destruct (plain_decode wire) as [[p rest]|e|e];
    [|intros _; split; [reflexivity|intros i r; discriminate]..].
  destruct (find_sess (st_sessions st) from p) as [[i s]|].
  - destruct (decode_remaining W (sess_dec_key s) (node_or0 (ps_peer_node s))
                (addr_reliable (ps_addr s)) p (consumed wire rest) rest) as [v|[x payload]] eqn:Hd;
      [|discriminate].
    intros _. split; [reflexivity|]. cbn [snd rej o_verdict].
    eapply decode_remaining_not_routed; exact Hd.
  - destruct (negb (plain_encrypted p)).
    + destruct (decode_remaining W None 0 (addr_reliable from) p (consumed wire rest) rest)
        as [v|[x payload]] eqn:Hd.
      * intros _. split; [reflexivity|]. cbn [snd rej o_verdict].
        eapply decode_remaining_not_routed; exact Hd.
      * destruct (is_new_session (opclass_of x)); [discriminate|].
        intros _. split; [reflexivity|intros i r; discriminate].
    + destruct (plain_group p); [|intros _; split; [reflexivity|intros i r; discriminate]].
      unfold group_rx.
      destruct (plain_get_src p) as [src|];
        [|intros _; split; [reflexivity|intros i r; discriminate]].
      destruct (is_none (plain_get_dst_groupcast p) && is_none (plain_get_dst_unicast p));
        [intros _; split; [reflexivity|intros i r; discriminate]|].
      destruct (1280 <? length rest)%nat;
        [intros _; split; [reflexivity|intros i r; discriminate]|].
      destruct (group_try W src (addr_reliable from) p (consumed wire rest) rest (group_cands st p))
        as [[[c x] payload]|]; [discriminate|].
      intros _. split; [reflexivity|]. cbn [snd rej o_verdict].
      destruct (group_cands st p); intros i r; discriminate.
Qed.

(** authentic for an existing session: exactly [post_recv] on that slot *)
Lemma decode_auth_session W o st from wire i p x payload :
  auth_check W st from wire = AuthSession i p x payload ->
  exists s, find_sess (st_sessions st) from p = Some (i, s) /\
            decode_packet W o st from wire = route_existing st i s p x payload.
Proof.
  unfold auth_check, decode_packet.
  destruct (plain_decode wire) as [[p0 rest]|e|e]; try discriminate.
  destruct (find_sess (st_sessions st) from p0) as [[i0 s]|] eqn:Hf.
  - destruct (decode_remaining W (sess_dec_key s) (node_or0 (ps_peer_node s))
                (addr_reliable (ps_addr s)) p0 (consumed wire rest) rest) as [v|[x0 pl]] eqn:Hd;
      [discriminate|].
    intro H. injection H as <- <- <- <-. exists s. split; [exact Hf|reflexivity].
  - destruct (negb (plain_encrypted p0)).
    + destruct (decode_remaining W None 0 (addr_reliable from) p0 (consumed wire rest) rest)
        as [v|[x0 pl]]; [discriminate|].
      destruct (is_new_session (opclass_of x0)); discriminate.
    + destruct (plain_group p0); [|discriminate].
      destruct (plain_get_src p0) as [src|]; [|discriminate].
      destruct (is_none (plain_get_dst_groupcast p0) && is_none (plain_get_dst_unicast p0));
        [discriminate|].
      destruct (1280 <? length rest)%nat; [discriminate|].
      destruct (group_try W src (addr_reliable from) p0 (consumed wire rest) rest (group_cands st p0))
        as [[[c x0] pl]|]; discriminate.
Qed.

(** * Sessions::add *)

Lemma sessions_add_some st rnd res a peer st1 i :
  sessions_add st rnd res a peer = (st1, Some i) ->
  i = length (st_sessions st) /\
  st_sessions st1 = st_sessions st ++ [new_psess (st_next_id st) rnd res a peer] /\
  st_groups st1 = st_groups st /\ st_gstore st1 = st_gstore st.
Proof.
  unfold sessions_add. destruct (length (st_sessions st) <? MAX_SESSIONS)%nat; intro H;
    [|discriminate].
  injection H as <- <-. cbn. repeat split.
Qed.

Lemma sessions_add_none st rnd res a peer st1 :
  sessions_add st rnd res a peer = (st1, None) ->
  st_sessions st1 = st_sessions st /\ st_groups st1 = st_groups st /\
  st_gstore st1 = st_gstore st /\ (MAX_SESSIONS <= length (st_sessions st))%nat.
Proof.
  unfold sessions_add.
  destruct (Nat.ltb_spec (length (st_sessions st)) MAX_SESSIONS) as [Hl|Hl]; intro H;
    [discriminate|].
  injection H as <-. cbn. repeat split. exact Hl.
Qed.

Lemma nth_error_app_last {A} (l : list A) x : nth_error (l ++ [x]) (length l) = Some x.
Proof. rewrite nth_error_app2 by lia. rewrite Nat.sub_diag. reflexivity. Qed.

(** unsecured session request without a session: a plaintext session is appended *)
Lemma decode_auth_newplain W o st from wire p x payload :
  auth_check W st from wire = AuthNewPlain p x payload ->
  find_sess (st_sessions st) from p = None /\ plain_encrypted p = false /\
  decode_packet W o st from wire =
    (let '(st1, slot) := sessions_add st (or_rand o) false from (plain_get_src p) in
     match slot with
     | Some i => match nth_error (st_sessions st1) i with
                 | Some s0 => route st1 i s0 p x payload
                 | None => (st1, mkOut RejNoSpace p x payload)
                 end
     | None => (st1, mkOut RejNoSpace p x payload)
     end).
Proof.
  unfold auth_check, decode_packet.
  destruct (plain_decode wire) as [[p0 rest]|e|e]; try discriminate.
  destruct (find_sess (st_sessions st) from p0) as [[i0 s]|] eqn:Hf.
  - destruct (decode_remaining W (sess_dec_key s) (node_or0 (ps_peer_node s))
                (addr_reliable (ps_addr s)) p0 (consumed wire rest) rest) as [v|[x0 pl]];
      discriminate.
  - destruct (plain_encrypted p0) eqn:He; cbn [negb].
    + destruct (plain_group p0); [|discriminate].
      destruct (plain_get_src p0) as [src|]; [|discriminate].
      destruct (is_none (plain_get_dst_groupcast p0) && is_none (plain_get_dst_unicast p0));
        [discriminate|].
      destruct (1280 <? length rest)%nat; [discriminate|].
      destruct (group_try W src (addr_reliable from) p0 (consumed wire rest) rest (group_cands st p0))
        as [[[c x0] pl]|]; discriminate.
    + destruct (decode_remaining W None 0 (addr_reliable from) p0 (consumed wire rest) rest)
        as [v|[x0 pl]]; [discriminate|].
      destruct (is_new_session (opclass_of x0)); [|discriminate].
      intro H. injection H as <- <- <-. repeat split; try assumption.
Qed.

(** group message without a session *)
Lemma decode_auth_group W o st from wire c p x payload :
  auth_check W st from wire = AuthGroup c p x payload ->
  exists rest src,
    plain_decode wire = Ok (p, rest) /\
    find_sess (st_sessions st) from p = None /\ plain_encrypted p = true /\
    plain_get_src p = Some src /\
    group_try W src (addr_reliable from) p (consumed wire rest) rest (group_cands st p)
      = Some (c, x, payload) /\
    decode_packet W o st from wire = group_rx W o st from p (consumed wire rest) rest.
Proof.
  unfold auth_check, decode_packet.
  destruct (plain_decode wire) as [[p0 rest]|e|e]; try discriminate.
  destruct (find_sess (st_sessions st) from p0) as [[i0 s]|] eqn:Hf.
  - destruct (decode_remaining W (sess_dec_key s) (node_or0 (ps_peer_node s))
                (addr_reliable (ps_addr s)) p0 (consumed wire rest) rest) as [v|[x0 pl]];
      discriminate.
  - destruct (plain_encrypted p0) eqn:He; cbn [negb].
    + destruct (plain_group p0); [|discriminate].
      destruct (plain_get_src p0) as [src|] eqn:Hs; [|discriminate].
      destruct (is_none (plain_get_dst_groupcast p0) && is_none (plain_get_dst_unicast p0));
        [discriminate|].
      destruct (1280 <? length rest)%nat; [discriminate|].
      destruct (group_try W src (addr_reliable from) p0 (consumed wire rest) rest (group_cands st p0))
        as [[[c0 x0] pl]|] eqn:Hg; [|discriminate].
      intro H. injection H as <- <- <- <-. exists rest, src. repeat split; assumption.
    + destruct (decode_remaining W None 0 (addr_reliable from) p0 (consumed wire rest) rest)
        as [v|[x0 pl]]; [discriminate|].
      destruct (is_new_session (opclass_of x0)); discriminate.
Qed.

(** * What the authentication check establishes *)

Lemma auth_session_sound W st from wire i p x payload :
  bytes wire -> auth_check W st from wire = AuthSession i p x payload ->
  exists s rest,
    find_sess (st_sessions st) from p = Some (i, s) /\
    plain_decode wire = Ok (p, rest) /\
    wire = plain_encode p ++ rest /\ plain_wf p = true /\
    exists pt x0,
      proto_decode pt = Ok (x0, payload) /\ x = adjust_rel (addr_reliable (ps_addr s)) x0 /\
      (if mode_enc (ps_mode s) then authentic W s p pt rest else pt = rest).
Proof.
  intros Hb. unfold auth_check.
  destruct (plain_decode wire) as [[p0 rest]|e|e] eqn:Hp; try discriminate.
  destruct (plain_decode_consumed _ _ _ Hb Hp) as (Hw & Hc & Hwf & Hr).
  destruct (find_sess (st_sessions st) from p0) as [[i0 s]|] eqn:Hf.
  - destruct (decode_remaining W (sess_dec_key s) (node_or0 (ps_peer_node s))
                (addr_reliable (ps_addr s)) p0 (consumed wire rest) rest) as [v|[x0 pl]] eqn:Hd;
      [discriminate|].
    intro H. injection H as <- <- <- <-.
    apply decode_remaining_ok in Hd as (pt & x1 & Hpd & Hx & Hk).
    exists s, rest. repeat split; try assumption.
    exists pt, x1. repeat split; try assumption.
    unfold sess_dec_key in Hk. destruct (mode_enc (ps_mode s)).
    + unfold authentic. rewrite <- Hc. exact Hk.
    + exact Hk.
  - destruct (negb (plain_encrypted p0)).
    + destruct (decode_remaining W None 0 (addr_reliable from) p0 (consumed wire rest) rest)
        as [v|[x0 pl]]; [discriminate|].
      destruct (is_new_session (opclass_of x0)); discriminate.
    + destruct (plain_group p0); [|discriminate].
      destruct (plain_get_src p0) as [src|]; [|discriminate].
      destruct (is_none (plain_get_dst_groupcast p0) && is_none (plain_get_dst_unicast p0));
        [discriminate|].
      destruct (1280 <? length rest)%nat; [discriminate|].
      destruct (group_try W src (addr_reliable from) p0 (consumed wire rest) rest (group_cands st p0))
        as [[[c x0] pl]|]; discriminate.
Qed.

Lemma group_cands_in st p c :
  In c (group_cands st p) -> In c (st_groups st) /\ gc_sid c = p_sess p.
Proof.
  unfold group_cands. intro H. apply filter_In in H as [Hin Hc]. split; [exact Hin|].
  apply andb_prop in Hc as [_ Hs]. apply N.eqb_eq in Hs. exact Hs.
Qed.

Lemma auth_group_sound W st from wire c p x payload :
  bytes wire -> auth_check W st from wire = AuthGroup c p x payload ->
  exists rest src pt x0,
    wire = plain_encode p ++ rest /\ plain_wf p = true /\
    In c (st_groups st) /\ gc_sid c = p_sess p /\ plain_get_src p = Some src /\
    authentic_group W c src p pt rest /\
    proto_decode pt = Ok (x0, payload) /\ x = adjust_rel (addr_reliable from) x0.
Proof.
  intros Hb Ha. apply (decode_auth_group W (mkOr 0 None)) in Ha
    as (rest & src & Hp & Hf & He & Hs & Hg & _).
  destruct (plain_decode_consumed _ _ _ Hb Hp) as (Hw & Hc & Hwf & Hr).
  apply group_try_some in Hg as [Hin Hd].
  apply group_cands_in in Hin as [Hin Hsid].
  apply decode_remaining_ok in Hd as (pt & x0 & Hpd & Hx & Hk).
  exists rest, src, pt, x0. repeat split; try assumption.
  unfold authentic_group. rewrite <- Hc. exact Hk.
Qed.
