(** Soundness of the executable monitors that are run on the
    implementation's outputs. *)
From Coq Require Import NArith ZArith List Bool Lia ZifyN ZifyBool.
From RsM Require Import Model.Tlv Model.TlvSpec Proofs.TlvFacts Proofs.TlvWriter
  Proofs.TlvRoundtrip Proofs.TlvWithin.
Import ListNotations.
Open Scope N_scope.

Lemma width_eqb_eq a b : width_eqb a b = true -> a = b.
Proof. destruct a, b; cbn; intros H; try reflexivity; discriminate. Qed.
Lemma ckind_eqb_eq a b : ckind_eqb a b = true -> a = b.
Proof. destruct a, b; cbn; intros H; try reflexivity; discriminate. Qed.

Lemma tag_eqb_eq a b : tag_eqb a b = true -> a = b.
Proof.
  destruct a, b; cbn [tag_eqb]; intros H; try discriminate; try reflexivity;
    try (apply N.eqb_eq in H; subst; reflexivity).
  - apply andb_true_iff in H as [H H3]. apply andb_true_iff in H as [H1 H2].
    apply N.eqb_eq in H1, H2, H3. subst. reflexivity.
  - apply andb_true_iff in H as [H H3]. apply andb_true_iff in H as [H1 H2].
    apply N.eqb_eq in H1, H2, H3. subst. reflexivity.
Qed.

Lemma tval_eqb_eq a b : tval_eqb a b = true -> a = b.
Proof.
  destruct a, b; cbn [tval_eqb]; intros H; try discriminate; try reflexivity.
  - apply andb_true_iff in H as [H1 H2]. apply width_eqb_eq in H1. apply Z.eqb_eq in H2. subst. reflexivity.
  - apply andb_true_iff in H as [H1 H2]. apply width_eqb_eq in H1. apply N.eqb_eq in H2. subst. reflexivity.
  - apply Bool.eqb_prop in H. subst. reflexivity.
  - apply N.eqb_eq in H. subst. reflexivity.
  - apply N.eqb_eq in H. subst. reflexivity.
  - apply andb_true_iff in H as [H1 H2]. apply width_eqb_eq in H1. apply bytes_eqb_eq in H2. subst. reflexivity.
  - apply andb_true_iff in H as [H1 H2]. apply width_eqb_eq in H1. apply bytes_eqb_eq in H2. subst. reflexivity.
  - apply ckind_eqb_eq in H. subst. reflexivity.
Qed.

Lemma tree_eqb_eq a : forall b, tree_eqb a b = true -> a = b.
Proof.
  induction a as [t v|t k cs IH] using tree_ind2; intros [t' v'|t' k' cs'] H;
    cbn [tree_eqb] in H; try discriminate.
  - apply andb_true_iff in H as [H1 H2]. apply tag_eqb_eq in H1. apply tval_eqb_eq in H2.
    subst. reflexivity.
  - apply andb_true_iff in H as [H H3]. apply andb_true_iff in H as [H1 H2].
    apply tag_eqb_eq in H1. apply ckind_eqb_eq in H2. subst. f_equal.
    revert cs' H3. induction IH as [|c r Hc Hr IHr]; intros [|c' r'] H3; try discriminate.
    + reflexivity.
    + apply andb_true_iff in H3 as [Ha Hb]. f_equal; [apply Hc; exact Ha|apply IHr; exact Hb].
Qed.

(** what the monitors accept *)
Theorem mon_roundtrip_sound t written :
  mon_roundtrip t written = true -> decode written = ROk t.
Proof.
  unfold mon_roundtrip. destruct (decode written) as [t'| | |]; try discriminate.
  intros H. apply tree_eqb_eq in H. subst. reflexivity.
Qed.

Theorem mon_no_panic_sound l :
  mon_no_panic l = true -> Forall (fun o => o = CValue \/ o = CError) l.
Proof.
  unfold mon_no_panic. intros H. apply Forall_forall. intros o Ho.
  rewrite forallb_forall in H. specialize (H o Ho). destruct o; cbn in H; auto; discriminate.
Qed.

Theorem mon_reencode_sound input reenc :
  mon_reencode input reenc = true -> reenc = firstn (length reenc) input.
Proof. unfold mon_reencode. apply bytes_eqb_eq. Qed.

Lemma res_is_sound {A} (eqb : A -> A -> bool) (r : rres A) x :
  (forall a b, eqb a b = true -> a = b) -> res_is eqb r x = true -> r = ROk x.
Proof. intros He. destruct r; cbn; try discriminate. intros H. apply He in H. subst. reflexivity. Qed.

Theorem mon_scalar_sound_u64 w t n written :
  mon_scalar (OpU w t n) written = true -> el_tag written = ROk t /\ el_u64 written = ROk n.
Proof.
  cbn [mon_scalar]. intros H. apply andb_true_iff in H as [H1 H2]. split.
  - eapply res_is_sound; [apply tag_eqb_eq|exact H1].
  - eapply res_is_sound; [intros a b E; apply N.eqb_eq; exact E|exact H2].
Qed.
