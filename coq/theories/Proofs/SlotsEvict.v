(** The eviction choice ([Sessions::get_session_for_eviction]): only idle
    sessions are ever chosen, an idle session is always found when there is
    one, expired idle sessions go first; and [ReservedSession::reserve]
    succeeds whenever the table has a free slot or an idle session. *)
From RsM Require Import Lib.MachInt Model.Slots Proofs.SlotsFacts Proofs.SlotsInv Proofs.SlotsStep.
From Coq Require Import Permutation ZifyN ZifyBool Arith.
Open Scope N_scope.

Arguments N.add : simpl never.
Arguments N.ltb : simpl never.
Arguments N.eqb : simpl never.

Definition cand0 (s : session) : bool := negb (s_reserved s) && no_exch s.

Lemma evict_cand_split : forall ts s,
  evict_cand ts s = (s_expired s || (s_last s <? ts)) && cand0 s.
Proof. intros. unfold evict_cand, cand0. rewrite andb_assoc. reflexivity. Qed.

Lemma idle_split : forall now s, idle now s = cand0 s && (s_expired s || (s_last s <? now)).
Proof. intros. reflexivity. Qed.

Lemma evict_loop_sound : forall l i ts acc j,
  evict_loop l i ts acc = Some j ->
  acc = Some j \/
  ((i <= j)%nat /\ exists x, nth_error l (j - i) = Some x /\ cand0 x = true /\
                            (s_expired x = true \/ s_last x < ts)).
Proof.
  induction l as [|s r IH]; intros i ts acc j He; cbn in He; auto.
  destruct (evict_cand ts s) eqn:Hc.
  - rewrite evict_cand_split in Hc. apply andb_prop in Hc. destruct Hc as [Hc1 Hc2].
    destruct (s_expired s) eqn:Hx.
    + inversion He; subst. right. split; auto. rewrite Nat.sub_diag. exists s. cbn. auto.
    + cbn in Hc1. assert (Hlt : s_last s < ts) by lia.
      destruct (IH _ _ _ _ He) as [Ha|[Hle [x [Hn [Hc Hq]]]]].
      * inversion Ha; subst. right. split; auto. rewrite Nat.sub_diag. exists s. cbn. auto.
      * right. split; [lia|]. exists x. replace (j - i)%nat with (S (j - S i)) by lia. cbn.
        repeat split; auto. destruct Hq; auto. right; lia.
  - destruct (IH _ _ _ _ He) as [Ha|[Hle [x [Hn [Hc' Hq]]]]]; auto.
    right. split; [lia|]. exists x. replace (j - i)%nat with (S (j - S i)) by lia. cbn. auto.
Qed.

Lemma evict_loop_acc : forall l i ts k, evict_loop l i ts (Some k) <> None.
Proof.
  induction l as [|s r IH]; intros i ts k; cbn; [discriminate|].
  destruct (evict_cand ts s); [destruct (s_expired s); [discriminate|apply IH]|apply IH].
Qed.

Lemma evict_loop_complete : forall l i ts acc y,
  In y l -> cand0 y = true -> (s_expired y = true \/ s_last y < ts) ->
  evict_loop l i ts acc <> None.
Proof.
  induction l as [|s r IH]; intros i ts acc y Hin Hc Hq; [inversion Hin|]. cbn.
  destruct (evict_cand ts s) eqn:He.
  - destruct (s_expired s); [discriminate|apply evict_loop_acc].
  - destruct Hin as [->|Hin]; [|eapply IH; eauto].
    rewrite evict_cand_split, Hc, andb_true_r in He. destruct Hq as [Hq|Hq]; [rewrite Hq in He; discriminate|].
    apply orb_false_elim in He. lia.
Qed.

Lemma evict_loop_expired_first : forall l i ts acc y,
  In y l -> cand0 y = true -> s_expired y = true ->
  exists j x, evict_loop l i ts acc = Some j /\ (i <= j)%nat /\ nth_error l (j - i) = Some x /\
              s_expired x = true /\ cand0 x = true.
Proof.
  induction l as [|s r IH]; intros i ts acc y Hin Hc Hx; [inversion Hin|]. cbn.
  destruct (evict_cand ts s) eqn:He.
  - destruct (s_expired s) eqn:Hxs.
    + exists i, s. rewrite Nat.sub_diag. cbn. repeat split; auto.
      rewrite evict_cand_split in He. apply andb_prop in He. tauto.
    + destruct Hin as [->|Hin]; [congruence|].
      destruct (IH (S i) (s_last s) (Some i) y Hin Hc Hx) as [j [x [H1 [H2 [H3 [H4 H5]]]]]].
      exists j, x. repeat split; auto; [lia|]. replace (j - i)%nat with (S (j - S i)) by lia. auto.
  - destruct Hin as [->|Hin].
    + rewrite evict_cand_split, Hc, Hx in He. discriminate.
    + destruct (IH (S i) ts acc y Hin Hc Hx) as [j [x [H1 [H2 [H3 [H4 H5]]]]]].
      exists j, x. repeat split; auto; [lia|]. replace (j - i)%nat with (S (j - S i)) by lia. auto.
Qed.

Theorem evict_only_idle : forall now t i,
  evict_choice now t = Some i ->
  exists x, nth_error (t_sess t) i = Some x /\ idle now x = true.
Proof.
  intros now t i He. unfold evict_choice in He.
  destruct (evict_loop_sound _ _ _ _ _ He) as [Ha|[_ [x [Hn [Hc Hq]]]]]; [discriminate|].
  rewrite Nat.sub_0_r in Hn. exists x. split; auto. rewrite idle_split, Hc. cbn.
  destruct Hq as [->|Hq]; auto. apply orb_true_iff. right. lia.
Qed.

Theorem evict_complete : forall now t x,
  In x (t_sess t) -> idle now x = true -> evict_choice now t <> None.
Proof.
  intros now t x Hin Hi. rewrite idle_split in Hi. apply andb_prop in Hi. destruct Hi as [Hc Hq].
  unfold evict_choice. eapply evict_loop_complete; eauto.
  apply orb_prop in Hq. destruct Hq as [Hq|Hq]; auto. right. lia.
Qed.

Theorem evict_expired_first : forall now t y,
  In y (t_sess t) -> cand0 y = true -> s_expired y = true ->
  exists i x, evict_choice now t = Some i /\ nth_error (t_sess t) i = Some x /\ s_expired x = true.
Proof.
  intros now t y Hin Hc Hx. unfold evict_choice.
  destruct (evict_loop_expired_first (t_sess t) O now None y Hin Hc Hx) as [j [x [H1 [_ [H3 [H4 _]]]]]].
  rewrite Nat.sub_0_r in H3. eauto.
Qed.

(** what [t_evict] removes is idle; everything else stays *)
Theorem t_evict_idle : forall now t t1 id,
  t_evict now t = (t1, Some id) ->
  exists x, In x (t_sess t) /\ s_id x = id /\ idle now x = true /\
            Permutation (t_sess t) (x :: t_sess t1).
Proof.
  intros now t t1 id He.
  destruct (t_evict_spec _ _ _ _ He) as [i [x [Hc [Hn [Hx [Hp _]]]]]].
  destruct (evict_only_idle _ _ _ Hc) as [x' [Hn' Hi]]. rewrite Hn in Hn'. inversion Hn'; subst x'.
  exists x. repeat split; auto. apply (Permutation_in _ (Permutation_sym Hp)). left; auto.
Qed.

Lemma idle_not_busy : forall now x, idle now x = true -> s_reserved x = false /\ no_exch x = true.
Proof.
  intros now x Hi. unfold idle in Hi. apply andb_prop in Hi. destruct Hi as [Hi _].
  apply andb_prop in Hi. destruct Hi as [H1 H2]. split; auto. destruct (s_reserved x); auto.
Qed.

(** A session that is reserved or carries an exchange (in any state) survives
    every eviction: the explicit one, the one inside [reserve], the one that
    follows a Busy answer. *)
Theorem evict_keeps_busy : forall now t t1 r y,
  t_evict now t = (t1, r) -> In y (t_sess t) ->
  s_reserved y = true \/ no_exch y = false -> In y (t_sess t1).
Proof.
  intros now t t1 r y He Hin Hb. destruct r as [id|].
  - destruct (t_evict_idle _ _ _ _ He) as [x [_ [_ [Hi Hp]]]].
    apply (Permutation_in _ Hp) in Hin. destruct Hin as [<-|Hin]; auto.
    destruct (idle_not_busy _ _ Hi) as [H1 H2]. destruct Hb; congruence.
  - apply t_evict_none in He. subst; auto.
Qed.

Theorem reserve_recovers : forall cap mx s now,
  inv1 cap s -> next_of s + 2 <= UID_MAX ->
  (length (t_sess (tb s)) < cap)%nat \/ ((0 < cap)%nat /\ exists x, In x (t_sess (tb s)) /\ idle now x = true) ->
  exists id, snd (step cap mx s (OReserve now)) = RId id /\
    In (mkS id MPlain true false now []) (t_sess (tb (fst (step cap mx s (OReserve now))))) /\
    In id (hids (fst (step cap mx s (OReserve now)))).
Proof.
  intros cap mx s now Hi Hb Hroom. cbn [step].
  destruct (reserve_now cap s now) as [s1 r] eqn:Hr.
  destruct (reserve_now_inv _ _ _ _ _ Hi ltac:(lia) Hr) as [H1 [H2 H3]].
  destruct r; try contradiction.
  - destruct H3 as [Hid [Hh Hs]]. exists id. cbn. split; auto. rewrite Hs. unfold hids. rewrite Hh, map_app.
    split; apply in_or_app; right; left; auto.
  - destruct H3 as [Hh [Hs Hfull]].
    destruct Hroom as [Hlt|[Hpos [x [Hin Hidle]]]]; [lia|].
    destruct (t_evict now (tb s1)) as [t2 [v|]] eqn:He.
    + destruct (t_evict_spec _ _ _ _ He) as [i [z [_ [_ [_ [Hp Hn2]]]]]].
      destruct (inv1_evict _ _ _ _ _ H1 He) as [H4 _].
      destruct (reserve_now cap (mkSt t2 (hs s1)) now) as [s3 r3] eqn:Hr3.
      destruct (reserve_now_inv _ _ _ _ _ H4 ltac:(unfold next_of in *; cbn; lia) Hr3) as [H6 [H7 H8]].
      destruct r3; try contradiction.
      * destruct H8 as [Hid [Hh3 Hs3]]. exists id. cbn. split; auto. rewrite Hs3. unfold hids. rewrite Hh3, map_app.
        split; apply in_or_app; right; left; auto.
      * exfalso. destruct H8 as [_ [_ Hfull3]]. cbn in Hfull3.
        apply Permutation_length in Hp. cbn in Hp. destruct H1 as [[_ [Hlen _]] _]. lia.
    + exfalso. unfold t_evict in He.
      destruct (evict_choice now (tb s1)) as [i|] eqn:Hc.
      * destruct (evict_only_idle _ _ _ Hc) as [z [Hn _]]. rewrite Hn in He. inversion He.
      * eapply (evict_complete now (tb s1) x); auto. rewrite Hs; auto.
Qed.
