(** Well-formed type descriptions, typing of values, and how the
    structure decoder finds its fields among the children of a written
    container. *)
From Coq Require Import NArith ZArith List Bool Lia ZifyN ZifyBool Sorted.
From RsM Require Import Model.Tlv Model.TlvDerive Proofs.TlvFacts Proofs.TlvTotal Proofs.TlvWriter
  Proofs.TlvRoundtrip Proofs.TlvDeriveInt.
Import ListNotations.
Open Scope N_scope.

(** * Induction over descriptions with the nested lists as [Forall] *)
Section dty_ind2.
  Variable P : dty -> Prop.
  Hypothesis Hint : forall sg w, P (DInt sg w).
  Hypothesis Hbool : P DBool.
  Hypothesis Hf32 : P DF32.
  Hypothesis Hf64 : P DF64.
  Hypothesis Hoct : P DOctets.
  Hypothesis Hutf : P DUtf8.
  Hypothesis Hopt : forall d, P d -> P (DOption d).
  Hypothesis Hnul : forall d, P d -> P (DNullable d).
  Hypothesis Hvec : forall cap d, P d -> P (DVec cap d).
  Hypothesis Hfix : forall n d, P d -> P (DFixed n d).
  Hypothesis Hstruct : forall k o fs, Forall (fun f => P (snd f)) fs -> P (DStruct k o fs).
  Hypothesis Henum : forall nk vs, Forall (fun f => P (snd f)) vs -> P (DEnum nk vs).
  Hypothesis Hunit : forall w16 vals, P (DUnit w16 vals).

  Fixpoint dty_ind2 (d : dty) : P d :=
    match d with
    | DInt sg w => Hint sg w
    | DBool => Hbool
    | DF32 => Hf32
    | DF64 => Hf64
    | DOctets => Hoct
    | DUtf8 => Hutf
    | DOption d' => Hopt d' (dty_ind2 d')
    | DNullable d' => Hnul d' (dty_ind2 d')
    | DVec cap d' => Hvec cap d' (dty_ind2 d')
    | DFixed n d' => Hfix n d' (dty_ind2 d')
    | DStruct k o fs =>
        Hstruct k o fs
          ((fix go (l : list (N * dty)) : Forall (fun f => P (snd f)) l :=
              match l with
              | [] => Forall_nil _
              | f :: r => Forall_cons f (dty_ind2 (snd f)) (go r)
              end) fs)
    | DEnum nk vs =>
        Henum nk vs
          ((fix go (l : list (N * dty)) : Forall (fun f => P (snd f)) l :=
              match l with
              | [] => Forall_nil _
              | f :: r => Forall_cons f (dty_ind2 (snd f)) (go r)
              end) vs)
    | DUnit w16 vals => Hunit w16 vals
    end.
End dty_ind2.

(** * Well-formed descriptions *)

Definition is_option (d : dty) : bool := match d with DOption _ => true | _ => false end.
Definition is_nullable (d : dty) : bool := match d with DNullable _ => true | _ => false end.

(** [wf_dty]: a description of a type that can stand anywhere;
    [wf_field]: the type of a structure field (one [Option] allowed on top) *)
Fixpoint wf_dty (d : dty) : Prop :=
  match d with
  | DInt _ _ | DBool | DF32 | DF64 | DOctets | DUtf8 => True
  | DOption _ => False
  | DNullable d' => is_nullable d' = false /\ wf_dty d'
  | DVec _ d' | DFixed _ d' => wf_dty d'
  | DStruct k ordered fs =>
      NoDup (map fst fs) /\
      (ordered = true -> StronglySorted N.lt (map fst fs)) /\   (* assume_ordered: declaration order = tag order *)
      (fix all (l : list (N * dty)) : Prop :=
         match l with
         | [] => True
         | (ft, fd) :: r =>
             ft < 256 /\ (match fd with DOption d' => wf_dty d' | _ => wf_dty fd end) /\ all r
         end) fs
  | DEnum naked vs =>
      naked = false /\ NoDup (map fst vs) /\
      (fix all (l : list (N * dty)) : Prop :=
         match l with
         | [] => True
         | (vt, vd) :: r => vt < 256 /\ wf_dty vd /\ all r
         end) vs
  | DUnit w16 vals =>
      NoDup vals /\ Forall (fun n => n < (if w16 then 65536 else 256)) vals
  end.

Definition wf_field (d : dty) : Prop :=
  match d with DOption d' => wf_dty d' | _ => wf_dty d end.

Lemma wf_fields_all fs :
  (fix all (l : list (N * dty)) : Prop :=
     match l with
     | [] => True
     | (ft, fd) :: r =>
         ft < 256 /\ (match fd with DOption d' => wf_dty d' | _ => wf_dty fd end) /\ all r
     end) fs <-> Forall (fun f => fst f < 256 /\ wf_field (snd f)) fs.
Proof.
  induction fs as [|[ft fd] r IH]; split; intros H.
  - constructor.
  - exact I.
  - destruct H as (H1 & H2 & H3). constructor; [split; assumption|apply IH, H3].
  - inversion H as [|? ? [H1 H2] H3]; subst. cbn [fst snd] in *.
    split; [exact H1|]. split; [exact H2|apply IH, H3].
Qed.

Lemma wf_struct k o fs :
  wf_dty (DStruct k o fs) <->
  NoDup (map fst fs) /\ (o = true -> StronglySorted N.lt (map fst fs)) /\
  Forall (fun f => fst f < 256 /\ wf_field (snd f)) fs.
Proof.
  cbn [wf_dty]. rewrite wf_fields_all. reflexivity.
Qed.

Lemma wf_enum nk vs :
  wf_dty (DEnum nk vs) <->
  nk = false /\ NoDup (map fst vs) /\ Forall (fun f => fst f < 256 /\ wf_dty (snd f)) vs.
Proof.
  cbn [wf_dty]. split; intros (Hk & Hn & H); repeat split; auto.
  - induction vs as [|[ft fd] r IH]; constructor.
    + cbn [fst snd]. tauto.
    + apply IH; [inversion Hn; assumption|tauto].
  - clear Hn. induction H as [|[ft fd] r [H1 H2] Hr IH]; [exact I|].
    cbn [fst snd] in *. tauto.
Qed.

Lemma wf_dty_not_option d : wf_dty d -> is_option d = false.
Proof. destruct d; cbn; tauto || reflexivity. Qed.

Lemma wf_dty_field d : wf_dty d -> wf_field d.
Proof. destruct d; cbn; tauto. Qed.

(** * Typing *)
Fixpoint has_ty (d : dty) (v : dval) {struct d} : Prop :=
  match d, v with
  | DInt sg w, XInt z => int_in_range sg w z
  | DBool, XBool _ => True
  | DF32, XBits b => b < 4294967296
  | DF64, XBits b => b < two64
  | DOctets, XBytes s => is_bytes s /\ blen s < two64
  | DUtf8, XBytes s => is_bytes s /\ blen s < two64 /\ utf8_valid s = true
  | DOption _, XNone => True
  | DOption d', XSome x => has_ty d' x
  | DNullable _, XNull => True
  | DNullable d', XNN x => has_ty d' x
  | DVec cap d', XList l =>
      (match cap with Some n => N.of_nat (length l) <= n | None => True end) /\
      (fix all (l : list dval) : Prop :=
         match l with [] => True | x :: r => has_ty d' x /\ all r end) l
  | DFixed n d', XList l =>
      length l = n /\
      (fix all (l : list dval) : Prop :=
         match l with [] => True | x :: r => has_ty d' x /\ all r end) l
  | DStruct _ _ fs, XRec vs =>
      (fix all (fs : list (N * dty)) (vs : list dval) : Prop :=
         match fs, vs with
         | [], [] => True
         | (_, fd) :: fr, fv :: vr => has_ty fd fv /\ all fr vr
         | _, _ => False
         end) fs vs
  | DEnum _ vs, XVar i x =>
      (fix pick (vs : list (N * dty)) (i : nat) : Prop :=
         match vs, i with
         | (_, vd) :: _, O => has_ty vd x
         | _ :: r, S j => pick r j
         | [], _ => False
         end) vs i
  | DUnit _ vals, XUnit i => (i < length vals)%nat
  | _, _ => False
  end.

(** * Roots of trees and what the readers see there *)

Definition root_tag (x : tree) : tag := match x with Leaf t _ | Node t _ _ => t end.
Definition root_vt (x : tree) : vtype :=
  match x with Leaf _ v => vtype_of_val v | Node _ k _ => TCont k end.

Lemma encode_raw x :
  exists p, encode x = w_raw_value (root_tag x) (root_vt x) p.
Proof.
  destruct x as [t v|t k cs]; cbn [encode root_tag root_vt].
  - exists (val_payload v). apply w_tlv_raw.
  - exists (flat_map encode cs ++ w_end). unfold w_start, w_raw_value. cbn [app].
    rewrite app_nil_r. reflexivity.
Qed.

Lemma encode_root_control x rest :
  control (encode x ++ rest) = ROk (tagtype_of_tag (root_tag x), root_vt x).
Proof. destruct (encode_raw x) as (p & ->). apply raw_control. Qed.

Lemma raw_try_ctx t vt p rest :
  wf_tag t ->
  el_try_ctx (w_raw_value t vt p ++ rest) = ROk (match t with TgCtx k => Some k | _ => None end).
Proof.
  intros Hw. unfold el_try_ctx. rewrite raw_control. cbn [rbind fst].
  destruct t; cbn [tagtype_of_tag]; try reflexivity.
  unfold tag_slice. rewrite raw_unfold, tag_start_cons. cbn [rbind].
  cbn [enc_tag le_bytes app tagsize]. cbn [wf_tag] in Hw. rewrite N.mod_small by exact Hw.
  unfold get_to. rewrite blen_cons. destruct (N.leb_spec 1 (1 + blen (p ++ rest))); [|lia].
  reflexivity.
Qed.

Lemma wf_tree_root_tag x : wf_tree x -> wf_tag (root_tag x).
Proof. destruct x; cbn; tauto. Qed.

Lemma encode_try_ctx x rest :
  wf_tree x ->
  el_try_ctx (encode x ++ rest) = ROk (match root_tag x with TgCtx k => Some k | _ => None end).
Proof.
  intros Hw. destruct (encode_raw x) as (p & ->). apply raw_try_ctx, wf_tree_root_tag, Hw.
Qed.

(** * Looking a context tag up among the children of a container *)

Fixpoint lookup_ctx (k : N) (cs : list tree) : option (tree * list tree) :=
  match cs with
  | [] => None
  | c :: r =>
      match root_tag c with
      | TgCtx k' => if k' =? k then Some (c, r) else lookup_ctx k r
      | _ => lookup_ctx k r
      end
  end.

Lemma find_ctx_loop_S f s ctx :
  find_ctx_loop (S f) s ctx =
  match seq_iter_next s with
  | (ROk None, _) => ROk []
  | (ROk (Some e), s') =>
      let! oc := el_try_ctx e in
      match oc with
      | Some c => if c =? ctx then ROk e else find_ctx_loop f s' ctx
      | None => find_ctx_loop f s' ctx
      end
  | (RErr c, _) => RErr c
  | (RPanic p, _) => RPanic p
  | (RFuel, _) => RFuel
  end.
Proof. reflexivity. Qed.

Lemma find_ctx_loop_trees cs :
  wf_list cs -> forall fuel k rest,
  (length cs < fuel)%nat -> blen (encode_list cs ++ w_end ++ rest) < two63 ->
  find_ctx_loop fuel (encode_list cs ++ w_end ++ rest) k =
  ROk (match lookup_ctx k cs with
       | Some (c, r) => encode c ++ encode_list r ++ w_end ++ rest
       | None => []
       end).
Proof.
  induction 1 as [|c r Hc Hr IH]; intros fuel k rest Hf Hb.
  - destruct fuel as [|fuel]; [cbn in Hf; lia|]. rewrite find_ctx_loop_S.
    unfold encode_list. cbn [flat_map app]. rewrite seq_iter_next_end. reflexivity.
  - destruct fuel as [|fuel]; [cbn in Hf; lia|]. rewrite find_ctx_loop_S.
    rewrite encode_list_cons in *. rewrite seq_iter_next_tree by assumption.
    rewrite encode_try_ctx by assumption. cbn [rbind lookup_ctx].
    assert (Hb' : blen (encode_list r ++ w_end ++ rest) < two63) by (rewrite blen_app in Hb; lia).
    cbn [length] in Hf.
    destruct (root_tag c) as [|k'| | | | | |]; try (apply IH; [lia|exact Hb']).
    destruct (k' =? k); [reflexivity|]. apply IH; [lia|exact Hb'].
Qed.

Lemma length_le_encode_list cs : (length cs <= length (encode_list cs))%nat.
Proof.
  unfold encode_list. induction cs as [|c r IH]; cbn [flat_map length]; [lia|].
  rewrite app_length. pose proof (blen_encode_pos c) as H. unfold blen in H. lia.
Qed.

Lemma find_ctx_trees cs k rest :
  wf_list cs -> blen (encode_list cs ++ w_end ++ rest) < two63 ->
  seq_find_ctx (encode_list cs ++ w_end ++ rest) k =
  ROk (match lookup_ctx k cs with
       | Some (c, r) => encode c ++ encode_list r ++ w_end ++ rest
       | None => []
       end).
Proof.
  intros Hcs Hb. unfold seq_find_ctx. apply find_ctx_loop_trees; auto.
  rewrite app_length. pose proof (length_le_encode_list cs). lia.
Qed.
