(** C09: the sender loop never retransmits before the back-off, never sends
    an acknowledged message again, and stays within the budget. *)
From RsM Require Import Lib.MachInt Model.MrpSender.
From Coq Require Import ZifyN ZifyBool.
Open Scope N_scope.

Arguments N.ltb : simpl never.
Arguments N.leb : simpl never.
Arguments N.add : simpl never.

Section Sender.
Variable bo : N -> N.

(** consecutive transmissions are at least the back-off apart: [l] newest
    first, [k] = number of transmissions in [l] *)
Fixpoint spaced (l : list N) (k : N) : Prop :=
  match l with
  | [] => True
  | t :: rest =>
      match rest with
      | [] => True
      | t' :: _ => t' + bo (k - 2) <= t /\ spaced rest (k - 1)
      end
  end.

Record SInv (s : sender_st) : Prop := mkSInv {
  si_len : N.of_nat (length (txs s)) = cnt s;
  si_budget : cnt s <= MAX_TX;
  si_spaced : spaced (txs s) (cnt s);
  si_head : forall t rest, txs s = t :: rest -> t <= now s;
  si_wait : forall d, ph s = PWaiting d -> exists t rest, txs s = t :: rest /\ d = t + bo (cnt s - 1);
  si_want : ph s = PWantBuf false -> exists t rest, txs s = t :: rest /\ t + bo (cnt s - 1) <= now s;
  si_none : (ph s = PInitial \/ ph s = PWantBuf true) -> txs s = [] /\ cnt s = 0
}.

Lemma sinv_init t0 : SInv (snd_init t0).
Proof.
  constructor; cbn [snd_init ph pend cnt now alive txs length].
  - reflexivity.
  - unfold MAX_TX. lia.
  - exact I.
  - intros t rest H. discriminate.
  - intros d H. discriminate.
  - intros H. discriminate.
  - intros _. split; reflexivity.
Qed.

Ltac fin := try assumption; try (intros; discriminate); try (intros [?|?]; discriminate).

Lemma sinv_step s e : SInv s -> SInv (sstep bo s e).
Proof.
  intros I0. pose proof I0 as [Hlen Hbud Hsp Hhead Hwait Hwant Hnone].
  destruct e as [ | | |d| | | ]; cbn [sstep].
  - (* EvPoll *)
    destruct (ph s) eqn:Ep; try exact I0.
    constructor; cbn [set_ph ph pend cnt now alive txs]; fin.
    intros _. apply Hnone. left. reflexivity.
  - (* EvBuf *)
    destruct (ph s) as [ |i|d|ok] eqn:Ep; try exact I0.
    destruct (negb (alive s)).
    { constructor; cbn [set_ph ph pend cnt now alive txs]; fin. }
    destruct (i || pend s) eqn:Eip.
    + unfold transmit. destruct (N.ltb_spec (cnt s) MAX_TX) as [Hlt|Hge].
      * constructor; cbn [ph pend cnt now alive txs length].
        -- rewrite Nat2N.inj_succ. lia.
        -- lia.
        -- cbn [spaced]. destruct (txs s) as [|t' rest] eqn:Et; [exact I|].
           split.
           ++ destruct i.
              ** destruct (Hnone (or_intror eq_refl)) as [Hn _]. discriminate.
              ** destruct (Hwant eq_refl) as (t & r & E1 & E2). injection E1 as <- <-.
                 replace (cnt s + 1 - 2) with (cnt s - 1) by lia. exact E2.
           ++ replace (cnt s + 1 - 1) with (cnt s) by lia. exact Hsp.
        -- intros t rest H. injection H as <- _. lia.
        -- intros d H. injection H as <-. exists (now s), (txs s). split; [reflexivity|].
           replace (cnt s + 1 - 1) with (cnt s) by lia. reflexivity.
        -- fin.
        -- fin.
      * constructor; cbn [ph pend cnt now alive txs]; fin.
    + constructor; cbn [set_ph ph pend cnt now alive txs]; fin.
  - (* EvAck *)
    destruct (ph s) as [ |i|d|ok] eqn:Ep.
    + constructor; cbn [ph pend cnt now alive txs]; rewrite ?Ep; fin.
      all: try (intros _; apply Hnone; left; first [exact Ep | reflexivity]).
    + constructor; cbn [ph pend cnt now alive txs]; rewrite ?Ep; fin.
    + destruct (pend s); [|exact I0].
      constructor; cbn [ph pend cnt now alive txs]; fin.
    + constructor; cbn [ph pend cnt now alive txs]; rewrite ?Ep; fin.
  - (* EvTick *)
    constructor; cbn [ph pend cnt now alive txs]; fin.
    + intros t rest H. specialize (Hhead _ _ H). lia.
    + intros H. destruct (Hwant H) as (t & r & E1 & E2). exists t, r. split; [exact E1|lia].
  - (* EvTimer *)
    destruct (ph s) as [ |i|d|ok] eqn:Ep; try exact I0.
    destruct (N.leb_spec d (now s)) as [Hle|Hgt]; [|exact I0].
    destruct (Hwait d eq_refl) as (t & r & E1 & E2).
    destruct (pend s).
    + constructor; cbn [set_ph ph pend cnt now alive txs]; fin.
      intros _. exists t, r. split; [exact E1|lia].
    + constructor; cbn [set_ph ph pend cnt now alive txs]; fin.
  - (* EvOtherGone *) exact I0.
  - (* EvOurGone *)
    destruct (ph s) as [ |i|d|ok] eqn:Ep;
      constructor; cbn [ph pend cnt now alive txs]; rewrite ?Ep; fin.
    all: try (intros _; apply Hnone; left; first [exact Ep | reflexivity]).
Qed.

Lemma sinv_run es : forall s, SInv s -> SInv (srun bo s es).
Proof.
  induction es as [|e t IH]; intros s I; [exact I|].
  unfold srun in *. cbn [fold_left]. apply IH. apply sinv_step. exact I.
Qed.

(** whatever the environment does - including any number of removals of
    OTHER sessions during a back-off - consecutive transmissions are at least
    the back-off apart, and there are at most six of them *)
Theorem sender_never_early (t0 : N) (es : list sev) :
  let s := srun bo (snd_init t0) es in
  spaced (txs s) (cnt s) /\ N.of_nat (length (txs s)) <= MAX_TX.
Proof.
  intros s. destruct (sinv_run es _ (sinv_init t0)) as [Hlen Hbud Hsp _ _ _ _].
  fold s in Hlen, Hbud, Hsp. split; [exact Hsp|lia].
Qed.

(** once the acknowledgement has been processed nothing is transmitted any
    more - also when it arrives while the sender waits for the TX buffer *)
Definition settled (s : sender_st) : Prop :=
  pend s = false /\ ph s <> PInitial /\ ph s <> PWantBuf true.

Lemma settled_step s e : settled s -> settled (sstep bo s e) /\ txs (sstep bo s e) = txs s.
Proof.
  intros (Hp & H1 & H2). unfold settled.
  destruct e as [ | | |d| | | ]; cbn [sstep].
  - destruct (ph s) eqn:Ep; try congruence; rewrite ?Ep; repeat split; try assumption; try congruence.
  - destruct (ph s) as [ |i|d|ok] eqn:Ep; rewrite ?Ep; try (repeat split; assumption).
    destruct i; [congruence|].
    destruct (negb (alive s)); cbn [set_ph ph pend txs]; [repeat split; try assumption; discriminate|].
    rewrite Hp. cbn [orb set_ph ph pend txs]. repeat split; try assumption; discriminate.
  - destruct (ph s) as [ |i|d|ok] eqn:Ep; cbn [ph pend txs]; rewrite ?Ep; try congruence;
      try (repeat split; try reflexivity; assumption).
    rewrite Hp. rewrite Ep. repeat split; assumption.
  - cbn [ph pend txs]. repeat split; assumption.
  - destruct (ph s) as [ |i|d|ok] eqn:Ep; rewrite ?Ep; try (repeat split; assumption).
    destruct (d <=? now s); [|rewrite Ep; repeat split; assumption].
    rewrite Hp. cbn [set_ph ph pend txs]. repeat split; try assumption; discriminate.
  - repeat split; assumption.
  - destruct (ph s) as [ |i|d|ok] eqn:Ep; cbn [ph pend txs]; rewrite ?Ep; try congruence;
      repeat split; try assumption; discriminate.
Qed.

Lemma settled_run es : forall s, settled s -> txs (srun bo s es) = txs s.
Proof.
  induction es as [|e t IH]; intros s Hs; [reflexivity|].
  unfold srun in *. cbn [fold_left]. destruct (settled_step s e Hs) as [Hs' Ht].
  rewrite (IH _ Hs'). exact Ht.
Qed.

Theorem acked_never_sent_again (s : sender_st) (es : list sev) :
  ph s <> PInitial -> ph s <> PWantBuf true ->
  txs (srun bo (sstep bo s EvAck) es) = txs s.
Proof.
  intros H1 H2.
  assert (Hs : settled (sstep bo s EvAck) /\ txs (sstep bo s EvAck) = txs s).
  { unfold settled. cbn [sstep].
    destruct (ph s) as [ |i|d|ok] eqn:Ep; try congruence; cbn [ph pend txs].
    - destruct i; [congruence|]. repeat split; try reflexivity; discriminate.
    - destruct (pend s) eqn:Epd; cbn [ph pend txs].
      + repeat split; try reflexivity; discriminate.
      + rewrite Ep. repeat split; try assumption; try reflexivity; discriminate.
    - repeat split; try reflexivity; discriminate. }
  destruct Hs as [Hs Ht]. rewrite (settled_run es _ Hs). exact Ht.
Qed.

End Sender.
