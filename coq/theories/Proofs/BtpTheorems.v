(** What the two-party monitor says in plain terms, and the handshake. *)
From RsM Require Import Lib.MachInt Model.Btp Model.BtpSpec
  Proofs.BtpCodec Proofs.BtpFacts Proofs.BtpHostile Proofs.BtpPair.
From Coq Require Import ZifyN ZifyBool.
Open Scope N_scope.

Arguments N.add : simpl never.
Arguments N.sub : simpl never.
Arguments N.mul : simpl never.
Arguments N.leb : simpl never.
Arguments N.ltb : simpl never.
Arguments N.eqb : simpl never.

(** ** soundness of the monitor: in order, exactly once *)

Lemma ps_deliver_w p x d : w_ab (ps_deliver p x d) = w_ab p /\ w_ba (ps_deliver p x d) = w_ba p.
Proof. unfold ps_deliver. destruct x, d; split; reflexivity. Qed.

Lemma ps_emit_w p x b : w_ab (ps_emit p x b) = w_ab p /\ w_ba (ps_emit p x b) = w_ba p.
Proof. unfold ps_emit. destruct x; split; reflexivity. Qed.

Lemma pmon_run_prefix ops : forall p cab cba rs,
  pmon_run p cab cba ops rs = true ->
  (exists rest, w_ab p ++ submitted SA ops rs = fetched SB ops rs ++ rest) /\
  (exists rest, w_ba p ++ submitted SB ops rs = fetched SA ops rs ++ rest).
Proof.
  induction ops as [|o ops IH]; intros p cab cba rs H.
  - destruct rs; [|discriminate]. cbn [submitted fetched app]. split; eexists; rewrite app_nil_r; reflexivity.
  - destruct rs as [|[[r sa] sb] rs]; [discriminate|]. cbn [pmon_run] in H.
    match type of H with context[pmon_step p o r ?hd] => destruct (pmon_step p o r hd) as [p'|] eqn:Es end;
      [|discriminate].
    apply andb_true_iff in H. destruct H as [_ H].
    destruct (IH _ _ _ _ H) as ((r1 & H1) & (r2 & H2)). clear IH H.
    unfold pmon_step in Es. destruct (is_bad r); [discriminate|].
    destruct o as [x d|x t|x|x]; destruct r as [|b| | |cc|pp]; try discriminate;
      cbn [submitted fetched side_eqb].
    + (* submit, no room *) inversion Es; subst. eauto.
    + (* submit, taken *)
      inversion Es; subst. destruct x; cbn [side_eqb w_ab w_ba] in *.
      * split; [exists r1; rewrite <- H1, <- app_assoc; reflexivity|eauto].
      * split; [eauto|exists r2; rewrite <- H2, <- app_assoc; reflexivity].
    + (* submit, refused *)
      destruct ((blen d =? 0) || (MAX_TX <? blen d)); inversion Es; subst. eauto.
    + (* poll *)
      inversion Es; subst. destruct b as [|b0 bl]; [eauto|].
      destruct (ps_emit_w p x (b0 :: bl)) as (E1 & E2). rewrite E1 in H1. rewrite E2 in H2. eauto.
    + (* deliver *)
      inversion Es; subst.
      match type of H1 with context[ps_deliver p x ?d] => destruct (ps_deliver_w p x d) as (E1 & E2) end.
      rewrite E1 in H1. rewrite E2 in H2. eauto.
    + inversion Es; subst. eauto.
    + (* fetch *)
      destruct x; cbn [side_eqb].
      * destruct (w_ba p) as [|d t] eqn:Ew; [discriminate|].
        destruct (bytes_eqb b d) eqn:Eb; [|discriminate]. apply bytes_eqb_eq in Eb. subst d.
        inversion Es; subst. cbn [w_ab w_ba] in *.
        split; [eauto|]. exists r2. cbn [app]. f_equal. exact H2.
      * destruct (w_ab p) as [|d t] eqn:Ew; [discriminate|].
        destruct (bytes_eqb b d) eqn:Eb; [|discriminate]. apply bytes_eqb_eq in Eb. subst d.
        inversion Es; subst. cbn [w_ab w_ba] in *.
        split; [|eauto]. exists r1. cbn [app]. f_equal. exact H1.
    + inversion Es; subst. eauto.
Qed.

Lemma mon_pair_in_order ops rs :
  mon_pair ops rs = true \/ mon_pair_est ops rs = true ->
  (exists rest, submitted SA ops rs = fetched SB ops rs ++ rest) /\
  (exists rest, submitted SB ops rs = fetched SA ops rs ++ rest).
Proof.
  intros [H|H].
  - apply (pmon_run_prefix ops ps_init [] [] rs H).
  - apply (pmon_run_prefix ops ps_established [] [] rs H).
Qed.

Lemma pmon_run_answers ops : forall p cab cba rs,
  pmon_run p cab cba ops rs = true ->
  Forall2 (fun o r => answer_ok o (fst (fst r))) ops rs.
Proof.
  induction ops as [|o ops IH]; intros p cab cba rs H.
  - destruct rs; [constructor|discriminate].
  - destruct rs as [|[[r sa] sb] rs]; [discriminate|]. cbn [pmon_run] in H.
    match type of H with context[pmon_step p o r ?hd] => destruct (pmon_step p o r hd) as [p'|] eqn:Es end;
      [|discriminate].
    apply andb_true_iff in H. destruct H as [_ H].
    constructor; [|eapply IH; exact H].
    cbn [fst]. unfold pmon_step in Es. unfold answer_ok.
    destruct r as [|b| | |cc|pp]; trivial.
    + cbn [is_bad] in Es. destruct o as [x d|x t|x|x]; try discriminate.
      destruct (N.eqb_spec (blen d) 0); cbn [orb] in Es; [left; assumption|].
      destruct (N.ltb_spec MAX_TX (blen d)); [right; assumption|discriminate].
    + cbn [is_bad] in Es. discriminate.
Qed.

(** ** the handshake *)

(** whatever a peer asks for, a responder that accepts the request ends up with
    a segment size and a window for which the pair theorems hold *)
Lemma handshake_req_valid s g a h p s' :
  process_rx_handshake_req s g a h p = Ok s' ->
  20 <= mtu s' <= 244 /\ 1 <= swin (send s') <= 255 /\
  swin (send s') * mtu s' + 1234 <= RX_CAP /\ wsize s' = swin (send s').
Proof.
  intro H. pose proof (rx_handshake_req_cases s g a h p) as Hc. rewrite H in Hc.
  destruct Hc as (ver & m & w & -> & Hm & Hw & Hp).
  unfold setup_state. cbn [mtu send swin wsize]. unfold RX_CAP. repeat split; lia.
Qed.

(** an initiator only accepts a usable segment size and window *)
Lemma handshake_resp_valid s a h p s' :
  bytes_ok p -> process_rx_handshake_resp s a h p = Ok s' ->
  20 <= mtu s' <= 244 /\ 1 <= swin (send s') <= 255.
Proof.
  intros Hp H. pose proof (rx_handshake_resp_cases s a h p Hp) as Hc. rewrite H in Hc.
  destruct Hc as (ver & m & w & -> & Hm & Hw).
  unfold setup_state. cbn [mtu send swin]. lia.
Qed.
