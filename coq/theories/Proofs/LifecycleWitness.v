(** Each of the four repairs made for C07 is necessary: with any one of them switched off
    the model reaches a state that violates the property (concrete runs from
    [init_state 2 true]: fabrics 1 and 2, PASE session 1, administrator CASE sessions 2, 3). *)
From Coq Require Import NArith List Bool.
From RsM Require Import Model.Lifecycle Model.LifecycleSpec.
(* -- *)
Import ListNotations.
Open Scope N_scope.

(** commission fabric index 3 over the PASE session, let node ADMIN open a CASE session
    (name 4, record 1) on it, let the fail-safe timer fire (fabric 3 is rolled back), then
    commission again: the new fabric gets index 3 again *)
Definition ops_rollback_reuse : list op :=
  [OArm 1; OAddNoc 1 7; OPeer 3 ADMIN; OTimeout; ONewPase; OArm 5; OAddNoc 5 8].

Definition ops_sub_rollback_reuse : list op :=
  [OArm 1; OAddNoc 1 7; OPeer 3 ADMIN; OSubscribe 4; OTimeout; ONewPase; OArm 5; OAddNoc 5 8].

(** a record of fabric 2 is persisted, fabric 2 is removed, a new fabric is commissioned
    (index 2 again) and committed *)
Definition ops_persisted_reuse : list op :=
  [OPeer 2 ADMIN; OPersist; ORemove 2 2; OArm 1; OAddNoc 1 7; OPeer 2 ADMIN; OComplete 5].

(** a record / subscription of a fabric that was never committed is persisted; restart *)
Definition ops_restart_recs : list op :=
  [OArm 1; OAddNoc 1 7; OPeer 3 ADMIN; OPersist; ORestart; ONewPase; OArm 5; OAddNoc 5 8].

Definition ops_restart_subs : list op :=
  [OArm 1; OAddNoc 1 7; OPeer 3 ADMIN; OSubscribe 4; ORestart; ONewPase; OArm 5; OAddNoc 5 8].

Theorem unrepaired_F3_sessions :
  exists ops, sessions_ok (exec_fx (mkFixes false true true true) (init_state 2 true) ops) = false.
Proof. exists ops_rollback_reuse. vm_compute. reflexivity. Qed.

Theorem unrepaired_F3_records :
  exists ops, records_ok (exec_fx (mkFixes true false true true) (init_state 2 true) ops) = false.
Proof. exists ops_rollback_reuse. vm_compute. reflexivity. Qed.

Theorem unrepaired_subscriptions :
  exists ops, subs_ok (exec_fx (mkFixes true false true true) (init_state 2 true) ops) = false.
Proof. exists ops_sub_rollback_reuse. vm_compute. reflexivity. Qed.

Theorem unrepaired_F4_persisted :
  exists ops, kvrecords_ok (exec_fx (mkFixes true false true true) (init_state 2 true) ops) = false.
Proof. exists ops_persisted_reuse. vm_compute. reflexivity. Qed.

Theorem unrepaired_F4_startup :
  exists ops, records_ok (exec_fx (mkFixes true true false true) (init_state 2 true) ops) = false.
Proof. exists ops_restart_recs. vm_compute. reflexivity. Qed.

Theorem unrepaired_startup_subs :
  exists ops, subs_ok (exec_fx (mkFixes true true true false) (init_state 2 true) ops) = false.
Proof. exists ops_restart_subs. vm_compute. reflexivity. Qed.

(** the same runs on the repaired model are clean *)
Example repaired_runs_clean :
  forallb (fun ops => bound_b (exec (init_state 2 true) ops))
    [ops_rollback_reuse; ops_sub_rollback_reuse; ops_persisted_reuse; ops_restart_recs;
     ops_restart_subs] = true.
Proof. vm_compute. reflexivity. Qed.
