(** C14: a report that may turn out empty, and one round of the reporter for one subscription
    (what happens to the subscription when the peer refuses a chunk or stops answering). *)
From RsM Require Import Lib.MachInt Model.Chunk Model.ChunkSpec
  Proofs.ChunkFacts Proofs.ChunkEvents Proofs.ChunkTheorems.
From Coq Require Import ZifyN ZifyBool Lia.
Open Scope N_scope.

Lemma cfg_ok_window (c : cfg) (lo hi : N) : cfg_ok (with_window c lo hi) = cfg_ok c.
Proof. reflexivity. Qed.

Lemma all_fit_window (c : cfg) (lo hi : N) its stats evs :
  all_fit (with_window c lo hi) its stats evs = all_fit c its stats evs.
Proof. reflexivity. Qed.

Lemma respond_report_cases (n : nat) (c : cfg) its stats evs :
  (nothing_to_report c its stats evs = true /\ respond_report n c its stats evs = (ODone, [])) \/
  (nothing_to_report c its stats evs = false /\ respond_report n c its stats evs = respond n c its stats evs).
Proof. unfold respond_report. destruct (nothing_to_report c its stats evs); [left | right]; split; reflexivity. Qed.

Section Round.
  Variables (n : nat) (c : cfg) (sb : sub) (hi : N) (stats : list atom) (evs : list ev).
  Hypothesis Hc : cfg_ok c = true.
  Hypothesis Hs : ev_sorted evs.

  Let cw := with_window c (sb_seen sb) hi.

  Lemma round_outcome (how : silence) x o ch :
    report_round n c how sb hi stats evs = (x, o, ch) ->
    respond_report n cw (sb_pending sb) stats evs = (o, ch) /\
    x = match o with
        | ODone => Some (mkSub hi [])
        | OAbort => match how with Refuses => None | Silent => Some sb end
        | OStatus => None
        | OError | OFuel => Some sb
        end.
  Proof.
    unfold report_round. fold cw. destruct (respond_report n cw (sb_pending sb) stats evs) as [o' ch'].
    destruct o'; intros E; inversion E; subst; split; reflexivity.
  Qed.

  (** the peer went silent in the middle of the answer: the subscription is exactly as before *)
  Lemma round_silent_abort x ch :
    report_round n c Silent sb hi stats evs = (x, OAbort, ch) -> x = Some sb.
  Proof. intros E. apply round_outcome in E. tauto. Qed.

  (** the peer answered a chunk with another status: the subscription is gone *)
  Lemma round_refused_abort x ch :
    report_round n c Refuses sb hi stats evs = (x, OAbort, ch) -> x = None.
  Proof. intros E. apply round_outcome in E. tauto. Qed.

  (** in neither case does a message of the aborted answer claim to be the last *)
  Lemma round_abort_never_complete (how : silence) x ch :
    report_round n c how sb hi stats evs = (x, OAbort, ch) ->
    exists vs, map parse_chunk ch = map Some vs /\
               forallb (fun v => v_more v && negb (v_supp v)) vs = true.
  Proof.
    intros E. apply round_outcome in E. destruct E as [E _].
    destruct (respond_report_cases n cw (sb_pending sb) stats evs) as [[_ H]|[_ H]]; rewrite H in E.
    - discriminate E.
    - apply (aborted_never_complete n cw (sb_pending sb) stats evs); [exact Hc | exact Hs | exact E].
  Qed.

  (** a round with a peer that answers: everything pending is delivered exactly once and the
      subscription moves on -- whatever happened in earlier, aborted rounds *)
  Lemma round_complete (how : silence) :
    accept c = None -> has_attrs c = true -> has_events c = true ->
    (length evs < n)%nat -> all_fit c (sb_pending sb) stats evs = true ->
    nothing_to_report cw (sb_pending sb) stats evs = false ->
    exists ch vs gs,
      report_round n c how sb hi stats evs = (Some (mkSub hi []), ODone, ch) /\
      map parse_chunk ch = map Some vs /\
      Forall2 sent_as (sb_pending sb) gs /\ all_attr_atoms vs = concat gs /\
      all_event_atoms vs = stats ++ map ev_atom
        (filter (fun e => (sb_seen sb <? ev_num e) && (ev_num e <=? hi) && ev_sel e) evs) /\
      only_last_ends vs = true.
  Proof.
    intros Hacc Ha He Hn Hfit Hne.
    pose proof (completes n cw (sb_pending sb) stats evs Hc Hs Hacc Hn Hfit) as Hdone.
    destruct (respond n cw (sb_pending sb) stats evs) as [o ch] eqn:E. cbn [fst] in Hdone. subst o.
    destruct (exactly_once_in_order n cw (sb_pending sb) stats evs Hc Hs ch Ha E) as (vs & gs & Hp & Hgs & Hat).
    destruct (events_exactly_once n cw (sb_pending sb) stats evs Hc Hs ch He E) as (vs2 & Hp2 & Hev).
    destruct (only_last_ends_run n cw (sb_pending sb) stats evs Hc Hs ch E) as (vs3 & Hp3 & Hl & _).
    assert (vs2 = vs) by (apply map_Some_inj; congruence). subst vs2.
    assert (vs3 = vs) by (apply map_Some_inj; congruence). subst vs3.
    exists ch, vs, gs. split.
    - unfold report_round. fold cw. unfold respond_report. rewrite Hne, E. reflexivity.
    - repeat split; assumption.
  Qed.
End Round.
