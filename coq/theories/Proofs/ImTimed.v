(** The timed window of an interaction: the gate of the engine is the
    gate of the specification, and what it implies. *)
From RsM Require Import Lib.MachInt Model.Acl Model.AclSpec Model.Im Model.ImSpec.
From Coq Require Import ZifyN ZifyBool.
Open Scope N_scope.

Lemma timed_gate_eq_spec (win : option N) (flag : bool) (elapsed : N) :
  timed_gate win flag elapsed = gate_spec win flag elapsed.
Proof.
  unfold timed_gate, gate_spec, window_open.
  destruct win as [t|], flag; cbn [is_some Bool.eqb negb]; try reflexivity.
  destruct (N.ltb_spec t elapsed) as [Hlt|Hge], (N.leb_spec elapsed t) as [Hle|Hgt];
    try reflexivity; lia.
Qed.

(** the gate lets an action through only if its flag says what happened,
    and, when timed, only inside the window *)
Lemma timed_gate_open (win : option N) (flag : bool) (elapsed : N) :
  timed_gate win flag elapsed = None ->
  flag = is_some win /\ (flag = true -> window_open win elapsed = true).
Proof.
  rewrite timed_gate_eq_spec. unfold gate_spec.
  destruct win as [t|], flag; cbn [is_some]; try discriminate.
  - destruct (window_open (Some t) elapsed) eqn:Hw; [|discriminate]. intros _. split; [reflexivity|]. intros _. reflexivity.
  - intros _. split; [reflexivity|]. discriminate.
Qed.
