(** BDX message bodies: round trip, what is accepted, totality. *)
From RsM Require Import Lib.MachInt Model.Headers Model.Codecs Model.CodecsBdx
  Proofs.HeadersFacts Proofs.CodecsBase38 Proofs.CodecsQr Proofs.CodecsCheckinFacts.
From Coq Require Import ZifyN ZifyBool.
Open Scope N_scope.

Arguments N.add : simpl never.
Arguments N.mul : simpl never.
Arguments N.pow : simpl never.
Arguments N.div : simpl never.
Arguments N.modulo : simpl never.
Arguments N.ltb : simpl never.
Arguments N.eqb : simpl never.

Ltac dm_lia := zify; Z.div_mod_to_equations; lia.
Ltac pow_consts :=
  try change (2 ^ 0) with 1 in *; try change (2 ^ 1) with 2 in *; try change (2 ^ 4) with 16 in *;
  try change (2 ^ 5) with 32 in *; try change (2 ^ 6) with 64 in *.
Ltac solve_bit :=
  unfold bit; pow_consts; first [apply N.eqb_eq; dm_lia | apply N.eqb_neq; dm_lia].

(** * Flag bytes *)

Lemma tc_to_byte_lt (t : tctl) : tc_to_byte t < 128.
Proof.
  unfold tc_to_byte. destruct (tc_sender t), (tc_receiver t), (tc_async t); cbn [b2n]; dm_lia.
Qed.

Lemma rc_to_byte_lt (r : rctl) : rc_to_byte r < 32.
Proof.
  unfold rc_to_byte. destruct (rc_def_len r), (rc_start r), (rc_wide r); cbn [b2n]; lia.
Qed.

Lemma tc_of_to_byte (t : tctl) : tc_version t < 16 -> tc_of_byte (tc_to_byte t) = t.
Proof.
  destruct t as [v s r a]. cbn [tc_version]. intro Hv.
  unfold tc_of_byte, tc_to_byte. cbn [tc_version tc_sender tc_receiver tc_async].
  destruct s, r, a; cbn [b2n]; f_equal; try dm_lia; solve_bit.
Qed.

Lemma rc_of_to_byte (r : rctl) : rc_of_byte (rc_to_byte r) = r.
Proof.
  destruct r as [d s w]. unfold rc_of_byte, rc_to_byte. cbn [rc_def_len rc_start rc_wide].
  destruct d, s, w; cbn [b2n]; f_equal; solve_bit.
Qed.

Lemma tc_of_byte_version (b : N) : tc_version (tc_of_byte b) < 16.
Proof. cbn [tc_of_byte tc_version]. apply N.mod_lt. discriminate. Qed.

(** * Optional range fields *)

Lemma take_range_app (p w : bool) (v : N) (rest : list N) :
  range_ok p w v = true -> take_range p w (put_range p w v ++ rest) = Ok (v, rest).
Proof.
  unfold range_ok, take_range, put_range. destruct p.
  - destruct w; intro H; apply take_le_app; rewrite ?pow_8, ?pow_4; lia.
  - intro H. apply N.eqb_eq in H. subst. reflexivity.
Qed.

Lemma take_range_inv (p w : bool) (b : list N) (v : N) (r : list N) :
  bytes b -> take_range p w b = Ok (v, r) ->
  b = put_range p w v ++ r /\ range_ok p w v = true /\ bytes r.
Proof.
  unfold range_ok, take_range, put_range. intros Hb H. destruct p.
  - destruct w.
    + apply take_le_inv in H; [|assumption]. destruct H as (-> & Hv & Hr).
      rewrite pow_8 in Hv. split; [reflexivity|]. split; [lia|assumption].
    + apply take_le_inv in H; [|assumption]. destruct H as (-> & Hv & Hr).
      rewrite pow_4 in Hv. split; [reflexivity|]. split; [lia|assumption].
  - injection H as <- <-. split; [reflexivity|]. split; [reflexivity|assumption].
Qed.

Lemma take_range_total {A} (p w : bool) (b : list N) (k : N * list N -> res A) :
  (forall v r, no_panic (k (v, r))) -> no_panic (bind (take_range p w b) k).
Proof.
  intro Hk. unfold take_range. destruct p; [destruct w; apply no_panic_bind_take; exact Hk|].
  cbn [bind]. apply Hk.
Qed.

(** * TransferInit *)

Lemma init_wf_inv (m : bdx_init) : init_wf m = true ->
  tc_version (i_tc m) < 16 /\ i_mbs m < two16 /\
  range_ok (rc_start (i_rc m)) (rc_wide (i_rc m)) (i_start m) = true /\
  range_ok (rc_def_len (i_rc m)) (rc_wide (i_rc m)) (i_len m) = true /\
  N.of_nat (length (i_fd m)) < two16 /\ bytes (i_fd m) /\ bytes (i_meta m).
Proof.
  unfold init_wf. intro H. repeat (apply andb_prop in H; destruct H as [H ?]).
  repeat split; try lia; try assumption; apply bytesb_spec; assumption.
Qed.

Lemma cons2_le (a b : N) (rest : list N) : a < 256 -> b < 256 ->
  [a; b] ++ rest = le_bytes 1 a ++ le_bytes 1 b ++ rest.
Proof. intros Ha Hb. rewrite (le1 a Ha), (le1 b Hb). reflexivity. Qed.

Lemma init_roundtrip (m : bdx_init) : init_wf m = true -> init_decode (init_encode m) = Ok m.
Proof.
  intro Hwf. apply init_wf_inv in Hwf as (Hv & Hmbs & Hs & Hl & Hfd & Hbf & Hbm).
  destruct m as [tc rc mbs start len fd meta].
  cbn [i_tc i_rc i_mbs i_start i_len i_fd i_meta] in *.
  unfold init_decode, init_encode. cbn [i_tc i_rc i_mbs i_start i_len i_fd i_meta].
  pose proof (tc_to_byte_lt tc) as Htc. pose proof (rc_to_byte_lt rc) as Hrc.
  rewrite cons2_le by lia.
  rewrite take_le_app by (rewrite pow_1; lia). cbn [bind].
  rewrite take_le_app by (rewrite pow_1; lia). cbn [bind].
  rewrite rc_of_to_byte.
  rewrite take_le_app by (rewrite pow_2; assumption). cbn [bind].
  rewrite take_range_app by assumption. cbn [bind].
  rewrite take_range_app by assumption. cbn [bind].
  rewrite take_le_app by (rewrite pow_2; assumption). cbn [bind].
  rewrite Nat2N.id, app_length.
  replace (Nat.ltb (length fd + length meta) (length fd)) with false
    by (symmetry; apply Nat.ltb_ge; lia).
  rewrite firstn_len_app, skipn_len_app, tc_of_to_byte by assumption. reflexivity.
Qed.

(** what an accepted TransferInit body looks like: the two flag bytes (whose
    reserved bits are ignored), then exactly the encoding of the result *)
Lemma init_decode_inv (b : list N) (m : bdx_init) :
  bytes b -> init_decode b = Ok m ->
  init_wf m = true /\
  exists tcb rcb, b = tcb :: rcb :: skipn 2 (init_encode m) /\
                  tc_of_byte tcb = i_tc m /\ rc_of_byte rcb = i_rc m.
Proof.
  intros Hb H. unfold init_decode in H.
  destruct (take_le 1 b) as [[tcb b1]| |] eqn:E1; cbn [bind] in H; try discriminate.
  apply take_le_inv in E1 as (-> & Htcb & Hb1); [|assumption].
  destruct (take_le 1 b1) as [[rcb b2]| |] eqn:E2; cbn [bind] in H; try discriminate.
  apply take_le_inv in E2 as (-> & Hrcb & Hb2); [|assumption].
  destruct (take_le 2 b2) as [[mbs b3]| |] eqn:E3; cbn [bind] in H; try discriminate.
  apply take_le_inv in E3 as (-> & Hmbs & Hb3); [|assumption].
  destruct (take_range _ _ b3) as [[start b4]| |] eqn:E4; cbn [bind] in H; try discriminate.
  apply take_range_inv in E4 as (-> & Hstart & Hb4); [|assumption].
  destruct (take_range _ _ b4) as [[len b5]| |] eqn:E5; cbn [bind] in H; try discriminate.
  apply take_range_inv in E5 as (-> & Hlen & Hb5); [|assumption].
  destruct (take_le 2 b5) as [[fdl b6]| |] eqn:E6; cbn [bind] in H; try discriminate.
  apply take_le_inv in E6 as (-> & Hfdl & Hb6); [|assumption].
  destruct (Nat.ltb (length b6) (N.to_nat fdl)) eqn:El; [discriminate|].
  apply Nat.ltb_ge in El.
  assert (Hm : m = mkInit (tc_of_byte tcb) (rc_of_byte rcb) mbs start len
                 (firstn (N.to_nat fdl) b6) (skipn (N.to_nat fdl) b6)) by congruence.
  clear H. subst m.
  rewrite pow_1 in Htcb, Hrcb. rewrite pow_2 in Hmbs, Hfdl.
  assert (Hfl : length (firstn (N.to_nat fdl) b6) = N.to_nat fdl)
    by (apply firstn_length_le; exact El).
  rewrite <- (firstn_skipn (N.to_nat fdl) b6) in Hb6. apply bytes_app in Hb6 as [Hf Hs].
  split.
  - unfold init_wf. cbn [i_tc i_rc i_mbs i_start i_len i_fd i_meta].
    rewrite Hstart, Hlen, Hfl, N2Nat.id.
    apply bytesb_spec in Hf, Hs. rewrite Hf, Hs.
    pose proof (tc_of_byte_version tcb). lia.
  - exists tcb, rcb. split; [|split; reflexivity].
    unfold init_encode. cbn [i_tc i_rc i_mbs i_start i_len i_fd i_meta app skipn].
    rewrite Hfl, N2Nat.id, firstn_skipn.
    rewrite (le1 tcb Htcb), (le1 rcb Hrcb). reflexivity.
Qed.

Lemma init_decode_total (b : list N) : no_panic (init_decode b).
Proof.
  unfold init_decode.
  apply no_panic_bind_take. intros tcb b1.
  apply no_panic_bind_take. intros rcb b2.
  apply no_panic_bind_take. intros mbs b3.
  apply take_range_total. intros start b4.
  apply take_range_total. intros len b5.
  apply no_panic_bind_take. intros fdl b6.
  destruct (Nat.ltb _ _); exact I.
Qed.

(** * TransferAccept *)

Lemma accept_wf_inv (m : bdx_accept) : accept_wf m = true ->
  tc_version (a_tc m) < 16 /\ a_mbs m < two16 /\ bytes (a_meta m) /\
  (if a_receive m then range_ok (rc_def_len (a_rc m)) (rc_wide (a_rc m)) (a_len m) = true
   else a_len m = 0 /\ a_rc m = rc_default).
Proof.
  unfold accept_wf. intro H. repeat (apply andb_prop in H; destruct H as [H ?]).
  repeat split; try lia; try (apply bytesb_spec; assumption).
  destruct (a_receive m); [assumption|].
  repeat (match goal with Hx : _ && _ = true |- _ => apply andb_prop in Hx; destruct Hx end).
  split; [lia|]. destruct (a_rc m) as [d s w]. cbn [rc_def_len rc_start rc_wide] in *.
  destruct d, s, w; try discriminate. reflexivity.
Qed.

Lemma accept_roundtrip (m : bdx_accept) :
  accept_wf m = true -> accept_decode (a_receive m) (accept_encode m) = Ok m.
Proof.
  intro Hwf. apply accept_wf_inv in Hwf as (Hv & Hmbs & Hbm & Hrest).
  destruct m as [rcv tc rc mbs len meta].
  cbn [a_receive a_tc a_rc a_mbs a_len a_meta] in *.
  unfold accept_decode, accept_encode. cbn [a_receive a_tc a_rc a_mbs a_len a_meta].
  pose proof (tc_to_byte_lt tc) as Htc. pose proof (rc_to_byte_lt rc) as Hrc.
  rewrite <- (le1 (tc_to_byte tc)) by lia.
  rewrite take_le_app by (rewrite pow_1; lia). cbn [bind].
  destruct rcv.
  - rewrite <- (le1 (rc_to_byte rc)) by lia. rewrite <- !app_assoc.
    rewrite take_le_app by (rewrite pow_1; lia). cbn [bind].
    rewrite rc_of_to_byte.
    rewrite take_le_app by (rewrite pow_2; assumption). cbn [bind].
    rewrite take_range_app by assumption. cbn [bind].
    rewrite tc_of_to_byte by assumption. reflexivity.
  - destruct Hrest as [-> ->].
    rewrite take_le_app by (rewrite pow_2; assumption). cbn [bind].
    rewrite tc_of_to_byte by assumption. reflexivity.
Qed.

Lemma accept_decode_inv (receive : bool) (b : list N) (m : bdx_accept) :
  bytes b -> accept_decode receive b = Ok m ->
  accept_wf m = true /\ a_receive m = receive /\
  exists tcb, tc_of_byte tcb = a_tc m /\
    (if receive then exists rcb, rc_of_byte rcb = a_rc m /\
                                 b = tcb :: rcb :: skipn 2 (accept_encode m)
     else b = tcb :: skipn 1 (accept_encode m)).
Proof.
  intros Hb H. unfold accept_decode in H.
  destruct (take_le 1 b) as [[tcb b1]| |] eqn:E1; cbn [bind] in H; try discriminate.
  apply take_le_inv in E1 as (-> & Htcb & Hb1); [|assumption]. rewrite pow_1 in Htcb.
  pose proof (tc_of_byte_version tcb) as Hver.
  destruct receive.
  - destruct (take_le 1 b1) as [[rcb b2]| |] eqn:E2; cbn [bind] in H; try discriminate.
    apply take_le_inv in E2 as (-> & Hrcb & Hb2); [|assumption]. rewrite pow_1 in Hrcb.
    destruct (take_le 2 b2) as [[mbs b3]| |] eqn:E3; cbn [bind] in H; try discriminate.
    apply take_le_inv in E3 as (-> & Hmbs & Hb3); [|assumption]. rewrite pow_2 in Hmbs.
    destruct (take_range _ _ b3) as [[len b4]| |] eqn:E4; cbn [bind] in H; try discriminate.
    apply take_range_inv in E4 as (-> & Hlen & Hb4); [|assumption].
    assert (Hm : m = mkAccept true (tc_of_byte tcb) (rc_of_byte rcb) mbs len b4) by congruence.
    clear H. subst m. split; [|split; [reflexivity|]].
    + unfold accept_wf. cbn [a_receive a_tc a_rc a_mbs a_len a_meta].
      apply bytesb_spec in Hb4. rewrite Hb4, Hlen. lia.
    + exists tcb. split; [reflexivity|]. exists rcb. split; [reflexivity|].
      unfold accept_encode. cbn [a_receive a_tc a_rc a_mbs a_len a_meta app skipn].
      rewrite (le1 tcb Htcb), (le1 rcb Hrcb). cbn [app]. rewrite <- !app_assoc. reflexivity.
  - destruct (take_le 2 b1) as [[mbs b2]| |] eqn:E3; cbn [bind] in H; try discriminate.
    apply take_le_inv in E3 as (-> & Hmbs & Hb2); [|assumption]. rewrite pow_2 in Hmbs.
    assert (Hm : m = mkAccept false (tc_of_byte tcb) rc_default mbs 0 b2) by congruence.
    clear H. subst m. split; [|split; [reflexivity|]].
    + unfold accept_wf. cbn [a_receive a_tc a_rc a_mbs a_len a_meta rc_default rc_def_len rc_start rc_wide].
      apply bytesb_spec in Hb2. rewrite Hb2. cbn [negb andb]. lia.
    + exists tcb. split; [reflexivity|].
      unfold accept_encode. cbn [a_receive a_tc a_rc a_mbs a_len a_meta app skipn].
      rewrite (le1 tcb Htcb). reflexivity.
Qed.

Lemma accept_decode_total (receive : bool) (b : list N) : no_panic (accept_decode receive b).
Proof.
  unfold accept_decode. apply no_panic_bind_take. intros tcb b1. destruct receive.
  - apply no_panic_bind_take. intros rcb b2.
    apply no_panic_bind_take. intros mbs b3.
    apply take_range_total. intros len b4. exact I.
  - apply no_panic_bind_take. intros mbs b2. exact I.
Qed.

(** * Block, BlockQuery, BlockQueryWithSkip *)

Lemma block_roundtrip (ctr : N) (data : list N) :
  ctr < two32 -> block_decode (block_encode ctr data) = Ok (ctr, data).
Proof. intro H. apply take_le_app. rewrite pow_4. exact H. Qed.

Lemma block_decode_canonical (b : list N) (ctr : N) (data : list N) :
  bytes b -> block_decode b = Ok (ctr, data) ->
  b = block_encode ctr data /\ ctr < two32 /\ bytes data.
Proof. intros Hb H. apply take_le_inv in H; [|exact Hb]. rewrite pow_4 in H. exact H. Qed.

Lemma block_decode_total (b : list N) : no_panic (block_decode b).
Proof.
  unfold block_decode. destruct (take_le_total 4 b) as [(v & r & ->)| ->]; exact I.
Qed.

Lemma query_roundtrip (ctr : N) (trailing : list N) :
  ctr < two32 -> query_decode (query_encode ctr ++ trailing) = Ok ctr.
Proof.
  intro H. unfold query_decode, query_encode.
  rewrite take_le_app by (rewrite pow_4; exact H). reflexivity.
Qed.

Lemma query_decode_inv (b : list N) (ctr : N) :
  bytes b -> query_decode b = Ok ctr -> ctr < two32 /\ firstn 4 b = query_encode ctr.
Proof.
  intros Hb H. unfold query_decode in H.
  destruct (take_le 4 b) as [[c r]| |] eqn:E; cbn [bind] in H; try discriminate.
  injection H as <-. apply take_le_inv in E as (-> & Hc & _); [|exact Hb].
  rewrite pow_4 in Hc. split; [exact Hc|].
  unfold query_encode. apply (firstn_len_eq _ _ 4). apply le_bytes_length.
Qed.

Lemma query_decode_total (b : list N) : no_panic (query_decode b).
Proof. unfold query_decode. apply no_panic_bind_take. intros; exact I. Qed.

Lemma skip_roundtrip (ctr skip : N) (trailing : list N) :
  ctr < two32 -> skip < two64 -> skip_decode (skip_encode ctr skip ++ trailing) = Ok (ctr, skip).
Proof.
  intros Hc Hs. unfold skip_decode, skip_encode. rewrite <- app_assoc.
  rewrite take_le_app by (rewrite pow_4; exact Hc). cbn [bind].
  rewrite take_le_app by (rewrite pow_8; exact Hs). reflexivity.
Qed.

Lemma skip_decode_inv (b : list N) (ctr skip : N) :
  bytes b -> skip_decode b = Ok (ctr, skip) ->
  ctr < two32 /\ skip < two64 /\ firstn 12 b = skip_encode ctr skip.
Proof.
  intros Hb H. unfold skip_decode in H.
  destruct (take_le 4 b) as [[c r]| |] eqn:E; cbn [bind] in H; try discriminate.
  apply take_le_inv in E as (-> & Hc & Hr); [|exact Hb].
  destruct (take_le 8 r) as [[s r']| |] eqn:E2; cbn [bind] in H; try discriminate.
  apply take_le_inv in E2 as (-> & Hs & _); [|exact Hr].
  injection H as <- <-. rewrite pow_4 in Hc. rewrite pow_8 in Hs.
  split; [exact Hc|split; [exact Hs|]].
  unfold skip_encode. rewrite app_assoc. apply (firstn_len_eq _ _ 12).
  rewrite app_length, !le_bytes_length. reflexivity.
Qed.

Lemma skip_decode_total (b : list N) : no_panic (skip_decode b).
Proof.
  unfold skip_decode. apply no_panic_bind_take. intros c b1.
  apply no_panic_bind_take. intros; exact I.
Qed.

(** * The monitors hold of the model *)

Lemma tc_eqb_refl t : tc_eqb t t = true.
Proof. unfold tc_eqb. rewrite N.eqb_refl, !Bool.eqb_reflx. reflexivity. Qed.
Lemma rc_eqb_refl r : rc_eqb r r = true.
Proof. unfold rc_eqb. rewrite !Bool.eqb_reflx. reflexivity. Qed.
Lemma init_eqb_refl m : init_eqb m m = true.
Proof.
  unfold init_eqb. rewrite tc_eqb_refl, rc_eqb_refl, !N.eqb_refl, !list_eqb_refl. reflexivity.
Qed.
Lemma accept_eqb_refl m : accept_eqb m m = true.
Proof.
  unfold accept_eqb. rewrite tc_eqb_refl, rc_eqb_refl, !N.eqb_refl, list_eqb_refl, Bool.eqb_reflx.
  reflexivity.
Qed.

Lemma mon_init_dec_model (b : list N) : bytes b -> mon_init_dec b (init_decode b) = true.
Proof.
  intro Hb. pose proof (init_decode_total b) as Ht.
  destruct (init_decode b) as [m|e|s] eqn:E; cbn [mon_init_dec res_dec_with];
    [|reflexivity|contradiction].
  apply init_decode_inv in E as (Hwf & tcb & rcb & -> & _ & _); [|exact Hb].
  rewrite Hwf, init_roundtrip by exact Hwf. cbn [res_ok_with skipn].
  rewrite init_eqb_refl, list_eqb_refl. reflexivity.
Qed.

Lemma mon_accept_dec_model (receive : bool) (b : list N) :
  bytes b -> mon_accept_dec receive b (accept_decode receive b) = true.
Proof.
  intro Hb. pose proof (accept_decode_total receive b) as Ht.
  destruct (accept_decode receive b) as [m|e|s] eqn:E; cbn [mon_accept_dec res_dec_with];
    [|reflexivity|contradiction].
  apply accept_decode_inv in E as (Hwf & Hr & _); [|exact Hb].
  rewrite Hwf, <- Hr, accept_roundtrip by exact Hwf. cbn [res_ok_with].
  rewrite accept_eqb_refl, Bool.eqb_reflx. reflexivity.
Qed.
