(** Lemmas about the certificate-chain model: one verifier step is
    exactly the conjunction of the per-link rules. *)
From Coq Require Import ZifyN ZifyBool.
From RsM Require Import Lib.MachInt Model.Cert Model.CertSpec.
Open Scope N_scope.

Arguments N.add : simpl never.
Arguments N.sub : simpl never.
Arguments N.div : simpl never.
Arguments N.modulo : simpl never.
Arguments N.land : simpl never.
Arguments N.eqb : simpl never.
Arguments N.ltb : simpl never.
Arguments N.leb : simpl never.

(** ** Names *)

Lemma dn_eqb_refl : forall a, dn_eqb a a = true.
Proof.
  induction a as [|[t v] r IH]; [reflexivity|].
  cbn [dn_eqb]. rewrite !N.eqb_refl, IH. reflexivity.
Qed.

Lemma dn_eqb_eq : forall a b, dn_eqb a b = true <-> a = b.
Proof.
  induction a as [|[t v] r IH]; intros [|[t' v'] r']; cbn [dn_eqb]; split; intros H;
    try discriminate; try reflexivity.
  - apply andb_true_iff in H as [H Hr]. apply andb_true_iff in H as [Ht Hv].
    apply N.eqb_eq in Ht, Hv. apply IH in Hr. subst. reflexivity.
  - inversion H; subst. rewrite !N.eqb_refl. rewrite (proj2 (IH r') eq_refl). reflexivity.
Qed.

(** ** Rules as a finite conjunction *)

Lemma all_rules_complete : forall r, In r all_rules.
Proof. intros r; destruct r; cbn; tauto. Qed.

Definition link_okb (t : clock) (l : link) : bool :=
  forallb (fun r => rule_link t r l) all_rules.

Lemma link_okb_iff : forall t l,
  link_okb t l = true <-> forall r, rule_link t r l = true.
Proof.
  intros t l. unfold link_okb. rewrite forallb_forall. split.
  - intros H r. apply H, all_rules_complete.
  - intros H r _. apply H.
Qed.

(** ** The usage policy *)

Definition usage_rules : list rule :=
  [RNoCritical; RLeafType; RLeafNotCa; RLeafKeyUsage; RLeafExtKeyUsage;
   RAuthType; RAuthIsCa; RAuthKeyUsage; RAuthPathLen].

Lemma verify_usage_iff : forall t d root c p,
  verify_usage d root c = Ok tt <->
  forallb (fun r => rule_link t r (mkLink d c p root)) usage_rules = true.
Proof.
  intros t d root c p.
  unfold usage_rules, forallb, rule_link, verify_usage, is_leaf.
  cbn [l_child l_parent l_depth l_root].
  destruct (crit_ext c); cbn [negb andb]; [split; discriminate|].
  destruct (cert_type_of (subject c)) as [[| |]|];
    destruct (ku c) as [k|];
    destruct ((d =? 0) && negb root) eqn:Eleaf; cbn [negb andb];
    try (split; discriminate);
    destruct (bc c) as [[[|] [m|]]|]; cbn [negb andb];
    try (split; discriminate).
  all: try (destruct (has_bits k KU_DIGITAL_SIGNATURE); cbn [negb andb];
            try (split; discriminate);
            destruct (eku c) as [e|]; try (split; discriminate);
            destruct (mem EKU_SERVER_AUTH e && mem EKU_CLIENT_AUTH e);
            split; (discriminate || reflexivity)).
  all: try (destruct (has_bits k KU_KEY_CERT_SIGN); cbn [negb andb];
            try (split; discriminate); try (split; reflexivity)).
  all: try (apply andb_false_iff in Eleaf;
            destruct (N.ltb_spec 0 d) as [Hd|Hd], (N.ltb_spec m (d - 1)) as [Hm|Hm],
                     (N.leb_spec (d - 1) m) as [Hl|Hl];
            cbn [negb andb]; split; intros; try discriminate; try reflexivity; exfalso; lia).
Qed.

(** ** One step = all per-link rules *)

Lemma step_ok_iff : forall t d c p root,
  step t d c p root = Ok tt <-> link_okb t (mkLink d c p root) = true.
Proof.
  intros t d c p root.
  unfold link_okb.
  change all_rules with ([RSigned; RKeyId; RName; RNotAfter; RNotBefore] ++ usage_rules).
  rewrite forallb_app, andb_true_iff, <- (verify_usage_iff t d root c p).
  unfold step, is_authority, bind, forallb, rule_link, verify_sig.
  cbn [l_child l_parent l_depth l_root].
  destruct (skid p) as [s|]; [|split; [discriminate|]; intros [H _];
    destruct (signer c) as [k|]; [destruct (k =? pubkey p)|]; discriminate].
  destruct (akid c) as [a|]; cbn [negb];
    [destruct (a =? s)|]; cbn [negb andb];
    try (split; [discriminate|]; intros [H _];
         destruct (signer c) as [k|]; [destruct (k =? pubkey p)|]; discriminate).
  destruct (dn_eqb (issuer c) (subject p)); cbn [negb andb];
    [|split; [discriminate|]; intros [H _];
      destruct (signer c) as [k|]; [destruct (k =? pubkey p)|]; discriminate].
  destruct (signer c) as [k|]; [destruct (k =? pubkey p)|]; cbn [negb andb];
    try (split; [discriminate|]; intros [H _]; discriminate).
  destruct (N.ltb_spec 0 (not_after c)) as [H0|H0],
           (N.ltb_spec (not_after c) (any_secs t)) as [H1|H1],
           (N.eqb_spec (not_after c) 0) as [H2|H2],
           (N.leb_spec (any_secs t) (not_after c)) as [H3|H3];
    cbn [negb andb orb]; try (exfalso; lia);
    try (split; [discriminate|]; intros [H _]; discriminate).
  all: destruct (reliable_secs t) as [sx|];
    [destruct (N.ltb_spec sx (not_before c)) as [H4|H4],
              (N.leb_spec (not_before c) sx) as [H5|H5]; try (exfalso; lia)|];
    cbn [negb andb orb];
    try (split; [discriminate|]; intros [H _]; discriminate);
    (split; [intros H; split; [reflexivity|exact H]|intros [_ H]; exact H]).
Qed.
