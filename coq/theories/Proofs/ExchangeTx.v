(** The TX buffer never wedges and a queued packet leaves it only through
    process_tx (repaired code); lifting of the core invariant. *)
From RsM Require Import Lib.MachInt Model.Dedup Model.Mrp Model.Exchange Model.ExchangeTx
  Proofs.ExchangeFacts Proofs.ExchangeSys Proofs.ExchangeTheorems.
From Coq Require Import ZifyN ZifyBool Lia Bool PeanoNat.
Open Scope N_scope.

Arguments N.ltb : simpl never.
Arguments N.leb : simpl never.
Arguments N.eqb : simpl never.
Arguments N.add : simpl never.

Record Invx (s : sysx) : Prop := mkInvx {
  invx_core : Inv (core s);
  invx_taken : forall sid idx, tx s = TxTaken sid idx -> In (sid, idx) (handles (core s))
}.

Lemma invx_init t0 : Invx (sysx_init t0).
Proof. split; [apply inv_init|cbn; discriminate]. Qed.

Lemma do_rx_core_handles s m : handles (fst (do_rx_core s m)) = handles s.
Proof.
  unfold do_rx_core.
  repeat match goal with
         | |- context [match ?x with _ => _ end] =>
             match type of x with
             | sumbool _ _ => fail 1
             | _ => destruct x
             end
         | |- context [let '(_, _) := ?x in _] => destruct x
         end; reflexivity.
Qed.

Lemma do_rx_handles s m : handles (fst (do_rx s m)) = handles s.
Proof.
  unfold do_rx. pose proof (do_rx_core_handles s m) as H. destruct (do_rx_core s m) as [s1 ev].
  cbn [fst] in H. destruct (rx_sid s m); [|exact H].
  destruct (m_group m && negb (is_holding (rx s1))); exact H.
Qed.

(** Exchange objects disappear only through [Exchange::drop] *)
Lemma handles_mono s l s' ev :
  step false s l = Some (s', ev) ->
  forall h, In h (handles s) ->
    In h (handles s') \/ exists sid idx, l = LDropExch sid idx /\ h = (sid, idx).
Proof.
  destruct l as [m| |sid idx|sid idx|sid idx|sid idx ctr rel|sid exid| | | |key enc grp|sid|sid|d]; cbn [step].
  - destruct (rx s); try discriminate. intros H; inversion H as [H1].
    assert (E : handles s' = handles s) by (rewrite <- (do_rx_handles s m), H1; reflexivity).
    intros h Hh. left. rewrite E. exact Hh.
  - destruct (rx s) as [|m|]; try discriminate.
    destruct (owner_of (sessions s) m) as [[[se i] e]|]; [|discriminate].
    destruct (is_pending (e_role e)); [|discriminate]. intros H; inversion H; subst.
    intros h Hh. left. right. exact Hh.
  - destruct (has_handle s sid idx); [|discriminate].
    destruct (rx s) as [|m|]; try discriminate.
    destruct (find_sid (sessions s) sid) as [se|]; [|discriminate].
    destruct (s_key se =? m_key m); [|discriminate].
    destruct (nth_error (s_exchs se) idx) as [[e|]|]; try discriminate.
    destruct (exch_is_for_rx e m && negb (retrans_pending e)); [|discriminate].
    intros H; inversion H; subst. intros h Hh. left. exact Hh.
  - destruct (rx s) as [| |m a b]; try discriminate.
    destruct ((a =? sid) && (b =? idx)%nat); [|discriminate].
    intros H; inversion H; subst. intros h Hh. left. exact Hh.
  - destruct (has_handle s sid idx); [|discriminate]. intros H; inversion H; subst; clear H.
    intros [a b] Hh. cbn [handles]. destruct (N.eq_dec a sid) as [->|Ha].
    + destruct (Nat.eq_dec b idx) as [->|Hb]; [right; exists sid, idx; split; reflexivity|].
      left. apply in_del_handle. split; [exact Hh|]. intros E; inversion E; contradiction.
    + left. apply in_del_handle. split; [exact Hh|]. intros E; inversion E; contradiction.
  - destruct (has_handle s sid idx); [|discriminate]. cbn zeta.
    destruct (find_sid (sessions s) sid) as [se|]; [|intros H; inversion H; subst; intros h Hh; left; exact Hh].
    destruct (nth_error (s_exchs se) idx) as [[e|]|]; try (intros H; inversion H; subst; intros h Hh; left; exact Hh).
    destruct (s_group se); [intros H; inversion H; subst; intros h Hh; left; exact Hh|].
    destruct (rm_pre_send (e_mrp e) ctr rel None) as [r' [v|c|p]]; try discriminate;
      intros H; inversion H; subst; intros h Hh; left; exact Hh.
  - destruct (find_sid (sessions s) sid) as [se|]; [|discriminate].
    destruct (s_expired se); [discriminate|].
    destruct (add_exch (s_exchs se) _) as [[l' i]|]; [|discriminate].
    intros H; inversion H; subst. intros h Hh. left. right. exact Hh.
  - destruct (rx s) as [|m|]; try discriminate.
    destruct (owner_of (sessions s) m) as [[[se i] e]|]; [|discriminate].
    destruct (is_pending (e_role e) && rm_received (e_mrp e) && (e_rat e + ACCEPT_TIMEOUT_MS <=? now s)); [|discriminate].
    intros H; inversion H; subst. intros h Hh. left. exact Hh.
  - destruct (rx s) as [|m|]; try discriminate. intros H.
    assert (E : handles s' = handles s).
    { destruct (owner_of (sessions s) m) as [[[se i] e]|]; [destruct (is_dropped (e_role e)); [|discriminate H]|];
        inversion H; reflexivity. }
    intros h Hh. left. rewrite E. exact Hh.
  - destruct (pick_dropped (sessions s)) as [[[sid i] e]|]; [|discriminate].
    destruct (retrans_pending e); intros H; inversion H; subst; intros h Hh; left; exact Hh.
  - intros H; inversion H; subst. intros h Hh. left. exact Hh.
  - destruct (find_sid (sessions s) sid); [|discriminate]. intros H; inversion H; subst. intros h Hh. left. exact Hh.
  - destruct (find_sid (sessions s) sid); [|discriminate]. intros H; inversion H; subst. intros h Hh. left. exact Hh.
  - intros H; inversion H; subst. intros h Hh. left. exact Hh.
Qed.

Lemma tx_release_taken t sid idx a b :
  tx_release t sid idx = TxTaken a b -> t = TxTaken a b /\ (a, b) <> (sid, idx).
Proof.
  unfold tx_release. destruct t as [|v|a0 b0]; try discriminate.
  destruct ((a0 =? sid) && (b0 =? idx)%nat) eqn:E; [discriminate|].
  intros H; inversion H; subst. split; [reflexivity|].
  intros E2; inversion E2; subst. rewrite N.eqb_refl, Nat.eqb_refl in E. discriminate.
Qed.

Theorem stepx_inv s l s' ev : Invx s -> stepx false s l = Some (s', ev) -> Invx s'.
Proof.
  intros [I T]. destruct l as [lc|sid idx|sid idx ctr rel|sid idx|]; cbn [stepx].
  - destruct (is_lsend lc) eqn:Els; [discriminate|].
    assert (Hgen : forall c' evc t', step false (core s) lc = Some (c', evc) ->
              (forall a b, t' = TxTaken a b -> tx s = TxTaken a b /\
                 (forall sid idx, lc = LDropExch sid idx -> (a, b) <> (sid, idx))) ->
              Invx (mkSysx c' t')).
    { intros c' evc t' Hs Ht. split; cbn [core tx].
      - eapply step_inv; eassumption.
      - intros a b E. destruct (Ht a b E) as [E1 Hne].
        destruct (handles_mono _ _ _ _ Hs (a, b) (T a b E1)) as [Hin|[x [y [El Eh]]]]; [exact Hin|].
        exfalso. apply (Hne x y El). exact Eh. }
    destruct lc as [m| |sid idx|sid idx|sid idx|sid idx ctr rel|sid exid| | | |key enc grp|sid|sid|d]; try discriminate Els; cbv beta iota;
      try (destruct (step false (core s) _) as [[c' evc]|] eqn:Hs; [|discriminate];
           intros H; inversion H; subst; eapply Hgen; [reflexivity|];
           intros a b E; split; [exact E|intros; discriminate]).
    + (* LDropExch *)
      destruct (step false (core s) (LDropExch sid idx)) as [[c' evc]|] eqn:Hs; [|discriminate].
      intros H; inversion H; subst. eapply Hgen; [reflexivity|].
      intros a b E. destruct (tx_release_taken _ _ _ _ _ E) as [E1 Hne]. split; [exact E1|].
      intros x y El. inversion El; subst. exact Hne.
    + (* LCloseDropped *)
      destruct (tx s); try discriminate.
      destruct (step false (core s) LCloseDropped) as [[c' evc]|] eqn:Hs; [|discriminate].
      intros H; inversion H; subst. eapply Hgen; [reflexivity|].
      intros a b E. exfalso. unfold closer_tx in E.
      destruct evc as [|e0 [|e1 t]]; try discriminate; destruct e0; discriminate.
  - destruct (has_handle (core s) sid idx && negb (holds_rx (core s) sid idx)) eqn:Hg; [|discriminate].
    apply andb_true_iff in Hg. destruct Hg as [Hh _]. apply has_handle_true in Hh.
    destruct (find_sid (sessions (core s)) sid); [|discriminate].
    destruct (tx s); try discriminate. intros H; inversion H; subst.
    split; cbn [core tx]; [exact I|]. intros a b E. inversion E; subst. exact Hh.
  - destruct (tx s) as [|v|a b] eqn:Et; try discriminate.
    destruct ((a =? sid) && (b =? idx)%nat); [|discriminate].
    destruct (step false (core s) (LSend sid idx ctr rel)) as [[c' evc]|] eqn:Hs.
    + intros H; inversion H; subst. split; cbn [core tx]; [eapply step_inv; eassumption|].
      intros x y E. destruct (send_ok (core s) sid idx ctr rel); discriminate.
    + intros H; inversion H; subst. split; cbn [core tx]; [exact I|discriminate].
  - destruct (tx s) as [|v|a b]; try discriminate.
    destruct ((a =? sid) && (b =? idx)%nat); [|discriminate].
    intros H; inversion H; subst. split; cbn [core tx]; [exact I|discriminate].
  - destruct (tx s) as [|v|a b]; try discriminate.
    intros H; inversion H; subst. split; cbn [core tx]; [exact I|discriminate].
Qed.

Lemma runx_inv s ls : Invx s -> Invx (runx false s ls).
Proof.
  revert s. induction ls as [|l t IH]; intros s I; cbn [runx]; [exact I|].
  apply IH. unfold stepx_or_stay. destruct (stepx false s l) as [[s' ev]|] eqn:E; [|exact I].
  eapply stepx_inv; eassumption.
Qed.

Theorem reachablex_inv s : reachablex s -> Invx s.
Proof. intros [t0 [ls ->]]. apply runx_inv. apply invx_init. Qed.

(** * The TX buffer never wedges *)

Inductive tx_discharger (s : sysx) : Prop :=
| TxdEmpty : tx s = TxEmpty -> tx_discharger s
| TxdQueued v :
    (* a finished packet: process_tx is enabled and empties the buffer *)
    tx s = TxQueued v ->
    (exists s' ev, stepx false s XFlush = Some (s', ev) /\ tx s' = TxEmpty) ->
    tx_discharger s
| TxdTaken sid idx :
    (* locked by the TxMessage of a live Exchange object, which can complete it (the
       packet is then queued, or the buffer emptied if pre_send refuses), abandon it,
       or be dropped altogether *)
    tx s = TxTaken sid idx ->
    In (sid, idx) (handles (core s)) ->
    (forall ctr rel, exists s' ev, stepx false s (XComplete sid idx ctr rel) = Some (s', ev) /\
                       (tx s' = TxEmpty \/ tx s' = TxQueued (Some sid))) ->
    (exists s' ev, stepx false s (XAbandon sid idx) = Some (s', ev) /\ tx s' = TxEmpty) ->
    (exists s' ev, stepx false s (XCore (LDropExch sid idx)) = Some (s', ev) /\ tx s' = TxEmpty) ->
    tx_discharger s.

Theorem tx_no_wedge s : reachablex s -> tx_discharger s.
Proof.
  intros R. destruct (reachablex_inv _ R) as [I T].
  destruct (tx s) as [|v|sid idx] eqn:Et.
  - apply TxdEmpty. exact Et.
  - apply (TxdQueued s v Et). cbn [stepx]. rewrite Et. eexists _, _. split; reflexivity.
  - pose proof (T sid idx eq_refl) as Hh.
    apply (TxdTaken s sid idx Et Hh).
    + intros ctr rel. cbn [stepx]. rewrite Et, N.eqb_refl, Nat.eqb_refl. cbn [andb].
      destruct (step false (core s) (LSend sid idx ctr rel)) as [[c' evc]|].
      * eexists _, _. split; [reflexivity|]. cbn [tx].
        destruct (send_ok (core s) sid idx ctr rel); [right|left]; reflexivity.
      * eexists _, _. split; [reflexivity|]. left. reflexivity.
    + cbn [stepx]. rewrite Et, N.eqb_refl, Nat.eqb_refl. cbn [andb]. eexists _, _. split; reflexivity.
    + cbn [stepx is_lsend step]. rewrite (proj2 (has_handle_true (core s) _ _) Hh).
      eexists _, _. split; [reflexivity|]. cbn [tx]. rewrite Et. cbn [tx_release].
      rewrite N.eqb_refl, Nat.eqb_refl. reflexivity.
Qed.

(** a queued packet leaves the buffer only through process_tx *)
Theorem tx_queued_only_flushed s l s' ev v :
  stepx false s l = Some (s', ev) -> tx s = TxQueued v ->
  tx s' = TxQueued v \/ (l = XFlush /\ tx s' = TxEmpty).
Proof.
  intros H Et. destruct l as [lc|sid idx|sid idx ctr rel|sid idx|]; cbn [stepx] in H.
  - destruct (is_lsend lc); [discriminate|].
    destruct lc; try (destruct (step false (core s) _) as [[c' evc]|]; [|discriminate];
                      inversion H; subst; left; cbn [tx]; try exact Et).
    + rewrite Et. reflexivity.
    + rewrite Et in H. discriminate.
  - destruct (has_handle (core s) sid idx && negb (holds_rx (core s) sid idx)); [|discriminate].
    destruct (find_sid (sessions (core s)) sid); [|discriminate]. rewrite Et in H. discriminate.
  - rewrite Et in H. discriminate.
  - rewrite Et in H. discriminate.
  - rewrite Et in H. inversion H; subst. right. split; reflexivity.
Qed.

(** the closer needs the TX buffer: with an empty buffer it is enabled exactly when the core is *)
Lemma closer_needs_tx s :
  tx s = TxEmpty ->
  (exists c' ev, step false (core s) LCloseDropped = Some (c', ev)) ->
  exists s' ev, stepx false s (XCore LCloseDropped) = Some (s', ev).
Proof.
  intros Et [c' [ev Hs]]. cbn [stepx is_lsend]. rewrite Et, Hs. eexists _, _. reflexivity.
Qed.

(** everything proved about the core holds of the core of every reachable state *)
Theorem core_inv s : reachablex s -> Inv (core s).
Proof. intros R. apply (invx_core _ (reachablex_inv _ R)). Qed.

(** * The unrepaired init_send clears another exchange's queued packet *)

Definition wx_m1 : msg := mkMsg 1 true false false 1 10 true OpOrdinary false None.
Definition wx_m2 : msg := mkMsg 2 true false false 1 20 true OpOrdinary false None.
Definition wx_trace : list labelx :=
  [XCore (LAddSession 1 true false); XCore (LAddSession 2 true false);
   XCore (LRx wx_m1); XCore LAccept; XCore (LRecv 0 0); XCore (LRxDone 0 0);
   XCore (LRx wx_m2); XCore LAccept; XCore (LRecv 1 0); XCore (LRxDone 1 0);
   XCore (LRemoveSession 0);
   XInitSend 1 0; XComplete 1 0 77 false].

Lemma unrepaired_init_send_swallows :
  let s := runx true (sysx_init 0) wx_trace in
  tx s = TxQueued (Some 1) /\
  exists s', stepx true s (XInitSend 0 0) = Some (s', [XTxSwallow 0 0 (Some 1)]) /\ tx s' = TxEmpty.
Proof. vm_compute. split; [reflexivity|]. eexists. split; reflexivity. Qed.

Lemma repaired_init_send_refuses :
  let s := runx false (sysx_init 0) wx_trace in
  tx s = TxQueued (Some 1) /\ stepx false s (XInitSend 0 0) = None /\
  exists s', stepx false s XFlush = Some (s', [XWire (Some 1)]) /\ tx s' = TxEmpty.
Proof. vm_compute. split; [reflexivity|]. split; [reflexivity|]. eexists. split; reflexivity. Qed.
